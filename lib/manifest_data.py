HOOK_COMMITS = ["4fb7413ef54f95fcd71b6fd0ad34cc0866ad35a4"]

NOT_YET = "not claimed yet: model, theorems and correspondence for this property are still being built (see DESIGN.md section 12)"

CHECKS = {
    "C18": dict(text="Full-strength theorems (21, for all well-formed domains in both representations, all integers, all predicates): "
        "intersect/diff/is_disjoint/contains/min/max/is_singleton/singleton_value/iteration/==/copy_before/drop_before/From<Vec> of the Lean "
        "model of fd.rs equal the set operations, None exactly on empty results, results well-formed again. The model is tied to fd.rs by "
        "running both on the same operation instances (random, exhaustive over small windows in the thorough tier, extreme isize bounds) "
        "and diffing; a BTreeSet oracle finds failing inputs."),
}

NOT_APPLICABLE = {p: NOT_YET for p in ["C%02d" % i for i in range(1, 25)] if p not in CHECKS}
