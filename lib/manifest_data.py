HOOK_COMMITS = ["4fb7413ef54f95fcd71b6fd0ad34cc0866ad35a4"]

NOT_YET = "not claimed yet: model, theorems and correspondence for this property are still being built (see DESIGN.md section 12)"

CHECKS = {
    "C01": dict(text="Full-strength theorems about unifyF (the Lean model of unify_rec) for all terms, all solved prior substitutions, all fuel: "
        "soundness (both sides resolve to the identical term, result extends the prior bindings and is solved again), most-generality "
        "(every consistent unifier is an instance), completeness of failure (failure => no unifier), succeeds-iff, acyclicity of every "
        "reachable substitution, occurs-check refusal, semantic characterisation of the extension, fuel independence and termination. "
        "The solved-form model is tied to State::unify/SMap by differential runs (random deep cases, exhaustive small pairs in thorough) "
        "compared on canonical walk* tuples; an independent Robinson unifier plus brute-force ground valuations search for failing inputs."),
    "C02": dict(text="Full-strength theorems about the Lean model of State::unify/disunify, DisequalityConstraint::run/subsumes, the "
        "normalising with_constraint and run_constraints, for ALL atom lists, ALL terms, ALL hash-iteration orders (permutation oracles): "
        "posting a list of ==/!= atoms from the empty state either yields a state describing EXACTLY the valuations satisfying every atom "
        "(C02_invariant_ok; valuations are arbitrary substitutions, ground ones a special case) or fails and then no valuation satisfies them "
        "(C02_invariant_fail); one-step versions on every reachable state; order-freedom for every permutation of the atoms and every pair of "
        "iteration orders (C02_order_free); no panic. Lifting through conde/fresh and reification/purification to the reported answers' ground "
        "instances is not yet a theorem (named open obligation) and is carried by the correspondence: random and exhaustive small programs, each "
        "also under permutations of every conjunction, model vs implementation on canonical answers + constraint truth tables; a brute-force "
        "ground-solution oracle (independent Robinson unifier) checks both inclusions."),
    "C18": dict(text="Full-strength theorems (21, for all well-formed domains in both representations, all integers, all predicates): "
        "intersect/diff/is_disjoint/contains/min/max/is_singleton/singleton_value/iteration/==/copy_before/drop_before/From<Vec> of the Lean "
        "model of fd.rs equal the set operations, None exactly on empty results, results well-formed again. The model is tied to fd.rs by "
        "running both on the same operation instances (random, exhaustive over small windows in the thorough tier, extreme isize bounds) "
        "and diffing; a BTreeSet oracle finds failing inputs."),
}

NOT_APPLICABLE = {p: NOT_YET for p in ["C%02d" % i for i in range(1, 25)] if p not in CHECKS}
