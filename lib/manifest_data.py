HOOK_COMMITS = ["4fb7413ef54f95fcd71b6fd0ad34cc0866ad35a4"]

NOT_YET = "not claimed yet: model, theorems and correspondence for this property are still being built (see DESIGN.md section 12)"

CHECKS = {
    "C01": dict(text="Full-strength theorems about unifyF (the Lean model of unify_rec) for all terms, all solved prior substitutions, all fuel: "
        "soundness (both sides resolve to the identical term, result extends the prior bindings and is solved again), most-generality "
        "(every consistent unifier is an instance), completeness of failure (failure => no unifier), succeeds-iff, acyclicity of every "
        "reachable substitution, occurs-check refusal, semantic characterisation of the extension, fuel independence and termination. "
        "The solved-form model is tied to State::unify/SMap by differential runs (random deep cases, exhaustive small pairs in thorough) "
        "compared on canonical walk* tuples; an independent Robinson unifier plus brute-force ground valuations search for failing inputs."),
    "C02": dict(text="Full-strength theorems about the Lean model of State::unify/disunify, DisequalityConstraint::run/subsumes, the "
        "normalising with_constraint and run_constraints, for ALL atom lists, ALL terms, ALL hash-iteration orders (permutation oracles): "
        "posting a list of ==/!= atoms from the empty state either yields a state describing EXACTLY the valuations satisfying every atom "
        "(C02_invariant_ok; valuations are arbitrary substitutions, ground ones a special case) or fails and then no valuation satisfies them "
        "(C02_invariant_fail); one-step versions on every reachable state; order-freedom for every permutation of the atoms and every pair of "
        "iteration orders (C02_order_free); no panic. Lifting through conde/fresh and reification/purification to the reported answers' ground "
        "instances is not yet a theorem (named open obligation) and is carried by the correspondence: random and exhaustive small programs, each "
        "also under permutations of every conjunction, model vs implementation on canonical answers + constraint truth tables; a brute-force "
        "ground-solution oracle (independent Robinson unifier) checks both inclusions."),
    "C03": dict(text="Full-strength theorems about the Lean model of reify / ResultIterator::next / LResult::constraints for ALL substitutions, terms and "
        "stores: every variable of an answer term is one of the _ variables created by reify (C03_closed, C03_closed_query); one reification "
        "map for the whole answer, injective on the distinct free variables, so sharing across query variables is reported exactly (C03_names, "
        "C03_untouched); every reported constraint mentions only variables that the reified state renames (C03_constraints_closed, repaired "
        "D10); anyvars sees variables at any depth through lists, improper tails and compound fields (C03_anyvars_complete, repaired D9) and "
        "constraints() returns exactly the reported constraints with an operand occurring in the term (C03_relevant_complete, C03_answer_shape). "
        "Tied to the code by tree programs with structured query terms run on the real engine and in the model (terms + constraint truth "
        "tables + per-variable constraints() diffed); oracle over the returned LResults: closedness, sharing against an independent Robinson "
        "solver, constraints()/is_constrained() against an independent traversal."),
    "C04": dict(text="Theorems: permuting the clauses of a disjunction permutes the finite answer list (C04_disj_comm) and leaves the answer set of "
        "arbitrary infinite/diverging clause lists unchanged for EVERY permutation (C04_disj_comm_mem, C04_disj_perm_mem, C04_disj_perm; pure "
        "stream algebra, generic state type); permuting ==/!= conjuncts under any hash-iteration orders gives failure in both runs or states "
        "with exactly the same ground instances (C04_tree, from the C02 invariant). PARTIAL for FD conjuncts and for nesting (named open "
        "obligations): decided by the correspondence — every program is run as written and under permutations of every conjunction and clause "
        "list on the real engine (multisets of ground-instance signatures compared, brute-force reference) and each ordering is diffed "
        "against the model."),
    "C05": dict(text="Full-strength theorems about the Lean model of the depth-first stream nodes (mplus_dfs, bind_dfs, lazy_bind_dfs, pause, delay, "
        "StreamEngine::step, Solver::next) and of DFSConj/DFSDisj/Conde-in-DFS/relation calls, generic in the state type, for ALL goal trees and "
        "ALL solver nesting levels: one step keeps the reference answer list exactly (C05_step); draining delivers it in order (C05_next); whenever "
        "the textbook Prolog semantics evalRef terminates with xs the engine delivers exactly xs in that order, recursion through relations "
        "included (C05_prolog); first-clause answers precede second-clause answers (C05_disj_order); conjunction is flat-map in order "
        "(C05_conj_order). Tied to the code by running random and exhaustive small goal trees inside dfs{} on the real engine and in the model "
        "(answer SEQUENCES diffed) with an independent recursive DFS interpreter as oracle. Known finding D18 (query-level reification can reorder "
        "answers of a dfs block) is reported as KNOWN-FINDING; order inside the dfs block is checked in raw mode."),
    "C06": dict(text="Full-strength theorems about the Lean model of the interleaving engine (Stream::mplus with its swap, bind, lazy_bind, pause, delay, "
        "step, Solver::next), generic in the state type, for ALL streams/goals: a step keeps the finite answer list up to permutation "
        "(C06_step_perm) and keeps membership in both directions for arbitrary infinite/diverging streams (C06_step_mem); a finite search is "
        "drained in finitely many steps delivering a permutation of the reference list (C06_finite, cost-decrease argument, no fuel bound "
        "assumed); same multiset as the textbook semantics evalRef and as depth-first search (C06_ref, C06_same_as_dfs); nothing delivered by "
        "next on any stream is invented (C06_no_invention, C06_prefix_sound). Tied to the code by random search programs (incl. infinite "
        "producers on bounded prefixes) run on the real engine and in the model with answer sequences diffed; oracle: reference interpreter "
        "multiset, dfs{} run of the same program, membership of each delivered answer."),
    "C07": dict(text="Full-strength theorems about the Lean model of the interleaving engine, generic in the state type: FAIRNESS with bind "
        "(C07_fair: every answer of any stream built from interleaving nodes — disjunctions nested under conjunctions, relation calls, "
        "anyo — is delivered by Solver::next after finitely many steps, whatever the other branches do; proved with a rank measure "
        "2r+1/2r+2 for mplus and 4^p(2q+4) for bind); the disjunction form of the property's statement (C07_branch); the two examples of "
        "the statement for ALL step counts (C07_never: within 12 steps; C07_always: the stream is periodic and each period delivers both "
        "answers, hence infinitely often); depth-first search starves the same disjunction (C07_dfs_unfair_witness). Tied to the code by "
        "running random and exhaustively arranged disjunctions of infinite producers, silent divergers, statically-true clauses and "
        "finite goals on the real engine and in the model (first 12 answers diffed); oracle: every branch run alone must see its first "
        "answers delivered by the combined program within a proportional step budget (a starved branch exhausts it deterministically)."),
    "C08": dict(text="Full-strength theorems about the Lean model of Solver::peek/trunc and Conda/Condu/onceo, generic in the state type: peek "
        "returns the head's own stream after finitely many SILENT steps (no answer delivered, dropped or duplicated; C08_peek, C08_peek_seq), "
        "trunc keeps exactly the first answer next would return (C08_trunc); conda is the head's stream bound to the rest when the head has an "
        "answer and exactly the remaining clauses otherwise, also for infinite heads (C08_conda, C08_conda_commit, C08_conda_skip); condu and "
        "onceo keep exactly the first head answer in engine order, also when it appears only after lazy steps or the head is infinite "
        "(C08_condu, C08_onceo). Tied to the code by programs whose heads have 0/1/many/lazy/infinite answers run on the real engine and in "
        "the model (answer sequences diffed); oracle: reference soft-cut semantics assembled from runs of the heads alone on the real engine."),
    "C09": dict(text="Theorems about the Lean model of Solver::next / take(n) and the hash-iteration parameter: LAZY — an outcome of next reached with some "
        "work is the outcome for any larger amount, take(k) is stable under more fuel and is a prefix of take(k+j) (C09_lazy, C09_take_mono, "
        "C09_take_prefix: nothing beyond the returned answers is needed, also on infinite streams); FUSED — exhaustion leaves the empty stream "
        "and next on it stays exhausted (C09_fused, C09_exhausted_is_empty); DETERMINISTIC — next is a function of the stream "
        "(C09_next_functional) and for pure tree programs the outcome is the same under ANY two hash-iteration orders "
        "(C09_order_independent_tree). PARTIAL (named open obligation): sequence-level independence of the iteration order for arbitrary "
        "programs, and real process-level hash randomisation, are decided by the correspondence: every program is run twice in-process, "
        "under 3 forced iteration orders (permutation hook), to exhaustion + 3 extra next() calls, with take(n) vs take(n+4), and the whole "
        "harness in fresh processes with fresh hash seeds (byte-identical output required); the model is diffed with the first run."),
    "C10": dict(text="PARTIAL by nature (stated in DESIGN.md): theorems give the algebraic law the code must refine — answers of conde {A, B} from a state "
        "are exactly the union of A alone and B alone from that state, for finite searches as multisets (C10_union, C10_union_inv, "
        "C10_union_dfs) and for arbitrary infinite/interleaved branches as membership (C10_union_mem); a step of a disjunction node leaves the "
        "other branch syntactically unchanged (C10_frame, C10_mplus_states). That the Rust code (Rc clone-on-write, shared constraint objects) "
        "refines this law cannot be shown by a value-semantics model and is decided by the correspondence: combined vs separate runs on the "
        "real engine over bindings, disequalities, domains, FD constraints (shared distinctfd object) and CLP(Z), multisets compared, plus the "
        "model/implementation diff of the combined run.",
        technique="Lean 4 theorems about an executable model (algebraic law) + differential combined-vs-separate runs of the implementation"),
    "C16": dict(text="PARTIAL proof, stated as such. The Lean model mirrors clpfd/*.rs and the FD part of state/mod.rs function by function (repaired "
        "re-run protocol). Proved for ALL states/operands/domains/orders/fuel: ground-exactness of plusfd/minusfd/timesfd/ltefd/diseqfd "
        "(C16_ground_*: with ground operands the propagator succeeds, leaving the state unchanged, iff the arithmetic relation holds), "
        "ltfd = diseqfd+ltefd (C16_ltfd), a bound operand is checked against the domain it is given (C16_domain_check, C16_domain_nonnum), a "
        "domain shrinking to one value binds the variable to a member of it (C16_singleton_binds). OPEN (named in the evidence): the global "
        "invariant through the re-entrant propagation loop; the end-to-end statement is decided by the correspondence (the model reproduces the "
        "implementation's answer SEQUENCE on every generated program) and a brute-force oracle over the domain window.",
        technique="Lean 4 local theorems about an executable model + differential correspondence + brute-force oracle (global invariant open)"),
    "C17": dict(text="PARTIAL proof, stated as such. Proved for ALL domains/bounds: labelling offers exactly the members of a domain, each once, increasing "
        "(C17_label_values, from C18); the map_sum mplus/delay chain delivers exactly its branches' answers (C17_map_sum); the narrowing "
        "intervals of plusfd/minusfd/ltefd and — for EVERY sign combination — timesfd (four-corner products; quotient bounds only for "
        "non-negative operands) never cut off a value that takes part in a solution within the current bounds (C17_plus_bounds, "
        "C17_minus_bounds, C17_times_signs, C17_lte_bounds, C17_lte_narrow). OPEN: the global completeness argument through the propagation "
        "loop and enforce_constraints_fd's onceo over hidden variables; decided end-to-end by the correspondence and the brute-force oracle "
        "(every solution exactly once per disjunction path).",
        technique="Lean 4 local theorems about an executable model + differential correspondence + brute-force oracle (global invariant open)"),
    "C19": dict(text="Full-strength theorems about the Lean model of PlusZConstraint::run / TimesZConstraint::run (arm by arm; Rust / and % as Int.tdiv / "
        "Int.tmod), for ALL states, integers, iteration orders and continuations: three ground operands succeed iff the equation holds "
        "(C19_plus_ground, C19_times_ground); two ground bind the third to THE solution (C19_plus_two, C19_plus_unique, C19_times_product); "
        "timesz with the product known fails iff the multiplier does not divide it, binds the exact quotient otherwise, keeps the constraint for "
        "0*r=0 and fails for 0*r=c≠0 (C19_times_two, C19_times_two', C19_times_arith); fewer than two ground, including all three unbound, keeps "
        "the constraint (C19_keep); run has no panicking arm (C19_total); every successful unification re-runs the whole store, so a delayed "
        "constraint is checked when its operands become ground (C19_delayed, C19_rerun_all). Tied to the code by running every posting order of "
        "random programs (aliasing, chains, zero/negative/non-divisible cases; exhaustive single constraints in thorough) on the real engine and "
        "in the model; oracle: integer arithmetic."),
    "C21": dict(text="Full-strength theorems about the Lean model of the LTerm API, for ALL terms and element sequences: the PartialEq match is exactly "
        "structural equality with variables by identity, hence reflexive, symmetric, transitive (C21_eq_iff, C21_equiv); equal terms feed the "
        "same items to any hasher (C21_hash); iter(from_vec xs) = xs and iter of an improper list = elements ++ [tail] (C21_iter_ofList, "
        "C21_iter_improper); extend appends on proper lists and panics otherwise (C21_extend, C21_extend_improper); indexing, head, tail, "
        "is_list, is_empty as on the sequence (C21_index, C21_head_tail); is_improper iff the spine does not end in [] "
        "(C21_improper_spine, C21_ofList_proper); contains is membership (C21_contains); iter_mut is the positional update incl. the improper "
        "tail (C21_iter_mut, C21_iter_mut_improper); Display is [a, b, c] / [a, b | t] (C21_display_list, C21_display_improper). Tied to the "
        "code by direct API calls on generated terms diffed against the model, with a Vec-based oracle. The check found and the repo now "
        "carries a fix for D19 (iter_mut skipped the improper tail)."),
    "C18": dict(text="Full-strength theorems (21, for all well-formed domains in both representations, all integers, all predicates): "
        "intersect/diff/is_disjoint/contains/min/max/is_singleton/singleton_value/iteration/==/copy_before/drop_before/From<Vec> of the Lean "
        "model of fd.rs equal the set operations, None exactly on empty results, results well-formed again. The model is tied to fd.rs by "
        "running both on the same operation instances (random, exhaustive over small windows in the thorough tier, extreme isize bounds) "
        "and diffing; a BTreeSet oracle finds failing inputs."),
}

NOT_APPLICABLE = {p: NOT_YET for p in ["C%02d" % i for i in range(1, 25)] if p not in CHECKS}
