#!/usr/bin/env python3
"""Regenerates MANIFEST.json from lib/manifest_data.py (kept valid at all times)."""
import json, os, sys
sys.path.insert(0, os.path.dirname(os.path.abspath(__file__)))
from manifest_data import CHECKS, NOT_APPLICABLE, HOOK_COMMITS

NOTE = ("Trusted base: Lean 4.33.0 kernel; axioms limited to propext/Classical.choice/Quot.sound (audited with #print axioms on every run; "
        "no sorry/admit/native_decide/bv_decide/implemented_by/project axioms); the correspondence check (Rust harness generators and "
        "canonicalisation, line protocol, Lean driver parser/printer, check's diff); modelled rather than verified: rustc/std, HashMap "
        "iteration as an arbitrary order, isize as Int, Rc sharing as value copying. The Rust-side oracle only searches for failing inputs.")

def check(pid, d):
    return dict(
        property_id=pid,
        quick_cmd=f"./check {pid} --tier quick",
        thorough_cmd=f"./check {pid} --tier thorough",
        evidence_file=f"/verif/evidence/{pid}.json",
        replay_cmd_template=f"./check {pid} --replay {{path}}",
        engine="lean4-proof+correspondence",
        level_claimed=dict(category="proof", text=d["text"], design_ref=d.get("design_ref", "DESIGN.md section 8, " + pid)),
        level_note=d.get("note", NOTE),
        technique=d.get("technique", "Lean 4 theorems about an executable model + differential correspondence of model and implementation"),
    )

m = dict(
    version=1,
    setup_cmd="./check --setup",
    hooks=dict(
        guard="terohuttunen_proto_vulcan_verif",
        enable="RUSTFLAGS='--cfg terohuttunen_proto_vulcan_verif' (set in /verif/harness/.cargo/config.toml; the harness depends on /repo by path)",
        baseline_off_cmd="cd /repo && cargo test --workspace --no-fail-fast --offline",
        source_commits=HOOK_COMMITS,
        add_only=True,
    ),
    engines=[dict(name="lean4-proof+correspondence", path="/verif/check",
                  serves_properties=sorted(CHECKS.keys()),
                  kind_free_text="Lean 4 model + theorems (lean/), Rust differential harness (harness/), python orchestrator (check)")],
    checks=[check(p, CHECKS[p]) for p in sorted(CHECKS)],
    notes="See DESIGN.md. known_findings.json lists recorded (known) and repaired (fixed) defects.",
    not_applicable=[dict(property_id=p, reason=r) for p, r in sorted(NOT_APPLICABLE.items())],
)
json.dump(m, open(os.path.join(os.path.dirname(os.path.abspath(__file__)), "..", "MANIFEST.json"), "w"), indent=1)
print("MANIFEST.json:", len(m["checks"]), "checks,", len(m["not_applicable"]), "not claimed")
