"""Per-property configuration used by ./check (theorem module, evidence wording)."""

COMMON_TRUST = [
    "modelled, not verified: rustc + std (Vec::sort/dedup/binary_search, RangeInclusive, HashMap), isize as unbounded Int",
]

PROPS = {
    "C18": dict(
        title="FiniteDomain set semantics",
        props_module="PvModel.Props.C18",
        rule="direct FiniteDomain API calls on generated pairs of domains (interval / From<Vec> with duplicates and unsorted "
             "input), thresholds and extreme isize bounds; a case is non-trivial when an operand is a sparse vector with >1 "
             "element or the two operands denote different sets; distinct = distinct case lines",
        trusted=COMMON_TRUST + ["Vec::binary_search on a strictly sorted vector is modelled as list membership"],
        assumptions=["isize overflow is outside the model (Int); the extreme-bounds stream is checked against an exact oracle only"],
        open=[],
    ),
}
