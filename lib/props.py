"""Per-property configuration used by ./check (theorem module, evidence wording)."""

COMMON_TRUST = [
    "modelled, not verified: rustc + std (Vec::sort/dedup/binary_search, RangeInclusive, HashMap), isize as unbounded Int",
]

SEARCH_TRUST = COMMON_TRUST + [
    "Rc sharing of states/goals is modelled as value copying; closures (relation bodies) as a table of goal builders drawing fresh variables from a counter in the state (VarID::new is a global counter in the code)",
    "eager solving of relation bodies is unfolded to a fixed nesting depth (solveAt), deeper nesting is paused",
]

PROPS = {
    "C02": dict(
        title="tree constraints (eq/diseq programs)",
        props_module="PvModel.Props.C02",
        props_extra=["PvModel.Props.C02Program", "PvModel.Props.C02Decide", "PvModel.Props.C02Rel", "PvModel.Props.C02Answer", "PvModel.Props.C02Query", "PvModel.Props.C02QueryRel"],
        rule="pure tree programs (1-6 atoms ==/!= over <=2 query + <=3 hidden variables, nested conde/fresh, compounds), each run as written and "
             "under random permutations of every conjunction; targets: subsuming pairs, disequalities simplified/violated by later equalities; "
             "observable: canonical answer terms + truth table of the reported constraints over an 8-element universe; non-trivial = an answer "
             "carries constraints or there are >=2 answers; distinct = distinct case lines",
        trusted=SEARCH_TRUST,
        assumptions=["the oracle decides existence of hidden-variable values with an independent Robinson unifier (disequalities over an infinite universe)"],
        open=["C02_reported_answer (Props/C02Answer.lean) closes the step from the semantic answer to the REPORTED one for lists of ==/!= atoms; for whole programs it applies to each delivered state (C02_program_exact: every delivered state is the state of one path); `reify(x)` as a GOAL on the engine delivers exactly that reified state from a tree state: PROVED (C02_reify_goal); the composition with the `fresh(__query__)` wrapper into ONE statement about `queryG`: PROVED (Props/C02Query.lean: C02_query_program, C02_query_tree, C02_query_exact — the engine terminates on the query goal and a tuple is an instance of a reported answer iff it is the query value of a solution of one path; C02_query_exact_checked discharges the hypotheses by one Boolean check); left assumed: the model's two bounds (no path runs out of unification fuel; the walked query term is within force_ans's depth bound forceFuel = 1000) and scoping — that a path state binds __query__ to the list of query terms (postAll_unified, Proofs/QueryBind.lean) and that force_ans finishes on a state without domains (forceAns_finishes, Proofs/ForceTot.lean) are proved"],
    ),
    "C05": dict(
        title="depth-first search order",
        props_module="PvModel.Props.C05",
        props_extra=["PvModel.Props.C05Rel"],
        rule="goal trees (conj/conde/disj/fresh over == leaves, member/append calls on bounded lists) inside dfs{}, observed as the sequence of states "
             "the goal produces (raw mode) and, for the corpus, as query answers; oracle: independent recursive depth-first interpreter, compared "
             "position by position; non-trivial = >=2 answers; distinct = distinct case lines",
        trusted=SEARCH_TRUST,
        assumptions=[],
        open=[],
    ),
    "C06": dict(
        title="interleaving search (answers as multiset / membership)",
        props_module="PvModel.Props.C06",
        props_extra=["PvModel.Props.C07Rel", "PvModel.Props.C06Rel", "PvModel.Props.C06Query"],
        rule="search programs (conj/conde/disj/fresh over == leaves, member/append calls on bounded lists); 1 in 4 with an infinite producer "
             "(anyo, open-ended member/append, always) observed on a bounded prefix; finite ones compared as multisets with the reference "
             "interpreter and with dfs{} of the same program on the real engine, infinite ones by membership of every delivered answer; "
             "non-trivial = >=2 answers; distinct = distinct case lines",
        trusted=SEARCH_TRUST,
        assumptions=[],
        open=[],
    ),
    "C07": dict(
        title="fairness of interleaving disjunction",
        props_module="PvModel.Props.C07",
        props_extra=["PvModel.Props.C07Rel"],
        rule="disjunctions (conde/disj, nested, optionally under a conjunction) of 2-4 branches drawn from infinite producers "
             "(always+tag, loop, open-ended member/append), silent divergers (never), statically true clauses and finite goals; "
             "observable: the first 12 answers in order; oracle: each branch run alone on the real engine, its first 2 answers must be "
             "delivered by the disjunction within 400x the steps the branch needed alone; non-trivial = some branch has an answer; "
             "distinct = distinct case lines",
        trusted=SEARCH_TRUST,
        assumptions=["the step budget of the oracle (400x + 5000) is a generous instance of the bound the fairness rank gives for nesting depth <= 5"],
        open=[],
    ),
    "C08": dict(
        title="committed choice (conda/condu/onceo)",
        props_module="PvModel.Props.C08",
        rule="a deterministic prefix followed by one conda/condu/onceo whose clause heads have 0, 1, many, lazily produced or infinitely many "
             "answers (infinite heads for condu/onceo), rests from the search generator; observable: answer sequence; oracle: heads run alone "
             "on the real engine in raw mode (engine order), rest continued from every head state (conda) / the first (condu, onceo), "
             "multisets compared; non-trivial = at least one answer; distinct = distinct case lines",
        trusted=SEARCH_TRUST,
        assumptions=["matcha/matchu are covered through their elaboration to conda/condu (C13)"],
        open=[],
    ),
    "C10": dict(
        title="branch isolation (conde {A, B} vs A alone and B alone)",
        props_module="PvModel.Props.C10",
        props_extra=["PvModel.Props.C04Rel", "PvModel.Props.C17Query"],
        rule="a shared prefix (domains, FD constraints incl. distinctfd, bindings, disequalities, plusz) followed by conde of 2-3 clauses that post "
             "bindings/disequalities/domains/FD/CLP(Z) constraints and may produce several interleaved answers; the same prefix followed by each "
             "clause alone; oracle: multiset(combined) = union of the separate runs; observable for the model: the combined answer sequence; "
             "non-trivial = >=2 answers in total; distinct = distinct case lines",
        trusted=SEARCH_TRUST + ["PARTIAL: aliasing (Rc::make_mut, the unsafe write in LTerm::project) cannot be exhibited by a value-semantics model; it is covered by the combined-vs-separate runs only"],
        assumptions=[],
        open=["user-state isolation is checked under C22"],
    ),
    "C16": dict(
        title="CLP(FD) soundness (answers satisfy every posted constraint)",
        props_module="PvModel.Props.C16",
        props_extra=["PvModel.Props.C16Rel", "PvModel.Props.C16Keys", "PvModel.Props.C17Enforce", "PvModel.Props.C17Query"],
        rule="every program twice: (1) as a query — FD programs: 1-4 variables, interval and sparse (unsorted, duplicated) domains over -4..=4 with mixed signs placed before/between/after "
             "the constraints, 1-5 constraints of every kind with operand aliasing and constants, == between variables and to numbers, 1 in 6 with a "
             "conde of constraint groups, hidden (non-query) FD variables; observable: answer sequence; oracle: brute force over the window — every "
             "answer is an integer tuple that extends to a solution; non-trivial = >1 solution or >=1 answer; distinct = distinct case lines; (2) programs with at most ONE propagator (whose state representation does not depend on the hash-iteration order) also raw with a STATE DUMP (`rst` case lines): substitution of every program variable, domain store and constraint store (kind + walk*ed operands, sorted) of every state the body goal delivers, real State vs model State",
        trusted=SEARCH_TRUST,
        assumptions=[],
        open=["distinctfd on an OPEN-TAILED list (the tail variable is taken for an element) is outside the global exactness theorems (CstOK requires a proper list term)", "every domain-store key is unbound: PROVED (C16_domain_keys_unbound, Props/C16Keys.lean, strict mode, no CLP(Z) constraint on an FD variable); labelled states are closed and solutions: PROVED (C16_labelled_answer_sound); the normal form of stored disequalities in FD states, the engine-level `onceo` of enforce_constraints_fd and reification are carried by the correspondence"],
    ),
    "C17": dict(
        title="CLP(FD) labelling completeness and uniqueness",
        props_module="PvModel.Props.C17",
        props_extra=["PvModel.Props.C17Label", "PvModel.Props.C17Enforce", "PvModel.Props.C17Query"],
        rule="the C16 generator; oracle: brute force over the window projected on the query variables — every solution is returned exactly once per "
             "disjunction path it satisfies; non-trivial = >1 solution or >=1 answer; distinct = distinct case lines",
        trusted=SEARCH_TRUST,
        assumptions=[],
        open=["distinctfd on an OPEN-TAILED list (the tail variable is taken for an element) is outside the global exactness theorems (CstOK requires a proper list term)", "the `onceo` over the hidden variables: PROVED on the engine (C17_hidden_onceo, Props/C17Enforce.lean: at most one state, a closed one when the labelled state has a solution, none when it has none; hypothesis: the peek fuel lets the labelling drain); the whole of enforce_constraints_fd on the engine: PROVED (C17_enforce_exactly_once: one closed state per block of the query-term labelling that has a solution, none for the others); reification of FD answers and the `fresh(__query__)` wrapper: PROVED (C17_query_program / C17_query_exactly_once, Props/C17Query.lean: the answers of an FD query are, as a multiset, the reified closed states of C17_enforce_exactly_once summed over the paths; C17_path_state_invariants: every unpoisoned path state of a query from the empty state has the labelling invariants; NonVacuity section instantiates every hypothesis); tree disequalities mixed into FD states are carried by the correspondence"],
    ),
    "C19": dict(
        title="CLP(Z) plusz/timesz",
        props_module="PvModel.Props.C19",
        rule="1-3 plusz/timesz constraints over <=4 variables and integers in -6..=6 (zero, negatives, non-divisible products), operand aliasing, "
             "chains, 0-3 grounding equalities, each program in every posting order (all permutations up to 3 goals, 6 random otherwise); oracle: "
             "integer arithmetic over a window containing every forced value (failure only if no solution, bound part consistent, ground answers "
             "exact, no panic, at most one answer); non-trivial = the equations have a solution or the goal failed; distinct = distinct case lines",
        trusted=COMMON_TRUST,
        assumptions=["operands are numbers or variables (the constructors assert this; other kinds are C23's malformed stream)"],
        open=[],
    ),
    "C03": dict(
        title="reification (closed answers, shared _ variables, relevant constraints)",
        props_module="PvModel.Props.C03",
        props_extra=["PvModel.Props.C03Query"],
        rule="pure tree programs (1-6 ==/!= atoms over <=3 query + <=2 hidden variables, conde/fresh), half of them with a query variable bound to an "
             "improper list / nested list / compound of other variables; observable: canonical terms + truth tables of the reported constraints and "
             "of constraints() per query variable; oracle: closedness of terms and constraints, terms/sharing against an independent Robinson solver "
             "run on every path, constraints() and is_constrained() against an independent traversal; non-trivial = an answer carries constraints or "
             "a non-ground term; distinct = distinct case lines",
        trusted=SEARCH_TRUST,
        assumptions=[],
        open=[],
    ),
    "C04": dict(
        title="reordering conjuncts/disjuncts (answer multiset)",
        props_module="PvModel.Props.C04",
        props_extra=["PvModel.Props.C04Rel", "PvModel.Props.C04Count", "PvModel.Props.C17Enforce", "PvModel.Props.C17Query", "PvModel.Props.C04Query"],
        rule="terminating programs, half pure tree (==, !=, fresh, nested conde) and half FD (the C16 generator incl. conde and structured query "
             "terms); each run as written and under random permutations of every conjunction and every clause list (all permutations of a "
             "top-level conjunction of <=3 goals); answers compared as multisets of (canonical terms, truth table of the reported constraints) / "
             "integer tuples; oracle: equal across orders and equal in size to the brute-force reference; every ordering also goes through the "
             "model; non-trivial = >=2 answers; distinct = distinct case lines",
        trusted=SEARCH_TRUST,
        assumptions=[],
        open=["reordering inside programs with COMMITTED CHOICE is checked by the oracle only (programs with relation calls: C04_rel_equiv / C04_rel_conj_comm / C04_rel_alt_comm)", "FD answer MULTISETS: per path, C04_fd_answer_values_perm (with C17_answer_values) shows the answer values after labelling + the onceo over the hidden variables are permutations of each other for two states describing the same valuations; the sum over the paths of a program and reification: PROVED (Props/C17Query.lean: C17_query_program, C17_query_count, C04_fd_query_reorder for reordered clauses); for ==/!= bodies ANY reorder of conjuncts and clauses keeps the instances of the reported answers of the whole query (C04_query_reorder_meaning, Props/C04Query.lean); reordered CONJUNCTS of FD programs at the level of the whole query are carried by the correspondence"],
    ),
    "C09": dict(
        title="query iteration: lazy, fused, deterministic",
        props_module="PvModel.Props.C09",
        props_extra=["PvModel.Props.C09Sequence", "PvModel.Props.C09Rel"],
        rule="tree programs with several disequalities, search programs (half with an infinite producer and take(n)), FD programs; each run twice in "
             "one process, under 3 forced iteration orders of the constraint store (permutation hook), to exhaustion + 3 further next() calls "
             "(fused), with take(n) vs take(n+4) (lazy), and the whole harness again in fresh processes (fresh hash seeds: 2 in quick, 8 in "
             "thorough) with byte-identical output required; the model is diffed with the first run; non-trivial = >=2 answers; distinct = "
             "distinct case lines",
        trusted=SEARCH_TRUST + ["that std's HashMap/HashSet iterate in SOME order per process is trusted; the model quantifies over all orders"],
        assumptions=[],
        open=["sequence-level order independence is proved for ==/!= programs of conj/conde/fresh (C09_sequence_order_free, C09_answers_order_free); with interleaving library relation calls too (C09_sequence_order_free_rel); for programs with committed choice, dfs-calls or FD constraints under different iteration orders it is carried by the forced-order and multi-process runs (with FD constraints it is in fact false: known findings D20/D21)"],
        multi_process=dict(quick=2, thorough=8),
    ),
    "C21": dict(
        title="LTerm equality, hashing and list operations",
        props_module="PvModel.Props.C21",
        rule="direct calls of the public LTerm API on generated terms (all four literal kinds, variables, nested proper/improper lists, three "
             "compound types, depth<=4): ==/hash on pairs (half equal copies or near variants), from_vec/from_array/collect, improper_from_vec, "
             "iter, iter_mut, extend, indexing, head/tail/is_list/is_empty/is_improper, contains, Display; oracle: Vec-based definitions and a "
             "derived structural equality written in the harness; non-trivial = an operand of depth>1; distinct = distinct case lines",
        trusted=COMMON_TRUST + ["variable names are not part of the Term model (PartialEq/Hash of Var use the id only); Display of variables is fixed to the name `x`, compounds' Debug form is not modelled"],
        assumptions=["User and Projection terms are outside the model (comparing/hashing a projection panics by design: C23)"],
        open=[],
    ),
    "C22": dict(
        title="user extension hooks (constraint lifecycle, process_extension, per-branch user state)",
        props_module="PvModel.Props.C22",
        props_extra=["PvModel.Props.C22Global"],
        rule="tree programs (1 in 4 with a plusz among the atoms) and FD programs, nested conde/fresh, with a probe goal after EVERY goal of every "
             "branch and a final probe after reify; the instrumented User type counts hook calls and extension bindings; oracle at every probe: "
             "with - take = stored; for pure tree programs: bindings reported to process_extension = bindings in the substitution, each reported "
             "binding in force when the hook runs; observable for the model: sorted (answer terms, with-take, stored) of the final probes; "
             "non-trivial = >2 probes executed; distinct = distinct case lines",
        trusted=SEARCH_TRUST + ["absolute hook counts depend on the hash order of the store (measured) and are not compared; their difference is"],
        assumptions=[],
        open=[],
    ),
    "C24": dict(
        title="library list relations (member, member1, append, rember, permute, distinct, cons, first, rest, empty)",
        props_module="PvModel.Props.C24",
        props_extra=["PvModel.Props.C24Sem", "PvModel.Props.C24Count", "PvModel.Props.C24First", "PvModel.Props.C24Query"],
        rule="every relation in random argument modes (each argument a fresh variable, a list with a variable element, or ground; lists of length "
             "<=4 over {1,2,3} with repeats); finite modes: the ground instances of the answers over a finite universe (through the reported "
             "constraints) are exactly the ground tuples in the relation, member yields one answer per matching position and member1 one per "
             "distinct value; infinite modes: first 25 answers, every instance in the relation; permute is kept to proper lists of equal length "
             "(known finding D20 otherwise); non-trivial = >=2 answers; distinct = distinct case lines",
        trusted=SEARCH_TRUST,
        assumptions=[],
        open=["soundness, completeness (all six recursive relations and cons/first/rest/empty, every mode) the multiplicities of member / member1 and the functional mode of append (first argument of known length: at most one answer, C24_append_functional) are proved (C24Sem, C24Count, C24First); the enumerating mode of append (third argument of known length: one answer per realisable split position, none twice, at most n+1: C24_append_one_per_split, C24_append_splits_disjoint) is proved too; the multiplicities of rember / permute / distinct are carried by the correspondence and the Vec-based oracle; every theorem carries the FUEL caveat of the model"],
    ),
    "C20": dict(
        title="compound terms (unification, disequality, reification, FD labelling)",
        props_module="PvModel.Props.C20",
        rule="==/!= programs over a Rust tuple, a #[compound] tuple struct and a #[compound] named struct, nested in each other and in lists, each "
             "equation offering the same shape with holes / another compound type / the list of the same fields / literals; FD programs whose "
             "query term is a compound, nested compound or list-in-compound of FD variables (hidden FD variables included); oracle: brute-force "
             "ground solutions over a universe containing a compound (both inclusions), independent structural Robinson solver for terms/sharing, "
             "closedness + relevant constraints, brute force for labelling (every solution exactly once); non-trivial as in C02/C17; distinct = "
             "distinct case lines",
        trusted=SEARCH_TRUST + ["Option values are compounds (Some) / the empty list (None) in the implementation; the harness exercises tuples and two #[compound] structs"],
        assumptions=[],
        open=["the tagged-list twin simulation of DESIGN.md is not proved and not used: a list with a variable head CAN unify with an encoded compound, so the twin is not a sound oracle; the structural reference solver replaces it"],
    ),
    "C12": dict(
        title='for/everyg (surface form `for x in &coll { body }`)',
        props_module="PvModel.Props.C12",
        props_extra=["PvModel.Props.C12Rel"],
        rule='programs with `for e in &coll { body }` over collections of 0-3 literals / lists / outer query variables, bodies of 1-2 goals using the loop variable and outer variables, optionally after another goal; emitted as Rust SOURCE inside proto_vulcan!, compiled against the current tree; oracle: the explicit conjunction (reverse collection order) built through the runtime API, answer sequences equal; the reference program goes through the model; non-trivial = >=2 answers or a non-ground answer; distinct = distinct case lines',
        trusted=SEARCH_TRUST + ["syn parsing of the surface syntax is not modelled: the theorems start at the AST; the harness PRINTS ASTs to Rust source, so a parser slip surfaces as a compile error or a disagreement", "project and fngoal clauses are not generated; compound constructors / patterns are generated where the macro grammar accepts them (operands of == / !=, whole match patterns; arguments: variables, `_`, literals, proper lists)"],
        assumptions=["the reference elaboration (surf.rs) is the documented meaning: names resolved lexically, one new variable per binder / distinct pattern name / `_`"],
        open=['bodies with COMMITTED CHOICE: equality with the forward conjunction is checked on the real engine via the reference program (bodies with relation calls: C12_rel_everyg)'],
        macro=True,
    ),
    "C13": dict(
        title='pattern matching (match/matche/matcha/matchu)',
        props_module="PvModel.Props.C13",
        rule="programs with one match expression (1-3 arms, `|` alternatives, empty / single / bracketed / braced bodies, repeated names, wildcards, literals, nested proper/improper list patterns, pattern names that shadow the matched term's variable and outer variables), optionally after another goal, all four operators; emitted as Rust source, compiled, run; oracle: the reference elaboration (conde/conda/condu of fresh pattern variables, term == pattern, body) built through the runtime API, answer sequences equal; non-trivial/distinct as C12",
        trusted=SEARCH_TRUST + ["syn parsing of the surface syntax is not modelled: the theorems start at the AST; the harness PRINTS ASTs to Rust source, so a parser slip surfaces as a compile error or a disagreement", "project and fngoal clauses are not generated; compound constructors / patterns are generated where the macro grammar accepts them (operands of == / !=, whole match patterns; arguments: variables, `_`, literals, proper lists)"],
        assumptions=["the reference elaboration (surf.rs) is the documented meaning: names resolved lexically, one new variable per binder / distinct pattern name / `_`"],
        open=['compound patterns nested inside list patterns or other compounds, and tuple patterns, are outside the macro grammar / not generated'],
        macro=True,
    ),
    "C14": dict(
        title='surface syntax -> goals and terms',
        props_module="PvModel.Props.C14",
        props_extra=["PvModel.Props.C14Engine"],
        rule='random surface programs over the clause grammar (==, !=, true/false, [..], conde/conda/condu/onceo, |x| {..} with shadowing, closure { }, relation calls) and the term grammar (numbers, bools, chars, strings, variables, `_`, [], nested proper/improper lists); emitted as Rust source, compiled, run; oracle: reference elaboration through the runtime API (answer sequences, reported per query variable in declaration order); non-trivial/distinct as C12',
        trusted=SEARCH_TRUST + ["syn parsing of the surface syntax is not modelled: the theorems start at the AST; the harness PRINTS ASTs to Rust source, so a parser slip surfaces as a compile error or a disagreement", "project and fngoal clauses are not generated; compound constructors / patterns are generated where the macro grammar accepts them (operands of == / !=, whole match patterns; arguments: variables, `_`, literals, proper lists)"],
        assumptions=["the reference elaboration (surf.rs) is the documented meaning: names resolved lexically, one new variable per binder / distinct pattern name / `_`"],
        open=["`closure { a, b }` with several comma-separated clauses does not parse (the macro's separator type is wrong); closure bodies are generated as one clause — noted in DESIGN.md, outside the property's claim about answers"],
        macro=True,
    ),
    "C15": dict(
        title='fresh variables: distinct and renaming-invariant',
        props_module="PvModel.Props.C15",
        rule='surface programs with binders (fresh with shadowing, pattern arms, for) each run as written AND with one bound variable consistently renamed to an unused name (both as source, both compiled); oracle: identical answer sequences of the pair, and each equals its reference elaboration; recursive relation calls (member, append) draw fresh variables per unfolding; non-trivial/distinct as C12',
        trusted=SEARCH_TRUST + ["syn parsing of the surface syntax is not modelled: the theorems start at the AST; the harness PRINTS ASTs to Rust source, so a parser slip surfaces as a compile error or a disagreement", "project and fngoal clauses are not generated; compound constructors / patterns are generated where the macro grammar accepts them (operands of == / !=, whole match patterns; arguments: variables, `_`, literals, proper lists)"],
        assumptions=["the reference elaboration (surf.rs) is the documented meaning: names resolved lexically, one new variable per binder / distinct pattern name / `_`"],
        open=['the global AtomicUsize counter itself is trusted (fetch_add)'],
        macro=True,
    ),
    "C11": dict(
        title="project (current value of projected variables)",
        props_module="PvModel.Props.C11",
        rule="a prefix of bindings / disequalities (1 in 5 with member or conde, so that several states reach the goal), then project |x..| { body } "
             "whose body tests the projected values non-relationally (isnum, isground: syntactic, no walk) and relationally (q == x, q == [x, 0]), "
             "then more goals that bind variables afterwards; the prefix alone is run in raw mode to count the reaching states and read the walked "
             "values; <=1 reaching state: answers must equal the program with the body instantiated by those values (and go through the model); "
             ">=2 reaching states: the recorded panic site (known finding D16) or, failing that, the same reference; non-trivial = an answer; "
             "distinct = distinct case lines",
        trusted=SEARCH_TRUST + ["the model has the intended value semantics (a dyn goal); the shared projection cell and its unsafe overwrite are not modelled: cases in the known finding's region are not sent to the model"],
        assumptions=[],
        open=["C11_full for the implementation (every reaching state, no panic) is false on the pinned tree (D16); C11_once_partial is what the correspondence checks"],
    ),
    "C23": dict(
        title="no panic on well-formed programs",
        props_module="PvModel.Props.C23",
        props_extra=["PvModel.Props.C23Rel"],
        rule="WELL-FORMED stream: per index one program from each generator (tree constraints with compounds, search with committed choice / dfs / "
             "infinite producers on bounded prefixes, FD incl. structured query terms and hidden variables, CLP(Z), library relations in random "
             "modes, project reached once / twice), goal construction and solving under catch_unwind; oracle: no panic (project-twice = known "
             "finding D16 by call site); MALFORMED stream: operands of undocumented kinds, FD operands without a domain, non-number constants "
             "in distinctfd — no oracle claim, the model must predict the panic SITE; observable: answers or `PANIC <site>`; non-trivial = every "
             "case; distinct = distinct case lines",
        trusted=SEARCH_TRUST + ["panic sites are compared as a small enum derived from the panic message; isize overflow is outside the property (well-formedness clause) and not modelled"],
        assumptions=[],
        open=["C23_state_machine covers the constraint state machine through the re-entrant loop (with distinctfd: only its own three panic sites stay reachable, and only from unsatisfiable conjunctions — C23_state_machine_distinctfd); that distinctfd over FD variables / integers bound to integers only never panics, project and the goal-level sites (assert-operand, unbound-domain) are carried by the correspondence on every generator"],
    ),
    "C01": dict(
        title="unification (State::unify vs unifyF)",
        props_module="PvModel.Props.C01",
        props_extra=["PvModel.Props.C01Tri"],
        rule="a history of 0-4 successful State::unify calls followed by one unification of generated terms (literals of all kinds, "
             "shared variables, proper/improper lists, three compound types, depth<=4, occurs-check targets); observable: fail or the "
             "canonically renamed tuple (walk* u, walk* v, walk* x_i); non-trivial = success with >=1 binding, or failure below the root; "
             "distinct = distinct case lines; every case ALSO runs through the triangular model (`unifyT` lines): same observable, plus the stored right-hand side of every binding (HashMap::get) compared with the model's (a difference there alone is a NOTE, not a violation)",
        trusted=COMMON_TRUST + ["SMap as a HashMap: modelled by a list of bindings (a variable is bound once); the triangular algorithm itself (walk chains, occurs_check, walk_star, unify_rec) is in the model (Model/Triangular.lean) and PROVED to refine the solved-form model (Props/C01Tri.lean)"],
        assumptions=["User terms and Projection terms are outside the Term model"],
        open=[],
    ),
    "C18": dict(
        title="FiniteDomain set semantics",
        props_module="PvModel.Props.C18",
        rule="direct FiniteDomain API calls on generated pairs of domains (interval / From<Vec> with duplicates and unsorted "
             "input), thresholds and extreme isize bounds; a case is non-trivial when an operand is a sparse vector with >1 "
             "element or the two operands denote different sets; distinct = distinct case lines",
        trusted=COMMON_TRUST + ["Vec::binary_search on a strictly sorted vector is modelled as list membership"],
        assumptions=["isize overflow is outside the model (Int); the extreme-bounds stream is checked against an exact oracle only"],
        open=[],
    ),
}
