"""Per-property configuration used by ./check (theorem module, evidence wording)."""

COMMON_TRUST = [
    "modelled, not verified: rustc + std (Vec::sort/dedup/binary_search, RangeInclusive, HashMap), isize as unbounded Int",
]

PROPS = {
    "C01": dict(
        title="unification (State::unify vs unifyF)",
        props_module="PvModel.Props.C01",
        rule="a history of 0-4 successful State::unify calls followed by one unification of generated terms (literals of all kinds, "
             "shared variables, proper/improper lists, three compound types, depth<=4, occurs-check targets); observable: fail or the "
             "canonically renamed tuple (walk* u, walk* v, walk* x_i); non-trivial = success with >=1 binding, or failure below the root; "
             "distinct = distinct case lines",
        trusted=COMMON_TRUST + ["triangular SMap (HashMap, walk chains) is modelled by an idempotent substitution function; only walk*/success/failure are compared"],
        assumptions=["User terms and Projection terms are outside the Term model"],
        open=[],
    ),
    "C18": dict(
        title="FiniteDomain set semantics",
        props_module="PvModel.Props.C18",
        rule="direct FiniteDomain API calls on generated pairs of domains (interval / From<Vec> with duplicates and unsorted "
             "input), thresholds and extreme isize bounds; a case is non-trivial when an operand is a sparse vector with >1 "
             "element or the two operands denote different sets; distinct = distinct case lines",
        trusted=COMMON_TRUST + ["Vec::binary_search on a strictly sorted vector is modelled as list membership"],
        assumptions=["isize overflow is outside the model (Int); the extreme-bounds stream is checked against an exact oracle only"],
        open=[],
    ),
}
