#!/bin/bash
# usage: try_seed.sh <patch.diff> <Cxx> [<Cyy> ...]   — applies a seeded change to /repo, runs the quick checks, reverts
set -u
patch="$1"; shift
cd /repo
if ! git diff --quiet; then echo "/repo has uncommitted changes"; exit 2; fi
git apply "$patch" || { echo "patch does not apply"; exit 2; }
cd /verif
for p in "$@"; do
  echo "=== $p with $(basename $(dirname $patch))"
  ./check $p --tier quick 2>&1 | tail -4
  echo "rc=$?"
done
git -C /repo checkout -- . 
git -C /repo status --short | head -3
