#!/bin/bash
# usage: confirm_seed.sh <seeded dir>  — confirms in a scratch worktree that the seeded change compiles, passes the
# existing suite, and that the demonstration fails with it and passes without it. Writes confirm.txt into the dir.
d="$(realpath "$1")"; name=$(basename "$d"); w=/tmp/confirm-$name
git -C /repo worktree remove --force $w 2>/dev/null
git -C /repo worktree add -q --detach $w HEAD || exit 2
cd $w; mkdir -p tests; cp "$d/seeded_demo.rs" tests/seeded_demo.rs
export CARGO_NET_OFFLINE=true
r0=$(cargo test --offline --test seeded_demo 2>&1 | grep -E "^test result" | tail -1)
git apply "$d/patch.diff" || { echo "patch does not apply" > "$d/confirm.txt"; exit 2; }
r1=$(cargo test --offline --test seeded_demo 2>&1 | grep -E "^test result|error\[" | tail -1)
mv tests/seeded_demo.rs /tmp/seeded_demo_$name.rs
r2=$(cargo test --workspace --no-fail-fast --offline 2>&1 | grep -E "^test result" | tr '\n' ';')
rm -f /tmp/seeded_demo_$name.rs
{ echo "demo without change: $r0"; echo "demo with change:    $r1"; echo "suite with change:   $r2"; } > "$d/confirm.txt"
cd /; git -C /repo worktree remove --force $w
cat "$d/confirm.txt"
