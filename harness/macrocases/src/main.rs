//! macrocases: surface-syntax programs compiled against the current tree (generated.rs is rewritten per run).
#[macro_use]
extern crate proto_vulcan;
use proto_vulcan::goal::{Goal, GoalCast, InferredGoal};
use proto_vulcan::operator::*;
use proto_vulcan::prelude::*;
use proto_vulcan::relation::*;
use pvharness::prog::*;
use pvharness::term::*;

include!("generated.rs");

fn main() {
    // macrocases <Cxx> <macro_cases.txt> <outdir>
    let args: Vec<String> = std::env::args().collect();
    std::panic::set_hook(Box::new(|info| {
        let loc = info.location().map(|l| format!("{}:{}", l.file(), l.line())).unwrap_or_default();
        pvharness::LAST_PANIC.with(|p| *p.borrow_mut() = loc);
    }));
    assert!(NCASES > 0);
    pvharness::cmacro::run_cases(&args[1], &args[2], &args[3], &|i, vars| case(i, vars));
}
