//! macrocases: surface-syntax programs compiled against the current tree (generated.rs is rewritten per run).
#[macro_use]
extern crate proto_vulcan;
use proto_vulcan::goal::{Goal, GoalCast, InferredGoal};
use proto_vulcan::operator::*;
use proto_vulcan::prelude::*;
use proto_vulcan::relation::*;
use pvharness::prog::*;
use pvharness::term::*;

include!("generated.rs");

fn main() {
    // macrocases <Cxx> <macro_cases.txt> <outdir>
    let args: Vec<String> = std::env::args().collect();
    pvharness::install_panic_hook();
    pvharness::start_watchdog(180);
    assert!(NCASES > 0);
    pvharness::cmacro::run_cases(&args[1], &args[2], &args[3], &|i, vars| case(i, vars));
}
