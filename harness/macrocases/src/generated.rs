pub fn case_0(vars: &Vars) -> InferredGoal<DU, DE, Goal<DU, DE>> {
    let qa = vars.v[0].clone();
    let qb = vars.v[1].clone();
    let coll0: Vec<LT> = vec![];
    proto_vulcan!([for e in &coll0 { qa == (3, [[], e]), P3(2, 1, [[]]) != e }])
}
pub fn case_1(vars: &Vars) -> InferredGoal<DU, DE, Goal<DU, DE>> {
    let qa = vars.v[0].clone();
    let qb = vars.v[1].clone();
    let coll0: Vec<LT> = vec![lterm!(2), lterm!(3)];
    proto_vulcan!([|tz| { [3, 2 | tz] != [3, 2, 1], tz == [1] }, for e in &coll0 { qb == e }])
}
pub fn case_2(vars: &Vars) -> InferredGoal<DU, DE, Goal<DU, DE>> {
    let qa = vars.v[0].clone();
    let qb = vars.v[1].clone();
    let coll0: LT = LT::from_vec(vec![lterm!([1]), lterm!(1), lterm!([1])]);
    proto_vulcan!([[], for e in &coll0 { |tz| { tz == [2, 3], [1 | tz] != [1, 2, 3] } }])
}
pub fn case_3(vars: &Vars) -> InferredGoal<DU, DE, Goal<DU, DE>> {
    let qa = vars.v[0].clone();
    let qb = vars.v[1].clone();
    let coll0: LT = LT::from_vec(vec![lterm!(2), lterm!([1]), lterm!(3)]);
    proto_vulcan!([for e in &coll0 { e != P3(1, [_, 2], [_]) }])
}
pub fn case_4(vars: &Vars) -> InferredGoal<DU, DE, Goal<DU, DE>> {
    let qa = vars.v[0].clone();
    let qb = vars.v[1].clone();
    let coll0: Vec<LT> = vec![];
    proto_vulcan!([true, for e in &coll0 { P3(3, _, 2) == e }])
}
pub fn case_5(vars: &Vars) -> InferredGoal<DU, DE, Goal<DU, DE>> {
    let qa = vars.v[0].clone();
    let qb = vars.v[1].clone();
    let coll0: LT = LT::from_vec(vec![qb.clone()]);
    proto_vulcan!([for e in &coll0 { append(qb, qb, [3, 3]) }])
}
pub fn case_6(vars: &Vars) -> InferredGoal<DU, DE, Goal<DU, DE>> {
    let qa = vars.v[0].clone();
    let qb = vars.v[1].clone();
    let coll0: Vec<LT> = vec![qb.clone(), qb.clone()];
    proto_vulcan!([append(qa, qb, []), for e in &coll0 { |tz| { [1, 3, 3, 2] != [1, 3 | tz], tz == [3, 2] }, e == 2 }])
}
pub fn case_7(vars: &Vars) -> InferredGoal<DU, DE, Goal<DU, DE>> {
    let qa = vars.v[0].clone();
    let qb = vars.v[1].clone();
    let coll0: Vec<LT> = vec![lterm!(2), lterm!(1)];
    proto_vulcan!([for e in &coll0 { |tz| { tz == [2, 1], [3, 2, 1] != [3 | tz] } }])
}
pub fn case_8(vars: &Vars) -> InferredGoal<DU, DE, Goal<DU, DE>> {
    let qa = vars.v[0].clone();
    let qb = vars.v[1].clone();
    let coll0: LT = LT::from_vec(vec![lterm!(1), qb.clone(), lterm!([1])]);
    proto_vulcan!([for e in &coll0 { qb == ([qb], 1), append(qb, e, [3, 1]) }])
}
pub fn case_9(vars: &Vars) -> InferredGoal<DU, DE, Goal<DU, DE>> {
    let qa = vars.v[0].clone();
    let qb = vars.v[1].clone();
    let coll0: Vec<LT> = vec![];
    proto_vulcan!([for e in &coll0 { qb == (qa, [qa, e]), conde { e == [qb, 3 | qa], |tz| { [2, 1 | tz] != [2, 1, 1], tz == [1] }, [false, |tz| { tz == [2], [3, 3 | tz] != [3, 3, 2] }] } }])
}
pub fn case_10(vars: &Vars) -> InferredGoal<DU, DE, Goal<DU, DE>> {
    let qa = vars.v[0].clone();
    let qb = vars.v[1].clone();
    let coll0: Vec<LT> = vec![lterm!([1]), lterm!(1)];
    proto_vulcan!([for e in &coll0 { (_, 2) == e, |x| { qa == qb } }])
}
pub fn case_11(vars: &Vars) -> InferredGoal<DU, DE, Goal<DU, DE>> {
    let qa = vars.v[0].clone();
    let qb = vars.v[1].clone();
    let coll0: LT = LT::from_vec(vec![lterm!(1)]);
    proto_vulcan!(["bc" != qa, for e in &coll0 { e == qa }])
}
pub fn case_12(vars: &Vars) -> InferredGoal<DU, DE, Goal<DU, DE>> {
    let qa = vars.v[0].clone();
    let qb = vars.v[1].clone();
    let coll0: LT = LT::from_vec(vec![lterm!([2])]);
    proto_vulcan!([qb != [1], for e in &coll0 { qb == 1 }])
}
pub fn case_13(vars: &Vars) -> InferredGoal<DU, DE, Goal<DU, DE>> {
    let qa = vars.v[0].clone();
    let qb = vars.v[1].clone();
    let coll0: Vec<LT> = vec![];
    proto_vulcan!([for e in &coll0 { false, e == [false, qa, _ | qa] }])
}
pub fn case_14(vars: &Vars) -> InferredGoal<DU, DE, Goal<DU, DE>> {
    let qa = vars.v[0].clone();
    let qb = vars.v[1].clone();
    let coll0: LT = LT::from_vec(vec![lterm!(3), qa.clone(), lterm!(1)]);
    proto_vulcan!([qb == (qb, []), for e in &coll0 { |z| { [[e, 1], [qb, 2], [1, qb, _ | qa] | 1] == qa }, conde { qa == [3, qa, []], [qa == qb, |tz| { [3, 1 | tz] != [3, 1, 1, 2], tz == [1, 2] }] } }])
}
pub fn case_15(vars: &Vars) -> InferredGoal<DU, DE, Goal<DU, DE>> {
    let qa = vars.v[0].clone();
    let qb = vars.v[1].clone();
    let coll0: LT = LT::from_vec(vec![lterm!(1), lterm!(1), lterm!(1)]);
    proto_vulcan!([true, for e in &coll0 { false }])
}
pub fn case_16(vars: &Vars) -> InferredGoal<DU, DE, Goal<DU, DE>> {
    let qa = vars.v[0].clone();
    let qb = vars.v[1].clone();
    let coll0: LT = LT::from_vec(vec![lterm!(3), lterm!(1), lterm!(3)]);
    proto_vulcan!([conde { [false, qb == [qa, "bc", 1]], qb == 1, [[_, qb, qa | qa] == qb, [[qa | qb]] == P3(qa, [qa], [qb])] }, for e in &coll0 { [qa, qb] == e, P3(_, _, []) == e }])
}
pub fn case_17(vars: &Vars) -> InferredGoal<DU, DE, Goal<DU, DE>> {
    let qa = vars.v[0].clone();
    let qb = vars.v[1].clone();
    let coll0: Vec<LT> = vec![lterm!([1]), qb.clone()];
    proto_vulcan!([for e in &coll0 { append(qb, e, [3, 3]) }])
}
pub fn case_18(vars: &Vars) -> InferredGoal<DU, DE, Goal<DU, DE>> {
    let qa = vars.v[0].clone();
    let qb = vars.v[1].clone();
    let coll0: Vec<LT> = vec![];
    proto_vulcan!([for e in &coll0 { [qa, [], 1] == e, [qb == [1], [[], qb, qa] == qa] }])
}
pub fn case_19(vars: &Vars) -> InferredGoal<DU, DE, Goal<DU, DE>> {
    let qa = vars.v[0].clone();
    let qb = vars.v[1].clone();
    let coll0: LT = LT::from_vec(vec![lterm!(3), lterm!(3), qb.clone()]);
    proto_vulcan!([for e in &coll0 { false, [] }])
}
pub fn case_20(vars: &Vars) -> InferredGoal<DU, DE, Goal<DU, DE>> {
    let qa = vars.v[0].clone();
    let qb = vars.v[1].clone();
    let coll0: Vec<LT> = vec![];
    proto_vulcan!([(qb, qa) != [[qa, qa | qa], 1, true], for e in &coll0 { [|tz| { tz == [3], [1 | tz] != [1, 3] }, |tz| { [3, 2, 3] != [3 | tz], tz == [2, 3] }, qa == qb], conde { true, qa == 2 } }])
}
pub fn case_21(vars: &Vars) -> InferredGoal<DU, DE, Goal<DU, DE>> {
    let qa = vars.v[0].clone();
    let qb = vars.v[1].clone();
    let coll0: Vec<LT> = vec![lterm!(2), qa.clone()];
    proto_vulcan!([conde { [member(qa, [1, 1]), qb == [1]], [] }, for e in &coll0 { e != [2, qb | e] }])
}
pub fn case_22(vars: &Vars) -> InferredGoal<DU, DE, Goal<DU, DE>> {
    let qa = vars.v[0].clone();
    let qb = vars.v[1].clone();
    let coll0: Vec<LT> = vec![lterm!(1), lterm!([2])];
    proto_vulcan!([[[], 2, qb | "a"] == qb, for e in &coll0 { [member(qa, [1, 3]), append(qa, e, [2]), true] }])
}
pub fn case_23(vars: &Vars) -> InferredGoal<DU, DE, Goal<DU, DE>> {
    let qa = vars.v[0].clone();
    let qb = vars.v[1].clone();
    let coll0: Vec<LT> = vec![lterm!([1]), lterm!(3)];
    proto_vulcan!([|tz| { [3, 1, 1] != [3 | tz], tz == [1, 1] }, for e in &coll0 { [qa, qb, []] == qb, |x| { true, qa != [qa, _ | qa], qa == P3(1, e, 2) } }])
}
pub fn case_24(vars: &Vars) -> InferredGoal<DU, DE, Goal<DU, DE>> {
    let qa = vars.v[0].clone();
    let qb = vars.v[1].clone();
    let coll0: LT = LT::from_vec(vec![qa.clone()]);
    proto_vulcan!([for e in &coll0 { |x, y| {  }, [[qa] | _] == ['a', qa] }])
}
pub fn case_25(vars: &Vars) -> InferredGoal<DU, DE, Goal<DU, DE>> {
    let qa = vars.v[0].clone();
    let qb = vars.v[1].clone();
    let coll0: LT = LT::from_vec(vec![lterm!(1)]);
    proto_vulcan!([[[false], []] != (2, [[]]), for e in &coll0 { |t| { true, member(qb, [2, 1, 1]), qb == qa }, conde { [2] == qa, [e == 1, member(qb, [])], qa == _ } }])
}
pub fn case_26(vars: &Vars) -> InferredGoal<DU, DE, Goal<DU, DE>> {
    let qa = vars.v[0].clone();
    let qb = vars.v[1].clone();
    let coll0: Vec<LT> = vec![lterm!(3), qb.clone()];
    proto_vulcan!([for e in &coll0 { |z, y| {  }, |t| {  } }])
}
pub fn case_27(vars: &Vars) -> InferredGoal<DU, DE, Goal<DU, DE>> {
    let qa = vars.v[0].clone();
    let qb = vars.v[1].clone();
    let coll0: Vec<LT> = vec![];
    proto_vulcan!([for e in &coll0 { |tz| { [2, 1 | tz] != [2, 1, 3], tz == [3] }, conde { [false, qa == [e, qa, _]], [_, qa | qb] == qb, [false, [[]] != e] } }])
}
pub fn case_28(vars: &Vars) -> InferredGoal<DU, DE, Goal<DU, DE>> {
    let qa = vars.v[0].clone();
    let qb = vars.v[1].clone();
    let coll0: LT = LT::from_vec(vec![lterm!(1), lterm!([2]), lterm!(2)]);
    proto_vulcan!([[true, [] == qb], for e in &coll0 { conde { [], [e != [_ | qa], true] }, [[qa], [2, e], [1 | _] | e] == e }])
}
pub fn case_29(vars: &Vars) -> InferredGoal<DU, DE, Goal<DU, DE>> {
    let qa = vars.v[0].clone();
    let qb = vars.v[1].clone();
    let coll0: LT = LT::from_vec(vec![lterm!(1)]);
    proto_vulcan!([conde { [qb == qb, append(qa, qb, [])], qa != [qb, 3 | qb] }, for e in &coll0 { |tz| { [2, 1 | tz] != [2, 1, 1], tz == [1] }, [[], 1, e] != P3(_, 2, _) }])
}
pub fn case_30(vars: &Vars) -> InferredGoal<DU, DE, Goal<DU, DE>> {
    let qa = vars.v[0].clone();
    let qb = vars.v[1].clone();
    let coll0: Vec<LT> = vec![lterm!(2), lterm!(3)];
    proto_vulcan!([[append(qa, qa, [1]), ["bc", "bc" | qa] != qb, qa == ['a', qb, qb]], for e in &coll0 { [e == (e, [qb, qb])] }])
}
pub fn case_31(vars: &Vars) -> InferredGoal<DU, DE, Goal<DU, DE>> {
    let qa = vars.v[0].clone();
    let qb = vars.v[1].clone();
    let coll0: LT = LT::from_vec(vec![lterm!(3)]);
    proto_vulcan!([[qa, 2, []] == qb, for e in &coll0 { [["bc"], [qb, 1, "bc"], qb] == e, |x, t| { x == [3, t, x], qb != (e, e), "a" == t } }])
}
pub fn case_32(vars: &Vars) -> InferredGoal<DU, DE, Goal<DU, DE>> {
    let qa = vars.v[0].clone();
    let qb = vars.v[1].clone();
    let coll0: Vec<LT> = vec![qb.clone(), lterm!([2])];
    proto_vulcan!([for e in &coll0 { |t, z| { e == ['b', e, t], member(z, []) }, |tz| { tz == [3, 2], [1, 3, 2] != [1 | tz] } }])
}
pub fn case_33(vars: &Vars) -> InferredGoal<DU, DE, Goal<DU, DE>> {
    let qa = vars.v[0].clone();
    let qb = vars.v[1].clone();
    let coll0: Vec<LT> = vec![lterm!([2]), lterm!([1])];
    proto_vulcan!([conde { [[] == qa, false], [[[[], qa, qb | qb], [], [] | 1] == [2, [qb | qb]], P3(1, [], [_]) == qb], [[1, 1, true], qa] != qa }, for e in &coll0 { qa == P3(qb, _, qb) }])
}
pub fn case_34(vars: &Vars) -> InferredGoal<DU, DE, Goal<DU, DE>> {
    let qa = vars.v[0].clone();
    let qb = vars.v[1].clone();
    let coll0: LT = LT::from_vec(vec![lterm!(2), lterm!(1), lterm!([1])]);
    proto_vulcan!([|z, h| { [[_, 2, 2], [3, _ | qa] | z] == qb }, for e in &coll0 { 1 == [[]] }])
}
pub fn case_35(vars: &Vars) -> InferredGoal<DU, DE, Goal<DU, DE>> {
    let qa = vars.v[0].clone();
    let qb = vars.v[1].clone();
    let coll0: Vec<LT> = vec![];
    proto_vulcan!([for e in &coll0 { e == qb, qb != P3([e], _, [qb]) }])
}
pub fn case_36(vars: &Vars) -> InferredGoal<DU, DE, Goal<DU, DE>> {
    let qa = vars.v[0].clone();
    let qb = vars.v[1].clone();
    let coll0: LT = LT::from_vec(vec![lterm!(2)]);
    proto_vulcan!([for e in &coll0 { _ == (2, [qa, e]) }])
}
pub fn case_37(vars: &Vars) -> InferredGoal<DU, DE, Goal<DU, DE>> {
    let qa = vars.v[0].clone();
    let qb = vars.v[1].clone();
    let coll0: Vec<LT> = vec![qb.clone(), lterm!(3)];
    proto_vulcan!([for e in &coll0 { e == [], [2, _, e] != qb }])
}
pub fn case_38(vars: &Vars) -> InferredGoal<DU, DE, Goal<DU, DE>> {
    let qa = vars.v[0].clone();
    let qb = vars.v[1].clone();
    let coll0: LT = LT::from_vec(vec![lterm!(3), lterm!(1), lterm!([2])]);
    proto_vulcan!([|t, h| { |tz| { tz == [1, 3], [2, 1, 3] != [2 | tz] }, [1 | 1] == t }, for e in &coll0 { qa == [] }])
}
pub fn case_39(vars: &Vars) -> InferredGoal<DU, DE, Goal<DU, DE>> {
    let qa = vars.v[0].clone();
    let qb = vars.v[1].clone();
    let coll0: LT = LT::from_vec(vec![qa.clone(), lterm!([2]), lterm!([2])]);
    proto_vulcan!([for e in &coll0 { qb == P3(2, 3, 2), qb == P3(3, 1, 2) }])
}
pub fn case_40(vars: &Vars) -> InferredGoal<DU, DE, Goal<DU, DE>> {
    let qa = vars.v[0].clone();
    let qb = vars.v[1].clone();
    let coll0: LT = LT::from_vec(vec![lterm!([1]), lterm!(3), qa.clone()]);
    proto_vulcan!([conde { true, [], [qa == qa, 2 == qb] }, for e in &coll0 { e == [[2, e, qa], _] }])
}
pub fn case_41(vars: &Vars) -> InferredGoal<DU, DE, Goal<DU, DE>> {
    let qa = vars.v[0].clone();
    let qb = vars.v[1].clone();
    let coll0: LT = LT::from_vec(vec![qb.clone(), qa.clone(), lterm!(1)]);
    proto_vulcan!([qa == 1, for e in &coll0 { true }])
}
pub fn case_42(vars: &Vars) -> InferredGoal<DU, DE, Goal<DU, DE>> {
    let qa = vars.v[0].clone();
    let qb = vars.v[1].clone();
    let coll0: LT = LT::from_vec(vec![lterm!(2), lterm!(3), lterm!(2)]);
    proto_vulcan!([for e in &coll0 { |tz| { [1, 1 | tz] != [1, 1, 3, 1], tz == [3, 1] } }])
}
pub fn case_43(vars: &Vars) -> InferredGoal<DU, DE, Goal<DU, DE>> {
    let qa = vars.v[0].clone();
    let qb = vars.v[1].clone();
    let coll0: LT = LT::from_vec(vec![lterm!(2)]);
    proto_vulcan!([for e in &coll0 { conde { qa == [e, 3 | qa], [(2, _) == qa, qa != [qa]], [member(qb, [3, 3, 3]), 3 == P3([], qb, [3])] }, conde { [qb == [_, _], |tz| { tz == [1, 1], [1, 3, 1, 1] != [1, 3 | tz] }] } }])
}
pub fn case_44(vars: &Vars) -> InferredGoal<DU, DE, Goal<DU, DE>> {
    let qa = vars.v[0].clone();
    let qb = vars.v[1].clone();
    let coll0: LT = LT::from_vec(vec![lterm!(3)]);
    proto_vulcan!([for e in &coll0 { qb != [] }])
}
pub fn case_45(vars: &Vars) -> InferredGoal<DU, DE, Goal<DU, DE>> {
    let qa = vars.v[0].clone();
    let qb = vars.v[1].clone();
    let coll0: LT = LT::from_vec(vec![lterm!(3), lterm!(2), lterm!([2])]);
    proto_vulcan!([[[qb, 3, qa | 2]] == [qa, qa, 2], for e in &coll0 { e != [[e, false], [3, qa]] }])
}
pub fn case_46(vars: &Vars) -> InferredGoal<DU, DE, Goal<DU, DE>> {
    let qa = vars.v[0].clone();
    let qb = vars.v[1].clone();
    let coll0: Vec<LT> = vec![];
    proto_vulcan!([for e in &coll0 { |t, z| {  } }])
}
pub fn case_47(vars: &Vars) -> InferredGoal<DU, DE, Goal<DU, DE>> {
    let qa = vars.v[0].clone();
    let qb = vars.v[1].clone();
    let coll0: LT = LT::from_vec(vec![qb.clone()]);
    proto_vulcan!([for e in &coll0 { conde { member(e, [3, 1]), qa == e, [e == ['a', e], qa != [[1], [2, false, false | qa], [1, e]]] }, [[e, e, []], ["bc"], [3, _, true | e]] == [_, qa, "a"] }])
}
pub fn case_48(vars: &Vars) -> InferredGoal<DU, DE, Goal<DU, DE>> {
    let qa = vars.v[0].clone();
    let qb = vars.v[1].clone();
    let coll0: Vec<LT> = vec![];
    proto_vulcan!([|t| { member(qb, [1, 3]), qa == [t, qa], t != [qa, t, "bc"] }, for e in &coll0 { true }])
}
pub fn case_49(vars: &Vars) -> InferredGoal<DU, DE, Goal<DU, DE>> {
    let qa = vars.v[0].clone();
    let qb = vars.v[1].clone();
    let coll0: LT = LT::from_vec(vec![lterm!(2)]);
    proto_vulcan!([for e in &coll0 { |z, y| { [[qb], [qa, qb | y], [e]] != qa, append(z, e, []), [qb, y | qa] == y }, (_, e) == e }])
}
pub fn case_50(vars: &Vars) -> InferredGoal<DU, DE, Goal<DU, DE>> {
    let qa = vars.v[0].clone();
    let qb = vars.v[1].clone();
    let coll0: Vec<LT> = vec![lterm!([1]), lterm!(2)];
    proto_vulcan!([3 == qa, for e in &coll0 { [1, qb] != qa }])
}
pub fn case_51(vars: &Vars) -> InferredGoal<DU, DE, Goal<DU, DE>> {
    let qa = vars.v[0].clone();
    let qb = vars.v[1].clone();
    let coll0: Vec<LT> = vec![];
    proto_vulcan!([for e in &coll0 { qb == qb, |tz| { tz == [1], [2 | tz] != [2, 1] } }])
}
pub fn case_52(vars: &Vars) -> InferredGoal<DU, DE, Goal<DU, DE>> {
    let qa = vars.v[0].clone();
    let qb = vars.v[1].clone();
    let coll0: LT = LT::from_vec(vec![lterm!(2)]);
    proto_vulcan!([|tz| { [3, 2, 3] != [3, 2 | tz], tz == [3] }, for e in &coll0 { [qb, 1, qa] != e, |tz| { tz == [2, 2], [2 | tz] != [2, 2, 2] } }])
}
pub fn case_53(vars: &Vars) -> InferredGoal<DU, DE, Goal<DU, DE>> {
    let qa = vars.v[0].clone();
    let qb = vars.v[1].clone();
    let coll0: Vec<LT> = vec![lterm!(1), qb.clone()];
    proto_vulcan!([for e in &coll0 { 'a' != qa, |h| { false, member(e, []), qa == [qb | h] } }])
}
pub fn case_54(vars: &Vars) -> InferredGoal<DU, DE, Goal<DU, DE>> {
    let qa = vars.v[0].clone();
    let qb = vars.v[1].clone();
    let coll0: Vec<LT> = vec![];
    proto_vulcan!([[append(qa, qb, [1, 2]), false], for e in &coll0 { [] }])
}
pub fn case_55(vars: &Vars) -> InferredGoal<DU, DE, Goal<DU, DE>> {
    let qa = vars.v[0].clone();
    let qb = vars.v[1].clone();
    let coll0: Vec<LT> = vec![lterm!(2), lterm!(2)];
    proto_vulcan!([[1 == [3], [qb, 3] == qa, qb == (2, [_])], for e in &coll0 { |h, z| { false }, |y| { qa == (_, 3), qb == [] } }])
}
pub fn case_56(vars: &Vars) -> InferredGoal<DU, DE, Goal<DU, DE>> {
    let qa = vars.v[0].clone();
    let qb = vars.v[1].clone();
    let coll0: LT = LT::from_vec(vec![lterm!([1])]);
    proto_vulcan!([for e in &coll0 { |z| { [[z, z], e, 3 | z] == [false], 2 == qb } }])
}
pub fn case_57(vars: &Vars) -> InferredGoal<DU, DE, Goal<DU, DE>> {
    let qa = vars.v[0].clone();
    let qb = vars.v[1].clone();
    let coll0: LT = LT::from_vec(vec![lterm!(3)]);
    proto_vulcan!([[(3, [_]) == qa, ([[]], [2]) == qa], for e in &coll0 { e == [e], |z, y| { [y | y] == z } }])
}
pub fn case_58(vars: &Vars) -> InferredGoal<DU, DE, Goal<DU, DE>> {
    let qa = vars.v[0].clone();
    let qb = vars.v[1].clone();
    let coll0: Vec<LT> = vec![];
    proto_vulcan!([for e in &coll0 { conde { member(qb, []), P3([], qb, _) == qb } }])
}
pub fn case_59(vars: &Vars) -> InferredGoal<DU, DE, Goal<DU, DE>> {
    let qa = vars.v[0].clone();
    let qb = vars.v[1].clone();
    let coll0: LT = LT::from_vec(vec![lterm!(2), qb.clone(), lterm!(2)]);
    proto_vulcan!([for e in &coll0 { [[2, _, e], ["a"]] == qb }])
}
pub fn case_60(vars: &Vars) -> InferredGoal<DU, DE, Goal<DU, DE>> {
    let qa = vars.v[0].clone();
    let qb = vars.v[1].clone();
    let coll0: LT = LT::from_vec(vec![lterm!(1), qa.clone(), lterm!(1)]);
    proto_vulcan!([for e in &coll0 { [[_, e] | qa] == qb, qa == qa }])
}
pub fn case_61(vars: &Vars) -> InferredGoal<DU, DE, Goal<DU, DE>> {
    let qa = vars.v[0].clone();
    let qb = vars.v[1].clone();
    let coll0: LT = LT::from_vec(vec![lterm!([2]), lterm!([2]), qb.clone()]);
    proto_vulcan!([member(qa, [3]), for e in &coll0 { qb == [[qb, 1 | qb] | qa] }])
}
pub fn case_62(vars: &Vars) -> InferredGoal<DU, DE, Goal<DU, DE>> {
    let qa = vars.v[0].clone();
    let qb = vars.v[1].clone();
    let coll0: LT = LT::from_vec(vec![lterm!(3)]);
    proto_vulcan!([[qb == [_ | qb], qb == 1, true], for e in &coll0 { |tz| { [2 | tz] != [2, 1], tz == [1] }, qb == [qb, qb, qb] }])
}
pub fn case_63(vars: &Vars) -> InferredGoal<DU, DE, Goal<DU, DE>> {
    let qa = vars.v[0].clone();
    let qb = vars.v[1].clone();
    let coll0: LT = LT::from_vec(vec![lterm!(1), qa.clone(), lterm!(2)]);
    proto_vulcan!([[qa, ["a", 1, 2 | qb], [1, qa, 1]] != [[1, 2], 1, [] | qa], for e in &coll0 { qb == true }])
}
pub fn case_64(vars: &Vars) -> InferredGoal<DU, DE, Goal<DU, DE>> {
    let qa = vars.v[0].clone();
    let qb = vars.v[1].clone();
    let coll0: LT = LT::from_vec(vec![lterm!(1)]);
    proto_vulcan!([true, for e in &coll0 { e == ([], _), [_, _, 1] == qb }])
}
pub fn case_65(vars: &Vars) -> InferredGoal<DU, DE, Goal<DU, DE>> {
    let qa = vars.v[0].clone();
    let qb = vars.v[1].clone();
    let coll0: LT = LT::from_vec(vec![lterm!(2)]);
    proto_vulcan!([for e in &coll0 { [[2] == qb, [e] == qa] }])
}
pub fn case_66(vars: &Vars) -> InferredGoal<DU, DE, Goal<DU, DE>> {
    let qa = vars.v[0].clone();
    let qb = vars.v[1].clone();
    let coll0: Vec<LT> = vec![];
    proto_vulcan!([for e in &coll0 { |y| { qb == "bc" } }])
}
pub fn case_67(vars: &Vars) -> InferredGoal<DU, DE, Goal<DU, DE>> {
    let qa = vars.v[0].clone();
    let qb = vars.v[1].clone();
    let coll0: LT = LT::from_vec(vec![lterm!(3)]);
    proto_vulcan!([true, for e in &coll0 { |t, x| { [[[], _], [1, []]] == e }, ([], qb) == qb }])
}
pub fn case_68(vars: &Vars) -> InferredGoal<DU, DE, Goal<DU, DE>> {
    let qa = vars.v[0].clone();
    let qb = vars.v[1].clone();
    let coll0: Vec<LT> = vec![];
    proto_vulcan!([for e in &coll0 { [qb] != qb, 3 == [1, 1 | qa] }])
}
pub fn case_69(vars: &Vars) -> InferredGoal<DU, DE, Goal<DU, DE>> {
    let qa = vars.v[0].clone();
    let qb = vars.v[1].clone();
    let coll0: Vec<LT> = vec![];
    proto_vulcan!([qb == qa, for e in &coll0 { qb == e }])
}
pub fn case_70(vars: &Vars) -> InferredGoal<DU, DE, Goal<DU, DE>> {
    let qa = vars.v[0].clone();
    let qb = vars.v[1].clone();
    let coll0: LT = LT::from_vec(vec![lterm!([1]), qa.clone(), qb.clone()]);
    proto_vulcan!([for e in &coll0 { qa == P3([], [], _) }])
}
pub fn case_71(vars: &Vars) -> InferredGoal<DU, DE, Goal<DU, DE>> {
    let qa = vars.v[0].clone();
    let qb = vars.v[1].clone();
    let coll0: LT = LT::from_vec(vec![lterm!(2), lterm!(2), lterm!([1])]);
    proto_vulcan!([([], qa) != 1, for e in &coll0 { P3([qb, []], [], e) == qa }])
}
pub fn case_72(vars: &Vars) -> InferredGoal<DU, DE, Goal<DU, DE>> {
    let qa = vars.v[0].clone();
    let qb = vars.v[1].clone();
    let coll0: LT = LT::from_vec(vec![lterm!(3)]);
    proto_vulcan!([qa == qb, for e in &coll0 { e != [_, 1, _], |tz| { [1, 2, 1] != [1 | tz], tz == [2, 1] } }])
}
pub fn case_73(vars: &Vars) -> InferredGoal<DU, DE, Goal<DU, DE>> {
    let qa = vars.v[0].clone();
    let qb = vars.v[1].clone();
    let coll0: LT = LT::from_vec(vec![lterm!(1)]);
    proto_vulcan!([[3, 3] == qa, for e in &coll0 { [[[] | qb] == qa, [qb] == qa], [] }])
}
pub fn case_74(vars: &Vars) -> InferredGoal<DU, DE, Goal<DU, DE>> {
    let qa = vars.v[0].clone();
    let qb = vars.v[1].clone();
    let coll0: Vec<LT> = vec![];
    proto_vulcan!([[true, [[]] | qa] == qb, for e in &coll0 { e == ([_, _], [qb, []]), e == P3(1, qb, _) }])
}
pub fn case_75(vars: &Vars) -> InferredGoal<DU, DE, Goal<DU, DE>> {
    let qa = vars.v[0].clone();
    let qb = vars.v[1].clone();
    let coll0: LT = LT::from_vec(vec![lterm!([1]), lterm!([2]), lterm!(1)]);
    proto_vulcan!([conde { [], [] }, for e in &coll0 { |h| { ([], e) == qb } }])
}
pub fn case_76(vars: &Vars) -> InferredGoal<DU, DE, Goal<DU, DE>> {
    let qa = vars.v[0].clone();
    let qb = vars.v[1].clone();
    let coll0: LT = LT::from_vec(vec![lterm!(2)]);
    proto_vulcan!([member(qa, []), for e in &coll0 { conde { [qb == [[] | qa], qa == [e, [], 3]], qa == [2, e, 1] } }])
}
pub fn case_77(vars: &Vars) -> InferredGoal<DU, DE, Goal<DU, DE>> {
    let qa = vars.v[0].clone();
    let qb = vars.v[1].clone();
    let coll0: Vec<LT> = vec![];
    proto_vulcan!([for e in &coll0 { |y, x| { x == 1, qb == [3, 2] }, append(e, e, []) }])
}
pub fn case_78(vars: &Vars) -> InferredGoal<DU, DE, Goal<DU, DE>> {
    let qa = vars.v[0].clone();
    let qb = vars.v[1].clone();
    let coll0: LT = LT::from_vec(vec![lterm!(3), lterm!(1), lterm!(1)]);
    proto_vulcan!([P3([], 3, [1]) == qb, for e in &coll0 { qa == qb, qa == [1, _, e] }])
}
pub fn case_79(vars: &Vars) -> InferredGoal<DU, DE, Goal<DU, DE>> {
    let qa = vars.v[0].clone();
    let qb = vars.v[1].clone();
    let coll0: Vec<LT> = vec![qa.clone(), qa.clone()];
    proto_vulcan!([for e in &coll0 { |h| { qa == qb, [2] == P3([h], 1, [qb]), [[], 2, qb | e] == qb }, |z, y| { e == z } }])
}
pub fn case_80(vars: &Vars) -> InferredGoal<DU, DE, Goal<DU, DE>> {
    let qa = vars.v[0].clone();
    let qb = vars.v[1].clone();
    let coll0: Vec<LT> = vec![];
    proto_vulcan!([for e in &coll0 { [[[qb, e, _]] == qb] }])
}
pub fn case_81(vars: &Vars) -> InferredGoal<DU, DE, Goal<DU, DE>> {
    let qa = vars.v[0].clone();
    let qb = vars.v[1].clone();
    let coll0: Vec<LT> = vec![lterm!([1]), lterm!([2])];
    proto_vulcan!([conde { 3 == [[qa, _, qb] | qa], [P3(qb, 1, _) == qa, append(qb, qa, [])], qa == (_, qa) }, for e in &coll0 { [[2, e, qb] == e] }])
}
pub fn case_82(vars: &Vars) -> InferredGoal<DU, DE, Goal<DU, DE>> {
    let qa = vars.v[0].clone();
    let qb = vars.v[1].clone();
    let coll0: Vec<LT> = vec![];
    proto_vulcan!([_ == qb, for e in &coll0 { |tz| { [1, 3, 3, 2] != [1, 3 | tz], tz == [3, 2] } }])
}
pub fn case_83(vars: &Vars) -> InferredGoal<DU, DE, Goal<DU, DE>> {
    let qa = vars.v[0].clone();
    let qb = vars.v[1].clone();
    let coll0: Vec<LT> = vec![lterm!([1]), lterm!(2)];
    proto_vulcan!([([[], []], []) == qb, for e in &coll0 { 'a' == qb }])
}
pub fn case_84(vars: &Vars) -> InferredGoal<DU, DE, Goal<DU, DE>> {
    let qa = vars.v[0].clone();
    let qb = vars.v[1].clone();
    let coll0: Vec<LT> = vec![];
    proto_vulcan!([for e in &coll0 { qa == [[3, qa, qb], "a", [qb, qb, 1]] }])
}
pub fn case_85(vars: &Vars) -> InferredGoal<DU, DE, Goal<DU, DE>> {
    let qa = vars.v[0].clone();
    let qb = vars.v[1].clone();
    let coll0: LT = LT::from_vec(vec![lterm!(3)]);
    proto_vulcan!([for e in &coll0 { [qa == 'b'] }])
}
pub fn case_86(vars: &Vars) -> InferredGoal<DU, DE, Goal<DU, DE>> {
    let qa = vars.v[0].clone();
    let qb = vars.v[1].clone();
    let coll0: Vec<LT> = vec![];
    proto_vulcan!([for e in &coll0 { |tz| { [2, 3, 3] != [2, 3 | tz], tz == [3] } }])
}
pub fn case_87(vars: &Vars) -> InferredGoal<DU, DE, Goal<DU, DE>> {
    let qa = vars.v[0].clone();
    let qb = vars.v[1].clone();
    let coll0: Vec<LT> = vec![qb.clone(), lterm!(3)];
    proto_vulcan!([for e in &coll0 { qa == e, e != [] }])
}
pub fn case_88(vars: &Vars) -> InferredGoal<DU, DE, Goal<DU, DE>> {
    let qa = vars.v[0].clone();
    let qb = vars.v[1].clone();
    let coll0: LT = LT::from_vec(vec![qb.clone()]);
    proto_vulcan!([[[]] == qa, for e in &coll0 { qa == [_, [], []], [e != []] }])
}
pub fn case_89(vars: &Vars) -> InferredGoal<DU, DE, Goal<DU, DE>> {
    let qa = vars.v[0].clone();
    let qb = vars.v[1].clone();
    let coll0: Vec<LT> = vec![lterm!(3), lterm!(1)];
    proto_vulcan!([qa == 1, for e in &coll0 { qa == [[3, 2], qa | qb] }])
}
pub fn case_90(vars: &Vars) -> InferredGoal<DU, DE, Goal<DU, DE>> {
    let qa = vars.v[0].clone();
    let qb = vars.v[1].clone();
    let coll0: Vec<LT> = vec![qa.clone(), lterm!(3)];
    proto_vulcan!([for e in &coll0 { [2] == e, |y, z| { z != qb, [z] == _, [1 | 1] != e } }])
}
pub fn case_91(vars: &Vars) -> InferredGoal<DU, DE, Goal<DU, DE>> {
    let qa = vars.v[0].clone();
    let qb = vars.v[1].clone();
    let coll0: LT = LT::from_vec(vec![lterm!([1]), lterm!([1]), lterm!(3)]);
    proto_vulcan!([for e in &coll0 { conde { qa == qb, [[qa] != e, append(qa, e, [2, 2])] } }])
}
pub fn case_92(vars: &Vars) -> InferredGoal<DU, DE, Goal<DU, DE>> {
    let qa = vars.v[0].clone();
    let qb = vars.v[1].clone();
    let coll0: LT = LT::from_vec(vec![lterm!([1])]);
    proto_vulcan!([for e in &coll0 { e == P3([_], 2, 3), e == qa }])
}
pub fn case_93(vars: &Vars) -> InferredGoal<DU, DE, Goal<DU, DE>> {
    let qa = vars.v[0].clone();
    let qb = vars.v[1].clone();
    let coll0: Vec<LT> = vec![lterm!(1), lterm!(3)];
    proto_vulcan!([for e in &coll0 { conde { [qa == [1, []], false] }, qa != P3(_, [2], e) }])
}
pub fn case_94(vars: &Vars) -> InferredGoal<DU, DE, Goal<DU, DE>> {
    let qa = vars.v[0].clone();
    let qb = vars.v[1].clone();
    let coll0: Vec<LT> = vec![qb.clone(), lterm!([2])];
    proto_vulcan!([for e in &coll0 { [[[]] == qa], conde { [qa == _, ([], _) == qa], |tz| { tz == [1], [3, 1 | tz] != [3, 1, 1] } } }])
}
pub fn case_95(vars: &Vars) -> InferredGoal<DU, DE, Goal<DU, DE>> {
    let qa = vars.v[0].clone();
    let qb = vars.v[1].clone();
    let coll0: Vec<LT> = vec![qa.clone(), lterm!(3)];
    proto_vulcan!([|h| { qa == qb, qa == ['b' | qa], qa == qa }, for e in &coll0 { [[e], 1] == qb, [_, e] == qb }])
}
pub fn case_96(vars: &Vars) -> InferredGoal<DU, DE, Goal<DU, DE>> {
    let qa = vars.v[0].clone();
    let qb = vars.v[1].clone();
    let coll0: LT = LT::from_vec(vec![lterm!(1)]);
    proto_vulcan!([for e in &coll0 { [e, qb, 3] == 1 }])
}
pub fn case_97(vars: &Vars) -> InferredGoal<DU, DE, Goal<DU, DE>> {
    let qa = vars.v[0].clone();
    let qb = vars.v[1].clone();
    let coll0: Vec<LT> = vec![qa.clone(), qa.clone()];
    proto_vulcan!([conde { [qb == 3, [1, [1, _ | qa], qa] == P3(_, qa, _)], [qb != [2, "bc" | qa], false] }, for e in &coll0 { [[2, qa], qb | qb] == P3(1, 3, []), e == P3(2, 2, []) }])
}
pub fn case_98(vars: &Vars) -> InferredGoal<DU, DE, Goal<DU, DE>> {
    let qa = vars.v[0].clone();
    let qb = vars.v[1].clone();
    let coll0: LT = LT::from_vec(vec![lterm!(3), lterm!([2]), lterm!([2])]);
    proto_vulcan!([for e in &coll0 { conde { e != 1, member(qb, [2, 1, 1]) } }])
}
pub fn case_99(vars: &Vars) -> InferredGoal<DU, DE, Goal<DU, DE>> {
    let qa = vars.v[0].clone();
    let qb = vars.v[1].clone();
    let coll0: Vec<LT> = vec![];
    proto_vulcan!([for e in &coll0 { |x, h| { ([], x) != qb }, e == [qa, true | qb] }])
}
pub fn case_100(vars: &Vars) -> InferredGoal<DU, DE, Goal<DU, DE>> {
    let qa = vars.v[0].clone();
    let qb = vars.v[1].clone();
    let coll0: Vec<LT> = vec![lterm!(1), qa.clone()];
    proto_vulcan!([qa == [2], for e in &coll0 { qb != (3, []) }])
}
pub fn case_101(vars: &Vars) -> InferredGoal<DU, DE, Goal<DU, DE>> {
    let qa = vars.v[0].clone();
    let qb = vars.v[1].clone();
    let coll0: Vec<LT> = vec![];
    proto_vulcan!([for e in &coll0 { |x| { e == _ }, [e == e, e != false] }])
}
pub fn case_102(vars: &Vars) -> InferredGoal<DU, DE, Goal<DU, DE>> {
    let qa = vars.v[0].clone();
    let qb = vars.v[1].clone();
    let coll0: LT = LT::from_vec(vec![lterm!(1), qb.clone(), lterm!([2])]);
    proto_vulcan!([qb == [[], qb], for e in &coll0 { [[3, 3 | qb], qa, [qb, false, qb | 1]] == e }])
}
pub fn case_103(vars: &Vars) -> InferredGoal<DU, DE, Goal<DU, DE>> {
    let qa = vars.v[0].clone();
    let qb = vars.v[1].clone();
    let coll0: LT = LT::from_vec(vec![lterm!(1)]);
    proto_vulcan!([for e in &coll0 { [_, e, qa | qa] != [[2] | e], 'a' == qa }])
}
pub fn case_104(vars: &Vars) -> InferredGoal<DU, DE, Goal<DU, DE>> {
    let qa = vars.v[0].clone();
    let qb = vars.v[1].clone();
    let coll0: Vec<LT> = vec![];
    proto_vulcan!([for e in &coll0 { ([3], qa) == e }])
}
pub fn case_105(vars: &Vars) -> InferredGoal<DU, DE, Goal<DU, DE>> {
    let qa = vars.v[0].clone();
    let qb = vars.v[1].clone();
    let coll0: LT = LT::from_vec(vec![qb.clone(), lterm!(3), qb.clone()]);
    proto_vulcan!([false, for e in &coll0 { |x| { member(e, []), |tz| { tz == [2, 3], [3, 2, 3] != [3 | tz] } }, e == [2 | e] }])
}
pub fn case_106(vars: &Vars) -> InferredGoal<DU, DE, Goal<DU, DE>> {
    let qa = vars.v[0].clone();
    let qb = vars.v[1].clone();
    let coll0: LT = LT::from_vec(vec![lterm!(1), lterm!(2), lterm!([2])]);
    proto_vulcan!([for e in &coll0 { [] != P3(qa, [], qa), conde { [], true, [append(qb, qa, [3, 1]), member(qb, [])] } }])
}
pub fn case_107(vars: &Vars) -> InferredGoal<DU, DE, Goal<DU, DE>> {
    let qa = vars.v[0].clone();
    let qb = vars.v[1].clone();
    let coll0: Vec<LT> = vec![lterm!([1]), qb.clone()];
    proto_vulcan!([for e in &coll0 { _ == ['a', e, qa], false }])
}
pub fn case_108(vars: &Vars) -> InferredGoal<DU, DE, Goal<DU, DE>> {
    let qa = vars.v[0].clone();
    let qb = vars.v[1].clone();
    let coll0: LT = LT::from_vec(vec![qb.clone(), lterm!([2]), qb.clone()]);
    proto_vulcan!([for e in &coll0 { |t| { (qb, 3) != P3(t, 3, _), qb == [_, 1, true], P3([], _, qb) == qb } }])
}
pub fn case_109(vars: &Vars) -> InferredGoal<DU, DE, Goal<DU, DE>> {
    let qa = vars.v[0].clone();
    let qb = vars.v[1].clone();
    let coll0: LT = LT::from_vec(vec![lterm!(2), qa.clone(), qb.clone()]);
    proto_vulcan!([for e in &coll0 { |tz| { tz == [2], [2, 1 | tz] != [2, 1, 2] } }])
}
pub fn case_110(vars: &Vars) -> InferredGoal<DU, DE, Goal<DU, DE>> {
    let qa = vars.v[0].clone();
    let qb = vars.v[1].clone();
    let coll0: Vec<LT> = vec![];
    proto_vulcan!([[[[qa, qb | qa], qa] == qb], for e in &coll0 { |y| {  } }])
}
pub fn case_111(vars: &Vars) -> InferredGoal<DU, DE, Goal<DU, DE>> {
    let qa = vars.v[0].clone();
    let qb = vars.v[1].clone();
    let coll0: Vec<LT> = vec![];
    proto_vulcan!([for e in &coll0 { [[], ["bc", _], qa] != e }])
}
pub fn case_112(vars: &Vars) -> InferredGoal<DU, DE, Goal<DU, DE>> {
    let qa = vars.v[0].clone();
    let qb = vars.v[1].clone();
    let coll0: Vec<LT> = vec![lterm!(2), lterm!(1)];
    proto_vulcan!([[qa, qa, 2 | qa] == qb, for e in &coll0 { [qa != 2, qb == [[3, qb, "a"] | 1]], append(e, e, [2, 2]) }])
}
pub fn case_113(vars: &Vars) -> InferredGoal<DU, DE, Goal<DU, DE>> {
    let qa = vars.v[0].clone();
    let qb = vars.v[1].clone();
    let coll0: LT = LT::from_vec(vec![lterm!(2)]);
    proto_vulcan!([for e in &coll0 { e == e, [[1 | 1] | 1] == qb }])
}
pub fn case_114(vars: &Vars) -> InferredGoal<DU, DE, Goal<DU, DE>> {
    let qa = vars.v[0].clone();
    let qb = vars.v[1].clone();
    let coll0: Vec<LT> = vec![lterm!(3), lterm!(1)];
    proto_vulcan!([qb == [qb], for e in &coll0 { ["bc", 1] == qb }])
}
pub fn case_115(vars: &Vars) -> InferredGoal<DU, DE, Goal<DU, DE>> {
    let qa = vars.v[0].clone();
    let qb = vars.v[1].clone();
    let coll0: LT = LT::from_vec(vec![lterm!([1]), lterm!(3), lterm!(3)]);
    proto_vulcan!([|tz| { tz == [1], [2, 1] != [2 | tz] }, for e in &coll0 { |z| { qa == [1, 2, e] }, qb == 1 }])
}
pub fn case_116(vars: &Vars) -> InferredGoal<DU, DE, Goal<DU, DE>> {
    let qa = vars.v[0].clone();
    let qb = vars.v[1].clone();
    let coll0: Vec<LT> = vec![];
    proto_vulcan!([conde { [qa == [1 | qa], |tz| { [3, 3, 1] != [3 | tz], tz == [3, 1] }], [false, |tz| { [2 | tz] != [2, 3, 1], tz == [3, 1] }], true == [[[], qb, qa], [2, 2, qa | 2], qa] }, for e in &coll0 { |x, z| {  } }])
}
pub fn case_117(vars: &Vars) -> InferredGoal<DU, DE, Goal<DU, DE>> {
    let qa = vars.v[0].clone();
    let qb = vars.v[1].clone();
    let coll0: LT = LT::from_vec(vec![qa.clone(), qa.clone(), lterm!(3)]);
    proto_vulcan!([qa == [2, "a"], for e in &coll0 { qa == e }])
}
pub fn case_118(vars: &Vars) -> InferredGoal<DU, DE, Goal<DU, DE>> {
    let qa = vars.v[0].clone();
    let qb = vars.v[1].clone();
    let coll0: LT = LT::from_vec(vec![lterm!(1), qb.clone(), lterm!(3)]);
    proto_vulcan!([qb != [qb, qb | qa], for e in &coll0 { qa == [2, 'a'], append(e, qa, [3, 1]) }])
}
pub fn case_119(vars: &Vars) -> InferredGoal<DU, DE, Goal<DU, DE>> {
    let qa = vars.v[0].clone();
    let qb = vars.v[1].clone();
    let coll0: LT = LT::from_vec(vec![lterm!(1)]);
    proto_vulcan!([for e in &coll0 { conde { [[qa, [3, 2], [_, [], 3 | qb] | e] != [1, 1], qb == [[2] | 2]], qb == [2, 1, 3], true } }])
}
pub fn case_120(vars: &Vars) -> InferredGoal<DU, DE, Goal<DU, DE>> {
    let qa = vars.v[0].clone();
    let qb = vars.v[1].clone();
    let coll0: Vec<LT> = vec![];
    proto_vulcan!([for e in &coll0 { qa == [], e != ['b', e] }])
}
pub fn case_121(vars: &Vars) -> InferredGoal<DU, DE, Goal<DU, DE>> {
    let qa = vars.v[0].clone();
    let qb = vars.v[1].clone();
    let coll0: LT = LT::from_vec(vec![lterm!([2])]);
    proto_vulcan!([for e in &coll0 { |x| { [2 | qb] == qb, qb != [[true, [], _], [], 3] } }])
}
pub fn case_122(vars: &Vars) -> InferredGoal<DU, DE, Goal<DU, DE>> {
    let qa = vars.v[0].clone();
    let qb = vars.v[1].clone();
    let coll0: Vec<LT> = vec![qb.clone(), lterm!([2])];
    proto_vulcan!([for e in &coll0 { qb == qb, [2] == qb }])
}
pub fn case_123(vars: &Vars) -> InferredGoal<DU, DE, Goal<DU, DE>> {
    let qa = vars.v[0].clone();
    let qb = vars.v[1].clone();
    let coll0: LT = LT::from_vec(vec![lterm!(3)]);
    proto_vulcan!([for e in &coll0 { |x| {  } }])
}
pub fn case_124(vars: &Vars) -> InferredGoal<DU, DE, Goal<DU, DE>> {
    let qa = vars.v[0].clone();
    let qb = vars.v[1].clone();
    let coll0: Vec<LT> = vec![lterm!([2]), lterm!(2)];
    proto_vulcan!([for e in &coll0 { conde { e == ([], 1) } }])
}
pub fn case_125(vars: &Vars) -> InferredGoal<DU, DE, Goal<DU, DE>> {
    let qa = vars.v[0].clone();
    let qb = vars.v[1].clone();
    let coll0: LT = LT::from_vec(vec![lterm!([2])]);
    proto_vulcan!([conde { |tz| { [1 | tz] != [1, 1, 3], tz == [1, 3] }, [], [qb != P3([], [1], 1), [] != [[qb, qb, qa | qa]]] }, for e in &coll0 { false, 2 == [[2 | e]] }])
}
pub fn case_126(vars: &Vars) -> InferredGoal<DU, DE, Goal<DU, DE>> {
    let qa = vars.v[0].clone();
    let qb = vars.v[1].clone();
    let coll0: LT = LT::from_vec(vec![lterm!([1])]);
    proto_vulcan!([[append(qa, qb, [])], for e in &coll0 { |t| { 3 == qa, qb == [2, 3], e == ['a' | t] } }])
}
pub fn case_127(vars: &Vars) -> InferredGoal<DU, DE, Goal<DU, DE>> {
    let qa = vars.v[0].clone();
    let qb = vars.v[1].clone();
    let coll0: LT = LT::from_vec(vec![lterm!(3)]);
    proto_vulcan!([[[qb, qa, qb], qb, 'b'] == 2, for e in &coll0 { [(3, qb) == _, qb != P3(e, e, 2), [[], "bc"] == qa] }])
}
pub fn case_128(vars: &Vars) -> InferredGoal<DU, DE, Goal<DU, DE>> {
    let qa = vars.v[0].clone();
    let qb = vars.v[1].clone();
    let coll0: LT = LT::from_vec(vec![lterm!(1), lterm!(1), lterm!(1)]);
    proto_vulcan!([for e in &coll0 { |t| { member(qb, []) } }])
}
pub fn case_129(vars: &Vars) -> InferredGoal<DU, DE, Goal<DU, DE>> {
    let qa = vars.v[0].clone();
    let qb = vars.v[1].clone();
    let coll0: Vec<LT> = vec![];
    proto_vulcan!([for e in &coll0 { qb != 1, |z, x| {  } }])
}
pub fn case_130(vars: &Vars) -> InferredGoal<DU, DE, Goal<DU, DE>> {
    let qa = vars.v[0].clone();
    let qb = vars.v[1].clone();
    let coll0: LT = LT::from_vec(vec![qb.clone(), lterm!([2]), lterm!(2)]);
    proto_vulcan!([for e in &coll0 { qb != [[1, 2, _], [false, 1, e]] }])
}
pub fn case_131(vars: &Vars) -> InferredGoal<DU, DE, Goal<DU, DE>> {
    let qa = vars.v[0].clone();
    let qb = vars.v[1].clone();
    let coll0: LT = LT::from_vec(vec![qb.clone()]);
    proto_vulcan!([P3(3, [qa, qa], qb) == qb, for e in &coll0 { [qb | qa] == e }])
}
pub fn case_132(vars: &Vars) -> InferredGoal<DU, DE, Goal<DU, DE>> {
    let qa = vars.v[0].clone();
    let qb = vars.v[1].clone();
    let coll0: Vec<LT> = vec![];
    proto_vulcan!([for e in &coll0 { qa == [qa], qa != _ }])
}
pub fn case_133(vars: &Vars) -> InferredGoal<DU, DE, Goal<DU, DE>> {
    let qa = vars.v[0].clone();
    let qb = vars.v[1].clone();
    let coll0: LT = LT::from_vec(vec![lterm!([1]), lterm!(1), lterm!(1)]);
    proto_vulcan!([for e in &coll0 { append(qb, e, [3, 1]), |tz| { [1, 1, 2] != [1, 1 | tz], tz == [2] } }])
}
pub fn case_134(vars: &Vars) -> InferredGoal<DU, DE, Goal<DU, DE>> {
    let qa = vars.v[0].clone();
    let qb = vars.v[1].clone();
    let coll0: Vec<LT> = vec![lterm!(2), lterm!(1)];
    proto_vulcan!([for e in &coll0 { [[2, 1, qb], [e, true | 3], ["a", qa]] == [2, []], 2 != [1, _, 1] }])
}
pub fn case_135(vars: &Vars) -> InferredGoal<DU, DE, Goal<DU, DE>> {
    let qa = vars.v[0].clone();
    let qb = vars.v[1].clone();
    let coll0: Vec<LT> = vec![];
    proto_vulcan!([for e in &coll0 { "a" == e, |y, h| { y == qa, e != P3(y, h, []) } }])
}
pub fn case_136(vars: &Vars) -> InferredGoal<DU, DE, Goal<DU, DE>> {
    let qa = vars.v[0].clone();
    let qb = vars.v[1].clone();
    let coll0: LT = LT::from_vec(vec![lterm!(2)]);
    proto_vulcan!([qa == qb, for e in &coll0 { append(qb, e, [2, 3]) }])
}
pub fn case_137(vars: &Vars) -> InferredGoal<DU, DE, Goal<DU, DE>> {
    let qa = vars.v[0].clone();
    let qb = vars.v[1].clone();
    let coll0: Vec<LT> = vec![];
    proto_vulcan!([for e in &coll0 { conde { qb == e, e == [[]], [|tz| { [2, 2, 2] != [2 | tz], tz == [2, 2] }, ([qb, 1], 2) == P3([1], 1, [])] } }])
}
pub fn case_138(vars: &Vars) -> InferredGoal<DU, DE, Goal<DU, DE>> {
    let qa = vars.v[0].clone();
    let qb = vars.v[1].clone();
    let coll0: LT = LT::from_vec(vec![lterm!(2)]);
    proto_vulcan!([for e in &coll0 { qa != qa, conde { P3(1, e, 3) == 1, ['b' | qa] == qa } }])
}
pub fn case_139(vars: &Vars) -> InferredGoal<DU, DE, Goal<DU, DE>> {
    let qa = vars.v[0].clone();
    let qb = vars.v[1].clone();
    let coll0: LT = LT::from_vec(vec![lterm!(1), qa.clone(), lterm!([2])]);
    proto_vulcan!([for e in &coll0 { conde { member(qb, []), member(qb, []), [|tz| { tz == [3], [2, 3] != [2 | tz] }, false] } }])
}
pub fn case_140(vars: &Vars) -> InferredGoal<DU, DE, Goal<DU, DE>> {
    let x = vars.v[0].clone();
    proto_vulcan!([match x { [x | _] => x == 1, }])
}
pub fn case_141(vars: &Vars) -> InferredGoal<DU, DE, Goal<DU, DE>> {
    let x = vars.v[0].clone();
    let y = vars.v[1].clone();
    proto_vulcan!([match x { [h, h] => h == y, }])
}
pub fn case_142(vars: &Vars) -> InferredGoal<DU, DE, Goal<DU, DE>> {
    let x = vars.v[0].clone();
    proto_vulcan!([match x { [] | [_] => , [_, _ | t] => t == [], }])
}
pub fn case_143(vars: &Vars) -> InferredGoal<DU, DE, Goal<DU, DE>> {
    let x = vars.v[0].clone();
    let y = vars.v[1].clone();
    proto_vulcan!([member(x, [1, 2]), matcha x { 1 => y == 10, _ => y == 20, }])
}
pub fn case_144(vars: &Vars) -> InferredGoal<DU, DE, Goal<DU, DE>> {
    let x = vars.v[0].clone();
    let y = vars.v[1].clone();
    proto_vulcan!([matchu [x, y] { [h, _] => member(h, [1, 2]), _ => , }])
}
pub fn case_145(vars: &Vars) -> InferredGoal<DU, DE, Goal<DU, DE>> {
    let x = vars.v[0].clone();
    let y = vars.v[1].clone();
    proto_vulcan!([match y { 1 => [x == [1, y], x == y], P3(x, 3, z) => { conde { [["a", []] != z, false] } }, }])
}
pub fn case_146(vars: &Vars) -> InferredGoal<DU, DE, Goal<DU, DE>> {
    let q = vars.v[0].clone();
    let x = vars.v[1].clone();
    proto_vulcan!([2 == x, match q { [[t, 1, 1], [1, 2, _] | _] | _ => { |h| { x != [2, _, 3], |tz| { tz == [3], [3 | tz] != [3, 3] } }, |y, z| { x == [q, z, [] | q] } }, [[1, [], []], [[], t, z] | _] => , }])
}
pub fn case_147(vars: &Vars) -> InferredGoal<DU, DE, Goal<DU, DE>> {
    let x = vars.v[0].clone();
    let y = vars.v[1].clone();
    proto_vulcan!([matche x { [[x]] => , }])
}
pub fn case_148(vars: &Vars) -> InferredGoal<DU, DE, Goal<DU, DE>> {
    let x = vars.v[0].clone();
    let y = vars.v[1].clone();
    proto_vulcan!([|y| { x == P3([2], x, _), [] == P3(2, [2, _], 1) }, matche [[], 2] { P3([], [_], x) | P3(t, h, 2) => , _ | true => [['b'] == y, conde { [y == 2, y != 'a'], y == y }], }])
}
pub fn case_149(vars: &Vars) -> InferredGoal<DU, DE, Goal<DU, DE>> {
    let q = vars.v[0].clone();
    let x = vars.v[1].clone();
    proto_vulcan!([matchu _ { _ | _ => [q == 7, q == 8], _ => { x == 7, x == 8 }, [[], [2, _, 3 | h] | _] | _ => append(q, x, [1]), }])
}
pub fn case_150(vars: &Vars) -> InferredGoal<DU, DE, Goal<DU, DE>> {
    let q = vars.v[0].clone();
    let x = vars.v[1].clone();
    proto_vulcan!([matche x { z => { q == q, |h| { q != [x, [], _], [2, z, q] == z, [1, 'a', 1 | x] != x } }, 2 | [[t, 2, _ | z]] => x == [x | q], Named { a: [1], b: 1 } => { |z| { false }, matcha [x, x, 1] { [[false], h, [_, y]] => { [2, x, 2] == q, h == [q] }, } }, }])
}
pub fn case_151(vars: &Vars) -> InferredGoal<DU, DE, Goal<DU, DE>> {
    let x = vars.v[0].clone();
    let y = vars.v[1].clone();
    proto_vulcan!([match y { P3([_, 3], h, [2]) => conde { y == [y, [], x], append(y, h, []), member(h, []) }, ['b', true] | P3(x, _, z) => [conde { [|tz| { [1, 1, 3, 3] != [1, 1 | tz], tz == [3, 3] }, [y, 2, y] == y], append(y, y, []) }, y == (1, _)], _ => x != [[y | x], 3 | y], }])
}
pub fn case_152(vars: &Vars) -> InferredGoal<DU, DE, Goal<DU, DE>> {
    let x = vars.v[0].clone();
    let y = vars.v[1].clone();
    proto_vulcan!([conde { [x, _ | y] == P3(y, y, [y, 3]), [[y], [_]] != x, [x == x, 1 == [y, x, [] | x]] }, matcha x { [1, [t, y]] | _ => { onceo { x == P3([[]], [1, 3], _) } }, _ => [conda { [[3] != y, [x] == ['b' | x]], append(x, x, []) }, |x| { x == 2 }], }])
}
pub fn case_153(vars: &Vars) -> InferredGoal<DU, DE, Goal<DU, DE>> {
    let x = vars.v[0].clone();
    let y = vars.v[1].clone();
    proto_vulcan!([conde { [(1, 1) == x, 1 == y], [false, ([], [[], _]) == x], y != (x, 3) }, match x { [[3 | x]] => [matchu y { [] => { append(x, y, []) }, y => , [[y, t, z | x], [h, 3, z], [1, 3, 1 | h]] => h == [t], }, matche y { Named { a: t, b: [x, z] } => { append(x, x, []), member(x, [1]) }, [[_], [false, false], [t, 3, x]] => |tz| { [1, 1 | tz] != [1, 1, 3, 1], tz == [3, 1] }, }], _ => { y == 7, y == 8 }, }])
}
pub fn case_154(vars: &Vars) -> InferredGoal<DU, DE, Goal<DU, DE>> {
    let x = vars.v[0].clone();
    proto_vulcan!([|tz| { tz == [2], [3, 3, 2] != [3, 3 | tz] }, matchu x { P3([y, _], [], []) => conde { |tz| { tz == [1], [2, 2 | tz] != [2, 2, 1] } }, [x | _] => [conde { P3([], x, _) == x, [x == P3([], x, x), x != [x]], x != x }, onceo { x == x }], P3(2, 2, h) => [matchu x { _ | _ => , _ | _ => { x == 7, x == 8 }, }, |z, y| { false }], }])
}
pub fn case_155(vars: &Vars) -> InferredGoal<DU, DE, Goal<DU, DE>> {
    let q = vars.v[0].clone();
    let x = vars.v[1].clone();
    proto_vulcan!([condu { (_, 3) == x, q == [q, [] | 1], [[q, x] == q, x == 3] }, match x { Named { a: [_], b: h } => [x == [q, 1], [1, "a", 1] == q], P3([], 2, 2) => [match q { [2, [z, 3], [h, x, z]] => { append(x, z, [2, 3]), x == [] }, }, [_, [], q] == q], }])
}
pub fn case_156(vars: &Vars) -> InferredGoal<DU, DE, Goal<DU, DE>> {
    let x = vars.v[0].clone();
    proto_vulcan!([|t| { [[2 | t]] == x }, match x { [[x, t | z], [1]] | [1, 1, [3]] => , [[3, 2, 3], [1 | t], 1] => , }])
}
pub fn case_157(vars: &Vars) -> InferredGoal<DU, DE, Goal<DU, DE>> {
    let x = vars.v[0].clone();
    proto_vulcan!([onceo { true == x }, matchu x { "a" | 1 => { ([2, x], [x, x]) == x }, }])
}
pub fn case_158(vars: &Vars) -> InferredGoal<DU, DE, Goal<DU, DE>> {
    let x = vars.v[0].clone();
    let y = vars.v[1].clone();
    proto_vulcan!([matche y { _ => { y == 7, y == 8 }, }])
}
pub fn case_159(vars: &Vars) -> InferredGoal<DU, DE, Goal<DU, DE>> {
    let x = vars.v[0].clone();
    proto_vulcan!([matcha x { [[z, x | _]] | _ => , [[z, 1 | h], [2, 2, "bc"], h] | Named { a: y, b: 1 } => , t | true => { [] }, }])
}
pub fn case_160(vars: &Vars) -> InferredGoal<DU, DE, Goal<DU, DE>> {
    let x = vars.v[0].clone();
    proto_vulcan!([matchu x { [[1, x | 'b']] | y => , z => { onceo { [1, x, 3] != [[[]] | z] } }, }])
}
pub fn case_161(vars: &Vars) -> InferredGoal<DU, DE, Goal<DU, DE>> {
    let q = vars.v[0].clone();
    let x = vars.v[1].clone();
    proto_vulcan!([conde { [], [append(x, x, [1, 2]), false], append(q, x, [1, 3]) }, matchu x { [[z, 3, _]] => [z, 1 | x] == x, _ | [[1, h, t], [3, 2] | _] => { conde { [append(x, x, []), true], [[[], x, _] == q, |tz| { [3, 1 | tz] != [3, 1, 2, 2], tz == [2, 2] }], member(q, []) }, conda { [[x | q] == q, q == false], q != [1], member(q, [1, 2]) } }, _ => { ([x, x], [3]) == q }, }])
}
pub fn case_162(vars: &Vars) -> InferredGoal<DU, DE, Goal<DU, DE>> {
    let q = vars.v[0].clone();
    let x = vars.v[1].clone();
    proto_vulcan!([matche x { _ => , [] | [2] => matcha x { [[] | y] | [[2, _, _], [1, h, _]] => [_, x, x] == x, [] | _ => false, }, 1 => matchu x { _ | [[z, t, y], ["bc" | true], [_ | _]] => , }, }])
}
pub fn case_163(vars: &Vars) -> InferredGoal<DU, DE, Goal<DU, DE>> {
    let x = vars.v[0].clone();
    let y = vars.v[1].clone();
    proto_vulcan!([condu { [y == _, append(x, x, [2, 1])], x == [[2 | y] | x] }, matchu [] { [1, [2]] => , [[t, 2, 'b' | h]] => [|tz| { tz == [3], [1, 3] != [1 | tz] }, [y == y, member(x, [1, 1, 2]), |tz| { [1, 2, 2, 3] != [1, 2 | tz], tz == [2, 3] }]], }])
}
pub fn case_164(vars: &Vars) -> InferredGoal<DU, DE, Goal<DU, DE>> {
    let x = vars.v[0].clone();
    let y = vars.v[1].clone();
    proto_vulcan!([append(x, x, [3, 3]), matchu [x, 2, y] { [] | [[h, 2, [] | _], [z, _, 3], z | y] => , [[2, 1, []], 2] => , [[2, 3, 1 | _] | _] | P3(1, z, y) => , }])
}
pub fn case_165(vars: &Vars) -> InferredGoal<DU, DE, Goal<DU, DE>> {
    let x = vars.v[0].clone();
    let y = vars.v[1].clone();
    proto_vulcan!([conde { y != 1, [|tz| { [3, 1] != [3 | tz], tz == [1] }, append(y, x, [])] }, match ['b', [], x | x] { 1 => { (x, y) == y, |y, x| { [1, ["bc", y | y], [false]] != [x, x, 2], x == (_, [3, 2]), y == [[x | 2]] } }, _ => { matcha x { _ => { [y, 2 | true] != x, append(y, x, []) }, P3([x, _], 2, 1) => { [[]] == y, x != [[3, 'a', 3], "bc", 1] }, _ => { 2 != y, append(y, y, [3, 2]) }, }, P3([3, 1], y, x) == P3([], 1, 2) }, }])
}
pub fn case_166(vars: &Vars) -> InferredGoal<DU, DE, Goal<DU, DE>> {
    let x = vars.v[0].clone();
    proto_vulcan!([matcha x { [[_, _, z], 'b', 3] => , }])
}
pub fn case_167(vars: &Vars) -> InferredGoal<DU, DE, Goal<DU, DE>> {
    let x = vars.v[0].clone();
    proto_vulcan!([conde { [3, 1 | x] == x }, matche x { [1, [t, t, []]] => member(x, []), }])
}
pub fn case_168(vars: &Vars) -> InferredGoal<DU, DE, Goal<DU, DE>> {
    let x = vars.v[0].clone();
    let y = vars.v[1].clone();
    proto_vulcan!([[true, x == [3, x, 3 | x]], match y { [[t], [3, 2]] => , _ => { x == 7, x == 8 }, [2, [_]] => { conda { false }, [1, 1, _] == [[[], [], 2]] }, }])
}
pub fn case_169(vars: &Vars) -> InferredGoal<DU, DE, Goal<DU, DE>> {
    let q = vars.v[0].clone();
    let x = vars.v[1].clone();
    proto_vulcan!([matchu x { true => , y => member(q, [1]), }])
}
pub fn case_170(vars: &Vars) -> InferredGoal<DU, DE, Goal<DU, DE>> {
    let x = vars.v[0].clone();
    let y = vars.v[1].clone();
    proto_vulcan!([matcha [[]] { _ => , }])
}
pub fn case_171(vars: &Vars) -> InferredGoal<DU, DE, Goal<DU, DE>> {
    let x = vars.v[0].clone();
    let y = vars.v[1].clone();
    proto_vulcan!([matcha y { _ => [y == 7, y == 8], }])
}
pub fn case_172(vars: &Vars) -> InferredGoal<DU, DE, Goal<DU, DE>> {
    let x = vars.v[0].clone();
    let y = vars.v[1].clone();
    proto_vulcan!([matche y { _ => { ([], x) == y, match x { [[x], 1] => , Named { a: 2, b: [y] } => [([], [x]) == _, x == [x, x, 1]], [[z, 1 | h], [h | _]] => , } }, [[y, h | _], [1, h, 'b'], 3 | t] => { [[y] | 2] == t }, }])
}
pub fn case_173(vars: &Vars) -> InferredGoal<DU, DE, Goal<DU, DE>> {
    let q = vars.v[0].clone();
    let x = vars.v[1].clone();
    proto_vulcan!([q == 2, matchu q { [] => , [] => , [[_, 3], z] | _ => , }])
}
pub fn case_174(vars: &Vars) -> InferredGoal<DU, DE, Goal<DU, DE>> {
    let x = vars.v[0].clone();
    let y = vars.v[1].clone();
    proto_vulcan!([y == (x, 2), match ['b', x, y] { [[false], [x], 2 | _] => [y == y, [x, [x | x], [[], true]] != [x | x]], P3([], [[]], [3, 1]) => { onceo { |tz| { [1 | tz] != [1, 1, 2], tz == [1, 2] } } }, }])
}
pub fn case_175(vars: &Vars) -> InferredGoal<DU, DE, Goal<DU, DE>> {
    let q = vars.v[0].clone();
    let x = vars.v[1].clone();
    proto_vulcan!([matchu x { z | 3 => { [1, [x, x, q], [2, 1, _]] == q }, [z, [3, y, 1] | x] | [[t], [h, _]] => , }])
}
pub fn case_176(vars: &Vars) -> InferredGoal<DU, DE, Goal<DU, DE>> {
    let q = vars.v[0].clone();
    let x = vars.v[1].clone();
    proto_vulcan!([matcha [x, x, 1] { _ => member(q, [1, 2, 3]), _ => , }])
}
pub fn case_177(vars: &Vars) -> InferredGoal<DU, DE, Goal<DU, DE>> {
    let x = vars.v[0].clone();
    let y = vars.v[1].clone();
    proto_vulcan!([|x| { y != 'b', y == [[]] }, match x { [[1, 2, y], [2], [2, _, "a"] | _] => { conde { y == 'a', [y != [y, 1], P3([], 2, [1]) == [1]] }, false }, }])
}
pub fn case_178(vars: &Vars) -> InferredGoal<DU, DE, Goal<DU, DE>> {
    let x = vars.v[0].clone();
    proto_vulcan!([|x| {  }, matcha [] { Named { a: 1, b: 2 } => { x != 1 }, P3(_, [h, 2], _) | [[y, 3], [2 | 3], 1] => [matche x { x | [[2, []], [z, 3, 1], [z]] => , [[t, x], true | y] => , y => y == [[y | 3], y, y], }, true], }])
}
pub fn case_179(vars: &Vars) -> InferredGoal<DU, DE, Goal<DU, DE>> {
    let x = vars.v[0].clone();
    let y = vars.v[1].clone();
    proto_vulcan!([conde { |tz| { [3, 3 | tz] != [3, 3, 1], tz == [1] } }, match x { [[_]] => { |y, z| { false, append(x, y, []) }, conde { [true, [_, 'a'] == x], [x != 1, [1 | x] == [y]] } }, }])
}
pub fn case_180(vars: &Vars) -> InferredGoal<DU, DE, Goal<DU, DE>> {
    let q = vars.v[0].clone();
    let x = vars.v[1].clone();
    proto_vulcan!([match x { Named { a: _, b: y } | h => { false, [P3(q, _, q) != q, [[q, x] | x] == q] }, [[t, []], 3 | 3] => , }])
}
pub fn case_181(vars: &Vars) -> InferredGoal<DU, DE, Goal<DU, DE>> {
    let x = vars.v[0].clone();
    proto_vulcan!([|h, t| { |tz| { tz == [2], [3, 2] != [3 | tz] }, [h, h, t | h] != t }, matcha x { _ | [[z | t], t] => , _ => { conde { [[[2], _] == x, [x, 2] != x] } }, }])
}
pub fn case_182(vars: &Vars) -> InferredGoal<DU, DE, Goal<DU, DE>> {
    let q = vars.v[0].clone();
    let x = vars.v[1].clone();
    proto_vulcan!([matche q { t => , _ => { [q != q, append(q, x, [])], |h| { false, |tz| { [2 | tz] != [2, 3, 1], tz == [3, 1] }, 2 == h } }, }])
}
pub fn case_183(vars: &Vars) -> InferredGoal<DU, DE, Goal<DU, DE>> {
    let q = vars.v[0].clone();
    let x = vars.v[1].clone();
    proto_vulcan!([|t| { q != (q, []), P3([_], x, x) == q }, match x { [z] => { |t| { (1, []) == q, [q, x, t] == x, [1] != t }, append(q, x, [1, 3]) }, _ => [q == 7, q == 8], [[1], [y, y] | _] | [_, [2, t], [h, x]] => , }])
}
pub fn case_184(vars: &Vars) -> InferredGoal<DU, DE, Goal<DU, DE>> {
    let x = vars.v[0].clone();
    let y = vars.v[1].clone();
    proto_vulcan!([matchu x { _ | [[3, false, y], [3], [2, x, 1]] => , ["bc"] => , [[y], [_] | y] => { append(y, x, [2, 3]) }, }])
}
pub fn case_185(vars: &Vars) -> InferredGoal<DU, DE, Goal<DU, DE>> {
    let q = vars.v[0].clone();
    let x = vars.v[1].clone();
    proto_vulcan!([match x { [[1] | x] | [[3, t, true | 1] | h] => [conda { q == [['a'], q | 1] }, |z| { q != q }], }])
}
pub fn case_186(vars: &Vars) -> InferredGoal<DU, DE, Goal<DU, DE>> {
    let x = vars.v[0].clone();
    proto_vulcan!([|z, t| { true, true, [[1], [t, t, x], [x, z | z] | t] != P3(_, 1, z) }, matche 2 { 1 => [conda { [append(x, x, [1]), x == [x]] }, |tz| { [2 | tz] != [2, 3], tz == [3] }], h | 2 => , }])
}
pub fn case_187(vars: &Vars) -> InferredGoal<DU, DE, Goal<DU, DE>> {
    let q = vars.v[0].clone();
    let x = vars.v[1].clone();
    proto_vulcan!([match [x | x] { Named { a: _, b: t } => , [[1], [_, y, []]] => { y == [x, 1] }, }])
}
pub fn case_188(vars: &Vars) -> InferredGoal<DU, DE, Goal<DU, DE>> {
    let x = vars.v[0].clone();
    let y = vars.v[1].clone();
    proto_vulcan!([[] == x, match y { Named { a: 3, b: y } | P3(3, t, [2]) => , }])
}
pub fn case_189(vars: &Vars) -> InferredGoal<DU, DE, Goal<DU, DE>> {
    let x = vars.v[0].clone();
    let y = vars.v[1].clone();
    proto_vulcan!([match x { [[[], _ | t]] => , _ => { |y, z| { [_, [2, 2 | y] | 2] == y } }, _ => [y == 7, y == 8], }])
}
pub fn case_190(vars: &Vars) -> InferredGoal<DU, DE, Goal<DU, DE>> {
    let x = vars.v[0].clone();
    let y = vars.v[1].clone();
    proto_vulcan!([([], [y]) == [[_, [], y], [true, 1], 1], matchu y { P3(_, [], t) => [|h| { member(h, [1, 3]), true }, matcha y { _ => [t == 7, t == 8], true | [[[], _, 2]] => , _ => { member(x, [1, 2, 3]) }, }], }])
}
pub fn case_191(vars: &Vars) -> InferredGoal<DU, DE, Goal<DU, DE>> {
    let x = vars.v[0].clone();
    let y = vars.v[1].clone();
    proto_vulcan!([conde { append(x, y, [1, 1]) }, match y { Named { a: [3], b: t } => { matcha t { P3([[]], [[]], [1]) => , _ => , } }, }])
}
pub fn case_192(vars: &Vars) -> InferredGoal<DU, DE, Goal<DU, DE>> {
    let x = vars.v[0].clone();
    proto_vulcan!([matcha x { [[t, t | t]] => { |t| { append(t, t, []), [[] | t] != x } }, }])
}
pub fn case_193(vars: &Vars) -> InferredGoal<DU, DE, Goal<DU, DE>> {
    let x = vars.v[0].clone();
    proto_vulcan!([matcha x { 1 => [[x != (3, x)]], _ => { matcha x { _ => { 'a' == x }, }, x != [1, [[] | x]] }, }])
}
pub fn case_194(vars: &Vars) -> InferredGoal<DU, DE, Goal<DU, DE>> {
    let x = vars.v[0].clone();
    proto_vulcan!([|t, z| { t == [3, [t, z]], z != (_, []) }, matchu x { P3(_, x, _) | [[]] => , }])
}
pub fn case_195(vars: &Vars) -> InferredGoal<DU, DE, Goal<DU, DE>> {
    let q = vars.v[0].clone();
    let x = vars.v[1].clone();
    proto_vulcan!([matchu q { ["a"] => , }])
}
pub fn case_196(vars: &Vars) -> InferredGoal<DU, DE, Goal<DU, DE>> {
    let x = vars.v[0].clone();
    proto_vulcan!([match x { Named { a: 2, b: [] } => { |h| { x == [x], 'a' != [h, h, 3] }, false }, Named { a: [2, x], b: 3 } => , }])
}
pub fn case_197(vars: &Vars) -> InferredGoal<DU, DE, Goal<DU, DE>> {
    let q = vars.v[0].clone();
    let x = vars.v[1].clone();
    proto_vulcan!([conda { x == [3] }, matchu q { z => , Named { a: [x, 3], b: 1 } | [] => match q { _ => , [y, [], 2 | 1] => [[_] == (2, [1]), [[], y, 2] != y], [[], [[] | y]] => [append(q, y, [3, 3]), q == ([y, []], [1])], }, _ => { member(x, [1, 2, 3]) }, }])
}
pub fn case_198(vars: &Vars) -> InferredGoal<DU, DE, Goal<DU, DE>> {
    let q = vars.v[0].clone();
    let x = vars.v[1].clone();
    proto_vulcan!([matcha x { _ => { member(x, [1, 2, 3]) }, 2 => false, }])
}
pub fn case_199(vars: &Vars) -> InferredGoal<DU, DE, Goal<DU, DE>> {
    let x = vars.v[0].clone();
    let y = vars.v[1].clone();
    proto_vulcan!([condu { y == [x, 2], x != 'b' }, matcha x { [1, [[]], [t, t | y]] => , }])
}
pub fn case_200(vars: &Vars) -> InferredGoal<DU, DE, Goal<DU, DE>> {
    let x = vars.v[0].clone();
    let y = vars.v[1].clone();
    proto_vulcan!([onceo { |tz| { [1, 2, 1] != [1, 2 | tz], tz == [1] } }, matchu y { 2 => , }])
}
pub fn case_201(vars: &Vars) -> InferredGoal<DU, DE, Goal<DU, DE>> {
    let q = vars.v[0].clone();
    let x = vars.v[1].clone();
    proto_vulcan!([[q, 1] == x, matche q { P3([z], 2, h) => { [], [|tz| { tz == [1, 3], [2, 3, 1, 3] != [2, 3 | tz] }, true, member(z, [2, 1, 3])] }, }])
}
pub fn case_202(vars: &Vars) -> InferredGoal<DU, DE, Goal<DU, DE>> {
    let x = vars.v[0].clone();
    proto_vulcan!([(x, x) == x, match x { z => , [["bc", y], [y], 'a'] => [[y, y, x | y] != x, x == [[], y]], }])
}
pub fn case_203(vars: &Vars) -> InferredGoal<DU, DE, Goal<DU, DE>> {
    let q = vars.v[0].clone();
    let x = vars.v[1].clone();
    proto_vulcan!([match q { _ => [q == 7, q == 8], }])
}
pub fn case_204(vars: &Vars) -> InferredGoal<DU, DE, Goal<DU, DE>> {
    let x = vars.v[0].clone();
    proto_vulcan!([|z, h| { [x, 1] == h, [] == 2 }, match 'b' { z => { matche x { Named { a: _, b: [] } => , _ => , P3(3, 2, [1, z]) | _ => , } }, }])
}
pub fn case_205(vars: &Vars) -> InferredGoal<DU, DE, Goal<DU, DE>> {
    let x = vars.v[0].clone();
    proto_vulcan!([matchu x { Named { a: 2, b: [] } => { |z, y| { y == P3([y], y, [3, _]) }, [[_, 2 | x]] != x }, 2 => , }])
}
pub fn case_206(vars: &Vars) -> InferredGoal<DU, DE, Goal<DU, DE>> {
    let x = vars.v[0].clone();
    let y = vars.v[1].clone();
    proto_vulcan!([match x { [1, [1]] | _ => { 2 != _ }, _ => { member(y, [1, 2, 3]) }, P3([_], t, h) => [|t| { t == ["a", x | t], h == [t, y, 3], ([], []) == t }, onceo { [1, x] != t }], }])
}
pub fn case_207(vars: &Vars) -> InferredGoal<DU, DE, Goal<DU, DE>> {
    let x = vars.v[0].clone();
    proto_vulcan!([condu { P3(3, [3], x) == x, member(x, [2, 1]), (_, _) == x }, matcha 3 { [[1 | 2], [z | h], [t, 'a', 3] | _] => z == [t | t], x => , }])
}
pub fn case_208(vars: &Vars) -> InferredGoal<DU, DE, Goal<DU, DE>> {
    let x = vars.v[0].clone();
    let y = vars.v[1].clone();
    proto_vulcan!([matchu x { _ | 1 => [|x, z| { false, [false] == P3(y, y, _), y == [3, 3, x] }, |z| {  }], _ | P3(_, 3, z) => { x == [[x, 1], [_, x | x], ["bc" | x]] }, _ => member(x, [1, 2, 3]), }])
}
pub fn case_209(vars: &Vars) -> InferredGoal<DU, DE, Goal<DU, DE>> {
    let x = vars.v[0].clone();
    let y = vars.v[1].clone();
    proto_vulcan!([[y == 3], matche x { 2 => |z| { true, 1 == [z] }, }])
}
pub fn case_210(vars: &Vars) -> InferredGoal<DU, DE, Goal<DU, DE>> {
    let q = vars.v[0].clone();
    let x = vars.v[1].clone();
    proto_vulcan!([match x { [2] => [append(x, q, [2]), [[_, 3], 2, [x, 1, 1]] == [2]], P3([], x, [_, y]) => , }])
}
pub fn case_211(vars: &Vars) -> InferredGoal<DU, DE, Goal<DU, DE>> {
    let x = vars.v[0].clone();
    proto_vulcan!([matche 2 { [[y, [], 2 | h], [z] | _] | Named { a: [], b: 3 } => [conde { [[x, x] == x, false] }, x == P3(x, _, x)], P3(h, 2, 2) => conde { member(h, [1, 1]), [_, [], true] == x, [] }, [[2, 1], [2, _, 1], 2] => , }])
}
pub fn case_212(vars: &Vars) -> InferredGoal<DU, DE, Goal<DU, DE>> {
    let x = vars.v[0].clone();
    proto_vulcan!([matche x { t => conda { t == t, [_ != [x | t], (2, [3, x]) != t] }, P3([], [t, _], _) | P3([], [1], 1) => , [['a', x]] => [P3([1, x], [x], 1) != x, |h| { ([x], 1) == h, x == [], x != [false, 2, x | x] }], }])
}
pub fn case_213(vars: &Vars) -> InferredGoal<DU, DE, Goal<DU, DE>> {
    let x = vars.v[0].clone();
    proto_vulcan!([(3, [x, x]) == [[x, 'b', x]], matcha x { [[2 | _], 3, ['b', true, "bc"]] => , }])
}
pub fn case_214(vars: &Vars) -> InferredGoal<DU, DE, Goal<DU, DE>> {
    let x = vars.v[0].clone();
    proto_vulcan!([|t| { x == (3, []), false }, matchu x { _ => , }])
}
pub fn case_215(vars: &Vars) -> InferredGoal<DU, DE, Goal<DU, DE>> {
    let x = vars.v[0].clone();
    let y = vars.v[1].clone();
    proto_vulcan!([match [] { _ | x => , }])
}
pub fn case_216(vars: &Vars) -> InferredGoal<DU, DE, Goal<DU, DE>> {
    let x = vars.v[0].clone();
    let y = vars.v[1].clone();
    proto_vulcan!([conde { false, [true, ['a' | x] == x], [] }, matche y { 2 => { y == _ }, 1 => { |t| { [["bc", _ | x], [y, [], t]] == [y], false, [[], 1, x] != _ }, [true] }, 1 => conde { member(y, [3, 2, 1]), [x == false, [1, [], y] != y], [[x] == y, [[], [x], [y, y] | y] != y] }, }])
}
pub fn case_217(vars: &Vars) -> InferredGoal<DU, DE, Goal<DU, DE>> {
    let x = vars.v[0].clone();
    let y = vars.v[1].clone();
    proto_vulcan!([match x { P3([t], 1, []) => { t == t, conda { [[[x, 3], [t, y, []]] != [[], _, 1], false] } }, t => , [[_, 1 | y]] | [[1] | _] => , }])
}
pub fn case_218(vars: &Vars) -> InferredGoal<DU, DE, Goal<DU, DE>> {
    let x = vars.v[0].clone();
    let y = vars.v[1].clone();
    proto_vulcan!([|h, t| {  }, match y { h => match h { [3, [h, z, t]] | P3(2, [], 2) => , _ => , 2 => { [[]] == x, h != [2, h, _] }, }, }])
}
pub fn case_219(vars: &Vars) -> InferredGoal<DU, DE, Goal<DU, DE>> {
    let x = vars.v[0].clone();
    proto_vulcan!([onceo { false }, match x { ["bc", []] | _ => , }])
}
pub fn case_220(vars: &Vars) -> InferredGoal<DU, DE, Goal<DU, DE>> {
    let x = vars.v[0].clone();
    proto_vulcan!([x == [x | x], matche x { [[[], 3, x], y] => conde { [x == x, [_] == [x, 1, y]] }, 1 => [matchu x { [y] => , [[true, 2 | x]] => , [[z], [t, false, _ | z]] => [t, _ | 2] != x, }, conde { [x == P3(x, 1, x), true], [] }], }])
}
pub fn case_221(vars: &Vars) -> InferredGoal<DU, DE, Goal<DU, DE>> {
    let x = vars.v[0].clone();
    proto_vulcan!([[x == [[false, x], x], x != 'a', append(x, x, [1])], matchu x { [[x, 1, 'a'], [h, x, [] | 2], h] => , }])
}
pub fn case_222(vars: &Vars) -> InferredGoal<DU, DE, Goal<DU, DE>> {
    let x = vars.v[0].clone();
    let y = vars.v[1].clone();
    proto_vulcan!([y == ([1], y), match x { [[y, x], z, z] => { y == 3, matcha y { P3([[], 2], 3, z) => P3(1, 3, x) != y, [] => { append(y, y, [1]) }, } }, [y, _, _ | 1] | _ => { [x == x], matcha x { 2 => { false, x == [1, x, 1] }, P3([1], y, t) => { [3, 2, y] == x, ([3, _], []) == y }, [1, [2 | y], 3 | y] => [[x | x] == x, member(x, [2, 2, 2])], } }, }])
}
pub fn case_223(vars: &Vars) -> InferredGoal<DU, DE, Goal<DU, DE>> {
    let x = vars.v[0].clone();
    let y = vars.v[1].clone();
    proto_vulcan!([matcha y { [[_, x, 2 | t]] => , 2 => { [[], 1, 1] != x }, ["a", [], 2] => [[append(y, y, [2]), member(y, []), y == y], matcha y { 'b' | _ => x != y, 'b' | [[3, x], [3], [_, y] | _] => , t | P3(_, [], _) => { y == P3(_, _, x), true }, }], }])
}
pub fn case_224(vars: &Vars) -> InferredGoal<DU, DE, Goal<DU, DE>> {
    let x = vars.v[0].clone();
    let y = vars.v[1].clone();
    proto_vulcan!([matche [x, 3, 2 | x] { P3(1, 3, t) => { append(y, x, []) }, [3] | true => , h => , }])
}
pub fn case_225(vars: &Vars) -> InferredGoal<DU, DE, Goal<DU, DE>> {
    let x = vars.v[0].clone();
    proto_vulcan!([match x { [[x], [_, _ | y], [1, _] | x] => 1 == x, }])
}
pub fn case_226(vars: &Vars) -> InferredGoal<DU, DE, Goal<DU, DE>> {
    let x = vars.v[0].clone();
    proto_vulcan!([conde { [x == x, x == x] }, matchu x { h | [[_, _, 2], [h, 2], [t, h]] => { |t| { 3 == P3([2, h], [], []), P3([], 1, 1) == x } }, _ => [x == 7, x == 8], P3([], _, 2) | [[y, [] | h]] => { matche [false, 1, x] { _ => member(x, [1, 2, 3]), }, x == 3 }, }])
}
pub fn case_227(vars: &Vars) -> InferredGoal<DU, DE, Goal<DU, DE>> {
    let x = vars.v[0].clone();
    proto_vulcan!([[x, 3, x] == x, match [1] { _ | [[h, x] | _] => , _ => { x == 7, x == 8 }, x => [|tz| { tz == [1, 3], [3, 1 | tz] != [3, 1, 1, 3] }, [] == x], }])
}
pub fn case_228(vars: &Vars) -> InferredGoal<DU, DE, Goal<DU, DE>> {
    let x = vars.v[0].clone();
    proto_vulcan!([matche [x, x] { true => { |x| { true }, |h, z| { append(x, x, [3, 1]) } }, _ => { x == 7, x == 8 }, }])
}
pub fn case_229(vars: &Vars) -> InferredGoal<DU, DE, Goal<DU, DE>> {
    let q = vars.v[0].clone();
    let x = vars.v[1].clone();
    proto_vulcan!([matche q { P3([_], z, [[]]) | _ => { |t| { x == P3([[]], _, x), ['b', [q | q] | x] == x, P3([], 2, _) != t }, condu { [[q, x, 'b'] == x, |tz| { tz == [3], [2, 3] != [2 | tz] }], [|tz| { [3, 3, 1] != [3, 3 | tz], tz == [1] }, append(q, x, [])], [(x, _) == q, [] == 1] } }, }])
}
pub fn case_230(vars: &Vars) -> InferredGoal<DU, DE, Goal<DU, DE>> {
    let x = vars.v[0].clone();
    let y = vars.v[1].clone();
    proto_vulcan!([match x { Named { a: z, b: [] } => { [y | x] == [x, true, x | y], |z| { [true, [z | x]] != z, y != [3, z | z], x == [z] } }, 1 | _ => { |x| { x != [1], x != x } }, h => { matcha x { _ => [h == [[], false, false], x == [3]], z | _ => { x == 1, false }, Named { a: 2, b: [] } => , }, |t| { y == [[]] } }, }])
}
pub fn case_231(vars: &Vars) -> InferredGoal<DU, DE, Goal<DU, DE>> {
    let x = vars.v[0].clone();
    proto_vulcan!([([2], 1) == x, matche x { 1 => , [_, [z, 'b']] => { member(z, [2]), conde { [member(x, []), append(z, x, [])] } }, }])
}
pub fn case_232(vars: &Vars) -> InferredGoal<DU, DE, Goal<DU, DE>> {
    let q = vars.v[0].clone();
    let x = vars.v[1].clone();
    proto_vulcan!([matcha [x, true, 1 | q] { _ | _ => , [_ | y] | P3(y, 1, 3) => , [[_, 1, h], z, 'b'] | P3(z, [], 1) => { |y, t| { ["a", false, 1 | 2] == y, x == y, false }, matche x { t => , } }, }])
}
pub fn case_233(vars: &Vars) -> InferredGoal<DU, DE, Goal<DU, DE>> {
    let x = vars.v[0].clone();
    let y = vars.v[1].clone();
    proto_vulcan!([|h| { append(h, y, []) }, matche y { _ => member(x, [1, 2, 3]), }])
}
pub fn case_234(vars: &Vars) -> InferredGoal<DU, DE, Goal<DU, DE>> {
    let x = vars.v[0].clone();
    let y = vars.v[1].clone();
    proto_vulcan!([matcha y { _ => { |h| { x == y, false, [_, 2, 3 | y] == h }, y == 2 }, P3(1, [x], []) => { conde { [true, member(x, [])], [], [['a', x, 1 | y] == y, true] }, conda { [member(x, [1, 3, 1]), y == false], [x == P3(2, [1], [x]), true], false } }, _ => { |z, h| { h != 2, z != z }, x != _ }, }])
}
pub fn case_235(vars: &Vars) -> InferredGoal<DU, DE, Goal<DU, DE>> {
    let x = vars.v[0].clone();
    proto_vulcan!([matche x { _ => member(x, [1, 2, 3]), P3(3, [2], _) => , [[[], h] | 2] => |tz| { tz == [1, 1], [3 | tz] != [3, 1, 1] }, }])
}
pub fn case_236(vars: &Vars) -> InferredGoal<DU, DE, Goal<DU, DE>> {
    let x = vars.v[0].clone();
    let y = vars.v[1].clone();
    proto_vulcan!([[[_, []]] != [[], _], match x { [] | t => [x] != [[[] | y], [2], [_]], [y, [x, 1 | t], [z, x, _]] => 1 == y, [[[], _ | _], [y, _, h | z] | _] | t => [conde { [(2, _) == x, false], "bc" == x }, append(x, x, [2, 3])], }])
}
pub fn case_237(vars: &Vars) -> InferredGoal<DU, DE, Goal<DU, DE>> {
    let x = vars.v[0].clone();
    let y = vars.v[1].clone();
    proto_vulcan!([[], matche y { P3(_, 3, h) => { |z, y| { P3([_, z], [1], []) == y, member(y, []) } }, _ => [x == 7, x == 8], }])
}
pub fn case_238(vars: &Vars) -> InferredGoal<DU, DE, Goal<DU, DE>> {
    let x = vars.v[0].clone();
    let y = vars.v[1].clone();
    proto_vulcan!([y == [2, _, 1], matche y { _ => { member(x, [1, 2, 3]) }, }])
}
pub fn case_239(vars: &Vars) -> InferredGoal<DU, DE, Goal<DU, DE>> {
    let q = vars.v[0].clone();
    let x = vars.v[1].clone();
    proto_vulcan!([q == P3([3], x, [1, 3]), matcha x { 2 => , _ => , }])
}
pub fn case_240(vars: &Vars) -> InferredGoal<DU, DE, Goal<DU, DE>> {
    let q = vars.v[0].clone();
    let x = vars.v[1].clone();
    proto_vulcan!([|y, z| { true, member(z, [1, 2, 3]), 1 == x }, match q { 1 => { P3([3, []], 3, _) != [[q, 3], [q, 2, 1]], condu { true, append(q, q, []), [q == [2, 1, 1], [_, _] == q] } }, [_, _] => [onceo { q == x }, [x, true] == q], [[t, _], [_, _, false], [h, 1, _]] => { |x| { h == [3 | x], append(x, x, [3, 3]) } }, }])
}
pub fn case_241(vars: &Vars) -> InferredGoal<DU, DE, Goal<DU, DE>> {
    let q = vars.v[0].clone();
    let x = vars.v[1].clone();
    proto_vulcan!([matchu x { Named { a: [], b: [_, h] } => , [z, [_, z, true]] => , }])
}
pub fn case_242(vars: &Vars) -> InferredGoal<DU, DE, Goal<DU, DE>> {
    let x = vars.v[0].clone();
    let y = vars.v[1].clone();
    proto_vulcan!([matche x { [[x], [t]] => [|z| { [x, t, 1 | t] == t }, matche x { [[1, 2 | h], [_, 'b']] => { x == [[x, 'b'], t | h] }, }], [2, [1, 3], [1, h, t]] => , }])
}
pub fn case_243(vars: &Vars) -> InferredGoal<DU, DE, Goal<DU, DE>> {
    let x = vars.v[0].clone();
    let y = vars.v[1].clone();
    proto_vulcan!([matcha x { x => { matche y { t => x != [x, []], 2 => , _ => , } }, P3([1], [], []) => append(x, y, []), [1, [x | t], t] => { member(y, [1, 2, 2]), true }, }])
}
pub fn case_244(vars: &Vars) -> InferredGoal<DU, DE, Goal<DU, DE>> {
    let x = vars.v[0].clone();
    let y = vars.v[1].clone();
    proto_vulcan!([y != x, matchu y { 2 | _ => { 2 == x, [] }, }])
}
pub fn case_245(vars: &Vars) -> InferredGoal<DU, DE, Goal<DU, DE>> {
    let x = vars.v[0].clone();
    proto_vulcan!([|z, y| { z == [[1, y, 1], [x, 1] | z] }, matche x { [x | _] | false => , }])
}
pub fn case_246(vars: &Vars) -> InferredGoal<DU, DE, Goal<DU, DE>> {
    let q = vars.v[0].clone();
    let x = vars.v[1].clone();
    proto_vulcan!([|y| { [y, 1] != y, [y, 1] == y, [2, 3] == x }, matchu q { P3(y, 3, x) | _ => { [q, _ | q] != q }, [[[] | _], [1, 2 | y], _] => { conde { [[[[]], q, [q, [] | q] | y] != (1, 3), ['a'] != x] } }, }])
}
pub fn case_247(vars: &Vars) -> InferredGoal<DU, DE, Goal<DU, DE>> {
    let q = vars.v[0].clone();
    let x = vars.v[1].clone();
    proto_vulcan!([true, match x { _ | _ => { member(x, [1, 2, 3]) }, [[h], [1], [h, 2]] | [[h, [] | _], [[]], 1] => [conde { [] }, |t, x| { t == [q, 1], true, q == 1 }], [['b', y, z], t, x | h] => , }])
}
pub fn case_248(vars: &Vars) -> InferredGoal<DU, DE, Goal<DU, DE>> {
    let x = vars.v[0].clone();
    let y = vars.v[1].clone();
    proto_vulcan!([x == _, match [[], y, x] { _ => { y == 7, y == 8 }, P3(t, [_, y], 2) => matche t { h => [y != ["bc"], h == [[_, [], []], [1, false | t], 1]], [[_], [x], [_]] => { y == y }, _ => member(y, [1, 2, 3]), }, }])
}
pub fn case_249(vars: &Vars) -> InferredGoal<DU, DE, Goal<DU, DE>> {
    let x = vars.v[0].clone();
    let y = vars.v[1].clone();
    proto_vulcan!([matchu 3 { [[[], 3], [2, "bc" | t], ["a"]] | x => , [[z | z]] => , Named { a: [[]], b: [] } | [2, 1] => , }])
}
pub fn case_250(vars: &Vars) -> InferredGoal<DU, DE, Goal<DU, DE>> {
    let x = vars.v[0].clone();
    proto_vulcan!([matchu x { _ | P3([h], 3, 2) => { matcha x { _ => member(x, [1, 2, 3]), [[h] | y] => , }, x == [1 | 1] }, 2 => , 1 | [[x, 'b', h], [2, []], h] => , }])
}
pub fn case_251(vars: &Vars) -> InferredGoal<DU, DE, Goal<DU, DE>> {
    let x = vars.v[0].clone();
    let y = vars.v[1].clone();
    proto_vulcan!([conde { [[_, 1, x | y] | 1] == [[], 1], [P3([y], 1, _) == y, true], [["a"], x, [x, y | y] | "bc"] == [3 | x] }, matcha x { [[t | t], h, [y | 1] | t] => , [[y, h, _], [_, h]] => onceo { append(h, h, []) }, }])
}
pub fn case_252(vars: &Vars) -> InferredGoal<DU, DE, Goal<DU, DE>> {
    let x = vars.v[0].clone();
    proto_vulcan!([match x { [[y], z, false] => [[_], [_, _, 1], [y, x, 2]] == z, }])
}
pub fn case_253(vars: &Vars) -> InferredGoal<DU, DE, Goal<DU, DE>> {
    let x = vars.v[0].clone();
    let y = vars.v[1].clone();
    proto_vulcan!([|t, x| { [_, 2, x] == x }, matche y { [z, [h, z, 'b'], x] => , _ | [[1, _], z] => { [[x, 2, y], 1, [y, y] | x] == x, [[], y] == x }, _ => { member(x, [1, 2, 3]) }, }])
}
pub fn case_254(vars: &Vars) -> InferredGoal<DU, DE, Goal<DU, DE>> {
    let x = vars.v[0].clone();
    proto_vulcan!([matche [x, 3, x] { [y, [z, t | "a"] | y] => { conda { [false, 'a' == x], x == ["bc", x] } }, _ | [[_, h]] => |h, t| { ['a', h, [] | x] == t, |tz| { [1, 1 | tz] != [1, 1, 2, 1], tz == [2, 1] }, append(h, h, [1, 1]) }, }])
}
pub fn case_255(vars: &Vars) -> InferredGoal<DU, DE, Goal<DU, DE>> {
    let x = vars.v[0].clone();
    let y = vars.v[1].clone();
    proto_vulcan!([true, matchu y { _ => , 3 => [["a", x | x] == x, [[[x, x, y]] == y]], [x, z] => , }])
}
pub fn case_256(vars: &Vars) -> InferredGoal<DU, DE, Goal<DU, DE>> {
    let x = vars.v[0].clone();
    let y = vars.v[1].clone();
    proto_vulcan!([matcha x { P3(h, t, [1]) => { conde { h == (y, 3), h != ([], _), |tz| { tz == [3, 2], [1, 3, 3, 2] != [1, 3 | tz] } }, false }, [[3, x], 1] => [[P3(x, [], 2) != y]], }])
}
pub fn case_257(vars: &Vars) -> InferredGoal<DU, DE, Goal<DU, DE>> {
    let x = vars.v[0].clone();
    let y = vars.v[1].clone();
    proto_vulcan!([y == (_, _), matchu [_, y] { [_, [t, "a", 1]] => , }])
}
pub fn case_258(vars: &Vars) -> InferredGoal<DU, DE, Goal<DU, DE>> {
    let x = vars.v[0].clone();
    proto_vulcan!([|x| { member(x, []), [3, false, x] == x, x == [[1], x, 2 | x] }, matchu x { _ => [x == 7, x == 8], }])
}
pub fn case_259(vars: &Vars) -> InferredGoal<DU, DE, Goal<DU, DE>> {
    let q = vars.v[0].clone();
    let x = vars.v[1].clone();
    proto_vulcan!([match q { t => { [_, 1, q] == t }, [[h, []], [2 | y], y | h] => , y => conda { [|tz| { [1, 1, 2] != [1 | tz], tz == [1, 2] }, |tz| { [2, 1] != [2 | tz], tz == [1] }], [true, ["bc", 1] == x] }, }])
}
pub fn case_260(vars: &Vars) -> InferredGoal<DU, DE, Goal<DU, DE>> {
    let x = vars.v[0].clone();
    let y = vars.v[1].clone();
    proto_vulcan!([match x { [[z, z] | x] | Named { a: y, b: [t, _] } => , h => { matchu ['a' | x] { [[1], "a", [2, y, h]] | [y] => , _ => { x == 7, x == 8 }, [[t, 2 | 'b'] | x] => [x == [[_, t, false | x], ['a'], [x | t] | h], [2, [h, h], [1 | h] | h] != t], } }, }])
}
pub fn case_261(vars: &Vars) -> InferredGoal<DU, DE, Goal<DU, DE>> {
    let x = vars.v[0].clone();
    proto_vulcan!([matcha x { _ | _ => conde { x == [false, _, "bc"], x == [] }, [[h], [1, _, 1], ["a", 3, 2]] | _ => [condu { [P3(_, x, _) == x, x != P3([[], x], _, [_])], [true, x == P3(1, _, _)], member(x, [2, 3, 3]) }, |t| { t == t, member(x, []), [[3, 1 | "a"], [3, 2 | 2] | x] == [[x, 1 | x], 2, [[], x | t] | x] }], }])
}
pub fn case_262(vars: &Vars) -> InferredGoal<DU, DE, Goal<DU, DE>> {
    let x = vars.v[0].clone();
    proto_vulcan!([matcha x { _ => , h | "a" => { conda { (1, _) == x, true }, conde { [[], x, [x, x]] == x } }, _ => { x == 7, x == 8 }, }])
}
pub fn case_263(vars: &Vars) -> InferredGoal<DU, DE, Goal<DU, DE>> {
    let q = vars.v[0].clone();
    let x = vars.v[1].clone();
    proto_vulcan!([matche x { [3, [x | _] | y] => { match x { 2 => , }, [[[1, x, 2] | q] == x] }, }])
}
pub fn case_264(vars: &Vars) -> InferredGoal<DU, DE, Goal<DU, DE>> {
    let x = vars.v[0].clone();
    let y = vars.v[1].clone();
    proto_vulcan!([y == x, matcha y { 1 => x == [2], }])
}
pub fn case_265(vars: &Vars) -> InferredGoal<DU, DE, Goal<DU, DE>> {
    let x = vars.v[0].clone();
    let y = vars.v[1].clone();
    proto_vulcan!([matcha [_, "a", y] { _ => [x == 7, x == 8], Named { a: [], b: 2 } => { [[3, 2]] != y }, }])
}
pub fn case_266(vars: &Vars) -> InferredGoal<DU, DE, Goal<DU, DE>> {
    let x = vars.v[0].clone();
    proto_vulcan!([condu { [x == (3, x), append(x, x, [3])], [false, false], member(x, [3, 2]) }, match x { [[_, []], x, [y, t, h]] => { t != [t, 1] }, _ => [matchu x { [[true | t]] => , _ => member(x, [1, 2, 3]), [[[] | z] | _] => , }, conde { [[2] == x, |tz| { [1, 2 | tz] != [1, 2, 2], tz == [2] }], false, ([], []) == x }], [[[]], [], [y]] => { matcha x { y => , } }, }])
}
pub fn case_267(vars: &Vars) -> InferredGoal<DU, DE, Goal<DU, DE>> {
    let x = vars.v[0].clone();
    proto_vulcan!([matche x { _ => { x == 7, x == 8 }, [["bc", 2, 2 | h], [_, x], [h, 2 | 1] | y] => matchu h { [[t, 3], [false, 3] | 2] => { x != [3], x == [[y, 3, y], 'b' | y] }, }, x | x => , }])
}
pub fn case_268(vars: &Vars) -> InferredGoal<DU, DE, Goal<DU, DE>> {
    let x = vars.v[0].clone();
    proto_vulcan!([match x { x => [conde { [|tz| { tz == [1], [3, 1, 1] != [3, 1 | tz] }, x != [1]], [[2, 3 | x] == x, P3([x, x], [_], [x, 3]) != [[2]]] }, |tz| { tz == [1, 1], [3, 1, 1] != [3 | tz] }], Named { a: [2, t], b: _ } | [h, y, z | y] => [x != 'b', false], _ => { x == 7, x == 8 }, }])
}
pub fn case_269(vars: &Vars) -> InferredGoal<DU, DE, Goal<DU, DE>> {
    let x = vars.v[0].clone();
    let y = vars.v[1].clone();
    proto_vulcan!([matcha y { [['a', 2], _, [t, _] | h] | P3(t, x, y) => [t == [1, t, t], condu { t != [_, t, t], [t == t, |tz| { tz == [3, 1], [3 | tz] != [3, 3, 1] }] }], Named { a: x, b: 3 } | _ => , }])
}
pub fn case_270(vars: &Vars) -> InferredGoal<DU, DE, Goal<DU, DE>> {
    let q = vars.v[0].clone();
    let x = vars.v[1].clone();
    proto_vulcan!([matchu x { _ => , }])
}
pub fn case_271(vars: &Vars) -> InferredGoal<DU, DE, Goal<DU, DE>> {
    let q = vars.v[0].clone();
    let x = vars.v[1].clone();
    proto_vulcan!([|y| { |tz| { [2, 3, 3] != [2 | tz], tz == [3, 3] } }, match q { _ => { onceo { false } }, [] => , }])
}
pub fn case_272(vars: &Vars) -> InferredGoal<DU, DE, Goal<DU, DE>> {
    let x = vars.v[0].clone();
    let y = vars.v[1].clone();
    proto_vulcan!([['b', 2, 3] == y, matchu y { [[1]] => , }])
}
pub fn case_273(vars: &Vars) -> InferredGoal<DU, DE, Goal<DU, DE>> {
    let x = vars.v[0].clone();
    let y = vars.v[1].clone();
    proto_vulcan!([matche y { 3 => , _ => , }])
}
pub fn case_274(vars: &Vars) -> InferredGoal<DU, DE, Goal<DU, DE>> {
    let x = vars.v[0].clone();
    proto_vulcan!([match x { 2 => [([], 2) == x, onceo { x == [[], x] }], }])
}
pub fn case_275(vars: &Vars) -> InferredGoal<DU, DE, Goal<DU, DE>> {
    let x = vars.v[0].clone();
    let y = vars.v[1].clone();
    proto_vulcan!([([y, 1], 2) == x, matche x { _ => { member(y, [1, 2, 3]) }, P3([], 3, z) => , }])
}
pub fn case_276(vars: &Vars) -> InferredGoal<DU, DE, Goal<DU, DE>> {
    let x = vars.v[0].clone();
    proto_vulcan!([match x { [y, [_, 3, 1], [3, [], _] | y] => , Named { a: [3], b: t } | [[], y, 3 | z] => [x == [], conde { [x == x, false], x == _, [1, [3, x, x], x | 'a'] != [x, 'a', 'b' | x] }], P3(2, _, [z]) => z == ([2], [x]), }])
}
pub fn case_277(vars: &Vars) -> InferredGoal<DU, DE, Goal<DU, DE>> {
    let x = vars.v[0].clone();
    proto_vulcan!([match x { Named { a: 1, b: 2 } => x == P3(3, [], [3, []]), _ => , 1 | x => , }])
}
pub fn case_278(vars: &Vars) -> InferredGoal<DU, DE, Goal<DU, DE>> {
    let x = vars.v[0].clone();
    let y = vars.v[1].clone();
    proto_vulcan!([matchu true { [[true, 'b' | _]] => , [[], [] | 2] => , }])
}
pub fn case_279(vars: &Vars) -> InferredGoal<DU, DE, Goal<DU, DE>> {
    let q = vars.v[0].clone();
    let x = vars.v[1].clone();
    proto_vulcan!([|z| { x != _, z == q }, matche [x, [], x | x] { [t] => { onceo { q == [x, x] }, t == 2 }, }])
}
pub fn case_280(vars: &Vars) -> InferredGoal<DU, DE, Goal<DU, DE>> {
    let x = vars.v[0].clone();
    let y = vars.v[1].clone();
    proto_vulcan!([[1 != [_], [] == x, y == [[], 2, x]], matche [[] | y] { y => , _ => member(x, [1, 2, 3]), [] | [] => { [[x, y]] == x, x == [y, x] }, }])
}
pub fn case_281(vars: &Vars) -> InferredGoal<DU, DE, Goal<DU, DE>> {
    let x = vars.v[0].clone();
    proto_vulcan!([_ == x, match x { 1 => { [x] == x, matcha x { [1, 1] => , [1, [1]] | [[z, z, y], [h, t, 'a'], [y, 1, []] | 'b'] => [] == x, [[1, 3], [t | _]] => , } }, _ => { x == 7, x == 8 }, [z, [t, 1 | 1]] => { |y, x| { P3([x], [3], [3, []]) == [t, [z]] } }, }])
}
pub fn case_282(vars: &Vars) -> InferredGoal<DU, DE, Goal<DU, DE>> {
    let x = vars.v[0].clone();
    proto_vulcan!([x == [3, x, x | x], match x { Named { a: z, b: 1 } | 'a' => , [[3, x, x] | z] => z == [2, ['a', z, x] | x], [[2, [], y | y] | _] => { 'b' == y, append(y, y, []) }, }])
}
pub fn case_283(vars: &Vars) -> InferredGoal<DU, DE, Goal<DU, DE>> {
    let q = vars.v[0].clone();
    let x = vars.v[1].clone();
    proto_vulcan!([member(x, []), match _ { Named { a: [t, t], b: 3 } | _ => , }])
}
pub fn case_284(vars: &Vars) -> InferredGoal<DU, DE, Goal<DU, DE>> {
    let x = vars.v[0].clone();
    let y = vars.v[1].clone();
    proto_vulcan!([|x, z| { z != (3, _) }, matche y { _ | 1 => { |z, t| {  } }, P3([], [h], 3) | [[h | z], [2, 2]] => [[y != P3([], 1, [])]], Named { a: 3, b: 2 } => [|h, z| { x == [x], z != [x, []] }, true], }])
}
pub fn case_285(vars: &Vars) -> InferredGoal<DU, DE, Goal<DU, DE>> {
    let x = vars.v[0].clone();
    let y = vars.v[1].clone();
    proto_vulcan!([x == [1, [2, _] | y], y != []])
}
pub fn case_286(vars: &Vars) -> InferredGoal<DU, DE, Goal<DU, DE>> {
    let x = vars.v[0].clone();
    proto_vulcan!([conde { x == 'a', [x == "bc", true], false }])
}
pub fn case_287(vars: &Vars) -> InferredGoal<DU, DE, Goal<DU, DE>> {
    let q = vars.v[0].clone();
    let x = vars.v[1].clone();
    proto_vulcan!([|x| { x == 1, q == [x, true] }])
}
pub fn case_288(vars: &Vars) -> InferredGoal<DU, DE, Goal<DU, DE>> {
    let x = vars.v[0].clone();
    proto_vulcan!([closure { [x == 1, conde { true, true }] }])
}
pub fn case_289(vars: &Vars) -> InferredGoal<DU, DE, Goal<DU, DE>> {
    let x = vars.v[0].clone();
    let y = vars.v[1].clone();
    proto_vulcan!([[] == x, y == [[]]])
}
pub fn case_290(vars: &Vars) -> InferredGoal<DU, DE, Goal<DU, DE>> {
    let x = vars.v[0].clone();
    proto_vulcan!([|z| { [conde { [[_, z | x] != z, |tz| { [2, 3, 3, 1] != [2, 3 | tz], tz == [3, 1] }], [1 == z, |tz| { tz == [2, 3], [2 | tz] != [2, 2, 3] }] }, member(z, [3, 1])] }, [x != _, [], [[3, x, 'a' | x] == x, P3(3, [], _) != [_, 3], |z, h| { P3(1, 2, 2) == x, x == x }]], |y| { [conda { [false, [_, _] == y] }, x != [2, x, x]], true }, closure { 'b' == x }])
}
pub fn case_291(vars: &Vars) -> InferredGoal<DU, DE, Goal<DU, DE>> {
    let q = vars.v[0].clone();
    let x = vars.v[1].clone();
    proto_vulcan!([member(q, [1, 3]), conde { [], q == P3([_], [3, 3], 1) }])
}
pub fn case_292(vars: &Vars) -> InferredGoal<DU, DE, Goal<DU, DE>> {
    let x = vars.v[0].clone();
    proto_vulcan!([(_, x) != x, [x, "a", x] == x, [3, 3] == x])
}
pub fn case_293(vars: &Vars) -> InferredGoal<DU, DE, Goal<DU, DE>> {
    let x = vars.v[0].clone();
    proto_vulcan!([x != x, x != [x, "a", 2]])
}
pub fn case_294(vars: &Vars) -> InferredGoal<DU, DE, Goal<DU, DE>> {
    let q = vars.v[0].clone();
    let x = vars.v[1].clone();
    proto_vulcan!([[1, [], []] == q, { let c__: InferredGoal<DU, DE, Goal<DU, DE>> = proto_vulcan_closure!([|yy| { conde { [q == [yy | _], yy == 1], [q == [_, yy | _], yy == 2] } }, P3(_, 3, [3]) == q]); let g__: Goal<DU, DE> = ::proto_vulcan::GoalCast::cast_into(c__); let r__: InferredGoal<DU, DE, Goal<DU, DE>> = proto_vulcan!([g__.clone(), g__]); r__ }])
}
pub fn case_295(vars: &Vars) -> InferredGoal<DU, DE, Goal<DU, DE>> {
    let x = vars.v[0].clone();
    let y = vars.v[1].clone();
    proto_vulcan!([[y] != x, P3([[], []], 3, y) == (3, [y, []]), onceo { append(y, y, [3]) }])
}
pub fn case_296(vars: &Vars) -> InferredGoal<DU, DE, Goal<DU, DE>> {
    let q = vars.v[0].clone();
    let x = vars.v[1].clone();
    proto_vulcan!([member(x, [1]), [[q == [1, []]]], |y| { true, |y, x| { [x, y] == x, conde { ([y, _], y) == x, [['b'] == 2, y != [1]], [1] == y } } }, closure { [([], [q, 2]) == q, [[], [_, 3, q] != x, [[2 | _], [_, q, _ | q], [q, 2 | q]] == [1 | q]]] }])
}
pub fn case_297(vars: &Vars) -> InferredGoal<DU, DE, Goal<DU, DE>> {
    let x = vars.v[0].clone();
    proto_vulcan!([['a', [x, false]] == P3(x, [], 3), |h, z| { false }, conde { [], [|z| { conde { [([], z) == [[3, 'b', []], [3 | z], 'a'], [[2, 3 | 3]] == _], x == z, 1 == x } }, true], [conda { condu { x == [x, 'b'] }, [|z, t| { x == t, false }, x == 1] }, member(x, [])] }])
}
pub fn case_298(vars: &Vars) -> InferredGoal<DU, DE, Goal<DU, DE>> {
    let q = vars.v[0].clone();
    let x = vars.v[1].clone();
    proto_vulcan!([conde { [conda { [x == x, [_, q, q] == x], x == [_], |t| { [[]] != x, [x] == q } }, x != [2]], [] }, [member(x, []), [x == P3(x, [q, x], [x, 1]), conde { false, member(x, []), P3(_, [], x) != q }]], closure { [(q, x) == q, conde { q == [2, 3, 2 | 2], onceo { [] == q } }] }])
}
pub fn case_299(vars: &Vars) -> InferredGoal<DU, DE, Goal<DU, DE>> {
    let x = vars.v[0].clone();
    let y = vars.v[1].clone();
    proto_vulcan!([true, [[x != (y, 2), [x] == [x | y], false], onceo { conde { y != y } }, [false, y, x] == y], onceo { [[[[1, 2], x] == x, (y, [_, 1]) == _, |tz| { [1, 2 | tz] != [1, 2, 1], tz == [1] }]] }])
}
pub fn case_300(vars: &Vars) -> InferredGoal<DU, DE, Goal<DU, DE>> {
    let q = vars.v[0].clone();
    let x = vars.v[1].clone();
    proto_vulcan!([([], x) == x, [q == [3, _]], { let c__: InferredGoal<DU, DE, Goal<DU, DE>> = proto_vulcan_closure!([|yy| { conde { [x == [yy | _], yy == 1], [x == [_, yy | _], yy == 2] } }, onceo { append(q, q, []) }]); let g__: Goal<DU, DE> = ::proto_vulcan::GoalCast::cast_into(c__); let r__: InferredGoal<DU, DE, Goal<DU, DE>> = proto_vulcan!([g__.clone(), g__]); r__ }])
}
pub fn case_301(vars: &Vars) -> InferredGoal<DU, DE, Goal<DU, DE>> {
    let x = vars.v[0].clone();
    let y = vars.v[1].clone();
    proto_vulcan!([[false] == y])
}
pub fn case_302(vars: &Vars) -> InferredGoal<DU, DE, Goal<DU, DE>> {
    let q = vars.v[0].clone();
    let x = vars.v[1].clone();
    proto_vulcan!([x == 1, q == [2, [2, 2]]])
}
pub fn case_303(vars: &Vars) -> InferredGoal<DU, DE, Goal<DU, DE>> {
    let x = vars.v[0].clone();
    proto_vulcan!([conda { [[x, x | x], [1, []], 3] == x, [conde { conde { append(x, x, [1]), true }, [] }, |z| { z == _ }] }, [[x | x], [x]] == x, [x, x] == x])
}
pub fn case_304(vars: &Vars) -> InferredGoal<DU, DE, Goal<DU, DE>> {
    let x = vars.v[0].clone();
    proto_vulcan!([x == x, [3 == [1 | x], false, [[append(x, x, [1]), _ == x, P3(x, x, _) == x], P3(x, 1, []) != x, onceo { x == x }]], x == x, closure { [x == [x, x | x], onceo { x == [] }] }])
}
pub fn case_305(vars: &Vars) -> InferredGoal<DU, DE, Goal<DU, DE>> {
    let x = vars.v[0].clone();
    proto_vulcan!([[x] == x, |t| { conda { [x == [x, x, 2 | x], append(t, t, [2])], [|tz| { tz == [2], [1, 2] != [1 | tz] }, onceo { [false, 3, t] == x }] } }])
}
pub fn case_306(vars: &Vars) -> InferredGoal<DU, DE, Goal<DU, DE>> {
    let q = vars.v[0].clone();
    let x = vars.v[1].clone();
    proto_vulcan!([q == [x, 3, []], condu { |h| { h == [x, [], "bc"], conde { [] } } }, [q, [3, 2, _ | 1]] == x, { let c__: InferredGoal<DU, DE, Goal<DU, DE>> = proto_vulcan_closure!([|yy| { conde { [q == [yy | _], yy == 1], [q == [_, yy | _], yy == 2] } }, |h| { _ == 2, x == P3(_, [_], []) }]); let g__: Goal<DU, DE> = ::proto_vulcan::GoalCast::cast_into(c__); let r__: InferredGoal<DU, DE, Goal<DU, DE>> = proto_vulcan!([g__.clone(), g__]); r__ }])
}
pub fn case_307(vars: &Vars) -> InferredGoal<DU, DE, Goal<DU, DE>> {
    let x = vars.v[0].clone();
    proto_vulcan!([|tz| { tz == [3], [3 | tz] != [3, 3] }, x != x, conde { [x == x, onceo { append(x, x, [3]) }], conde { [['b'] == x, append(x, x, [])], |y, h| { x != [[y | y]] } } }])
}
pub fn case_308(vars: &Vars) -> InferredGoal<DU, DE, Goal<DU, DE>> {
    let q = vars.v[0].clone();
    let x = vars.v[1].clone();
    proto_vulcan!([onceo { condu { [|tz| { [3 | tz] != [3, 2, 3], tz == [2, 3] }, conde { [|tz| { [1, 2, 1, 3] != [1, 2 | tz], tz == [1, 3] }, q == ([[]], [q, x])], q != 1, [[[q | q] | 2] == (_, _), x == 2] }], [|tz| { [3 | tz] != [3, 1], tz == [1] }, |t| { 1 == t, x == 'b', |tz| { tz == [1, 3], [1, 1, 3] != [1 | tz] } }], [[[[], 'b', x | 2], q, [x]] == false, onceo { append(x, x, [2, 3]) }] } }])
}
pub fn case_309(vars: &Vars) -> InferredGoal<DU, DE, Goal<DU, DE>> {
    let x = vars.v[0].clone();
    let y = vars.v[1].clone();
    proto_vulcan!([y == 3, [y, []] != y])
}
pub fn case_310(vars: &Vars) -> InferredGoal<DU, DE, Goal<DU, DE>> {
    let x = vars.v[0].clone();
    let y = vars.v[1].clone();
    proto_vulcan!([onceo { |h, x| { conde { x == x, [P3(_, 3, [y]) == x, [[false, 1], [x, _, []] | h] == y] }, y == [2] } }])
}
pub fn case_311(vars: &Vars) -> InferredGoal<DU, DE, Goal<DU, DE>> {
    let q = vars.v[0].clone();
    let x = vars.v[1].clone();
    proto_vulcan!([|tz| { tz == [2, 3], [3, 1 | tz] != [3, 1, 2, 3] }])
}
pub fn case_312(vars: &Vars) -> InferredGoal<DU, DE, Goal<DU, DE>> {
    let q = vars.v[0].clone();
    let x = vars.v[1].clone();
    proto_vulcan!([|x, y| { conda { false == x, [[x] != [[false, [] | x], [false, x, 1 | y], [1, x]], conde { [], [[y] == q, false], x != [x, [2, [], 1], y | true] }] } }, |y, x| { conda { [false, [1] == x], [member(y, [1, 2, 1]), |tz| { [3, 1, 1, 2] != [3, 1 | tz], tz == [1, 2] }] } }])
}
pub fn case_313(vars: &Vars) -> InferredGoal<DU, DE, Goal<DU, DE>> {
    let x = vars.v[0].clone();
    let y = vars.v[1].clone();
    proto_vulcan!([conde { [], [] }])
}
pub fn case_314(vars: &Vars) -> InferredGoal<DU, DE, Goal<DU, DE>> {
    let q = vars.v[0].clone();
    let x = vars.v[1].clone();
    proto_vulcan!([|h, t| { conda { 1 == x }, [1 | q] != q }])
}
pub fn case_315(vars: &Vars) -> InferredGoal<DU, DE, Goal<DU, DE>> {
    let x = vars.v[0].clone();
    let y = vars.v[1].clone();
    proto_vulcan!([[], 2 == y, false])
}
pub fn case_316(vars: &Vars) -> InferredGoal<DU, DE, Goal<DU, DE>> {
    let q = vars.v[0].clone();
    let x = vars.v[1].clone();
    proto_vulcan!([conde { [onceo { q != false }, append(q, x, [])], [conde { |y| { true != y }, [x != [[] | q], onceo { q != 1 }], |tz| { tz == [2], [1, 2] != [1 | tz] } }, q == ['a', _, x]] }, onceo { member(x, [3, 1]) }, x == (3, q), closure { x != 2 }])
}
pub fn case_317(vars: &Vars) -> InferredGoal<DU, DE, Goal<DU, DE>> {
    let q = vars.v[0].clone();
    let x = vars.v[1].clone();
    proto_vulcan!([x != [q | x]])
}
pub fn case_318(vars: &Vars) -> InferredGoal<DU, DE, Goal<DU, DE>> {
    let x = vars.v[0].clone();
    let y = vars.v[1].clone();
    proto_vulcan!([y == [], [|z| { z == 2, |y| { [y, z] == y, append(y, y, [1, 1]) }, false }]])
}
pub fn case_319(vars: &Vars) -> InferredGoal<DU, DE, Goal<DU, DE>> {
    let x = vars.v[0].clone();
    proto_vulcan!([_ == x])
}
pub fn case_320(vars: &Vars) -> InferredGoal<DU, DE, Goal<DU, DE>> {
    let x = vars.v[0].clone();
    proto_vulcan!([[append(x, x, [3, 3]), [(3, _) != 2, false, |z| { P3(z, [x, z], 2) == z, true, z == (2, x) }]], [[] | x] == [2], |y| { true == y, x == [[]] }])
}
pub fn case_321(vars: &Vars) -> InferredGoal<DU, DE, Goal<DU, DE>> {
    let q = vars.v[0].clone();
    let x = vars.v[1].clone();
    proto_vulcan!([q == [q, [q, _ | x], [1]], [['b', x, q | x]] != x, |tz| { [3, 3, 1, 1] != [3, 3 | tz], tz == [1, 1] }, { let c__: InferredGoal<DU, DE, Goal<DU, DE>> = proto_vulcan_closure!(|yy| { conde { [x == [yy | _], yy == 1], [x == [_, yy | _], yy == 2] } }); let g__: Goal<DU, DE> = ::proto_vulcan::GoalCast::cast_into(c__); let r__: InferredGoal<DU, DE, Goal<DU, DE>> = proto_vulcan!([g__.clone(), g__]); r__ }])
}
pub fn case_322(vars: &Vars) -> InferredGoal<DU, DE, Goal<DU, DE>> {
    let q = vars.v[0].clone();
    let x = vars.v[1].clone();
    proto_vulcan!([true, (q, [1]) == q, false])
}
pub fn case_323(vars: &Vars) -> InferredGoal<DU, DE, Goal<DU, DE>> {
    let q = vars.v[0].clone();
    let x = vars.v[1].clone();
    proto_vulcan!([x == (_, 1), [[[[], "bc"] == x, conda { [append(q, q, [3]), [] == [1]] }], [q == [[[] | x]], onceo { [[1, x, 3 | 2]] == q }, q == [3, 2, [q, x, q] | x]]]])
}
pub fn case_324(vars: &Vars) -> InferredGoal<DU, DE, Goal<DU, DE>> {
    let x = vars.v[0].clone();
    let y = vars.v[1].clone();
    proto_vulcan!([|tz| { tz == [1, 2], [1, 3, 1, 2] != [1, 3 | tz] }, |tz| { tz == [2], [3, 2 | tz] != [3, 2, 2] }])
}
pub fn case_325(vars: &Vars) -> InferredGoal<DU, DE, Goal<DU, DE>> {
    let q = vars.v[0].clone();
    let x = vars.v[1].clone();
    proto_vulcan!([onceo { |z| { onceo { z == [x, q] }, q != x, (q, [z, x]) == z } }])
}
pub fn case_326(vars: &Vars) -> InferredGoal<DU, DE, Goal<DU, DE>> {
    let x = vars.v[0].clone();
    let y = vars.v[1].clone();
    proto_vulcan!([[[] | x] == y, conde { [[], true], [[[x, _, 2] == y, [2, x, [1]] != x, true]], |z, h| {  } }, [1, [] | x] != (x, 3), { let c__: InferredGoal<DU, DE, Goal<DU, DE>> = proto_vulcan_closure!(|yy| { conde { [x == [yy | _], yy == 1], [x == [_, yy | _], yy == 2] } }); let g__: Goal<DU, DE> = ::proto_vulcan::GoalCast::cast_into(c__); let r__: InferredGoal<DU, DE, Goal<DU, DE>> = proto_vulcan!([g__.clone(), g__]); r__ }])
}
pub fn case_327(vars: &Vars) -> InferredGoal<DU, DE, Goal<DU, DE>> {
    let x = vars.v[0].clone();
    proto_vulcan!([conde { 1 == x }])
}
pub fn case_328(vars: &Vars) -> InferredGoal<DU, DE, Goal<DU, DE>> {
    let x = vars.v[0].clone();
    let y = vars.v[1].clone();
    proto_vulcan!([[y, 1, y] == x])
}
pub fn case_329(vars: &Vars) -> InferredGoal<DU, DE, Goal<DU, DE>> {
    let q = vars.v[0].clone();
    let x = vars.v[1].clone();
    proto_vulcan!([conde { [x, _, 1 | q] == q }, [1 | q] == q])
}
pub fn case_330(vars: &Vars) -> InferredGoal<DU, DE, Goal<DU, DE>> {
    let q = vars.v[0].clone();
    let x = vars.v[1].clone();
    proto_vulcan!([[['a'], [[]] | q] == x, false])
}
pub fn case_331(vars: &Vars) -> InferredGoal<DU, DE, Goal<DU, DE>> {
    let x = vars.v[0].clone();
    proto_vulcan!([[[3, x | 2], [x, [] | x]] == _, (_, 2) == x, closure { [condu { [[true], append(x, x, [1])], [x == "bc", x == P3([_, _], [[]], x)], [x != [x, 3], [x, x, 1] == x] }, |y| { conde { [[1, x], [[], x, []]] != [[y, 3, 3]], |tz| { [1 | tz] != [1, 3, 3], tz == [3, 3] }, y == [_, []] } }] }])
}
pub fn case_332(vars: &Vars) -> InferredGoal<DU, DE, Goal<DU, DE>> {
    let x = vars.v[0].clone();
    let y = vars.v[1].clone();
    proto_vulcan!([y == ['a'], condu { [conde { [], [[false, |tz| { tz == [3, 2], [3, 3, 2] != [3 | tz] }]] }, [y, "a"] == x] }, closure { [x == [x | y], P3([2, _], [], x) == x] }])
}
pub fn case_333(vars: &Vars) -> InferredGoal<DU, DE, Goal<DU, DE>> {
    let q = vars.v[0].clone();
    let x = vars.v[1].clone();
    proto_vulcan!([P3([], _, q) == q, [[[1, [], "a"] | q] != true, q != [_, q]], conde { [[2 | 3] == q, x == q], P3([], [2, _], 1) != q, [q == [2, x, x], |x, t| { [2, x, _] == x, x == [[1, q, q], [q, x, q], ['b', x | q] | t] }] }])
}
pub fn case_334(vars: &Vars) -> InferredGoal<DU, DE, Goal<DU, DE>> {
    let x = vars.v[0].clone();
    let y = vars.v[1].clone();
    proto_vulcan!([[x | x] != x])
}
pub fn case_335(vars: &Vars) -> InferredGoal<DU, DE, Goal<DU, DE>> {
    let x = vars.v[0].clone();
    proto_vulcan!([[x, 3, x] == x, |h, y| { h == h }, _ != x, { let c__: InferredGoal<DU, DE, Goal<DU, DE>> = proto_vulcan_closure!(|yy| { conde { [x == [yy | _], yy == 1], [x == [_, yy | _], yy == 2] } }); let g__: Goal<DU, DE> = ::proto_vulcan::GoalCast::cast_into(c__); let r__: InferredGoal<DU, DE, Goal<DU, DE>> = proto_vulcan!([g__.clone(), g__]); r__ }])
}
pub fn case_336(vars: &Vars) -> InferredGoal<DU, DE, Goal<DU, DE>> {
    let q = vars.v[0].clone();
    let x = vars.v[1].clone();
    proto_vulcan!([[q == [[[] | x]]]])
}
pub fn case_337(vars: &Vars) -> InferredGoal<DU, DE, Goal<DU, DE>> {
    let x = vars.v[0].clone();
    let y = vars.v[1].clone();
    proto_vulcan!([[], |h| {  }, 2 == x, closure { [|t| { conde { [], [x, 2 | 3] == x, [[1, [], _] == P3(t, _, 2), _ == y] }, 1 == x }, x == y] }])
}
pub fn case_338(vars: &Vars) -> InferredGoal<DU, DE, Goal<DU, DE>> {
    let x = vars.v[0].clone();
    proto_vulcan!([x != [[x, 2, []], x, [x, 2, false | x]], x != x])
}
pub fn case_339(vars: &Vars) -> InferredGoal<DU, DE, Goal<DU, DE>> {
    let x = vars.v[0].clone();
    proto_vulcan!([[] == [_ | x]])
}
pub fn case_340(vars: &Vars) -> InferredGoal<DU, DE, Goal<DU, DE>> {
    let x = vars.v[0].clone();
    proto_vulcan!([[2, _] == x, closure { |h| {  } }])
}
pub fn case_341(vars: &Vars) -> InferredGoal<DU, DE, Goal<DU, DE>> {
    let q = vars.v[0].clone();
    let x = vars.v[1].clone();
    proto_vulcan!([x == _, [], [x] == q])
}
pub fn case_342(vars: &Vars) -> InferredGoal<DU, DE, Goal<DU, DE>> {
    let q = vars.v[0].clone();
    let x = vars.v[1].clone();
    proto_vulcan!([conde { q == [x, x, 2 | x], [false, (x, _) == [x, [2 | q] | 2]], [] }, x != q, closure { condu { x == [[q | q]], onceo { [["a", 3], [], [3, 3] | q] == q } } }])
}
pub fn case_343(vars: &Vars) -> InferredGoal<DU, DE, Goal<DU, DE>> {
    let q = vars.v[0].clone();
    let x = vars.v[1].clone();
    proto_vulcan!([|t, z| { [2] != t, [q == z, member(z, [2]), conde { [[] == t, t != ([], q)], [t == 1, true] }] }, [|y| { condu { q == q, |tz| { tz == [2], [1, 2, 2] != [1, 2 | tz] }, q == true }, conde { y == q, false }, |tz| { tz == [3], [2 | tz] != [2, 3] } }, 3 == [[q | q], [1, [], 1], [1]]], [conde { [conda { x != [3, x | q] }, conda { x != [q], q == q, ([_], [3]) != [[2, 1 | q], [[], x], x] }], [[member(x, [])], |t| { false, member(q, [2, 1, 1]), q == x }] }]])
}
pub fn case_344(vars: &Vars) -> InferredGoal<DU, DE, Goal<DU, DE>> {
    let x = vars.v[0].clone();
    proto_vulcan!([P3(_, [[], x], [[], _]) == x])
}
pub fn case_345(vars: &Vars) -> InferredGoal<DU, DE, Goal<DU, DE>> {
    let x = vars.v[0].clone();
    proto_vulcan!([|tz| { [2 | tz] != [2, 1], tz == [1] }, [[x, x]] != x, closure { [onceo { condu { [x != 3, false] } }, |tz| { [2, 2] != [2 | tz], tz == [2] }] }])
}
pub fn case_346(vars: &Vars) -> InferredGoal<DU, DE, Goal<DU, DE>> {
    let q = vars.v[0].clone();
    let x = vars.v[1].clone();
    proto_vulcan!([x != (_, _)])
}
pub fn case_347(vars: &Vars) -> InferredGoal<DU, DE, Goal<DU, DE>> {
    let x = vars.v[0].clone();
    let y = vars.v[1].clone();
    proto_vulcan!([|z, y| {  }, onceo { y == [[1, y], _, ["a", 2]] }, { let c__: InferredGoal<DU, DE, Goal<DU, DE>> = proto_vulcan_closure!(|yy| { conde { [y == [yy | _], yy == 1], [y == [_, yy | _], yy == 2] } }); let g__: Goal<DU, DE> = ::proto_vulcan::GoalCast::cast_into(c__); let r__: InferredGoal<DU, DE, Goal<DU, DE>> = proto_vulcan!([g__.clone(), g__]); r__ }])
}
pub fn case_348(vars: &Vars) -> InferredGoal<DU, DE, Goal<DU, DE>> {
    let q = vars.v[0].clone();
    let x = vars.v[1].clone();
    proto_vulcan!([[[q, _, _ | q], [], true | x] == x, condu { true, _ == P3(_, x, x) }, x == 3])
}
pub fn case_349(vars: &Vars) -> InferredGoal<DU, DE, Goal<DU, DE>> {
    let q = vars.v[0].clone();
    let x = vars.v[1].clone();
    proto_vulcan!([|y| {  }, conde { [[1, _], _, [_]] == q, [member(q, [1, 3, 2]), q == [q, 3]] }, [[3 | 1], 3, [1, 1]] == x])
}
pub fn case_350(vars: &Vars) -> InferredGoal<DU, DE, Goal<DU, DE>> {
    let q = vars.v[0].clone();
    let x = vars.v[1].clone();
    proto_vulcan!([conde { [], |y| { conde { true, q == [[], 2 | q], [y == x, member(y, [1])] } }, append(q, q, [3, 1]) }])
}
pub fn case_351(vars: &Vars) -> InferredGoal<DU, DE, Goal<DU, DE>> {
    let q = vars.v[0].clone();
    let x = vars.v[1].clone();
    proto_vulcan!([[], [append(q, x, [])]])
}
pub fn case_352(vars: &Vars) -> InferredGoal<DU, DE, Goal<DU, DE>> {
    let x = vars.v[0].clone();
    proto_vulcan!([x == x, x != (x, [2, 3]), x == [x, ['a', _, x]]])
}
pub fn case_353(vars: &Vars) -> InferredGoal<DU, DE, Goal<DU, DE>> {
    let x = vars.v[0].clone();
    proto_vulcan!([P3([3, x], x, []) == x])
}
pub fn case_354(vars: &Vars) -> InferredGoal<DU, DE, Goal<DU, DE>> {
    let x = vars.v[0].clone();
    proto_vulcan!([x == P3([1], [], 2), [] != x, |h| { member(h, [1]) }])
}
pub fn case_355(vars: &Vars) -> InferredGoal<DU, DE, Goal<DU, DE>> {
    let q = vars.v[0].clone();
    let x = vars.v[1].clone();
    proto_vulcan!([1 == q, q == (3, x), q == q, { let c__: InferredGoal<DU, DE, Goal<DU, DE>> = proto_vulcan_closure!(|yy| { conde { [q == [yy | _], yy == 1], [q == [_, yy | _], yy == 2] } }); let g__: Goal<DU, DE> = ::proto_vulcan::GoalCast::cast_into(c__); let r__: InferredGoal<DU, DE, Goal<DU, DE>> = proto_vulcan!([g__.clone(), g__]); r__ }])
}
pub fn case_356(vars: &Vars) -> InferredGoal<DU, DE, Goal<DU, DE>> {
    let x = vars.v[0].clone();
    proto_vulcan!([conda { conde { [[]], [x == [x, [], 3], [|tz| { [3, 1 | tz] != [3, 1, 2], tz == [2] }]] } }, condu { conde { [onceo { true }, _ == x] }, x == [x, 2, x] }])
}
pub fn case_357(vars: &Vars) -> InferredGoal<DU, DE, Goal<DU, DE>> {
    let x = vars.v[0].clone();
    proto_vulcan!([[|tz| { tz == [1], [1, 3, 1] != [1, 3 | tz] }, conda { onceo { x == [['b']] } }]])
}
pub fn case_358(vars: &Vars) -> InferredGoal<DU, DE, Goal<DU, DE>> {
    let q = vars.v[0].clone();
    let x = vars.v[1].clone();
    proto_vulcan!([member(x, [2, 2, 3]), |h| { |tz| { tz == [1, 1], [2, 1, 1] != [2 | tz] }, |y| { conde { x == [3], [3 != x, x == h] }, [y == x] } }, closure { q != 3 }])
}
pub fn case_359(vars: &Vars) -> InferredGoal<DU, DE, Goal<DU, DE>> {
    let q = vars.v[0].clone();
    let x = vars.v[1].clone();
    proto_vulcan!([|t, x| { [[[]]] == [2, 1] }, closure { |tz| { [3, 1, 1, 3] != [3, 1 | tz], tz == [1, 3] } }])
}
pub fn case_360(vars: &Vars) -> InferredGoal<DU, DE, Goal<DU, DE>> {
    let x = vars.v[0].clone();
    proto_vulcan!([true])
}
pub fn case_361(vars: &Vars) -> InferredGoal<DU, DE, Goal<DU, DE>> {
    let x = vars.v[0].clone();
    let y = vars.v[1].clone();
    proto_vulcan!([|h, z| { z == P3([_], 2, _), condu { [[]], [onceo { (y, 2) != y }, conde { ["bc", z, 1 | h] == y, [h] == x }], [onceo { [[1, 'a'], [3, x], [y, [], 2 | false]] == [[x, h], [3, y], [h, [], z] | z] }, append(z, z, [3, 1])] }, z == [] }, P3(y, 3, _) != x, conde { [conda { [[[]], [_], [y]] == y, conde { [x != [[] | x], y != y], [y == y, x == y], P3(x, _, 2) == x } }, y == [_, 1, _ | x]] }, closure { x == [false, x, 1] }])
}
pub fn case_362(vars: &Vars) -> InferredGoal<DU, DE, Goal<DU, DE>> {
    let x = vars.v[0].clone();
    let y = vars.v[1].clone();
    proto_vulcan!([P3(3, x, y) == x, 'b' == y])
}
pub fn case_363(vars: &Vars) -> InferredGoal<DU, DE, Goal<DU, DE>> {
    let q = vars.v[0].clone();
    let x = vars.v[1].clone();
    proto_vulcan!([|x| { x != [_, []] }, false, true])
}
pub fn case_364(vars: &Vars) -> InferredGoal<DU, DE, Goal<DU, DE>> {
    let x = vars.v[0].clone();
    let y = vars.v[1].clone();
    proto_vulcan!([x == [_, [x, _]], onceo { |tz| { tz == [3, 2], [3, 3, 2] != [3 | tz] } }, [true, conde { [|x| { (3, y) == x, [[[], _], [y, 2 | y], 3] == [3, 1, [] | 2], 1 != x }, conde { [[_, []] != x, 1 != y], x == _ }], [onceo { true }, |t, x| { x == [x] }], [|x, t| { |tz| { tz == [1, 2], [3, 1, 2] != [3 | tz] }, x == [[x, 'b'], 2 | x] }, |z, t| { t != [1], member(y, []) }] }, |t| { [] }], closure { [condu { [[[y, _, x], [y], [1]] == y, |y| { x == ([[]], 3), [3, _, []] == y, [_, x, y] == x }], x == [[1]], [x == [[_, false, _], [_, y, []]], onceo { [2, y, 3] == x }] }, [[y | 1], "a" | y] != (x, 1)] }])
}
pub fn case_365(vars: &Vars) -> InferredGoal<DU, DE, Goal<DU, DE>> {
    let x = vars.v[0].clone();
    let y = vars.v[1].clone();
    proto_vulcan!([onceo { conde { y == [1], [x != y, [x == [2, 3, x], x == [false]]], [conde { false }, onceo { member(y, [1, 1, 3]) }] } }, |y| {  }])
}
pub fn case_366(vars: &Vars) -> InferredGoal<DU, DE, Goal<DU, DE>> {
    let x = vars.v[0].clone();
    let y = vars.v[1].clone();
    proto_vulcan!([append(x, x, []), |t| { member(y, [2, 2, 2]), [y, "bc" | x] != x, onceo { conda { append(y, t, [1]), |tz| { tz == [1], [2, 3, 1] != [2, 3 | tz] }, [[1] == 1, y != [_, 2, [] | y]] } } }, onceo { [[onceo { |tz| { tz == [2, 2], [1, 1 | tz] != [1, 1, 2, 2] } }, conda { P3(y, x, y) == ([], x), y == y, [|tz| { tz == [3, 2], [1, 3, 2] != [1 | tz] }, [y, 3, []] == x] }, [member(y, [2, 1]), 1 == ([], x)]]] }])
}
pub fn case_367(vars: &Vars) -> InferredGoal<DU, DE, Goal<DU, DE>> {
    let q = vars.v[0].clone();
    let x = vars.v[1].clone();
    proto_vulcan!([x == [[_, x, x | x]], [[q, x, q] == x, P3(_, 3, [[]]) != q], P3(_, _, 2) != x, closure { [[q, q, q] == [[1, 1, 1], x, [2, 2, [] | 1] | x], [onceo { member(x, [2, 1, 3]) }]] }])
}
pub fn case_368(vars: &Vars) -> InferredGoal<DU, DE, Goal<DU, DE>> {
    let x = vars.v[0].clone();
    let y = vars.v[1].clone();
    proto_vulcan!([onceo { |x, t| {  } }])
}
pub fn case_369(vars: &Vars) -> InferredGoal<DU, DE, Goal<DU, DE>> {
    let q = vars.v[0].clone();
    let x = vars.v[1].clone();
    proto_vulcan!([q == [q, 1], [] == x])
}
pub fn case_370(vars: &Vars) -> InferredGoal<DU, DE, Goal<DU, DE>> {
    let x = vars.v[0].clone();
    proto_vulcan!([x == 2, closure { [[1, 1, x] == x, x == [1, _]] }])
}
pub fn case_371(vars: &Vars) -> InferredGoal<DU, DE, Goal<DU, DE>> {
    let x = vars.v[0].clone();
    let y = vars.v[1].clone();
    proto_vulcan!([|z, y| { [y] == x }, [y, y, 1] != ([2, _], 1), x == [[1], [y, [], "a" | y], 1]])
}
pub fn case_372(vars: &Vars) -> InferredGoal<DU, DE, Goal<DU, DE>> {
    let x = vars.v[0].clone();
    let y = vars.v[1].clone();
    proto_vulcan!([x == x, false != x, [1, [] | y] != y])
}
pub fn case_373(vars: &Vars) -> InferredGoal<DU, DE, Goal<DU, DE>> {
    let x = vars.v[0].clone();
    let y = vars.v[1].clone();
    proto_vulcan!([conda { [x == [1, 1], y == [[1 | y], ["a"]]], [append(x, x, []), true], [_ == y, []] }, |x| { x == [x, 3, 2 | y], P3([], [_, _], _) == x, true }])
}
pub fn case_374(vars: &Vars) -> InferredGoal<DU, DE, Goal<DU, DE>> {
    let x = vars.v[0].clone();
    proto_vulcan!([[true] == x])
}
pub fn case_375(vars: &Vars) -> InferredGoal<DU, DE, Goal<DU, DE>> {
    let x = vars.v[0].clone();
    let y = vars.v[1].clone();
    proto_vulcan!([|t| { x == [x, 2], |h, y| { |z| { y == [1, 1, []], false }, conde { [(1, 1) == h, x == 3] }, x != [3, h, y | t] }, x == ["bc", y] }, |tz| { [3 | tz] != [3, 1], tz == [1] }])
}
pub fn case_376(vars: &Vars) -> InferredGoal<DU, DE, Goal<DU, DE>> {
    let x = vars.v[0].clone();
    let y = vars.v[1].clone();
    proto_vulcan!([[[(1, []) == y, y == x, true], [_ | y] != x, conde { [2 == y, onceo { [y, false, "bc"] == y }], (_, 2) == y, P3(3, [y], 3) == 2 }]])
}
pub fn case_377(vars: &Vars) -> InferredGoal<DU, DE, Goal<DU, DE>> {
    let x = vars.v[0].clone();
    proto_vulcan!([[[|y, x| { ['a'] == y, true, [x, 3, 3 | y] == [[_] | "a"] }]]])
}
pub fn case_378(vars: &Vars) -> InferredGoal<DU, DE, Goal<DU, DE>> {
    let q = vars.v[0].clone();
    let x = vars.v[1].clone();
    proto_vulcan!([[[[], q] == [[x, x] | x], q == x], { let c__: InferredGoal<DU, DE, Goal<DU, DE>> = proto_vulcan_closure!(|yy| { conde { [x == [yy | _], yy == 1], [x == [_, yy | _], yy == 2] } }); let g__: Goal<DU, DE> = ::proto_vulcan::GoalCast::cast_into(c__); let r__: InferredGoal<DU, DE, Goal<DU, DE>> = proto_vulcan!([g__.clone(), g__]); r__ }])
}
pub fn case_379(vars: &Vars) -> InferredGoal<DU, DE, Goal<DU, DE>> {
    let q = vars.v[0].clone();
    let x = vars.v[1].clone();
    proto_vulcan!([q != [q, _, q], x != x, { let c__: InferredGoal<DU, DE, Goal<DU, DE>> = proto_vulcan_closure!(|yy| { conde { [q == [yy | _], yy == 1], [q == [_, yy | _], yy == 2] } }); let g__: Goal<DU, DE> = ::proto_vulcan::GoalCast::cast_into(c__); let r__: InferredGoal<DU, DE, Goal<DU, DE>> = proto_vulcan!([g__.clone(), g__]); r__ }])
}
pub fn case_380(vars: &Vars) -> InferredGoal<DU, DE, Goal<DU, DE>> {
    let x = vars.v[0].clone();
    let y = vars.v[1].clone();
    proto_vulcan!([conde { [conde { [append(y, x, [1, 3]), onceo { x == P3([3], [2], _) }], [conde { x == ([[]], y), [(_, []) == [[_, x, y | 1], 2, 2 | x], [[x, _, y], 2] == [y, 2 | 1]] }, x == x], append(y, x, []) }, |y| {  }], [conde { [([3, _], 1) == y, x != 2], [x != [[1, y, y | x]], [[x, 1], x, [3, y]] == [true | y]] }, [y | y] != x], [[y == [x], |tz| { [2, 2 | tz] != [2, 2, 2, 1], tz == [2, 1] }, [[_, 1] == x, append(y, x, [2, 2]), y == [3, 2]]]] }, condu { [false, |t| { [t] == y }], [onceo { [[[], y, y]] == x }, |y, t| { onceo { |tz| { tz == [2, 2], [3, 3 | tz] != [3, 3, 2, 2] } }, y == [y, t, [[], 'b', y]], |t, y| { true, [_, 2, [] | t] == t, member(t, [1, 1, 1]) } }], [[y, x, 2], [y, [], 2], [1, _, x]] == P3([3], _, [y]) }, onceo { condu { P3(_, [[]], 2) == y, [member(x, [3]), y == y] } }])
}
pub fn case_381(vars: &Vars) -> InferredGoal<DU, DE, Goal<DU, DE>> {
    let q = vars.v[0].clone();
    let x = vars.v[1].clone();
    proto_vulcan!([1 != x, conde { [q == P3(_, _, [3, _]), conda { onceo { [2 | _] == q }, [q != [1, 2, 'a' | 1], 2 == x], [[q, 3, 1] == P3([3, q], x, 2), x != [['b', 2]]] }], member(x, []) }])
}
pub fn case_382(vars: &Vars) -> InferredGoal<DU, DE, Goal<DU, DE>> {
    let x = vars.v[0].clone();
    proto_vulcan!([false == x])
}
pub fn case_383(vars: &Vars) -> InferredGoal<DU, DE, Goal<DU, DE>> {
    let x = vars.v[0].clone();
    proto_vulcan!([x == (_, x), x == x, closure { [conde { [x, 3, _ | x] != x, [[[[1 | x], [[], [], x | x], x | x] != P3(x, _, 1)]] }, x == x] }])
}
pub fn case_384(vars: &Vars) -> InferredGoal<DU, DE, Goal<DU, DE>> {
    let x = vars.v[0].clone();
    let y = vars.v[1].clone();
    proto_vulcan!([[onceo { onceo { x == [[1]] } }, conde { _ == 1, [] }], conde { x == 2, false, false }])
}
pub fn case_385(vars: &Vars) -> InferredGoal<DU, DE, Goal<DU, DE>> {
    let q = vars.v[0].clone();
    let x = vars.v[1].clone();
    proto_vulcan!([false, q == q, closure { [[]] == q }])
}
pub fn case_386(vars: &Vars) -> InferredGoal<DU, DE, Goal<DU, DE>> {
    let q = vars.v[0].clone();
    let x = vars.v[1].clone();
    proto_vulcan!([x == [2, q | 3], [q] == 'b', 2 == _])
}
pub fn case_387(vars: &Vars) -> InferredGoal<DU, DE, Goal<DU, DE>> {
    let q = vars.v[0].clone();
    let x = vars.v[1].clone();
    proto_vulcan!([3 != q, x != x])
}
pub fn case_388(vars: &Vars) -> InferredGoal<DU, DE, Goal<DU, DE>> {
    let x = vars.v[0].clone();
    proto_vulcan!([[1, 1] == x, conde { conde { [[true, x == [2]], x == x], member(x, [3, 1, 2]) }, condu { [([], []) != P3(x, [2], 1), |z, x| { ([x, x], [_, 2]) == z }], [x == [_, x, 2 | x], [x == [_, x, 2], 3 == x]], [onceo { [2, x] == x }, conda { x != "bc", [[true, [], x] == x, x == x], [append(x, x, [2]), false] }] } }, closure { [x == [[_] | x], x == 2] }])
}
pub fn case_389(vars: &Vars) -> InferredGoal<DU, DE, Goal<DU, DE>> {
    let x = vars.v[0].clone();
    let y = vars.v[1].clone();
    proto_vulcan!([|z| { [onceo { x == (y, z) }], |y, z| { y == [[], x, z | z], [1] == x } }, (1, [[]]) == y, 1 == y, closure { [[x] != [x, 2], y == 1] }])
}
pub fn case_390(vars: &Vars) -> InferredGoal<DU, DE, Goal<DU, DE>> {
    let q = vars.v[0].clone();
    let x = vars.v[1].clone();
    proto_vulcan!([member(x, [2]), closure { [|t| { member(x, [2]), |x, z| { |tz| { [1, 2, 2] != [1 | tz], tz == [2, 2] }, z == [x] } }, [q, 'a' | x] == x] }])
}
pub fn case_391(vars: &Vars) -> InferredGoal<DU, DE, Goal<DU, DE>> {
    let q = vars.v[0].clone();
    let x = vars.v[1].clone();
    proto_vulcan!([conde { [x == x, q == [x, q]], [] }, |tz| { [1 | tz] != [1, 2, 2], tz == [2, 2] }, { let c__: InferredGoal<DU, DE, Goal<DU, DE>> = proto_vulcan_closure!([|yy| { conde { [q == [yy | _], yy == 1], [q == [_, yy | _], yy == 2] } }, [2 == (q, x), q == q]]); let g__: Goal<DU, DE> = ::proto_vulcan::GoalCast::cast_into(c__); let r__: InferredGoal<DU, DE, Goal<DU, DE>> = proto_vulcan!([g__.clone(), g__]); r__ }])
}
pub fn case_392(vars: &Vars) -> InferredGoal<DU, DE, Goal<DU, DE>> {
    let x = vars.v[0].clone();
    let y = vars.v[1].clone();
    proto_vulcan!([[2, 1 | x] != x])
}
pub fn case_393(vars: &Vars) -> InferredGoal<DU, DE, Goal<DU, DE>> {
    let x = vars.v[0].clone();
    proto_vulcan!([[[x] == x], x == [1, x], [], closure { [P3(x, _, 1) == [x, [x | x], []], conde { x != ([], x), [|h| { member(h, [3, 1, 1]) }, condu { [append(x, x, []), (x, []) != x], [1, x] != x }], true }] }])
}
pub fn case_394(vars: &Vars) -> InferredGoal<DU, DE, Goal<DU, DE>> {
    let x = vars.v[0].clone();
    proto_vulcan!([conda { [[x, _, 2 | x] != x, |z| {  }] }, x == [3 | _]])
}
pub fn case_395(vars: &Vars) -> InferredGoal<DU, DE, Goal<DU, DE>> {
    let x = vars.v[0].clone();
    proto_vulcan!([[_ | x] != x, conda { x != x, [|z| { [z] == z, z == z }, conda { 1 == x, false }], [x | _] != x }, conda { P3([2], x, x) != x, [x != P3([_], x, x), x == [[], "a" | x]], [(x, [x, 1]) == x, [[2, x | x]] == x] }])
}
pub fn case_396(vars: &Vars) -> InferredGoal<DU, DE, Goal<DU, DE>> {
    let x = vars.v[0].clone();
    proto_vulcan!([conde { |x, h| { |tz| { [3 | tz] != [3, 1, 1], tz == [1, 1] } } }, 1 != x, |z, h| {  }])
}
pub fn case_397(vars: &Vars) -> InferredGoal<DU, DE, Goal<DU, DE>> {
    let x = vars.v[0].clone();
    proto_vulcan!([onceo { |h, y| { |y| { y == 3, ([2, 1], h) != y, [x] == h }, (h, [y, 1]) == x } }])
}
pub fn case_398(vars: &Vars) -> InferredGoal<DU, DE, Goal<DU, DE>> {
    let q = vars.v[0].clone();
    let x = vars.v[1].clone();
    proto_vulcan!([[[x], _] == x, { let c__: InferredGoal<DU, DE, Goal<DU, DE>> = proto_vulcan_closure!([|yy| { conde { [q == [yy | _], yy == 1], [q == [_, yy | _], yy == 2] } }, q == [_, 2]]); let g__: Goal<DU, DE> = ::proto_vulcan::GoalCast::cast_into(c__); let r__: InferredGoal<DU, DE, Goal<DU, DE>> = proto_vulcan!([g__.clone(), g__]); r__ }])
}
pub fn case_399(vars: &Vars) -> InferredGoal<DU, DE, Goal<DU, DE>> {
    let q = vars.v[0].clone();
    let x = vars.v[1].clone();
    proto_vulcan!([onceo { [[]] == q }, x != x, |y| { 1 == q }])
}
pub fn case_400(vars: &Vars) -> InferredGoal<DU, DE, Goal<DU, DE>> {
    let x = vars.v[0].clone();
    let y = vars.v[1].clone();
    proto_vulcan!([conde { [], [onceo { append(x, y, [1]) }, [member(x, [2]), |h| { true, (_, [x, []]) != y, [2] != y }]], [|z, y| { [[[], 1, 2 | z] != x, x == [], [[], 2, _ | y] == x] }, [x, [[], y, x | x] | "a"] == y] }, |z, t| { P3(2, 1, z) == y, false, conde { [_ == t, |y, x| { x != t }] } }, [2 == y]])
}
pub fn case_401(vars: &Vars) -> InferredGoal<DU, DE, Goal<DU, DE>> {
    let x = vars.v[0].clone();
    let y = vars.v[1].clone();
    proto_vulcan!([[] == y, onceo { [1, x, [x, x, _ | y] | x] == x }])
}
pub fn case_402(vars: &Vars) -> InferredGoal<DU, DE, Goal<DU, DE>> {
    let x = vars.v[0].clone();
    let y = vars.v[1].clone();
    proto_vulcan!([[y] == x])
}
pub fn case_403(vars: &Vars) -> InferredGoal<DU, DE, Goal<DU, DE>> {
    let q = vars.v[0].clone();
    let x = vars.v[1].clone();
    proto_vulcan!([x == [[x, 1, _], [_]], [1, [x, _, false], [x, x]] == q])
}
pub fn case_404(vars: &Vars) -> InferredGoal<DU, DE, Goal<DU, DE>> {
    let x = vars.v[0].clone();
    let y = vars.v[1].clone();
    proto_vulcan!([[[]] == y, { let c__: InferredGoal<DU, DE, Goal<DU, DE>> = proto_vulcan_closure!(|yy| { conde { [x == [yy | _], yy == 1], [x == [_, yy | _], yy == 2] } }); let g__: Goal<DU, DE> = ::proto_vulcan::GoalCast::cast_into(c__); let r__: InferredGoal<DU, DE, Goal<DU, DE>> = proto_vulcan!([g__.clone(), g__]); r__ }])
}
pub fn case_405(vars: &Vars) -> InferredGoal<DU, DE, Goal<DU, DE>> {
    let x = vars.v[0].clone();
    let y = vars.v[1].clone();
    proto_vulcan!([[x, 2, [y, 1, x]] == y])
}
pub fn case_406(vars: &Vars) -> InferredGoal<DU, DE, Goal<DU, DE>> {
    let x = vars.v[0].clone();
    let y = vars.v[1].clone();
    proto_vulcan!([|h| { ([2], [y, h]) == [[1, _], [[]]], member(y, [3]) }, 1 == y, closure { [[] == x, condu { [false, [y != [2], true, x == x]], y != x }] }])
}
pub fn case_407(vars: &Vars) -> InferredGoal<DU, DE, Goal<DU, DE>> {
    let x = vars.v[0].clone();
    let y = vars.v[1].clone();
    proto_vulcan!([y != [2, y | x], x == [2, x], conda { [x, _, y | x] == y, [y == [3 | x], [y, _, 3 | y] == x], conde { [condu { [P3(3, [], _) == y, member(x, [3, 1, 2])], false }, P3(y, [_], x) == x] } }])
}
pub fn case_408(vars: &Vars) -> InferredGoal<DU, DE, Goal<DU, DE>> {
    let x = vars.v[0].clone();
    proto_vulcan!([onceo { conde { [[true | x] == [[_], x], [] != x], [([_], _) == x, onceo { [x] == x }] } }, true])
}
pub fn case_409(vars: &Vars) -> InferredGoal<DU, DE, Goal<DU, DE>> {
    let q = vars.v[0].clone();
    let x = vars.v[1].clone();
    proto_vulcan!([onceo { [[|z| {  }]] }, conde { |tz| { tz == [3, 2], [2, 1, 3, 2] != [2, 1 | tz] } }, |tz| { tz == [3], [3, 3] != [3 | tz] }, { let c__: InferredGoal<DU, DE, Goal<DU, DE>> = proto_vulcan_closure!(|yy| { conde { [q == [yy | _], yy == 1], [q == [_, yy | _], yy == 2] } }); let g__: Goal<DU, DE> = ::proto_vulcan::GoalCast::cast_into(c__); let r__: InferredGoal<DU, DE, Goal<DU, DE>> = proto_vulcan!([g__.clone(), g__]); r__ }])
}
pub fn case_410(vars: &Vars) -> InferredGoal<DU, DE, Goal<DU, DE>> {
    let x = vars.v[0].clone();
    proto_vulcan!([[x] != x, closure { [x == [1 | x], [|x, t| { member(t, []), t != x, x == P3(x, _, 1) }, true, [x, 1, x] == x]] }])
}
pub fn case_411(vars: &Vars) -> InferredGoal<DU, DE, Goal<DU, DE>> {
    let q = vars.v[0].clone();
    let x = vars.v[1].clone();
    proto_vulcan!([conde { [q == [[1, x | q]], |tz| { tz == [3], [3, 2, 3] != [3, 2 | tz] }], [(2, 1) != x, x == x], [P3(2, _, q) == P3([_, []], [_], [[], q]), ['b' | x] != [[[]], [q, _], _ | q]] }, member(q, []), (2, [1]) == x])
}
pub fn case_412(vars: &Vars) -> InferredGoal<DU, DE, Goal<DU, DE>> {
    let q = vars.v[0].clone();
    let x = vars.v[1].clone();
    proto_vulcan!([[x, 1, 1] == q, []])
}
pub fn case_413(vars: &Vars) -> InferredGoal<DU, DE, Goal<DU, DE>> {
    let q = vars.v[0].clone();
    let x = vars.v[1].clone();
    proto_vulcan!([onceo { [q, q, x] != q }, |y| { true, append(y, x, []) }])
}
pub fn case_414(vars: &Vars) -> InferredGoal<DU, DE, Goal<DU, DE>> {
    let x = vars.v[0].clone();
    proto_vulcan!([append(x, x, []), x == ([], [3, []]), [x, []] == x, closure { [|h, y| { member(x, [3]), [P3(x, [y], [_, []]) == h] }, []] }])
}
pub fn case_415(vars: &Vars) -> InferredGoal<DU, DE, Goal<DU, DE>> {
    let q = vars.v[0].clone();
    let x = vars.v[1].clone();
    proto_vulcan!([q == [[], _, q]])
}
pub fn case_416(vars: &Vars) -> InferredGoal<DU, DE, Goal<DU, DE>> {
    let q = vars.v[0].clone();
    let x = vars.v[1].clone();
    proto_vulcan!([[[x], x] == [[[]] | x], |tz| { [2, 3, 2, 3] != [2, 3 | tz], tz == [2, 3] }, closure { [member(q, [2, 1]), |x| { conde { q == 1, true } }] }])
}
pub fn case_417(vars: &Vars) -> InferredGoal<DU, DE, Goal<DU, DE>> {
    let x = vars.v[0].clone();
    let y = vars.v[1].clone();
    proto_vulcan!([onceo { y != [] }, [y, [] | y] == y, true])
}
pub fn case_418(vars: &Vars) -> InferredGoal<DU, DE, Goal<DU, DE>> {
    let x = vars.v[0].clone();
    let y = vars.v[1].clone();
    proto_vulcan!([(3, x) != y, [x, [x, _, y]] == ([_], _)])
}
pub fn case_419(vars: &Vars) -> InferredGoal<DU, DE, Goal<DU, DE>> {
    let x = vars.v[0].clone();
    proto_vulcan!([x == [x, []], closure { x == x }])
}
pub fn case_420(vars: &Vars) -> InferredGoal<DU, DE, Goal<DU, DE>> {
    let x = vars.v[0].clone();
    proto_vulcan!([|h| { |y, h| { |tz| { [1, 1, 2, 2] != [1, 1 | tz], tz == [2, 2] }, [_, _ | y] == x, x == [h | x] } }])
}
pub fn case_421(vars: &Vars) -> InferredGoal<DU, DE, Goal<DU, DE>> {
    let x = vars.v[0].clone();
    let y = vars.v[1].clone();
    proto_vulcan!([[member(x, []), |z| { 1 != z, onceo { member(x, [2, 3]) } }], |h| { h == 2 }, y == [x, true, 2 | y], { let c__: InferredGoal<DU, DE, Goal<DU, DE>> = proto_vulcan_closure!(|yy| { conde { [y == [yy | _], yy == 1], [y == [_, yy | _], yy == 2] } }); let g__: Goal<DU, DE> = ::proto_vulcan::GoalCast::cast_into(c__); let r__: InferredGoal<DU, DE, Goal<DU, DE>> = proto_vulcan!([g__.clone(), g__]); r__ }])
}
pub fn case_422(vars: &Vars) -> InferredGoal<DU, DE, Goal<DU, DE>> {
    let q = vars.v[0].clone();
    let x = vars.v[1].clone();
    proto_vulcan!([member(q, [1, 2])])
}
pub fn case_423(vars: &Vars) -> InferredGoal<DU, DE, Goal<DU, DE>> {
    let x = vars.v[0].clone();
    proto_vulcan!([conda { |t, h| {  }, [[x, x | x], [x, x, _] | x] != x, [[]] != P3([1, x], x, []) }, |y| { |t, z| { [] == x }, [x, _] == y, [2] == y }, conda { [[conde { [[[x, x], 1] != x, |tz| { [3, 3 | tz] != [3, 3, 3], tz == [3] }], [[x] == 1, ["bc", 1, 1] == x] }, |h| { _ == x, [2, 2] == [x | h] }], |y| { onceo { y == [y] }, x == P3([], 3, 3) }], false, conda { [x == x, P3([x, _], [_, x], x) == x] } }])
}
pub fn case_424(vars: &Vars) -> InferredGoal<DU, DE, Goal<DU, DE>> {
    let q = vars.v[0].clone();
    let x = vars.v[1].clone();
    proto_vulcan!([[["bc", 2]] != x])
}
pub fn case_425(vars: &Vars) -> InferredGoal<DU, DE, Goal<DU, DE>> {
    let q = vars.v[0].clone();
    let x = vars.v[1].clone();
    proto_vulcan!([onceo { x == [false, 2 | 2] }, conde { (x, 3) == (q, _), [], [x == x, q == [q, _, q | q]] }, [2, []] == x])
}
pub fn case_426(vars: &Vars) -> InferredGoal<DU, DE, Goal<DU, DE>> {
    let q = vars.v[0].clone();
    let x = vars.v[1].clone();
    proto_vulcan!([|x, z| { conde { |t| { [x, q, _] == t, |tz| { [2, 3, 1] != [2 | tz], tz == [3, 1] }, [2, 2] == q }, z == [1 | x], [x != (x, _), |h, t| { [1] == t, x != [x, 2, true | z], (2, z) == [[t, x], [3, 'b', 3]] }] }, member(q, [1, 1, 3]), [] == q }, closure { [[_] == q, member(q, [2])] }])
}
pub fn case_427(vars: &Vars) -> InferredGoal<DU, DE, Goal<DU, DE>> {
    let x = vars.v[0].clone();
    let y = vars.v[1].clone();
    proto_vulcan!([|y, x| { |tz| { tz == [1, 1], [2, 1, 1] != [2 | tz] }, onceo { |z, y| { member(y, [3]) } } }, { let c__: InferredGoal<DU, DE, Goal<DU, DE>> = proto_vulcan_closure!([|yy| { conde { [x == [yy | _], yy == 1], [x == [_, yy | _], yy == 2] } }, [2, y] == [[x | y], 1, []]]); let g__: Goal<DU, DE> = ::proto_vulcan::GoalCast::cast_into(c__); let r__: InferredGoal<DU, DE, Goal<DU, DE>> = proto_vulcan!([g__.clone(), g__]); r__ }])
}
pub fn case_428(vars: &Vars) -> InferredGoal<DU, DE, Goal<DU, DE>> {
    let x = vars.v[0].clone();
    let y = vars.v[1].clone();
    proto_vulcan!(['b' == x, [|tz| { [1, 2] != [1 | tz], tz == [2] }], closure { [conda { x == x }, y == 2] }])
}
pub fn case_429(vars: &Vars) -> InferredGoal<DU, DE, Goal<DU, DE>> {
    let q = vars.v[0].clone();
    let x = vars.v[1].clone();
    proto_vulcan!([|tz| { [3, 1] != [3 | tz], tz == [1] }, [] == q])
}
pub fn case_430(vars: &Vars) -> InferredGoal<DU, DE, Goal<DU, DE>> {
    let q = vars.v[0].clone();
    let x = vars.v[1].clone();
    proto_vulcan!([|h| { [h, 3] == x, |t| { |t, z| { [[1, 1, 2] | x] != q, (h, [1]) != q } } }, |z| { |h| {  }, [match x { P3([h, 2], 2, 3) => , _ => [q == [2], member(q, [3, 1, 1])], }, conde { [] == 1, [q == q, [x] == x] }, z == P3(x, [1], [1, x])] }, { let c__: InferredGoal<DU, DE, Goal<DU, DE>> = proto_vulcan_closure!([|yy| { conde { [q == [yy | _], yy == 1], [q == [_, yy | _], yy == 2] } }, 'b' == q]); let g__: Goal<DU, DE> = ::proto_vulcan::GoalCast::cast_into(c__); let r__: InferredGoal<DU, DE, Goal<DU, DE>> = proto_vulcan!([g__.clone(), g__]); r__ }])
}
pub fn case_431(vars: &Vars) -> InferredGoal<DU, DE, Goal<DU, DE>> {
    let q = vars.v[0].clone();
    let x = vars.v[1].clone();
    proto_vulcan!([|h| { [h, 3] == x, |t| { |t, z| { [[1, 1, 2] | x] != q, (h, [1]) != q } } }, |z| { |h| {  }, [match x { P3([h, 2], 2, 3) => , _ => [q == [2], member(q, [3, 1, 1])], }, conde { [] == 1, [q == q, [x] == x] }, z == P3(x, [1], [1, x])] }, { let c__: InferredGoal<DU, DE, Goal<DU, DE>> = proto_vulcan_closure!([|fresh_name_9| { conde { [q == [fresh_name_9 | _], fresh_name_9 == 1], [q == [_, fresh_name_9 | _], fresh_name_9 == 2] } }, 'b' == q]); let g__: Goal<DU, DE> = ::proto_vulcan::GoalCast::cast_into(c__); let r__: InferredGoal<DU, DE, Goal<DU, DE>> = proto_vulcan!([g__.clone(), g__]); r__ }])
}
pub fn case_432(vars: &Vars) -> InferredGoal<DU, DE, Goal<DU, DE>> {
    let x = vars.v[0].clone();
    proto_vulcan!([conde { [|y| { |z, y| { |tz| { [1, 1 | tz] != [1, 1, 3, 1], tz == [3, 1] }, (y, [y]) != [true, [1, y, y | x] | x], x == [1, x, 2 | z] } }, |h, x| { x == [h, x, h], x != h, conde { x == [2, 1, 2 | x], x != [h, h] } }] }, closure { [1, x | x] == x }])
}
pub fn case_433(vars: &Vars) -> InferredGoal<DU, DE, Goal<DU, DE>> {
    let x = vars.v[0].clone();
    proto_vulcan!([conde { [|y| { |z, y| { |tz| { [1, 1 | tz] != [1, 1, 3, 1], tz == [3, 1] }, (y, [y]) != [true, [1, y, y | x] | x], x == [1, x, 2 | z] } }, |h, fresh_name_9| { fresh_name_9 == [h, fresh_name_9, h], fresh_name_9 != h, conde { fresh_name_9 == [2, 1, 2 | fresh_name_9], fresh_name_9 != [h, h] } }] }, closure { [1, x | x] == x }])
}
pub fn case_434(vars: &Vars) -> InferredGoal<DU, DE, Goal<DU, DE>> {
    let x = vars.v[0].clone();
    proto_vulcan!([[[|z| { 2 == [3 | x], ([[]], x) == [[z, x | z], 3, z], x == false }], x == P3([2], _, _)], match x { [[t, []] | _] => [member(x, []), |z| { (z, z) == P3([_], [x, []], [2, []]), [t, z | z] == z }], }, []])
}
pub fn case_435(vars: &Vars) -> InferredGoal<DU, DE, Goal<DU, DE>> {
    let x = vars.v[0].clone();
    proto_vulcan!([[[|z| { 2 == [3 | x], ([[]], x) == [[z, x | z], 3, z], x == false }], x == P3([2], _, _)], match x { [[fresh_name_9, []] | _] => [member(x, []), |z| { (z, z) == P3([_], [x, []], [2, []]), [fresh_name_9, z | z] == z }], }, []])
}
pub fn case_436(vars: &Vars) -> InferredGoal<DU, DE, Goal<DU, DE>> {
    let q = vars.v[0].clone();
    let x = vars.v[1].clone();
    proto_vulcan!([[match q { _ => { member(x, [1, 2, 3]) }, z | [['a' | _], 3, 1] => , z => , }, [] == q]])
}
pub fn case_437(vars: &Vars) -> InferredGoal<DU, DE, Goal<DU, DE>> {
    let q = vars.v[0].clone();
    let x = vars.v[1].clone();
    proto_vulcan!([[match q { _ => { member(x, [1, 2, 3]) }, z | [['a' | _], 3, 1] => , fresh_name_9 => , }, [] == q]])
}
pub fn case_438(vars: &Vars) -> InferredGoal<DU, DE, Goal<DU, DE>> {
    let q = vars.v[0].clone();
    let x = vars.v[1].clone();
    proto_vulcan!([|h| {  }, false])
}
pub fn case_439(vars: &Vars) -> InferredGoal<DU, DE, Goal<DU, DE>> {
    let q = vars.v[0].clone();
    let x = vars.v[1].clone();
    proto_vulcan!([|fresh_name_9| {  }, false])
}
pub fn case_440(vars: &Vars) -> InferredGoal<DU, DE, Goal<DU, DE>> {
    let q = vars.v[0].clone();
    let x = vars.v[1].clone();
    proto_vulcan!([[matche q { [[h, _, t], [y, [], z | 2], []] => [[1] == x, [1 != q, member(h, [1, 3]), member(z, [3, 1, 3])]], }, conde { match x { _ | [] => { |tz| { tz == [3], [1, 2, 3] != [1, 2 | tz] }, ([], []) != x }, [t] => , }, [], [match q { h | h => { [_, q | h] == ([2, 2], h), x == 2 }, }, 2 == q] }, "bc" == x], x == [x, q]])
}
pub fn case_441(vars: &Vars) -> InferredGoal<DU, DE, Goal<DU, DE>> {
    let q = vars.v[0].clone();
    let x = vars.v[1].clone();
    proto_vulcan!([[matche q { [[h, _, t], [y, [], fresh_name_9 | 2], []] => [[1] == x, [1 != q, member(h, [1, 3]), member(fresh_name_9, [3, 1, 3])]], }, conde { match x { _ | [] => { |tz| { tz == [3], [1, 2, 3] != [1, 2 | tz] }, ([], []) != x }, [t] => , }, [], [match q { h | h => { [_, q | h] == ([2, 2], h), x == 2 }, }, 2 == q] }, "bc" == x], x == [x, q]])
}
pub fn case_442(vars: &Vars) -> InferredGoal<DU, DE, Goal<DU, DE>> {
    let x = vars.v[0].clone();
    let y = vars.v[1].clone();
    proto_vulcan!([true, { let c__: InferredGoal<DU, DE, Goal<DU, DE>> = proto_vulcan_closure!(|yy| { conde { [x == [yy | _], yy == 1], [x == [_, yy | _], yy == 2] } }); let g__: Goal<DU, DE> = ::proto_vulcan::GoalCast::cast_into(c__); let r__: InferredGoal<DU, DE, Goal<DU, DE>> = proto_vulcan!([g__.clone(), g__]); r__ }])
}
pub fn case_443(vars: &Vars) -> InferredGoal<DU, DE, Goal<DU, DE>> {
    let x = vars.v[0].clone();
    let y = vars.v[1].clone();
    proto_vulcan!([true, { let c__: InferredGoal<DU, DE, Goal<DU, DE>> = proto_vulcan_closure!(|fresh_name_9| { conde { [x == [fresh_name_9 | _], fresh_name_9 == 1], [x == [_, fresh_name_9 | _], fresh_name_9 == 2] } }); let g__: Goal<DU, DE> = ::proto_vulcan::GoalCast::cast_into(c__); let r__: InferredGoal<DU, DE, Goal<DU, DE>> = proto_vulcan!([g__.clone(), g__]); r__ }])
}
pub fn case_444(vars: &Vars) -> InferredGoal<DU, DE, Goal<DU, DE>> {
    let q = vars.v[0].clone();
    let x = vars.v[1].clone();
    proto_vulcan!([|tz| { [1, 2, 3] != [1, 2 | tz], tz == [3] }, (3, [_, []]) == [[], q], closure { [x == [x], [] == x] }])
}
pub fn case_445(vars: &Vars) -> InferredGoal<DU, DE, Goal<DU, DE>> {
    let q = vars.v[0].clone();
    let x = vars.v[1].clone();
    proto_vulcan!([|fresh_name_9| { [1, 2, 3] != [1, 2 | fresh_name_9], fresh_name_9 == [3] }, (3, [_, []]) == [[], q], closure { [x == [x], [] == x] }])
}
pub fn case_446(vars: &Vars) -> InferredGoal<DU, DE, Goal<DU, DE>> {
    let x = vars.v[0].clone();
    proto_vulcan!([matche [2] { _ => { x == 7, x == 8 }, }, [x, [], 3] == x, closure { match x { [[2], [3, 'a', _ | y], [t]] => { conde { t == t, [P3([t, 3], x, _) == [[1, x, 2]], false], [append(y, y, [3, 2]), false] }, |z| { x == ['a', x | 2], z == P3(3, [1], z), t == y } }, } }])
}
pub fn case_447(vars: &Vars) -> InferredGoal<DU, DE, Goal<DU, DE>> {
    let x = vars.v[0].clone();
    proto_vulcan!([matche [2] { _ => { x == 7, x == 8 }, }, [x, [], 3] == x, closure { match x { [[2], [3, 'a', _ | y], [t]] => { conde { t == t, [P3([t, 3], x, _) == [[1, x, 2]], false], [append(y, y, [3, 2]), false] }, |fresh_name_9| { x == ['a', x | 2], fresh_name_9 == P3(3, [1], fresh_name_9), t == y } }, } }])
}
pub fn case_448(vars: &Vars) -> InferredGoal<DU, DE, Goal<DU, DE>> {
    let x = vars.v[0].clone();
    proto_vulcan!([conde { [[x] != 1, |x| { matche x { Named { a: 1, b: [_] } | _ => { [_, "a", x] == x, x == (2, [_, _]) }, _ | h => , [t, [[]] | _] => 3 == t, }, [[x] == x] }], matche x { [[2, t | z]] => , _ => member(x, [1, 2, 3]), } }, |h, y| { |t, y| { member(y, [1, 3, 3]), [append(y, x, [3, 2])], [[[h] | h] == P3(t, 2, [])] } }, match x { [[2, [], 1 | x], _] | _ => , _ => { ([x], []) == x, conde { [] != x, [|tz| { tz == [2, 3], [2, 2, 3] != [2 | tz] }, matche x { y => y == y, }], [|z, h| {  }, [x, [[], x], []] == x] } }, }, closure { [[2] != x, |tz| { [2, 1] != [2 | tz], tz == [1] }] }])
}
pub fn case_449(vars: &Vars) -> InferredGoal<DU, DE, Goal<DU, DE>> {
    let x = vars.v[0].clone();
    proto_vulcan!([conde { [[x] != 1, |fresh_name_9| { matche fresh_name_9 { Named { a: 1, b: [_] } | _ => { [_, "a", fresh_name_9] == fresh_name_9, fresh_name_9 == (2, [_, _]) }, _ | h => , [t, [[]] | _] => 3 == t, }, [[fresh_name_9] == fresh_name_9] }], matche x { [[2, t | z]] => , _ => member(x, [1, 2, 3]), } }, |h, y| { |t, y| { member(y, [1, 3, 3]), [append(y, x, [3, 2])], [[[h] | h] == P3(t, 2, [])] } }, match x { [[2, [], 1 | x], _] | _ => , _ => { ([x], []) == x, conde { [] != x, [|tz| { tz == [2, 3], [2, 2, 3] != [2 | tz] }, matche x { y => y == y, }], [|z, h| {  }, [x, [[], x], []] == x] } }, }, closure { [[2] != x, |tz| { [2, 1] != [2 | tz], tz == [1] }] }])
}
pub fn case_450(vars: &Vars) -> InferredGoal<DU, DE, Goal<DU, DE>> {
    let x = vars.v[0].clone();
    proto_vulcan!([[[], x, x] != x, append(x, x, [2]), conde { [[x | x] == x, x == true], [conde { [], |tz| { [1, 1] != [1 | tz], tz == [1] }, [[[1, x, 1] == x, x == [1, x, x], 2 == x]] }, conde { matche [x] { 3 => |tz| { tz == [2, 1], [2 | tz] != [2, 2, 1] }, Named { a: 3, b: [] } | P3([], _, []) => [[[x, x], [3, []]] != x, 1 == x], }, ["bc" != x, |h| { [[h], [3, x] | h] == x }], [x, x, 2] == [1 | x] }], x == x }])
}
pub fn case_451(vars: &Vars) -> InferredGoal<DU, DE, Goal<DU, DE>> {
    let x = vars.v[0].clone();
    proto_vulcan!([[[], x, x] != x, append(x, x, [2]), conde { [[x | x] == x, x == true], [conde { [], |tz| { [1, 1] != [1 | tz], tz == [1] }, [[[1, x, 1] == x, x == [1, x, x], 2 == x]] }, conde { matche [x] { 3 => |fresh_name_9| { fresh_name_9 == [2, 1], [2 | fresh_name_9] != [2, 2, 1] }, Named { a: 3, b: [] } | P3([], _, []) => [[[x, x], [3, []]] != x, 1 == x], }, ["bc" != x, |h| { [[h], [3, x] | h] == x }], [x, x, 2] == [1 | x] }], x == x }])
}
pub fn case_452(vars: &Vars) -> InferredGoal<DU, DE, Goal<DU, DE>> {
    let q = vars.v[0].clone();
    let x = vars.v[1].clone();
    proto_vulcan!([|z| { match q { h => |tz| { [2, 2 | tz] != [2, 2, 3], tz == [3] }, [[2, z, x], "a", [z] | y] => { append(z, z, []), z == q }, x | _ => true, }, |x, z| { z != ([1, []], q) }, "bc" == z }, [matche x { _ => { append(q, q, [2, 2]) }, }, [[1] == q, conde { [q == q, false], x != [] }]], |x, y| { conde { [[x == q, y == y]], [conde { [[q | q] != y, y == [[] | x]], member(x, []) }, |tz| { tz == [2, 3], [2, 2, 2, 3] != [2, 2 | tz] }] }, P3([1, y], x, []) == q, [[_, _] == x] }, { let c__: InferredGoal<DU, DE, Goal<DU, DE>> = proto_vulcan_closure!([|yy| { conde { [q == [yy | _], yy == 1], [q == [_, yy | _], yy == 2] } }, append(x, q, [1])]); let g__: Goal<DU, DE> = ::proto_vulcan::GoalCast::cast_into(c__); let r__: InferredGoal<DU, DE, Goal<DU, DE>> = proto_vulcan!([g__.clone(), g__]); r__ }])
}
pub fn case_453(vars: &Vars) -> InferredGoal<DU, DE, Goal<DU, DE>> {
    let q = vars.v[0].clone();
    let x = vars.v[1].clone();
    proto_vulcan!([|z| { match q { h => |tz| { [2, 2 | tz] != [2, 2, 3], tz == [3] }, [[2, fresh_name_9, x], "a", [fresh_name_9] | y] => { append(fresh_name_9, fresh_name_9, []), fresh_name_9 == q }, x | _ => true, }, |x, z| { z != ([1, []], q) }, "bc" == z }, [matche x { _ => { append(q, q, [2, 2]) }, }, [[1] == q, conde { [q == q, false], x != [] }]], |x, y| { conde { [[x == q, y == y]], [conde { [[q | q] != y, y == [[] | x]], member(x, []) }, |tz| { tz == [2, 3], [2, 2, 2, 3] != [2, 2 | tz] }] }, P3([1, y], x, []) == q, [[_, _] == x] }, { let c__: InferredGoal<DU, DE, Goal<DU, DE>> = proto_vulcan_closure!([|yy| { conde { [q == [yy | _], yy == 1], [q == [_, yy | _], yy == 2] } }, append(x, q, [1])]); let g__: Goal<DU, DE> = ::proto_vulcan::GoalCast::cast_into(c__); let r__: InferredGoal<DU, DE, Goal<DU, DE>> = proto_vulcan!([g__.clone(), g__]); r__ }])
}
pub fn case_454(vars: &Vars) -> InferredGoal<DU, DE, Goal<DU, DE>> {
    let x = vars.v[0].clone();
    let y = vars.v[1].clone();
    proto_vulcan!([x != [_, 2, y], y == [[[], y]], matche 3 { Named { a: [3, []], b: t } | _ => , [[x, [], _ | 3], [1, 3, x], h | _] => , 3 | Named { a: [[]], b: h } => ([y, 3], [[], 3]) == y, }])
}
pub fn case_455(vars: &Vars) -> InferredGoal<DU, DE, Goal<DU, DE>> {
    let x = vars.v[0].clone();
    let y = vars.v[1].clone();
    proto_vulcan!([x != [_, 2, y], y == [[[], y]], matche 3 { Named { a: [3, []], b: t } | _ => , [[x, [], _ | 3], [1, 3, x], fresh_name_9 | _] => , 3 | Named { a: [[]], b: h } => ([y, 3], [[], 3]) == y, }])
}
pub fn case_456(vars: &Vars) -> InferredGoal<DU, DE, Goal<DU, DE>> {
    let x = vars.v[0].clone();
    proto_vulcan!(['a' == x, match x { h | [[h, []], [3, t, t | _]] => [|z| { conde { x == [[z, 2], [_, 1, h] | x], [2, h, x | x] == z }, P3(1, 1, [h]) == h }, (2, [_]) == x], [[3, t], [z, y, 2], []] => [] == t, [[true, t, _ | t], [h, 2, t | _], y] => { _ != [t, h, []], x == x }, }, x == P3(x, 2, x)])
}
pub fn case_457(vars: &Vars) -> InferredGoal<DU, DE, Goal<DU, DE>> {
    let x = vars.v[0].clone();
    proto_vulcan!(['a' == x, match x { h | [[h, []], [3, t, t | _]] => [|z| { conde { x == [[z, 2], [_, 1, h] | x], [2, h, x | x] == z }, P3(1, 1, [h]) == h }, (2, [_]) == x], [[3, t], [z, fresh_name_9, 2], []] => [] == t, [[true, t, _ | t], [h, 2, t | _], y] => { _ != [t, h, []], x == x }, }, x == P3(x, 2, x)])
}
pub fn case_458(vars: &Vars) -> InferredGoal<DU, DE, Goal<DU, DE>> {
    let q = vars.v[0].clone();
    let x = vars.v[1].clone();
    proto_vulcan!([x == [[[]], x], match x { t => , 1 | _ => [|tz| { tz == [1], [2, 1] != [2 | tz] }, x != x], _ => , }, matche x { _ => |tz| { [2, 2, 1] != [2 | tz], tz == [2, 1] }, }])
}
pub fn case_459(vars: &Vars) -> InferredGoal<DU, DE, Goal<DU, DE>> {
    let q = vars.v[0].clone();
    let x = vars.v[1].clone();
    proto_vulcan!([x == [[[]], x], match x { t => , 1 | _ => [|tz| { tz == [1], [2, 1] != [2 | tz] }, x != x], _ => , }, matche x { _ => |fresh_name_9| { [2, 2, 1] != [2 | fresh_name_9], fresh_name_9 == [2, 1] }, }])
}
pub fn case_460(vars: &Vars) -> InferredGoal<DU, DE, Goal<DU, DE>> {
    let x = vars.v[0].clone();
    proto_vulcan!([[x == [[2, x]], match x { _ => [x == 7, x == 8], }], conde { [[x == [x, x], [member(x, [2, 1, 1]), x == x, x != [x, x, 1]], [3, x, [3] | x] == [[], []]]], [x == x, false] }, |z| { x != [1, z, []] }])
}
pub fn case_461(vars: &Vars) -> InferredGoal<DU, DE, Goal<DU, DE>> {
    let x = vars.v[0].clone();
    proto_vulcan!([[x == [[2, x]], match x { _ => [x == 7, x == 8], }], conde { [[x == [x, x], [member(x, [2, 1, 1]), x == x, x != [x, x, 1]], [3, x, [3] | x] == [[], []]]], [x == x, false] }, |fresh_name_9| { x != [1, fresh_name_9, []] }])
}
pub fn case_462(vars: &Vars) -> InferredGoal<DU, DE, Goal<DU, DE>> {
    let x = vars.v[0].clone();
    proto_vulcan!([|h, x| { [x, x, x] != [x, [[], "a", 2] | x], |x| { x == [2 | x], x != [x, 2 | x], match [2, x] { [2, [2], [z | x] | h] | z => [3, z] != [[3], z], } } }, conde { false, [match x { Named { a: 1, b: x } => , _ => matche x { _ => { P3(_, 3, 1) == x }, 'a' => append(x, x, []), [true, 3, [] | z] => |tz| { tz == [3], [3 | tz] != [3, 3] }, }, }, [[[], 2], x, [x]] == [x, [], x | x]] }])
}
pub fn case_463(vars: &Vars) -> InferredGoal<DU, DE, Goal<DU, DE>> {
    let x = vars.v[0].clone();
    proto_vulcan!([|h, x| { [x, x, x] != [x, [[], "a", 2] | x], |x| { x == [2 | x], x != [x, 2 | x], match [2, x] { [2, [2], [z | x] | h] | z => [3, z] != [[3], z], } } }, conde { false, [match x { Named { a: 1, b: x } => , _ => matche x { _ => { P3(_, 3, 1) == x }, 'a' => append(x, x, []), [true, 3, [] | fresh_name_9] => |tz| { tz == [3], [3 | tz] != [3, 3] }, }, }, [[[], 2], x, [x]] == [x, [], x | x]] }])
}
pub fn case_464(vars: &Vars) -> InferredGoal<DU, DE, Goal<DU, DE>> {
    let x = vars.v[0].clone();
    let y = vars.v[1].clone();
    proto_vulcan!([|z, x| {  }, |y, h| { [|tz| { [3, 2 | tz] != [3, 2, 3], tz == [3] }], [[2], [] | y] != y }, [y, []] != x])
}
pub fn case_465(vars: &Vars) -> InferredGoal<DU, DE, Goal<DU, DE>> {
    let x = vars.v[0].clone();
    let y = vars.v[1].clone();
    proto_vulcan!([|fresh_name_9, x| {  }, |y, h| { [|tz| { [3, 2 | tz] != [3, 2, 3], tz == [3] }], [[2], [] | y] != y }, [y, []] != x])
}
pub fn case_466(vars: &Vars) -> InferredGoal<DU, DE, Goal<DU, DE>> {
    let x = vars.v[0].clone();
    proto_vulcan!([append(x, x, []), conde { [|z| { z == [[x, 1, x], x], match x { h => [P3([[]], [h, x], _) != [[2], [z, [] | x]], x == [x]], [z, ["a" | x] | z] => { [z, z, false] == 2, x == _ }, [[_, h], t] => [h != [3, x | h], member(x, [])], }, conde { [false, |tz| { [1, 3 | tz] != [1, 3, 3, 3], tz == [3, 3] }], P3([1, x], [], []) == z } }, |h, x| { match x { Named { a: _, b: [x, 1] } | x => { true, [] != [] }, P3(3, [], [2]) => [h == h, x != [1 | x]], }, match h { [[y, 2, z | t]] => { y == [3] }, [[z]] | _ => [2] == h, [3, [h, 2], ["bc", [], h]] => { P3([], 3, h) == h, [2] != x }, } }], x == 'a' }])
}
pub fn case_467(vars: &Vars) -> InferredGoal<DU, DE, Goal<DU, DE>> {
    let x = vars.v[0].clone();
    proto_vulcan!([append(x, x, []), conde { [|z| { z == [[x, 1, x], x], match x { h => [P3([[]], [h, x], _) != [[2], [z, [] | x]], x == [x]], [z, ["a" | x] | z] => { [z, z, false] == 2, x == _ }, [[_, h], t] => [h != [3, x | h], member(x, [])], }, conde { [false, |tz| { [1, 3 | tz] != [1, 3, 3, 3], tz == [3, 3] }], P3([1, x], [], []) == z } }, |h, x| { match x { Named { a: _, b: [x, 1] } | x => { true, [] != [] }, P3(3, [], [2]) => [h == h, x != [1 | x]], }, match h { [[y, 2, fresh_name_9 | t]] => { y == [3] }, [[z]] | _ => [2] == h, [3, [h, 2], ["bc", [], h]] => { P3([], 3, h) == h, [2] != x }, } }], x == 'a' }])
}
pub fn case_468(vars: &Vars) -> InferredGoal<DU, DE, Goal<DU, DE>> {
    let x = vars.v[0].clone();
    let y = vars.v[1].clone();
    proto_vulcan!([[conde { y == [_, y, [] | y], [[[y | 2], [_, x, 'b' | x]] == y, |x| { |tz| { [1, 1 | tz] != [1, 1, 2, 1], tz == [2, 1] }, |tz| { tz == [3, 3], [1 | tz] != [1, 3, 3] } }] }, x != P3([_, y], 2, _), match y { _ => { [2, 1, x] == y }, Named { a: t, b: [] } => , }], y == [[]], closure { |t| { |z| { t == ([], [3]) }, false == (_, 2), ([3], 2) == x } }])
}
pub fn case_469(vars: &Vars) -> InferredGoal<DU, DE, Goal<DU, DE>> {
    let x = vars.v[0].clone();
    let y = vars.v[1].clone();
    proto_vulcan!([[conde { y == [_, y, [] | y], [[[y | 2], [_, x, 'b' | x]] == y, |x| { |tz| { [1, 1 | tz] != [1, 1, 2, 1], tz == [2, 1] }, |tz| { tz == [3, 3], [1 | tz] != [1, 3, 3] } }] }, x != P3([_, y], 2, _), match y { _ => { [2, 1, x] == y }, Named { a: t, b: [] } => , }], y == [[]], closure { |t| { |fresh_name_9| { t == ([], [3]) }, false == (_, 2), ([3], 2) == x } }])
}
pub fn case_470(vars: &Vars) -> InferredGoal<DU, DE, Goal<DU, DE>> {
    let x = vars.v[0].clone();
    let y = vars.v[1].clone();
    proto_vulcan!([conde { [x != [2, 3, [] | x], |z, h| { ([h, z], [h]) == [y] }], |z| { z == 1, |tz| { tz == [2], [1, 1 | tz] != [1, 1, 2] } }, [["bc" | x] != y, false] }, matche y { z => [|tz| { tz == [2, 2], [2, 2, 2] != [2 | tz] }, [z, 1, 2] == z], [[_, _], [_, 2 | x], [1, t | z]] => { [|h| { x != ([x, []], t), x == _, [1, _, 1] != y }, z == x, 1 == (1, [])], [x] == x }, }, conde { [[|tz| { tz == [2, 2], [1, 1 | tz] != [1, 1, 2, 2] }, match y { 1 => , [[2 | h]] => [y == x, append(y, h, [2, 2])], P3(3, y, z) => , }]], [x == [_, [2, 1], [x, "bc", 1]], y != P3(2, x, [[], 1])], [] }])
}
pub fn case_471(vars: &Vars) -> InferredGoal<DU, DE, Goal<DU, DE>> {
    let x = vars.v[0].clone();
    let y = vars.v[1].clone();
    proto_vulcan!([conde { [x != [2, 3, [] | x], |fresh_name_9, h| { ([h, fresh_name_9], [h]) == [y] }], |z| { z == 1, |tz| { tz == [2], [1, 1 | tz] != [1, 1, 2] } }, [["bc" | x] != y, false] }, matche y { z => [|tz| { tz == [2, 2], [2, 2, 2] != [2 | tz] }, [z, 1, 2] == z], [[_, _], [_, 2 | x], [1, t | z]] => { [|h| { x != ([x, []], t), x == _, [1, _, 1] != y }, z == x, 1 == (1, [])], [x] == x }, }, conde { [[|tz| { tz == [2, 2], [1, 1 | tz] != [1, 1, 2, 2] }, match y { 1 => , [[2 | h]] => [y == x, append(y, h, [2, 2])], P3(3, y, z) => , }]], [x == [_, [2, 1], [x, "bc", 1]], y != P3(2, x, [[], 1])], [] }])
}
pub fn case_472(vars: &Vars) -> InferredGoal<DU, DE, Goal<DU, DE>> {
    let x = vars.v[0].clone();
    let y = vars.v[1].clone();
    proto_vulcan!([matche [y] { [] => { [[y, x, false]] == [[[], x | y], [[], y], y | x], conde { match x { P3(2, [_], _) => { x == x, false }, y => , }, [matche y { [[2], 1, [y, "a"] | x] => { |tz| { [1, 2 | tz] != [1, 2, 3], tz == [3] }, x == y }, }, false], [[_ == x]] } }, }, conde { [[x | x]] == x }])
}
pub fn case_473(vars: &Vars) -> InferredGoal<DU, DE, Goal<DU, DE>> {
    let x = vars.v[0].clone();
    let y = vars.v[1].clone();
    proto_vulcan!([matche [y] { [] => { [[y, x, false]] == [[[], x | y], [[], y], y | x], conde { match x { P3(2, [_], _) => { x == x, false }, fresh_name_9 => , }, [matche y { [[2], 1, [y, "a"] | x] => { |tz| { [1, 2 | tz] != [1, 2, 3], tz == [3] }, x == y }, }, false], [[_ == x]] } }, }, conde { [[x | x]] == x }])
}
pub fn case_474(vars: &Vars) -> InferredGoal<DU, DE, Goal<DU, DE>> {
    let x = vars.v[0].clone();
    proto_vulcan!([x == [_, _], [x, 'b', x] == x, match _ { z | _ => [|z, h| { member(h, [3]) }, conde { [], [|h, x| { ([], h) == x, x != x, false }, matche x { x | x => x == [x, x, []], x => [1 != 3, x != [x, _, 3 | x]], }], [|x, h| { true, x == [h, [], x | h], false }, x == x] }], [] | [[3, 1, []], x, [3 | t]] => , }])
}
pub fn case_475(vars: &Vars) -> InferredGoal<DU, DE, Goal<DU, DE>> {
    let x = vars.v[0].clone();
    proto_vulcan!([x == [_, _], [x, 'b', x] == x, match _ { z | _ => [|z, h| { member(h, [3]) }, conde { [], [|fresh_name_9, x| { ([], fresh_name_9) == x, x != x, false }, matche x { x | x => x == [x, x, []], x => [1 != 3, x != [x, _, 3 | x]], }], [|x, h| { true, x == [h, [], x | h], false }, x == x] }], [] | [[3, 1, []], x, [3 | t]] => , }])
}
pub fn case_476(vars: &Vars) -> InferredGoal<DU, DE, Goal<DU, DE>> {
    let q = vars.v[0].clone();
    let x = vars.v[1].clone();
    proto_vulcan!([q != [[q | 2] | x], closure { [[q, 2] == [[1, 1, 2], [[], 2]], conde { [[["bc", 1 | x], [2, _]] == ([_], 1), matche q { ['a'] => { |tz| { tz == [3, 2], [3, 1 | tz] != [3, 1, 3, 2] } }, x => { 3 != x, |tz| { [2, 1 | tz] != [2, 1, 2], tz == [2] } }, [[2, h, 1 | x], [y, 3], z] => , }], [[true, [q] == q]] }] }])
}
pub fn case_477(vars: &Vars) -> InferredGoal<DU, DE, Goal<DU, DE>> {
    let q = vars.v[0].clone();
    let x = vars.v[1].clone();
    proto_vulcan!([q != [[q | 2] | x], closure { [[q, 2] == [[1, 1, 2], [[], 2]], conde { [[["bc", 1 | x], [2, _]] == ([_], 1), matche q { ['a'] => { |tz| { tz == [3, 2], [3, 1 | tz] != [3, 1, 3, 2] } }, x => { 3 != x, |tz| { [2, 1 | tz] != [2, 1, 2], tz == [2] } }, [[2, h, 1 | x], [y, 3], fresh_name_9] => , }], [[true, [q] == q]] }] }])
}
pub fn case_478(vars: &Vars) -> InferredGoal<DU, DE, Goal<DU, DE>> {
    let q = vars.v[0].clone();
    let x = vars.v[1].clone();
    proto_vulcan!([conde { match q { [z, [] | _] => { append(z, x, [1]), matche q { [[x, 1], [true, z]] => , [] => [z, q, q] == x, 1 => { z == (z, _), P3(_, 1, _) == [[] | x] }, } }, 2 => 1 == q, [] => { [x | q] == x }, }, [([], q) == q, q != [q, [] | x]], x == [1, 1 | q] }])
}
pub fn case_479(vars: &Vars) -> InferredGoal<DU, DE, Goal<DU, DE>> {
    let q = vars.v[0].clone();
    let x = vars.v[1].clone();
    proto_vulcan!([conde { match q { [z, [] | _] => { append(z, x, [1]), matche q { [[x, 1], [true, fresh_name_9]] => , [] => [z, q, q] == x, 1 => { z == (z, _), P3(_, 1, _) == [[] | x] }, } }, 2 => 1 == q, [] => { [x | q] == x }, }, [([], q) == q, q != [q, [] | x]], x == [1, 1 | q] }])
}
pub fn case_480(vars: &Vars) -> InferredGoal<DU, DE, Goal<DU, DE>> {
    let x = vars.v[0].clone();
    let y = vars.v[1].clone();
    proto_vulcan!([conde { [[1, []] == x, [2 == x]] }, |h, x| { false }])
}
pub fn case_481(vars: &Vars) -> InferredGoal<DU, DE, Goal<DU, DE>> {
    let x = vars.v[0].clone();
    let y = vars.v[1].clone();
    proto_vulcan!([conde { [[1, []] == x, [2 == x]] }, |h, fresh_name_9| { false }])
}
pub fn case_482(vars: &Vars) -> InferredGoal<DU, DE, Goal<DU, DE>> {
    let x = vars.v[0].clone();
    let y = vars.v[1].clone();
    proto_vulcan!([[1, y, 2 | y] != y, |t| { [1 == x] }, closure { [matche x { _ => , [[1, false | _], [y, _]] => conde { ['a' != P3(y, y, [[], 1]), [2, 2 | y] == x] }, }, conde { [match [_, x, 3] { Named { a: [], b: 3 } | [[3, 1] | _] => [x, false, x] != y, [2, 'a', [2, [], x | _]] => , }, match y { _ => , [[_, 3, z], ["a", 1, y | _], [h]] => , P3([t], 3, _) | [y, [2, 1, []], x | y] => , }], conde { [member(x, [2, 2]), x == P3(y, x, x)] } }] }])
}
pub fn case_483(vars: &Vars) -> InferredGoal<DU, DE, Goal<DU, DE>> {
    let x = vars.v[0].clone();
    let y = vars.v[1].clone();
    proto_vulcan!([[1, y, 2 | y] != y, |fresh_name_9| { [1 == x] }, closure { [matche x { _ => , [[1, false | _], [y, _]] => conde { ['a' != P3(y, y, [[], 1]), [2, 2 | y] == x] }, }, conde { [match [_, x, 3] { Named { a: [], b: 3 } | [[3, 1] | _] => [x, false, x] != y, [2, 'a', [2, [], x | _]] => , }, match y { _ => , [[_, 3, z], ["a", 1, y | _], [h]] => , P3([t], 3, _) | [y, [2, 1, []], x | y] => , }], conde { [member(x, [2, 2]), x == P3(y, x, x)] } }] }])
}
pub fn case_484(vars: &Vars) -> InferredGoal<DU, DE, Goal<DU, DE>> {
    let x = vars.v[0].clone();
    let y = vars.v[1].clone();
    proto_vulcan!([|t| { matche x { [] => [y != (y, y), [x, 2] != y], _ => { member(x, [1, 2, 3]) }, Named { a: [3], b: 1 } => [[] == t, match x { [1, [y, z | t]] => member(z, []), _ | P3([1, 2], 2, [_]) => [|tz| { [2, 2 | tz] != [2, 2, 2, 3], tz == [2, 3] }, append(x, x, [])], }], }, t != (t, [2, x]) }, |tz| { tz == [1], [1 | tz] != [1, 1] }])
}
pub fn case_485(vars: &Vars) -> InferredGoal<DU, DE, Goal<DU, DE>> {
    let x = vars.v[0].clone();
    let y = vars.v[1].clone();
    proto_vulcan!([|fresh_name_9| { matche x { [] => [y != (y, y), [x, 2] != y], _ => { member(x, [1, 2, 3]) }, Named { a: [3], b: 1 } => [[] == fresh_name_9, match x { [1, [y, z | t]] => member(z, []), _ | P3([1, 2], 2, [_]) => [|tz| { [2, 2 | tz] != [2, 2, 2, 3], tz == [2, 3] }, append(x, x, [])], }], }, fresh_name_9 != (fresh_name_9, [2, x]) }, |tz| { tz == [1], [1 | tz] != [1, 1] }])
}
pub fn case_486(vars: &Vars) -> InferredGoal<DU, DE, Goal<DU, DE>> {
    let x = vars.v[0].clone();
    let y = vars.v[1].clone();
    proto_vulcan!([match x { P3(2, t, []) => { [[]] == t, |h, y| {  } }, Named { a: h, b: h } => , [[[]], 2, [y] | y] => , }])
}
pub fn case_487(vars: &Vars) -> InferredGoal<DU, DE, Goal<DU, DE>> {
    let x = vars.v[0].clone();
    let y = vars.v[1].clone();
    proto_vulcan!([match x { P3(2, t, []) => { [[]] == t, |h, fresh_name_9| {  } }, Named { a: h, b: h } => , [[[]], 2, [y] | y] => , }])
}
pub fn case_488(vars: &Vars) -> InferredGoal<DU, DE, Goal<DU, DE>> {
    let x = vars.v[0].clone();
    let y = vars.v[1].clone();
    proto_vulcan!([match y { Named { a: _, b: t } => , [] => , Named { a: 3, b: 2 } => [|z, t| { match t { [[[]] | y] | _ => , [3, [2, []], [false | _] | z] | [[[], t, 3], [_], 1] => , _ => , }, match t { _ => [1] == 3, } }, [|h, z| {  }]], }, matche y { _ => , [[x | _] | 1] | [[[], 3, "bc"], h] => , }, closure { [[|tz| { [2 | tz] != [2, 2, 2], tz == [2, 2] }, [|tz| { tz == [1], [2 | tz] != [2, 1] }, P3([], _, [x, _]) == y, x == y], x == P3(_, _, [3, 1])]] }])
}
pub fn case_489(vars: &Vars) -> InferredGoal<DU, DE, Goal<DU, DE>> {
    let x = vars.v[0].clone();
    let y = vars.v[1].clone();
    proto_vulcan!([match y { Named { a: _, b: t } => , [] => , Named { a: 3, b: 2 } => [|z, fresh_name_9| { match fresh_name_9 { [[[]] | y] | _ => , [3, [2, []], [false | _] | z] | [[[], t, 3], [_], 1] => , _ => , }, match fresh_name_9 { _ => [1] == 3, } }, [|h, z| {  }]], }, matche y { _ => , [[x | _] | 1] | [[[], 3, "bc"], h] => , }, closure { [[|tz| { [2 | tz] != [2, 2, 2], tz == [2, 2] }, [|tz| { tz == [1], [2 | tz] != [2, 1] }, P3([], _, [x, _]) == y, x == y], x == P3(_, _, [3, 1])]] }])
}
pub fn case_490(vars: &Vars) -> InferredGoal<DU, DE, Goal<DU, DE>> {
    let x = vars.v[0].clone();
    let y = vars.v[1].clone();
    proto_vulcan!([matche [x, y] { Named { a: t, b: [2, _] } => , }])
}
pub fn case_491(vars: &Vars) -> InferredGoal<DU, DE, Goal<DU, DE>> {
    let x = vars.v[0].clone();
    let y = vars.v[1].clone();
    proto_vulcan!([matche [x, y] { Named { a: fresh_name_9, b: [2, _] } => , }])
}
pub fn case_492(vars: &Vars) -> InferredGoal<DU, DE, Goal<DU, DE>> {
    let q = vars.v[0].clone();
    let x = vars.v[1].clone();
    proto_vulcan!([matche q { [[2 | z], [t | y], 2] => true, [h, [], _] => [|tz| { [2, 2 | tz] != [2, 2, 3], tz == [3] }, x != [1, h | x]], }, [q == 1, ["bc", 1] != [x, q, 3 | q]], [match q { _ => conde { ["bc" == [_, x, q | q], x != (1, [x])], x == q }, 2 => , }], closure { (x, x) == q }])
}
pub fn case_493(vars: &Vars) -> InferredGoal<DU, DE, Goal<DU, DE>> {
    let q = vars.v[0].clone();
    let x = vars.v[1].clone();
    proto_vulcan!([matche q { [[2 | z], [t | y], 2] => true, [h, [], _] => [|fresh_name_9| { [2, 2 | fresh_name_9] != [2, 2, 3], fresh_name_9 == [3] }, x != [1, h | x]], }, [q == 1, ["bc", 1] != [x, q, 3 | q]], [match q { _ => conde { ["bc" == [_, x, q | q], x != (1, [x])], x == q }, 2 => , }], closure { (x, x) == q }])
}
pub fn case_494(vars: &Vars) -> InferredGoal<DU, DE, Goal<DU, DE>> {
    let x = vars.v[0].clone();
    let y = vars.v[1].clone();
    proto_vulcan!([conde { [|tz| { tz == [1, 2], [1, 1, 2] != [1 | tz] }, x == (x, _)] }])
}
pub fn case_495(vars: &Vars) -> InferredGoal<DU, DE, Goal<DU, DE>> {
    let x = vars.v[0].clone();
    let y = vars.v[1].clone();
    proto_vulcan!([conde { [|fresh_name_9| { fresh_name_9 == [1, 2], [1, 1, 2] != [1 | fresh_name_9] }, x == (x, _)] }])
}
pub fn case_496(vars: &Vars) -> InferredGoal<DU, DE, Goal<DU, DE>> {
    let x = vars.v[0].clone();
    proto_vulcan!([|tz| { [3 | tz] != [3, 3, 3], tz == [3, 3] }, conde { x == ([], []), conde { conde { [[x, _] == x, x == [_]], [false, true], [[false, x, 3], x] != 3 }, |t, h| { P3([], 2, [[]]) == x } }, |h, x| {  } }, [_, true] == [[x, x], [x, x, 3], [x, x | _]]])
}
pub fn case_497(vars: &Vars) -> InferredGoal<DU, DE, Goal<DU, DE>> {
    let x = vars.v[0].clone();
    proto_vulcan!([|tz| { [3 | tz] != [3, 3, 3], tz == [3, 3] }, conde { x == ([], []), conde { conde { [[x, _] == x, x == [_]], [false, true], [[false, x, 3], x] != 3 }, |fresh_name_9, h| { P3([], 2, [[]]) == x } }, |h, x| {  } }, [_, true] == [[x, x], [x, x, 3], [x, x | _]]])
}
pub fn case_498(vars: &Vars) -> InferredGoal<DU, DE, Goal<DU, DE>> {
    let x = vars.v[0].clone();
    proto_vulcan!([[2] == [[3]], |h| {  }])
}
pub fn case_499(vars: &Vars) -> InferredGoal<DU, DE, Goal<DU, DE>> {
    let x = vars.v[0].clone();
    proto_vulcan!([[2] == [[3]], |fresh_name_9| {  }])
}
pub fn case_500(vars: &Vars) -> InferredGoal<DU, DE, Goal<DU, DE>> {
    let q = vars.v[0].clone();
    let x = vars.v[1].clone();
    proto_vulcan!([matche x { [2, _, 2] => [|z| { true }, [3, 1, 2] != x], _ => , P3([h], x, t) => , }, P3([1], [_, x], 2) == x, q == (_, q)])
}
pub fn case_501(vars: &Vars) -> InferredGoal<DU, DE, Goal<DU, DE>> {
    let q = vars.v[0].clone();
    let x = vars.v[1].clone();
    proto_vulcan!([matche x { [2, _, 2] => [|z| { true }, [3, 1, 2] != x], _ => , P3([h], fresh_name_9, t) => , }, P3([1], [_, x], 2) == x, q == (_, q)])
}
pub fn case_502(vars: &Vars) -> InferredGoal<DU, DE, Goal<DU, DE>> {
    let x = vars.v[0].clone();
    let y = vars.v[1].clone();
    proto_vulcan!([conde { [] == y, [|tz| { [1, 2 | tz] != [1, 2, 3], tz == [3] }, 1 == [_]] }, x == 2, { let c__: InferredGoal<DU, DE, Goal<DU, DE>> = proto_vulcan_closure!([|yy| { conde { [y == [yy | _], yy == 1], [y == [_, yy | _], yy == 2] } }, [1, y, y] == x]); let g__: Goal<DU, DE> = ::proto_vulcan::GoalCast::cast_into(c__); let r__: InferredGoal<DU, DE, Goal<DU, DE>> = proto_vulcan!([g__.clone(), g__]); r__ }])
}
pub fn case_503(vars: &Vars) -> InferredGoal<DU, DE, Goal<DU, DE>> {
    let x = vars.v[0].clone();
    let y = vars.v[1].clone();
    proto_vulcan!([conde { [] == y, [|tz| { [1, 2 | tz] != [1, 2, 3], tz == [3] }, 1 == [_]] }, x == 2, { let c__: InferredGoal<DU, DE, Goal<DU, DE>> = proto_vulcan_closure!([|fresh_name_9| { conde { [y == [fresh_name_9 | _], fresh_name_9 == 1], [y == [_, fresh_name_9 | _], fresh_name_9 == 2] } }, [1, y, y] == x]); let g__: Goal<DU, DE> = ::proto_vulcan::GoalCast::cast_into(c__); let r__: InferredGoal<DU, DE, Goal<DU, DE>> = proto_vulcan!([g__.clone(), g__]); r__ }])
}
pub fn case_504(vars: &Vars) -> InferredGoal<DU, DE, Goal<DU, DE>> {
    let x = vars.v[0].clone();
    let y = vars.v[1].clone();
    proto_vulcan!([x == [2, y, x], |y, h| { y == [_, x] }])
}
pub fn case_505(vars: &Vars) -> InferredGoal<DU, DE, Goal<DU, DE>> {
    let x = vars.v[0].clone();
    let y = vars.v[1].clone();
    proto_vulcan!([x == [2, y, x], |fresh_name_9, h| { fresh_name_9 == [_, x] }])
}
pub fn case_506(vars: &Vars) -> InferredGoal<DU, DE, Goal<DU, DE>> {
    let x = vars.v[0].clone();
    let y = vars.v[1].clone();
    proto_vulcan!([(y, 2) == y, |x, t| { |t| { |z| { member(z, [1, 1]), P3(1, z, x) != y, |tz| { tz == [1, 1], [2, 1 | tz] != [2, 1, 1, 1] } } }, |tz| { [3, 1, 1] != [3 | tz], tz == [1, 1] }, conde { x == [true, t, x], [[x == x]] } }, matche x { P3([], z, 3) => [conde { [match y { "bc" | _ => [1 == [[y, z, _] | z], [2, [] | "a"] == x], [t, "bc" | h] => [append(t, y, [3]), [[x], 3, "bc"] == P3(x, 1, 1)], _ => , }, P3(_, [], [_]) != x], [[2, []] == y, matche x { [[2, true | _], 3, _] | P3(y, [3, _], _) => { x != (2, 1), z == [x] }, P3([x], [], x) => , 'a' => [z == (3, _), y == [x]], }], [] == x }, [|t, z| { t == [], |tz| { [2, 1 | tz] != [2, 1, 3, 3], tz == [3, 3] } }]], Named { a: 2, b: h } => { x == h, true }, }])
}
pub fn case_507(vars: &Vars) -> InferredGoal<DU, DE, Goal<DU, DE>> {
    let x = vars.v[0].clone();
    let y = vars.v[1].clone();
    proto_vulcan!([(y, 2) == y, |x, t| { |t| { |z| { member(z, [1, 1]), P3(1, z, x) != y, |tz| { tz == [1, 1], [2, 1 | tz] != [2, 1, 1, 1] } } }, |tz| { [3, 1, 1] != [3 | tz], tz == [1, 1] }, conde { x == [true, t, x], [[x == x]] } }, matche x { P3([], z, 3) => [conde { [match y { "bc" | _ => [1 == [[y, z, _] | z], [2, [] | "a"] == x], [t, "bc" | h] => [append(t, y, [3]), [[x], 3, "bc"] == P3(x, 1, 1)], _ => , }, P3(_, [], [_]) != x], [[2, []] == y, matche x { [[2, true | _], 3, _] | P3(y, [3, _], _) => { x != (2, 1), z == [x] }, P3([x], [], x) => , 'a' => [z == (3, _), y == [x]], }], [] == x }, [|fresh_name_9, z| { fresh_name_9 == [], |tz| { [2, 1 | tz] != [2, 1, 3, 3], tz == [3, 3] } }]], Named { a: 2, b: h } => { x == h, true }, }])
}
pub fn case_508(vars: &Vars) -> InferredGoal<DU, DE, Goal<DU, DE>> {
    let x = vars.v[0].clone();
    let y = vars.v[1].clone();
    proto_vulcan!([|x| { P3(2, 2, 2) != x, false }, member(y, []), [[x == [x | y]], P3(3, y, y) == y]])
}
pub fn case_509(vars: &Vars) -> InferredGoal<DU, DE, Goal<DU, DE>> {
    let x = vars.v[0].clone();
    let y = vars.v[1].clone();
    proto_vulcan!([|fresh_name_9| { P3(2, 2, 2) != fresh_name_9, false }, member(y, []), [[x == [x | y]], P3(3, y, y) == y]])
}
pub fn case_510(vars: &Vars) -> InferredGoal<DU, DE, Goal<DU, DE>> {
    let q = vars.v[0].clone();
    let x = vars.v[1].clone();
    proto_vulcan!([[2 == x, (q, q) != x], match q { [t | _] => t == [x], x => { q == [x, 2], 'a' == [x] }, _ => member(x, [1, 2, 3]), }, { let c__: InferredGoal<DU, DE, Goal<DU, DE>> = proto_vulcan_closure!([|yy| { conde { [q == [yy | _], yy == 1], [q == [_, yy | _], yy == 2] } }, P3([x, _], _, 3) == [[_], [x], [q, 3, q | q]]]); let g__: Goal<DU, DE> = ::proto_vulcan::GoalCast::cast_into(c__); let r__: InferredGoal<DU, DE, Goal<DU, DE>> = proto_vulcan!([g__.clone(), g__]); r__ }])
}
pub fn case_511(vars: &Vars) -> InferredGoal<DU, DE, Goal<DU, DE>> {
    let q = vars.v[0].clone();
    let x = vars.v[1].clone();
    proto_vulcan!([[2 == x, (q, q) != x], match q { [t | _] => t == [x], fresh_name_9 => { q == [fresh_name_9, 2], 'a' == [fresh_name_9] }, _ => member(x, [1, 2, 3]), }, { let c__: InferredGoal<DU, DE, Goal<DU, DE>> = proto_vulcan_closure!([|yy| { conde { [q == [yy | _], yy == 1], [q == [_, yy | _], yy == 2] } }, P3([x, _], _, 3) == [[_], [x], [q, 3, q | q]]]); let g__: Goal<DU, DE> = ::proto_vulcan::GoalCast::cast_into(c__); let r__: InferredGoal<DU, DE, Goal<DU, DE>> = proto_vulcan!([g__.clone(), g__]); r__ }])
}
pub fn case_512(vars: &Vars) -> InferredGoal<DU, DE, Goal<DU, DE>> {
    let x = vars.v[0].clone();
    let y = vars.v[1].clone();
    proto_vulcan!([|h| { h == [y], true, match [2, y] { Named { a: _, b: [] } => , _ => { member(h, [1, 2, 3]) }, Named { a: 2, b: h } | x => { append(y, y, [1]) }, } }, closure { [matche x { 2 => { [[[y, x, x] | y] == x, 1 == y], conde { _ == x, y == P3(y, y, [y]), [x, _, 'b' | x] != x } }, }, |tz| { [1, 1, 2] != [1 | tz], tz == [1, 2] }] }])
}
pub fn case_513(vars: &Vars) -> InferredGoal<DU, DE, Goal<DU, DE>> {
    let x = vars.v[0].clone();
    let y = vars.v[1].clone();
    proto_vulcan!([|h| { h == [y], true, match [2, y] { Named { a: _, b: [] } => , _ => { member(h, [1, 2, 3]) }, Named { a: 2, b: h } | x => { append(y, y, [1]) }, } }, closure { [matche x { 2 => { [[[y, x, x] | y] == x, 1 == y], conde { _ == x, y == P3(y, y, [y]), [x, _, 'b' | x] != x } }, }, |fresh_name_9| { [1, 1, 2] != [1 | fresh_name_9], fresh_name_9 == [1, 2] }] }])
}
pub fn case_514(vars: &Vars) -> InferredGoal<DU, DE, Goal<DU, DE>> {
    let x = vars.v[0].clone();
    proto_vulcan!([[['a'] == x], [x == [x, 2, [2] | x]], { let c__: InferredGoal<DU, DE, Goal<DU, DE>> = proto_vulcan_closure!(|yy| { conde { [x == [yy | _], yy == 1], [x == [_, yy | _], yy == 2] } }); let g__: Goal<DU, DE> = ::proto_vulcan::GoalCast::cast_into(c__); let r__: InferredGoal<DU, DE, Goal<DU, DE>> = proto_vulcan!([g__.clone(), g__]); r__ }])
}
pub fn case_515(vars: &Vars) -> InferredGoal<DU, DE, Goal<DU, DE>> {
    let x = vars.v[0].clone();
    proto_vulcan!([[['a'] == x], [x == [x, 2, [2] | x]], { let c__: InferredGoal<DU, DE, Goal<DU, DE>> = proto_vulcan_closure!(|fresh_name_9| { conde { [x == [fresh_name_9 | _], fresh_name_9 == 1], [x == [_, fresh_name_9 | _], fresh_name_9 == 2] } }); let g__: Goal<DU, DE> = ::proto_vulcan::GoalCast::cast_into(c__); let r__: InferredGoal<DU, DE, Goal<DU, DE>> = proto_vulcan!([g__.clone(), g__]); r__ }])
}
pub fn case_516(vars: &Vars) -> InferredGoal<DU, DE, Goal<DU, DE>> {
    let q = vars.v[0].clone();
    let x = vars.v[1].clone();
    proto_vulcan!([match [x] { [h, [3, z, 2]] => [z == [2 | x], z != P3(z, z, z)], _ => [q == 7, q == 8], }, closure { [[[3, x] != x, matche x { 3 => [(x, [2, q]) == q, false], y => { q == P3(_, [], [[], y]), y != q }, }, x == P3(3, [1], _)], [[] != [[1, 1 | x], [_], [q, 2]], [member(q, [1, 2, 1])]]] }])
}
pub fn case_517(vars: &Vars) -> InferredGoal<DU, DE, Goal<DU, DE>> {
    let q = vars.v[0].clone();
    let x = vars.v[1].clone();
    proto_vulcan!([match [x] { [fresh_name_9, [3, z, 2]] => [z == [2 | x], z != P3(z, z, z)], _ => [q == 7, q == 8], }, closure { [[[3, x] != x, matche x { 3 => [(x, [2, q]) == q, false], y => { q == P3(_, [], [[], y]), y != q }, }, x == P3(3, [1], _)], [[] != [[1, 1 | x], [_], [q, 2]], [member(q, [1, 2, 1])]]] }])
}
pub fn case_518(vars: &Vars) -> InferredGoal<DU, DE, Goal<DU, DE>> {
    let q = vars.v[0].clone();
    let x = vars.v[1].clone();
    proto_vulcan!([x != q, x == [[x, 2 | q] | x], match x { 2 => [_ == q, matche x { _ => |tz| { [2 | tz] != [2, 1, 3], tz == [1, 3] }, false | [2, 'a', [t, [], t]] => [conde { [], [['b', q] == x, true], [q == [_, 3], (_, _) != q] }, [|tz| { tz == [3], [1 | tz] != [1, 3] }, [x] == (1, 3)]], 3 => , }], 2 | _ => , _ | Named { a: 1, b: z } => |tz| { tz == [2], [2, 3, 2] != [2, 3 | tz] }, }, { let c__: InferredGoal<DU, DE, Goal<DU, DE>> = proto_vulcan_closure!([|yy| { conde { [q == [yy | _], yy == 1], [q == [_, yy | _], yy == 2] } }, member(x, [])]); let g__: Goal<DU, DE> = ::proto_vulcan::GoalCast::cast_into(c__); let r__: InferredGoal<DU, DE, Goal<DU, DE>> = proto_vulcan!([g__.clone(), g__]); r__ }])
}
pub fn case_519(vars: &Vars) -> InferredGoal<DU, DE, Goal<DU, DE>> {
    let q = vars.v[0].clone();
    let x = vars.v[1].clone();
    proto_vulcan!([x != q, x == [[x, 2 | q] | x], match x { 2 => [_ == q, matche x { _ => |tz| { [2 | tz] != [2, 1, 3], tz == [1, 3] }, false | [2, 'a', [t, [], t]] => [conde { [], [['b', q] == x, true], [q == [_, 3], (_, _) != q] }, [|tz| { tz == [3], [1 | tz] != [1, 3] }, [x] == (1, 3)]], 3 => , }], 2 | _ => , _ | Named { a: 1, b: z } => |fresh_name_9| { fresh_name_9 == [2], [2, 3, 2] != [2, 3 | fresh_name_9] }, }, { let c__: InferredGoal<DU, DE, Goal<DU, DE>> = proto_vulcan_closure!([|yy| { conde { [q == [yy | _], yy == 1], [q == [_, yy | _], yy == 2] } }, member(x, [])]); let g__: Goal<DU, DE> = ::proto_vulcan::GoalCast::cast_into(c__); let r__: InferredGoal<DU, DE, Goal<DU, DE>> = proto_vulcan!([g__.clone(), g__]); r__ }])
}
pub fn case_520(vars: &Vars) -> InferredGoal<DU, DE, Goal<DU, DE>> {
    let x = vars.v[0].clone();
    proto_vulcan!([x != [1, 'b'], "a" == x, match x { [_, y, y | h] => x == [h, _, h], x | _ => , _ => { x == 7, x == 8 }, }])
}
pub fn case_521(vars: &Vars) -> InferredGoal<DU, DE, Goal<DU, DE>> {
    let x = vars.v[0].clone();
    proto_vulcan!([x != [1, 'b'], "a" == x, match x { [_, y, y | fresh_name_9] => x == [fresh_name_9, _, fresh_name_9], x | _ => , _ => { x == 7, x == 8 }, }])
}
pub fn case_522(vars: &Vars) -> InferredGoal<DU, DE, Goal<DU, DE>> {
    let x = vars.v[0].clone();
    proto_vulcan!([|z| { |t, y| { [x] == [x, 3, x] }, true, [[x] == x, true == z, |y, h| { member(z, [2]), false }] }])
}
pub fn case_523(vars: &Vars) -> InferredGoal<DU, DE, Goal<DU, DE>> {
    let x = vars.v[0].clone();
    proto_vulcan!([|z| { |t, y| { [x] == [x, 3, x] }, true, [[x] == x, true == z, |fresh_name_9, h| { member(z, [2]), false }] }])
}
pub fn case_524(vars: &Vars) -> InferredGoal<DU, DE, Goal<DU, DE>> {
    let x = vars.v[0].clone();
    let y = vars.v[1].clone();
    proto_vulcan!([y == 2, |tz| { [3, 1 | tz] != [3, 1, 3, 1], tz == [3, 1] }])
}
pub fn case_525(vars: &Vars) -> InferredGoal<DU, DE, Goal<DU, DE>> {
    let x = vars.v[0].clone();
    let y = vars.v[1].clone();
    proto_vulcan!([y == 2, |fresh_name_9| { [3, 1 | fresh_name_9] != [3, 1, 3, 1], fresh_name_9 == [3, 1] }])
}
pub fn case_526(vars: &Vars) -> InferredGoal<DU, DE, Goal<DU, DE>> {
    let x = vars.v[0].clone();
    let y = vars.v[1].clone();
    proto_vulcan!([conde { [|h, t| { [t | y] == x, conde { [[[]] == y, 'b' != [t, [_, h, h], [2]]] }, [|tz| { [1, 2, 1, 2] != [1, 2 | tz], tz == [1, 2] }] }, conde { [1, [] | x] == y, [conde { 2 == [false, [y, 1], [y, y | x] | 1], [] }, y == x], [matche y { _ => , [[_], [2, [], _]] => y == _, 1 => , }, x == x] }] }, P3(y, [], [[], []]) == x, |tz| { [1, 3, 3, 3] != [1, 3 | tz], tz == [3, 3] }])
}
pub fn case_527(vars: &Vars) -> InferredGoal<DU, DE, Goal<DU, DE>> {
    let x = vars.v[0].clone();
    let y = vars.v[1].clone();
    proto_vulcan!([conde { [|h, t| { [t | y] == x, conde { [[[]] == y, 'b' != [t, [_, h, h], [2]]] }, [|tz| { [1, 2, 1, 2] != [1, 2 | tz], tz == [1, 2] }] }, conde { [1, [] | x] == y, [conde { 2 == [false, [y, 1], [y, y | x] | 1], [] }, y == x], [matche y { _ => , [[_], [2, [], _]] => y == _, 1 => , }, x == x] }] }, P3(y, [], [[], []]) == x, |fresh_name_9| { [1, 3, 3, 3] != [1, 3 | fresh_name_9], fresh_name_9 == [3, 3] }])
}
pub fn case_528(vars: &Vars) -> InferredGoal<DU, DE, Goal<DU, DE>> {
    let x = vars.v[0].clone();
    proto_vulcan!([member(x, [2, 1, 1]), { let c__: InferredGoal<DU, DE, Goal<DU, DE>> = proto_vulcan_closure!(|yy| { conde { [x == [yy | _], yy == 1], [x == [_, yy | _], yy == 2] } }); let g__: Goal<DU, DE> = ::proto_vulcan::GoalCast::cast_into(c__); let r__: InferredGoal<DU, DE, Goal<DU, DE>> = proto_vulcan!([g__.clone(), g__]); r__ }])
}
pub fn case_529(vars: &Vars) -> InferredGoal<DU, DE, Goal<DU, DE>> {
    let x = vars.v[0].clone();
    proto_vulcan!([member(x, [2, 1, 1]), { let c__: InferredGoal<DU, DE, Goal<DU, DE>> = proto_vulcan_closure!(|fresh_name_9| { conde { [x == [fresh_name_9 | _], fresh_name_9 == 1], [x == [_, fresh_name_9 | _], fresh_name_9 == 2] } }); let g__: Goal<DU, DE> = ::proto_vulcan::GoalCast::cast_into(c__); let r__: InferredGoal<DU, DE, Goal<DU, DE>> = proto_vulcan!([g__.clone(), g__]); r__ }])
}
pub fn case_530(vars: &Vars) -> InferredGoal<DU, DE, Goal<DU, DE>> {
    let q = vars.v[0].clone();
    let x = vars.v[1].clone();
    proto_vulcan!([|tz| { [2 | tz] != [2, 3], tz == [3] }])
}
pub fn case_531(vars: &Vars) -> InferredGoal<DU, DE, Goal<DU, DE>> {
    let q = vars.v[0].clone();
    let x = vars.v[1].clone();
    proto_vulcan!([|fresh_name_9| { [2 | fresh_name_9] != [2, 3], fresh_name_9 == [3] }])
}
pub fn case_532(vars: &Vars) -> InferredGoal<DU, DE, Goal<DU, DE>> {
    let q = vars.v[0].clone();
    let x = vars.v[1].clone();
    proto_vulcan!([|y| { false, |z| { z == [[1], [x, 3, 2] | z], [[z] == q] } }])
}
pub fn case_533(vars: &Vars) -> InferredGoal<DU, DE, Goal<DU, DE>> {
    let q = vars.v[0].clone();
    let x = vars.v[1].clone();
    proto_vulcan!([|y| { false, |fresh_name_9| { fresh_name_9 == [[1], [x, 3, 2] | fresh_name_9], [[fresh_name_9] == q] } }])
}
pub fn case_534(vars: &Vars) -> InferredGoal<DU, DE, Goal<DU, DE>> {
    let q = vars.v[0].clone();
    let x = vars.v[1].clone();
    proto_vulcan!([[[x, _, q] == q, q != x, |y| {  }], true, matche x { Named { a: [[], 2], b: h } | [[2, 1]] => , [[x, false, 'a'], _] => [2] != x, z => , }])
}
pub fn case_535(vars: &Vars) -> InferredGoal<DU, DE, Goal<DU, DE>> {
    let q = vars.v[0].clone();
    let x = vars.v[1].clone();
    proto_vulcan!([[[x, _, q] == q, q != x, |fresh_name_9| {  }], true, matche x { Named { a: [[], 2], b: h } | [[2, 1]] => , [[x, false, 'a'], _] => [2] != x, z => , }])
}
pub fn case_536(vars: &Vars) -> InferredGoal<DU, DE, Goal<DU, DE>> {
    let x = vars.v[0].clone();
    proto_vulcan!([x == (2, [x, x]), |y| { |tz| { [3 | tz] != [3, 1], tz == [1] }, [[x, "a", 2 | y] == x, 3 == x] }, { let c__: InferredGoal<DU, DE, Goal<DU, DE>> = proto_vulcan_closure!([|yy| { conde { [x == [yy | _], yy == 1], [x == [_, yy | _], yy == 2] } }, member(x, [2, 1, 1])]); let g__: Goal<DU, DE> = ::proto_vulcan::GoalCast::cast_into(c__); let r__: InferredGoal<DU, DE, Goal<DU, DE>> = proto_vulcan!([g__.clone(), g__]); r__ }])
}
pub fn case_537(vars: &Vars) -> InferredGoal<DU, DE, Goal<DU, DE>> {
    let x = vars.v[0].clone();
    proto_vulcan!([x == (2, [x, x]), |y| { |tz| { [3 | tz] != [3, 1], tz == [1] }, [[x, "a", 2 | y] == x, 3 == x] }, { let c__: InferredGoal<DU, DE, Goal<DU, DE>> = proto_vulcan_closure!([|fresh_name_9| { conde { [x == [fresh_name_9 | _], fresh_name_9 == 1], [x == [_, fresh_name_9 | _], fresh_name_9 == 2] } }, member(x, [2, 1, 1])]); let g__: Goal<DU, DE> = ::proto_vulcan::GoalCast::cast_into(c__); let r__: InferredGoal<DU, DE, Goal<DU, DE>> = proto_vulcan!([g__.clone(), g__]); r__ }])
}
pub fn case_538(vars: &Vars) -> InferredGoal<DU, DE, Goal<DU, DE>> {
    let x = vars.v[0].clone();
    proto_vulcan!([x == [1, [], 2], matche x { "a" => , }, { let c__: InferredGoal<DU, DE, Goal<DU, DE>> = proto_vulcan_closure!([|yy| { conde { [x == [yy | _], yy == 1], [x == [_, yy | _], yy == 2] } }, match x { [[z, [], 1] | y] => , _ => , }]); let g__: Goal<DU, DE> = ::proto_vulcan::GoalCast::cast_into(c__); let r__: InferredGoal<DU, DE, Goal<DU, DE>> = proto_vulcan!([g__.clone(), g__]); r__ }])
}
pub fn case_539(vars: &Vars) -> InferredGoal<DU, DE, Goal<DU, DE>> {
    let x = vars.v[0].clone();
    proto_vulcan!([x == [1, [], 2], matche x { "a" => , }, { let c__: InferredGoal<DU, DE, Goal<DU, DE>> = proto_vulcan_closure!([|fresh_name_9| { conde { [x == [fresh_name_9 | _], fresh_name_9 == 1], [x == [_, fresh_name_9 | _], fresh_name_9 == 2] } }, match x { [[z, [], 1] | y] => , _ => , }]); let g__: Goal<DU, DE> = ::proto_vulcan::GoalCast::cast_into(c__); let r__: InferredGoal<DU, DE, Goal<DU, DE>> = proto_vulcan!([g__.clone(), g__]); r__ }])
}
pub fn case_540(vars: &Vars) -> InferredGoal<DU, DE, Goal<DU, DE>> {
    let x = vars.v[0].clone();
    let y = vars.v[1].clone();
    proto_vulcan!([[3, 2] == x, conde { matche x { Named { a: x, b: 1 } | 1 => , Named { a: 3, b: 3 } => [[(_, y) == [_, x], x != [2, x]]], z => , } }, match y { [[h], ["bc"], [2 | _]] => { |z| { conde { [|tz| { tz == [1, 1], [3, 1, 1] != [3 | tz] }, member(x, [2, 2])], [] }, matche x { 1 => { z == "bc" }, 1 => x == [3], }, [y != [y], |tz| { [2, 1 | tz] != [2, 1, 3, 3], tz == [3, 3] }, h == [_, x, _ | x]] }, [_, x, x | h] == x }, [[x, h, h | z], [[]]] => { |z, y| { [[], 1] == x } }, }])
}
pub fn case_541(vars: &Vars) -> InferredGoal<DU, DE, Goal<DU, DE>> {
    let x = vars.v[0].clone();
    let y = vars.v[1].clone();
    proto_vulcan!([[3, 2] == x, conde { matche x { Named { a: x, b: 1 } | 1 => , Named { a: 3, b: 3 } => [[(_, y) == [_, x], x != [2, x]]], z => , } }, match y { [[h], ["bc"], [2 | _]] => { |z| { conde { [|tz| { tz == [1, 1], [3, 1, 1] != [3 | tz] }, member(x, [2, 2])], [] }, matche x { 1 => { z == "bc" }, 1 => x == [3], }, [y != [y], |tz| { [2, 1 | tz] != [2, 1, 3, 3], tz == [3, 3] }, h == [_, x, _ | x]] }, [_, x, x | h] == x }, [[x, h, h | fresh_name_9], [[]]] => { |z, y| { [[], 1] == x } }, }])
}
pub fn case_542(vars: &Vars) -> InferredGoal<DU, DE, Goal<DU, DE>> {
    let x = vars.v[0].clone();
    let y = vars.v[1].clone();
    proto_vulcan!([matche y { [[y, false, y]] => matche y { 3 => [|h| { h == [y] }, _ == P3(_, x, _)], 1 | Named { a: _, b: [] } => { match y { P3(y, 3, 1) => , z => , z => , }, conde { [false, y != x], x != [1, _, []] } }, }, [[2, t, z] | y] => , }, conde { y == [y | y], [|y| {  }, 1 == x] }, 2 == x])
}
pub fn case_543(vars: &Vars) -> InferredGoal<DU, DE, Goal<DU, DE>> {
    let x = vars.v[0].clone();
    let y = vars.v[1].clone();
    proto_vulcan!([matche y { [[y, false, y]] => matche y { 3 => [|h| { h == [y] }, _ == P3(_, x, _)], 1 | Named { a: _, b: [] } => { match y { P3(y, 3, 1) => , z => , fresh_name_9 => , }, conde { [false, y != x], x != [1, _, []] } }, }, [[2, t, z] | y] => , }, conde { y == [y | y], [|y| {  }, 1 == x] }, 2 == x])
}
pub fn case_544(vars: &Vars) -> InferredGoal<DU, DE, Goal<DU, DE>> {
    let x = vars.v[0].clone();
    proto_vulcan!([|tz| { [2, 3, 3] != [2 | tz], tz == [3, 3] }, [x == [], [3 | x] == x]])
}
pub fn case_545(vars: &Vars) -> InferredGoal<DU, DE, Goal<DU, DE>> {
    let x = vars.v[0].clone();
    proto_vulcan!([|fresh_name_9| { [2, 3, 3] != [2 | fresh_name_9], fresh_name_9 == [3, 3] }, [x == [], [3 | x] == x]])
}
pub fn case_546(vars: &Vars) -> InferredGoal<DU, DE, Goal<DU, DE>> {
    let q = vars.v[0].clone();
    let x = vars.v[1].clone();
    proto_vulcan!([match q { _ => member(x, [1, 2, 3]), [y, [[] | t], 1 | _] => [1, 'b', y] != y, }, x == [q, [x]], []])
}
pub fn case_547(vars: &Vars) -> InferredGoal<DU, DE, Goal<DU, DE>> {
    let q = vars.v[0].clone();
    let x = vars.v[1].clone();
    proto_vulcan!([match q { _ => member(x, [1, 2, 3]), [y, [[] | fresh_name_9], 1 | _] => [1, 'b', y] != y, }, x == [q, [x]], []])
}
pub fn case_548(vars: &Vars) -> InferredGoal<DU, DE, Goal<DU, DE>> {
    let x = vars.v[0].clone();
    proto_vulcan!([match x { [1, z | _] => { matche x { _ => { member(z, [1, 2, 3]) }, }, matche x { [[h, y, [] | h], [t], [t, _, t | _]] | [[3, 1, 2], x, 3 | 2] => { [[z, 3, [] | z] == z, [z, z] == z], "bc" != [[3, 1 | z]] }, 1 => conde { [P3(z, 2, [z, []]) == x, [[x], [x | x], [3, 2] | x] == P3([_, 2], _, 1)], z == P3([z, 2], 2, 1), [[1, 1, x | _] == x, z == (1, 3)] }, } }, [[t], [false, 3, y], z] => { match z { x => , } }, true => [x == [x, x], x == [3]], }, P3([[]], [], [2, x]) == [[x, x] | x]])
}
pub fn case_549(vars: &Vars) -> InferredGoal<DU, DE, Goal<DU, DE>> {
    let x = vars.v[0].clone();
    proto_vulcan!([match x { [1, z | _] => { matche x { _ => { member(z, [1, 2, 3]) }, }, matche x { [[h, y, [] | h], [t], [t, _, t | _]] | [[3, 1, 2], x, 3 | 2] => { [[z, 3, [] | z] == z, [z, z] == z], "bc" != [[3, 1 | z]] }, 1 => conde { [P3(z, 2, [z, []]) == x, [[x], [x | x], [3, 2] | x] == P3([_, 2], _, 1)], z == P3([z, 2], 2, 1), [[1, 1, x | _] == x, z == (1, 3)] }, } }, [[t], [false, 3, y], fresh_name_9] => { match fresh_name_9 { x => , } }, true => [x == [x, x], x == [3]], }, P3([[]], [], [2, x]) == [[x, x] | x]])
}
pub fn case_550(vars: &Vars) -> InferredGoal<DU, DE, Goal<DU, DE>> {
    let x = vars.v[0].clone();
    proto_vulcan!([matche x { _ => [x == 7, x == 8], z => { conde { [z != z, z == [[] | 'a']], match [] { Named { a: [], b: 1 } | 3 => member(x, [1, 2]), [['b' | x], [2, false]] | [[_, []], [z], [] | z] => , _ => { member(z, [1, 2, 3]) }, } } }, [[2], 3, [[], x | t]] => t == x, }, x == [[2, []], _, [[]] | x], { let c__: InferredGoal<DU, DE, Goal<DU, DE>> = proto_vulcan_closure!(|yy| { conde { [x == [yy | _], yy == 1], [x == [_, yy | _], yy == 2] } }); let g__: Goal<DU, DE> = ::proto_vulcan::GoalCast::cast_into(c__); let r__: InferredGoal<DU, DE, Goal<DU, DE>> = proto_vulcan!([g__.clone(), g__]); r__ }])
}
pub fn case_551(vars: &Vars) -> InferredGoal<DU, DE, Goal<DU, DE>> {
    let x = vars.v[0].clone();
    proto_vulcan!([matche x { _ => [x == 7, x == 8], z => { conde { [z != z, z == [[] | 'a']], match [] { Named { a: [], b: 1 } | 3 => member(x, [1, 2]), [['b' | x], [2, false]] | [[_, []], [z], [] | z] => , _ => { member(z, [1, 2, 3]) }, } } }, [[2], 3, [[], fresh_name_9 | t]] => t == fresh_name_9, }, x == [[2, []], _, [[]] | x], { let c__: InferredGoal<DU, DE, Goal<DU, DE>> = proto_vulcan_closure!(|yy| { conde { [x == [yy | _], yy == 1], [x == [_, yy | _], yy == 2] } }); let g__: Goal<DU, DE> = ::proto_vulcan::GoalCast::cast_into(c__); let r__: InferredGoal<DU, DE, Goal<DU, DE>> = proto_vulcan!([g__.clone(), g__]); r__ }])
}
pub fn case_552(vars: &Vars) -> InferredGoal<DU, DE, Goal<DU, DE>> {
    let x = vars.v[0].clone();
    let y = vars.v[1].clone();
    proto_vulcan!([[y, 2 | x] == x, { let c__: InferredGoal<DU, DE, Goal<DU, DE>> = proto_vulcan_closure!(|yy| { conde { [y == [yy | _], yy == 1], [y == [_, yy | _], yy == 2] } }); let g__: Goal<DU, DE> = ::proto_vulcan::GoalCast::cast_into(c__); let r__: InferredGoal<DU, DE, Goal<DU, DE>> = proto_vulcan!([g__.clone(), g__]); r__ }])
}
pub fn case_553(vars: &Vars) -> InferredGoal<DU, DE, Goal<DU, DE>> {
    let x = vars.v[0].clone();
    let y = vars.v[1].clone();
    proto_vulcan!([[y, 2 | x] == x, { let c__: InferredGoal<DU, DE, Goal<DU, DE>> = proto_vulcan_closure!(|fresh_name_9| { conde { [y == [fresh_name_9 | _], fresh_name_9 == 1], [y == [_, fresh_name_9 | _], fresh_name_9 == 2] } }); let g__: Goal<DU, DE> = ::proto_vulcan::GoalCast::cast_into(c__); let r__: InferredGoal<DU, DE, Goal<DU, DE>> = proto_vulcan!([g__.clone(), g__]); r__ }])
}
pub fn case_554(vars: &Vars) -> InferredGoal<DU, DE, Goal<DU, DE>> {
    let q = vars.v[0].clone();
    let x = vars.v[1].clone();
    proto_vulcan!([match q { 1 | 1 => , _ => { member(q, [1, 2, 3]) }, [[h], 'a'] => { P3([q], 3, _) != [[q, _], [_, x], [h]], [h, h | 2] == q }, }])
}
pub fn case_555(vars: &Vars) -> InferredGoal<DU, DE, Goal<DU, DE>> {
    let q = vars.v[0].clone();
    let x = vars.v[1].clone();
    proto_vulcan!([match q { 1 | 1 => , _ => { member(q, [1, 2, 3]) }, [[fresh_name_9], 'a'] => { P3([q], 3, _) != [[q, _], [_, x], [fresh_name_9]], [fresh_name_9, fresh_name_9 | 2] == q }, }])
}
pub fn case_556(vars: &Vars) -> InferredGoal<DU, DE, Goal<DU, DE>> {
    let x = vars.v[0].clone();
    proto_vulcan!([x == x, [|tz| { [1, 2 | tz] != [1, 2, 2, 2], tz == [2, 2] }, (3, 1) == x, x == (x, x)], x != 2, { let c__: InferredGoal<DU, DE, Goal<DU, DE>> = proto_vulcan_closure!(|yy| { conde { [x == [yy | _], yy == 1], [x == [_, yy | _], yy == 2] } }); let g__: Goal<DU, DE> = ::proto_vulcan::GoalCast::cast_into(c__); let r__: InferredGoal<DU, DE, Goal<DU, DE>> = proto_vulcan!([g__.clone(), g__]); r__ }])
}
pub fn case_557(vars: &Vars) -> InferredGoal<DU, DE, Goal<DU, DE>> {
    let x = vars.v[0].clone();
    proto_vulcan!([x == x, [|tz| { [1, 2 | tz] != [1, 2, 2, 2], tz == [2, 2] }, (3, 1) == x, x == (x, x)], x != 2, { let c__: InferredGoal<DU, DE, Goal<DU, DE>> = proto_vulcan_closure!(|fresh_name_9| { conde { [x == [fresh_name_9 | _], fresh_name_9 == 1], [x == [_, fresh_name_9 | _], fresh_name_9 == 2] } }); let g__: Goal<DU, DE> = ::proto_vulcan::GoalCast::cast_into(c__); let r__: InferredGoal<DU, DE, Goal<DU, DE>> = proto_vulcan!([g__.clone(), g__]); r__ }])
}
pub fn case_558(vars: &Vars) -> InferredGoal<DU, DE, Goal<DU, DE>> {
    let x = vars.v[0].clone();
    let y = vars.v[1].clone();
    proto_vulcan!([x == x, |x| { conde { P3([[]], [], []) != [2, []], [y == x, conde { [x != ([x], x), false], 1 == y, x == x }], [[true, [[2, y, y | y], ["bc", [], 3] | y] == (3, x)]] }, x != [x, _, x] }, matche y { P3(z, [], x) => , [_] => [[conde { y == 2, [P3(1, y, [1]) == x, x == x], [x == x, member(y, [])] }]], }])
}
pub fn case_559(vars: &Vars) -> InferredGoal<DU, DE, Goal<DU, DE>> {
    let x = vars.v[0].clone();
    let y = vars.v[1].clone();
    proto_vulcan!([x == x, |x| { conde { P3([[]], [], []) != [2, []], [y == x, conde { [x != ([x], x), false], 1 == y, x == x }], [[true, [[2, y, y | y], ["bc", [], 3] | y] == (3, x)]] }, x != [x, _, x] }, matche y { P3(z, [], fresh_name_9) => , [_] => [[conde { y == 2, [P3(1, y, [1]) == x, x == x], [x == x, member(y, [])] }]], }])
}
pub fn case_560(vars: &Vars) -> InferredGoal<DU, DE, Goal<DU, DE>> {
    let q = vars.v[0].clone();
    let x = vars.v[1].clone();
    proto_vulcan!([conde { [match x { P3([], [y, []], _) | 2 => { 2 != [["bc", 2 | q], [x], 2 | x] }, 2 | 3 => { |z, t| { false } }, ["a", [t, 2, 'a'], h | _] | 3 => |tz| { [1 | tz] != [1, 1, 3], tz == [1, 3] }, }, P3(q, [], _) == q], [q == q, matche q { [[3, 1], 2] | P3(h, 3, y) => , _ | [y, [2 | 1] | t] => [P3(q, [3, x], q) == x, P3(q, _, []) == [x, [x, 3] | q]], }] }, x == [[1, true], 3, true], q != [2, q, 1 | q]])
}
pub fn case_561(vars: &Vars) -> InferredGoal<DU, DE, Goal<DU, DE>> {
    let q = vars.v[0].clone();
    let x = vars.v[1].clone();
    proto_vulcan!([conde { [match x { P3([], [y, []], _) | 2 => { 2 != [["bc", 2 | q], [x], 2 | x] }, 2 | 3 => { |fresh_name_9, t| { false } }, ["a", [t, 2, 'a'], h | _] | 3 => |tz| { [1 | tz] != [1, 1, 3], tz == [1, 3] }, }, P3(q, [], _) == q], [q == q, matche q { [[3, 1], 2] | P3(h, 3, y) => , _ | [y, [2 | 1] | t] => [P3(q, [3, x], q) == x, P3(q, _, []) == [x, [x, 3] | q]], }] }, x == [[1, true], 3, true], q != [2, q, 1 | q]])
}
pub fn case_562(vars: &Vars) -> InferredGoal<DU, DE, Goal<DU, DE>> {
    let q = vars.v[0].clone();
    let x = vars.v[1].clone();
    proto_vulcan!([[2 != P3(3, 2, x), matche x { Named { a: [t, 1], b: 3 } => { [3 == [2], [q, 3] != x, [x] == q], x != P3(3, [t], [2, 1]) }, 2 => { x == (q, 2), matche q { _ => { member(x, [1, 2, 3]) }, z | [t, 'b'] => [x == [false], [[2, _], ["a"], [1, q]] == _], } }, _ | [[2, x]] => , }], match q { [] | [t, _, [] | y] => , }])
}
pub fn case_563(vars: &Vars) -> InferredGoal<DU, DE, Goal<DU, DE>> {
    let q = vars.v[0].clone();
    let x = vars.v[1].clone();
    proto_vulcan!([[2 != P3(3, 2, x), matche x { Named { a: [fresh_name_9, 1], b: 3 } => { [3 == [2], [q, 3] != x, [x] == q], x != P3(3, [fresh_name_9], [2, 1]) }, 2 => { x == (q, 2), matche q { _ => { member(x, [1, 2, 3]) }, z | [t, 'b'] => [x == [false], [[2, _], ["a"], [1, q]] == _], } }, _ | [[2, x]] => , }], match q { [] | [t, _, [] | y] => , }])
}
pub fn case_564(vars: &Vars) -> InferredGoal<DU, DE, Goal<DU, DE>> {
    let x = vars.v[0].clone();
    proto_vulcan!([member(x, []), conde { [2] != [], [|t| { [[], [] | t] != x, x == [1], matche t { Named { a: [], b: t } | Named { a: 1, b: 3 } => [[x, _] == x, _ == x], _ => , } }, [x, 'a' | 2] == x], [x == 1, x != ([2, _], [_, _])] }, |tz| { [2, 1, 1, 2] != [2, 1 | tz], tz == [1, 2] }])
}
pub fn case_565(vars: &Vars) -> InferredGoal<DU, DE, Goal<DU, DE>> {
    let x = vars.v[0].clone();
    proto_vulcan!([member(x, []), conde { [2] != [], [|t| { [[], [] | t] != x, x == [1], matche t { Named { a: [], b: t } | Named { a: 1, b: 3 } => [[x, _] == x, _ == x], _ => , } }, [x, 'a' | 2] == x], [x == 1, x != ([2, _], [_, _])] }, |fresh_name_9| { [2, 1, 1, 2] != [2, 1 | fresh_name_9], fresh_name_9 == [1, 2] }])
}
pub fn case_566(vars: &Vars) -> InferredGoal<DU, DE, Goal<DU, DE>> {
    let x = vars.v[0].clone();
    proto_vulcan!([conde { [[[2, 3] != [[[], 'b', []], x], |tz| { tz == [2, 1], [3, 2, 1] != [3 | tz] }, |x| { x != [x, 'a', x], false }], matche x { y | [1, [[], t, _]] => , [[1, 'a', t]] => , }], [true != x, [conde { [x == true, append(x, x, [1])] }]], [] }, [2] == x, x == ([x, 2], 1), closure { [false, x == [true, 3 | x]] }])
}
pub fn case_567(vars: &Vars) -> InferredGoal<DU, DE, Goal<DU, DE>> {
    let x = vars.v[0].clone();
    proto_vulcan!([conde { [[[2, 3] != [[[], 'b', []], x], |fresh_name_9| { fresh_name_9 == [2, 1], [3, 2, 1] != [3 | fresh_name_9] }, |x| { x != [x, 'a', x], false }], matche x { y | [1, [[], t, _]] => , [[1, 'a', t]] => , }], [true != x, [conde { [x == true, append(x, x, [1])] }]], [] }, [2] == x, x == ([x, 2], 1), closure { [false, x == [true, 3 | x]] }])
}
pub fn case_568(vars: &Vars) -> InferredGoal<DU, DE, Goal<DU, DE>> {
    let x = vars.v[0].clone();
    proto_vulcan!([matche x { Named { a: 3, b: [1] } => true, _ => |tz| { tz == [3], [1, 3 | tz] != [1, 3, 3] }, Named { a: 3, b: [1] } => , }, |z, x| { x == [1, [z, 2, 2]], z == 3 }])
}
pub fn case_569(vars: &Vars) -> InferredGoal<DU, DE, Goal<DU, DE>> {
    let x = vars.v[0].clone();
    proto_vulcan!([matche x { Named { a: 3, b: [1] } => true, _ => |tz| { tz == [3], [1, 3 | tz] != [1, 3, 3] }, Named { a: 3, b: [1] } => , }, |z, fresh_name_9| { fresh_name_9 == [1, [z, 2, 2]], z == 3 }])
}
pub fn case_570(vars: &Vars) -> InferredGoal<DU, DE, Goal<DU, DE>> {
    let x = vars.v[0].clone();
    let y = vars.v[1].clone();
    proto_vulcan!([[[_ == [y, [], [true] | _]]], match y { [x] => x == (2, []), [[_, y], h | _] | [[1, t, 3 | y]] => , }])
}
pub fn case_571(vars: &Vars) -> InferredGoal<DU, DE, Goal<DU, DE>> {
    let x = vars.v[0].clone();
    let y = vars.v[1].clone();
    proto_vulcan!([[[_ == [y, [], [true] | _]]], match y { [fresh_name_9] => fresh_name_9 == (2, []), [[_, y], h | _] | [[1, t, 3 | y]] => , }])
}
pub fn case_572(vars: &Vars) -> InferredGoal<DU, DE, Goal<DU, DE>> {
    let x = vars.v[0].clone();
    let y = vars.v[1].clone();
    proto_vulcan!([x != x, 3 != x, 'b' == [], closure { [|z| { match z { [t] => { t == [1] }, [2, 1] => , 2 => , }, conde { [member(z, [1]), y == P3(z, [], z)], [2, y] == [y, z, _ | x] }, |t, h| { [_, [_, 1], [2, 1]] != x, t == y } }, 2 == y] }])
}
pub fn case_573(vars: &Vars) -> InferredGoal<DU, DE, Goal<DU, DE>> {
    let x = vars.v[0].clone();
    let y = vars.v[1].clone();
    proto_vulcan!([x != x, 3 != x, 'b' == [], closure { [|fresh_name_9| { match fresh_name_9 { [t] => { t == [1] }, [2, 1] => , 2 => , }, conde { [member(fresh_name_9, [1]), y == P3(fresh_name_9, [], fresh_name_9)], [2, y] == [y, fresh_name_9, _ | x] }, |t, h| { [_, [_, 1], [2, 1]] != x, t == y } }, 2 == y] }])
}
pub fn case_574(vars: &Vars) -> InferredGoal<DU, DE, Goal<DU, DE>> {
    let q = vars.v[0].clone();
    let x = vars.v[1].clone();
    proto_vulcan!([|h| { |t| {  }, conde { q == 'a', matche h { [h | _] => { [[x], [3, 1, x]] == h, P3(_, 1, _) != [] }, }, [true, h == [x, h]] }, x == q }, closure { [x == q, x == q] }])
}
pub fn case_575(vars: &Vars) -> InferredGoal<DU, DE, Goal<DU, DE>> {
    let q = vars.v[0].clone();
    let x = vars.v[1].clone();
    proto_vulcan!([|fresh_name_9| { |t| {  }, conde { q == 'a', matche fresh_name_9 { [h | _] => { [[x], [3, 1, x]] == h, P3(_, 1, _) != [] }, }, [true, fresh_name_9 == [x, fresh_name_9]] }, x == q }, closure { [x == q, x == q] }])
}
pub fn case_576(vars: &Vars) -> InferredGoal<DU, DE, Goal<DU, DE>> {
    let q = vars.v[0].clone();
    let x = vars.v[1].clone();
    proto_vulcan!([append(x, q, []), match q { [[_ | t]] => , P3(3, z, 1) => false, h => "bc" == x, }, conde { [_, q] != x, conde { [], [] }, [true, [3, 3, [[] | 2]] == [x, _, 3]] }, { let c__: InferredGoal<DU, DE, Goal<DU, DE>> = proto_vulcan_closure!([|yy| { conde { [q == [yy | _], yy == 1], [q == [_, yy | _], yy == 2] } }, [P3(x, 2, 3) == q, member(x, [2, 2]), 2 == x]]); let g__: Goal<DU, DE> = ::proto_vulcan::GoalCast::cast_into(c__); let r__: InferredGoal<DU, DE, Goal<DU, DE>> = proto_vulcan!([g__.clone(), g__]); r__ }])
}
pub fn case_577(vars: &Vars) -> InferredGoal<DU, DE, Goal<DU, DE>> {
    let q = vars.v[0].clone();
    let x = vars.v[1].clone();
    proto_vulcan!([append(x, q, []), match q { [[_ | t]] => , P3(3, z, 1) => false, h => "bc" == x, }, conde { [_, q] != x, conde { [], [] }, [true, [3, 3, [[] | 2]] == [x, _, 3]] }, { let c__: InferredGoal<DU, DE, Goal<DU, DE>> = proto_vulcan_closure!([|fresh_name_9| { conde { [q == [fresh_name_9 | _], fresh_name_9 == 1], [q == [_, fresh_name_9 | _], fresh_name_9 == 2] } }, [P3(x, 2, 3) == q, member(x, [2, 2]), 2 == x]]); let g__: Goal<DU, DE> = ::proto_vulcan::GoalCast::cast_into(c__); let r__: InferredGoal<DU, DE, Goal<DU, DE>> = proto_vulcan!([g__.clone(), g__]); r__ }])
}
pub fn case_578(vars: &Vars) -> InferredGoal<DU, DE, Goal<DU, DE>> {
    let q = vars.v[0].clone();
    let x = vars.v[1].clone();
    proto_vulcan!([[false, conde { |h, z| { true, [x, _, []] != [["bc", z, [] | h], q, [q, q]], q == [] }, conde { false, [[[2, x, 'b'], ['a', 1], x] == [1, q, [q]], q == [_, _, _ | x]], [|tz| { [3, 3 | tz] != [3, 3, 1, 2], tz == [1, 2] }, append(q, x, [2, 2])] }, |y| { false, [y, [1, 1, 'a' | q]] != [_] } }, [[member(x, [1, 1]), false]]]])
}
pub fn case_579(vars: &Vars) -> InferredGoal<DU, DE, Goal<DU, DE>> {
    let q = vars.v[0].clone();
    let x = vars.v[1].clone();
    proto_vulcan!([[false, conde { |h, z| { true, [x, _, []] != [["bc", z, [] | h], q, [q, q]], q == [] }, conde { false, [[[2, x, 'b'], ['a', 1], x] == [1, q, [q]], q == [_, _, _ | x]], [|fresh_name_9| { [3, 3 | fresh_name_9] != [3, 3, 1, 2], fresh_name_9 == [1, 2] }, append(q, x, [2, 2])] }, |y| { false, [y, [1, 1, 'a' | q]] != [_] } }, [[member(x, [1, 1]), false]]]])
}
pub fn case_580(vars: &Vars) -> InferredGoal<DU, DE, Goal<DU, DE>> {
    let x = vars.v[0].clone();
    let y = vars.v[1].clone();
    proto_vulcan!([x == [y, y | 1], [y == x], closure { [[[2, []] | y] == [3 | y], |z| {  }] }])
}
pub fn case_581(vars: &Vars) -> InferredGoal<DU, DE, Goal<DU, DE>> {
    let x = vars.v[0].clone();
    let y = vars.v[1].clone();
    proto_vulcan!([x == [y, y | 1], [y == x], closure { [[[2, []] | y] == [3 | y], |fresh_name_9| {  }] }])
}
pub fn case_582(vars: &Vars) -> InferredGoal<DU, DE, Goal<DU, DE>> {
    let x = vars.v[0].clone();
    proto_vulcan!([[|t, h| { 1 == _ }, |h| { x == [false, h, h | h] }, false], conde { append(x, x, [1]), [x == [3, [], true], |t, z| { true, [z, 1] != t }], match x { Named { a: [z], b: x } => { x == 3 }, _ => { x == 7, x == 8 }, } }, conde { [[false, _, 'a' | x] == x, |y| { false, [[1, y, 2], _] == [x, [[], y | x]], y == y }], x != [[2 | x] | x] }])
}
pub fn case_583(vars: &Vars) -> InferredGoal<DU, DE, Goal<DU, DE>> {
    let x = vars.v[0].clone();
    proto_vulcan!([[|t, h| { 1 == _ }, |h| { x == [false, h, h | h] }, false], conde { append(x, x, [1]), [x == [3, [], true], |t, fresh_name_9| { true, [fresh_name_9, 1] != t }], match x { Named { a: [z], b: x } => { x == 3 }, _ => { x == 7, x == 8 }, } }, conde { [[false, _, 'a' | x] == x, |y| { false, [[1, y, 2], _] == [x, [[], y | x]], y == y }], x != [[2 | x] | x] }])
}
pub fn case_584(vars: &Vars) -> InferredGoal<DU, DE, Goal<DU, DE>> {
    let x = vars.v[0].clone();
    proto_vulcan!([[x == [[x, _ | x]], conde { [append(x, x, [3]), x == x], |h| { |tz| { tz == [1, 3], [1, 2 | tz] != [1, 2, 1, 3] }, false }, 1 == [x, x | x] }], x == [2, 1, 3], { let c__: InferredGoal<DU, DE, Goal<DU, DE>> = proto_vulcan_closure!(|yy| { conde { [x == [yy | _], yy == 1], [x == [_, yy | _], yy == 2] } }); let g__: Goal<DU, DE> = ::proto_vulcan::GoalCast::cast_into(c__); let r__: InferredGoal<DU, DE, Goal<DU, DE>> = proto_vulcan!([g__.clone(), g__]); r__ }])
}
pub fn case_585(vars: &Vars) -> InferredGoal<DU, DE, Goal<DU, DE>> {
    let x = vars.v[0].clone();
    proto_vulcan!([[x == [[x, _ | x]], conde { [append(x, x, [3]), x == x], |h| { |tz| { tz == [1, 3], [1, 2 | tz] != [1, 2, 1, 3] }, false }, 1 == [x, x | x] }], x == [2, 1, 3], { let c__: InferredGoal<DU, DE, Goal<DU, DE>> = proto_vulcan_closure!(|fresh_name_9| { conde { [x == [fresh_name_9 | _], fresh_name_9 == 1], [x == [_, fresh_name_9 | _], fresh_name_9 == 2] } }); let g__: Goal<DU, DE> = ::proto_vulcan::GoalCast::cast_into(c__); let r__: InferredGoal<DU, DE, Goal<DU, DE>> = proto_vulcan!([g__.clone(), g__]); r__ }])
}
pub fn case_586(vars: &Vars) -> InferredGoal<DU, DE, Goal<DU, DE>> {
    let x = vars.v[0].clone();
    let y = vars.v[1].clone();
    proto_vulcan!([[[match x { [y, [x, y, []], 2] | Named { a: y, b: 3 } => , _ | [[[], t, 2], [] | _] => , }], matche y { _ => { member(y, [1, 2, 3]) }, P3(z, h, y) => { [true, h == [false | y]], |x, y| { |tz| { tz == [1], [1, 3, 1] != [1, 3 | tz] } } }, _ | [[t], [2] | 1] => , }, ['b'] == x], y == 1])
}
pub fn case_587(vars: &Vars) -> InferredGoal<DU, DE, Goal<DU, DE>> {
    let x = vars.v[0].clone();
    let y = vars.v[1].clone();
    proto_vulcan!([[[match x { [y, [x, y, []], 2] | Named { a: y, b: 3 } => , _ | [[[], t, 2], [] | _] => , }], matche y { _ => { member(y, [1, 2, 3]) }, P3(z, h, fresh_name_9) => { [true, h == [false | fresh_name_9]], |x, y| { |tz| { tz == [1], [1, 3, 1] != [1, 3 | tz] } } }, _ | [[t], [2] | 1] => , }, ['b'] == x], y == 1])
}
pub fn case_588(vars: &Vars) -> InferredGoal<DU, DE, Goal<DU, DE>> {
    let x = vars.v[0].clone();
    let y = vars.v[1].clone();
    proto_vulcan!([conde { [], |tz| { [3 | tz] != [3, 2, 2], tz == [2, 2] } }])
}
pub fn case_589(vars: &Vars) -> InferredGoal<DU, DE, Goal<DU, DE>> {
    let x = vars.v[0].clone();
    let y = vars.v[1].clone();
    proto_vulcan!([conde { [], |fresh_name_9| { [3 | fresh_name_9] != [3, 2, 2], fresh_name_9 == [2, 2] } }])
}
pub fn case_590(vars: &Vars) -> InferredGoal<DU, DE, Goal<DU, DE>> {
    let q = vars.v[0].clone();
    let x = vars.v[1].clone();
    proto_vulcan!([conde { [|x| { conde { [member(q, [1]), x == ([], q)], [(1, q) == x, q == [_, 2, 3 | q]] } }, []] }, matche x { Named { a: [h, y], b: x } => [[y, []] | _] != [x, 1], [1 | z] => , [h, [_, t], []] => _ == [_, [], h | x], }, closure { [[[x, x, 2 | 1], q, [q | 2]] == 1, |tz| { tz == [3, 3], [2, 2, 3, 3] != [2, 2 | tz] }] }])
}
pub fn case_591(vars: &Vars) -> InferredGoal<DU, DE, Goal<DU, DE>> {
    let q = vars.v[0].clone();
    let x = vars.v[1].clone();
    proto_vulcan!([conde { [|x| { conde { [member(q, [1]), x == ([], q)], [(1, q) == x, q == [_, 2, 3 | q]] } }, []] }, matche x { Named { a: [h, y], b: x } => [[y, []] | _] != [x, 1], [1 | z] => , [h, [_, fresh_name_9], []] => _ == [_, [], h | x], }, closure { [[[x, x, 2 | 1], q, [q | 2]] == 1, |tz| { tz == [3, 3], [2, 2, 3, 3] != [2, 2 | tz] }] }])
}
pub fn case_592(vars: &Vars) -> InferredGoal<DU, DE, Goal<DU, DE>> {
    let q = vars.v[0].clone();
    let x = vars.v[1].clone();
    proto_vulcan!([3 != q, ["bc" == x, match x { [2 | z] | P3(_, [], 1) => , _ => { [3, [1, q, 2]] != "bc" }, "a" => , }, |z| { [member(z, [3]), z == P3(x, 2, x)], match q { x => x == [], [[x | _], _, [[], 3 | _] | 2] => [[[1, 1, _ | z] | q] == [[2, true]], x == [q, _, 3]], h => , } }], [true, conde { append(q, q, [3, 2]), x != P3(2, _, x) }], closure { [[conde { [], [3 == q, x == x], [] }, conde { [member(q, [3]), q == q], [x == _, ['b', 1, _] == x] }]] }])
}
pub fn case_593(vars: &Vars) -> InferredGoal<DU, DE, Goal<DU, DE>> {
    let q = vars.v[0].clone();
    let x = vars.v[1].clone();
    proto_vulcan!([3 != q, ["bc" == x, match x { [2 | z] | P3(_, [], 1) => , _ => { [3, [1, q, 2]] != "bc" }, "a" => , }, |z| { [member(z, [3]), z == P3(x, 2, x)], match q { x => x == [], [[fresh_name_9 | _], _, [[], 3 | _] | 2] => [[[1, 1, _ | z] | q] == [[2, true]], fresh_name_9 == [q, _, 3]], h => , } }], [true, conde { append(q, q, [3, 2]), x != P3(2, _, x) }], closure { [[conde { [], [3 == q, x == x], [] }, conde { [member(q, [3]), q == q], [x == _, ['b', 1, _] == x] }]] }])
}
pub fn case_594(vars: &Vars) -> InferredGoal<DU, DE, Goal<DU, DE>> {
    let q = vars.v[0].clone();
    let x = vars.v[1].clone();
    proto_vulcan!([match q { [[z, "a"]] => , [[2, 2, t], 3] => { x == [[]], q == 1 }, }, [[true]] == x, [x == q, [2, x, q] != [[2, 2]], |z| { [x == [x, 2, 2], q == [z, z | z]], [q] != x }]])
}
pub fn case_595(vars: &Vars) -> InferredGoal<DU, DE, Goal<DU, DE>> {
    let q = vars.v[0].clone();
    let x = vars.v[1].clone();
    proto_vulcan!([match q { [[z, "a"]] => , [[2, 2, fresh_name_9], 3] => { x == [[]], q == 1 }, }, [[true]] == x, [x == q, [2, x, q] != [[2, 2]], |z| { [x == [x, 2, 2], q == [z, z | z]], [q] != x }]])
}
pub fn case_596(vars: &Vars) -> InferredGoal<DU, DE, Goal<DU, DE>> {
    let q = vars.v[0].clone();
    let x = vars.v[1].clone();
    proto_vulcan!([|z| { [[], [q] | z] == z, z == 3, [matche z { P3(z, [], []) | x => { q == q }, [[z, z, []] | _] => , }, P3(z, [[], x], [_, 2]) != z, |t, x| { z != 'a' }] }])
}
pub fn case_597(vars: &Vars) -> InferredGoal<DU, DE, Goal<DU, DE>> {
    let q = vars.v[0].clone();
    let x = vars.v[1].clone();
    proto_vulcan!([|fresh_name_9| { [[], [q] | fresh_name_9] == fresh_name_9, fresh_name_9 == 3, [matche fresh_name_9 { P3(z, [], []) | x => { q == q }, [[z, z, []] | _] => , }, P3(fresh_name_9, [[], x], [_, 2]) != fresh_name_9, |t, x| { fresh_name_9 != 'a' }] }])
}
pub fn case_598(vars: &Vars) -> InferredGoal<DU, DE, Goal<DU, DE>> {
    let x = vars.v[0].clone();
    let y = vars.v[1].clone();
    proto_vulcan!([|z, y| { match y { _ | [[], [t, 'a', y], 3] => , ['b'] => { |y| { append(y, x, [2, 2]), [[z], y] != z }, matche ['b', y, _ | z] { 1 => { y != P3(2, [], 1) }, [[false, y | t]] => , 2 => , } }, [y, 1] | Named { a: 3, b: 1 } => [member(x, [1, 1, 1]), |t| { false, ["a", z, 2] == z }], }, |y| { y != y }, [([], []) == y] }, |t| { |tz| { [3 | tz] != [3, 2], tz == [2] }, x == [] }, x == 2])
}
pub fn case_599(vars: &Vars) -> InferredGoal<DU, DE, Goal<DU, DE>> {
    let x = vars.v[0].clone();
    let y = vars.v[1].clone();
    proto_vulcan!([|fresh_name_9, y| { match y { _ | [[], [t, 'a', y], 3] => , ['b'] => { |y| { append(y, x, [2, 2]), [[fresh_name_9], y] != fresh_name_9 }, matche ['b', y, _ | fresh_name_9] { 1 => { y != P3(2, [], 1) }, [[false, y | t]] => , 2 => , } }, [y, 1] | Named { a: 3, b: 1 } => [member(x, [1, 1, 1]), |t| { false, ["a", fresh_name_9, 2] == fresh_name_9 }], }, |y| { y != y }, [([], []) == y] }, |t| { |tz| { [3 | tz] != [3, 2], tz == [2] }, x == [] }, x == 2])
}
pub fn case_600(vars: &Vars) -> InferredGoal<DU, DE, Goal<DU, DE>> {
    let x = vars.v[0].clone();
    proto_vulcan!([[] == x, x == x, { let c__: InferredGoal<DU, DE, Goal<DU, DE>> = proto_vulcan_closure!([|yy| { conde { [x == [yy | _], yy == 1], [x == [_, yy | _], yy == 2] } }, [[[], 2], [[], 2 | 2]] == [_, 1]]); let g__: Goal<DU, DE> = ::proto_vulcan::GoalCast::cast_into(c__); let r__: InferredGoal<DU, DE, Goal<DU, DE>> = proto_vulcan!([g__.clone(), g__]); r__ }])
}
pub fn case_601(vars: &Vars) -> InferredGoal<DU, DE, Goal<DU, DE>> {
    let x = vars.v[0].clone();
    proto_vulcan!([[] == x, x == x, { let c__: InferredGoal<DU, DE, Goal<DU, DE>> = proto_vulcan_closure!([|fresh_name_9| { conde { [x == [fresh_name_9 | _], fresh_name_9 == 1], [x == [_, fresh_name_9 | _], fresh_name_9 == 2] } }, [[[], 2], [[], 2 | 2]] == [_, 1]]); let g__: Goal<DU, DE> = ::proto_vulcan::GoalCast::cast_into(c__); let r__: InferredGoal<DU, DE, Goal<DU, DE>> = proto_vulcan!([g__.clone(), g__]); r__ }])
}
pub fn case_602(vars: &Vars) -> InferredGoal<DU, DE, Goal<DU, DE>> {
    let x = vars.v[0].clone();
    let y = vars.v[1].clone();
    proto_vulcan!([[x] == x, { let c__: InferredGoal<DU, DE, Goal<DU, DE>> = proto_vulcan_closure!([|yy| { conde { [y == [yy | _], yy == 1], [y == [_, yy | _], yy == 2] } }, [x] == x]); let g__: Goal<DU, DE> = ::proto_vulcan::GoalCast::cast_into(c__); let r__: InferredGoal<DU, DE, Goal<DU, DE>> = proto_vulcan!([g__.clone(), g__]); r__ }])
}
pub fn case_603(vars: &Vars) -> InferredGoal<DU, DE, Goal<DU, DE>> {
    let x = vars.v[0].clone();
    let y = vars.v[1].clone();
    proto_vulcan!([[x] == x, { let c__: InferredGoal<DU, DE, Goal<DU, DE>> = proto_vulcan_closure!([|fresh_name_9| { conde { [y == [fresh_name_9 | _], fresh_name_9 == 1], [y == [_, fresh_name_9 | _], fresh_name_9 == 2] } }, [x] == x]); let g__: Goal<DU, DE> = ::proto_vulcan::GoalCast::cast_into(c__); let r__: InferredGoal<DU, DE, Goal<DU, DE>> = proto_vulcan!([g__.clone(), g__]); r__ }])
}
pub fn case_604(vars: &Vars) -> InferredGoal<DU, DE, Goal<DU, DE>> {
    let x = vars.v[0].clone();
    proto_vulcan!([[[[], "a", 1], [1, 3, 2]] != x, conde { _ == x, [|tz| { [3, 1] != [3 | tz], tz == [1] }, [match x { _ => { member(x, [1, 2, 3]) }, Named { a: [], b: 3 } => { true }, }, true, x == (x, x)]], [[|tz| { [2, 2, 2, 3] != [2, 2 | tz], tz == [2, 3] }], append(x, x, [2, 1])] }, [x, _, x | x] == x, { let c__: InferredGoal<DU, DE, Goal<DU, DE>> = proto_vulcan_closure!([|yy| { conde { [x == [yy | _], yy == 1], [x == [_, yy | _], yy == 2] } }, |tz| { [1, 2 | tz] != [1, 2, 2, 1], tz == [2, 1] }]); let g__: Goal<DU, DE> = ::proto_vulcan::GoalCast::cast_into(c__); let r__: InferredGoal<DU, DE, Goal<DU, DE>> = proto_vulcan!([g__.clone(), g__]); r__ }])
}
pub fn case_605(vars: &Vars) -> InferredGoal<DU, DE, Goal<DU, DE>> {
    let x = vars.v[0].clone();
    proto_vulcan!([[[[], "a", 1], [1, 3, 2]] != x, conde { _ == x, [|tz| { [3, 1] != [3 | tz], tz == [1] }, [match x { _ => { member(x, [1, 2, 3]) }, Named { a: [], b: 3 } => { true }, }, true, x == (x, x)]], [[|tz| { [2, 2, 2, 3] != [2, 2 | tz], tz == [2, 3] }], append(x, x, [2, 1])] }, [x, _, x | x] == x, { let c__: InferredGoal<DU, DE, Goal<DU, DE>> = proto_vulcan_closure!([|fresh_name_9| { conde { [x == [fresh_name_9 | _], fresh_name_9 == 1], [x == [_, fresh_name_9 | _], fresh_name_9 == 2] } }, |tz| { [1, 2 | tz] != [1, 2, 2, 1], tz == [2, 1] }]); let g__: Goal<DU, DE> = ::proto_vulcan::GoalCast::cast_into(c__); let r__: InferredGoal<DU, DE, Goal<DU, DE>> = proto_vulcan!([g__.clone(), g__]); r__ }])
}
pub fn case_606(vars: &Vars) -> InferredGoal<DU, DE, Goal<DU, DE>> {
    let x = vars.v[0].clone();
    let y = vars.v[1].clone();
    proto_vulcan!([y == x, |z| { y == ([[]], 2), [3, 1 | z] != y }, y != [y, 1 | x]])
}
pub fn case_607(vars: &Vars) -> InferredGoal<DU, DE, Goal<DU, DE>> {
    let x = vars.v[0].clone();
    let y = vars.v[1].clone();
    proto_vulcan!([y == x, |fresh_name_9| { y == ([[]], 2), [3, 1 | fresh_name_9] != y }, y != [y, 1 | x]])
}
pub fn case_608(vars: &Vars) -> InferredGoal<DU, DE, Goal<DU, DE>> {
    let q = vars.v[0].clone();
    let x = vars.v[1].clone();
    proto_vulcan!([[conde { [[2] == q, q == P3(3, q, 2)], ["a" == q, x != [q, _, q]], conde { x == P3(2, _, [[], 1]), [append(q, x, [3]), member(q, [])] } }], x == [[], _], match q { [_, [y, "bc"], 3 | _] => , [['b'], y | _] => , _ => , }])
}
pub fn case_609(vars: &Vars) -> InferredGoal<DU, DE, Goal<DU, DE>> {
    let q = vars.v[0].clone();
    let x = vars.v[1].clone();
    proto_vulcan!([[conde { [[2] == q, q == P3(3, q, 2)], ["a" == q, x != [q, _, q]], conde { x == P3(2, _, [[], 1]), [append(q, x, [3]), member(q, [])] } }], x == [[], _], match q { [_, [y, "bc"], 3 | _] => , [['b'], fresh_name_9 | _] => , _ => , }])
}
pub fn case_610(vars: &Vars) -> InferredGoal<DU, DE, Goal<DU, DE>> {
    let x = vars.v[0].clone();
    proto_vulcan!([false, matche x { [true] => x == [[x, [], x]], z => [conde { [], [x == z, |t| { x == P3(_, 2, []), z == ["bc", _], x == [_, x, _] }], [[_, [1]] == 2, conde { [], [], [z == _, x == _] }] }, z == true], _ => [x == 7, x == 8], }, append(x, x, [1, 2]), { let c__: InferredGoal<DU, DE, Goal<DU, DE>> = proto_vulcan_closure!(|yy| { conde { [x == [yy | _], yy == 1], [x == [_, yy | _], yy == 2] } }); let g__: Goal<DU, DE> = ::proto_vulcan::GoalCast::cast_into(c__); let r__: InferredGoal<DU, DE, Goal<DU, DE>> = proto_vulcan!([g__.clone(), g__]); r__ }])
}
pub fn case_611(vars: &Vars) -> InferredGoal<DU, DE, Goal<DU, DE>> {
    let x = vars.v[0].clone();
    proto_vulcan!([false, matche x { [true] => x == [[x, [], x]], fresh_name_9 => [conde { [], [x == fresh_name_9, |t| { x == P3(_, 2, []), fresh_name_9 == ["bc", _], x == [_, x, _] }], [[_, [1]] == 2, conde { [], [], [fresh_name_9 == _, x == _] }] }, fresh_name_9 == true], _ => [x == 7, x == 8], }, append(x, x, [1, 2]), { let c__: InferredGoal<DU, DE, Goal<DU, DE>> = proto_vulcan_closure!(|yy| { conde { [x == [yy | _], yy == 1], [x == [_, yy | _], yy == 2] } }); let g__: Goal<DU, DE> = ::proto_vulcan::GoalCast::cast_into(c__); let r__: InferredGoal<DU, DE, Goal<DU, DE>> = proto_vulcan!([g__.clone(), g__]); r__ }])
}
pub fn case_612(vars: &Vars) -> InferredGoal<DU, DE, Goal<DU, DE>> {
    let q = vars.v[0].clone();
    let x = vars.v[1].clone();
    proto_vulcan!([match q { [_, [[]], true] | _ => { member(x, []) }, _ => member(x, []), }, |tz| { tz == [1, 1], [2, 1, 1, 1] != [2, 1 | tz] }, |tz| { tz == [1, 1], [3, 1, 1, 1] != [3, 1 | tz] }])
}
pub fn case_613(vars: &Vars) -> InferredGoal<DU, DE, Goal<DU, DE>> {
    let q = vars.v[0].clone();
    let x = vars.v[1].clone();
    proto_vulcan!([match q { [_, [[]], true] | _ => { member(x, []) }, _ => member(x, []), }, |fresh_name_9| { fresh_name_9 == [1, 1], [2, 1, 1, 1] != [2, 1 | fresh_name_9] }, |tz| { tz == [1, 1], [3, 1, 1, 1] != [3, 1 | tz] }])
}
pub fn case_614(vars: &Vars) -> InferredGoal<DU, DE, Goal<DU, DE>> {
    let x = vars.v[0].clone();
    let y = vars.v[1].clone();
    proto_vulcan!([x != [3, y, y | x], [[], match y { [y, []] => , [[[]] | 3] => { [[1 | x] != x], conde { [y != P3([], [y, y], x), append(x, x, [])], (1, _) == x } }, }, matche y { [[x, y], ["bc", h]] => { [], ["bc", h, y] == y }, }], [[2] | y] != y])
}
pub fn case_615(vars: &Vars) -> InferredGoal<DU, DE, Goal<DU, DE>> {
    let x = vars.v[0].clone();
    let y = vars.v[1].clone();
    proto_vulcan!([x != [3, y, y | x], [[], match y { [y, []] => , [[[]] | 3] => { [[1 | x] != x], conde { [y != P3([], [y, y], x), append(x, x, [])], (1, _) == x } }, }, matche y { [[x, fresh_name_9], ["bc", h]] => { [], ["bc", h, fresh_name_9] == fresh_name_9 }, }], [[2] | y] != y])
}
pub fn case_616(vars: &Vars) -> InferredGoal<DU, DE, Goal<DU, DE>> {
    let q = vars.v[0].clone();
    let x = vars.v[1].clone();
    proto_vulcan!([conde { [|tz| { tz == [3, 2], [2, 3, 2] != [2 | tz] }, matche q { [1, [t, false], "bc"] | [2] => { match q { z => { x != [x, [], z], append(x, z, [1, 2]) }, 1 => append(q, x, [3, 2]), _ => { append(q, x, [1]) }, }, true == q }, }], [matche ['a', false | x] { Named { a: 1, b: [] } => { |tz| { tz == [3, 3], [3, 3, 3] != [3 | tz] }, match x { Named { a: [], b: [_, x] } => _ == q, } }, [[1, 3], y] => q == x, }, q == [x]] }, q == 'b', { let c__: InferredGoal<DU, DE, Goal<DU, DE>> = proto_vulcan_closure!([|yy| { conde { [x == [yy | _], yy == 1], [x == [_, yy | _], yy == 2] } }, |tz| { [1 | tz] != [1, 1], tz == [1] }]); let g__: Goal<DU, DE> = ::proto_vulcan::GoalCast::cast_into(c__); let r__: InferredGoal<DU, DE, Goal<DU, DE>> = proto_vulcan!([g__.clone(), g__]); r__ }])
}
pub fn case_617(vars: &Vars) -> InferredGoal<DU, DE, Goal<DU, DE>> {
    let q = vars.v[0].clone();
    let x = vars.v[1].clone();
    proto_vulcan!([conde { [|tz| { tz == [3, 2], [2, 3, 2] != [2 | tz] }, matche q { [1, [t, false], "bc"] | [2] => { match q { z => { x != [x, [], z], append(x, z, [1, 2]) }, 1 => append(q, x, [3, 2]), _ => { append(q, x, [1]) }, }, true == q }, }], [matche ['a', false | x] { Named { a: 1, b: [] } => { |fresh_name_9| { fresh_name_9 == [3, 3], [3, 3, 3] != [3 | fresh_name_9] }, match x { Named { a: [], b: [_, x] } => _ == q, } }, [[1, 3], y] => q == x, }, q == [x]] }, q == 'b', { let c__: InferredGoal<DU, DE, Goal<DU, DE>> = proto_vulcan_closure!([|yy| { conde { [x == [yy | _], yy == 1], [x == [_, yy | _], yy == 2] } }, |tz| { [1 | tz] != [1, 1], tz == [1] }]); let g__: Goal<DU, DE> = ::proto_vulcan::GoalCast::cast_into(c__); let r__: InferredGoal<DU, DE, Goal<DU, DE>> = proto_vulcan!([g__.clone(), g__]); r__ }])
}
pub fn case_618(vars: &Vars) -> InferredGoal<DU, DE, Goal<DU, DE>> {
    let x = vars.v[0].clone();
    proto_vulcan!([_ == x, closure { [|y| { true, |h, x| { [h] == ([], []), x != h, [_, x, 2] == x }, (_, []) != [false, x] }, x == [x, "bc", x]] }])
}
pub fn case_619(vars: &Vars) -> InferredGoal<DU, DE, Goal<DU, DE>> {
    let x = vars.v[0].clone();
    proto_vulcan!([_ == x, closure { [|fresh_name_9| { true, |h, x| { [h] == ([], []), x != h, [_, x, 2] == x }, (_, []) != [false, x] }, x == [x, "bc", x]] }])
}
pub fn case_620(vars: &Vars) -> InferredGoal<DU, DE, Goal<DU, DE>> {
    let q = vars.v[0].clone();
    let x = vars.v[1].clone();
    proto_vulcan!([[], conde { [|z, x| { true == q }, false] }, [[q], _, [2, 1] | x] == (1, x)])
}
pub fn case_621(vars: &Vars) -> InferredGoal<DU, DE, Goal<DU, DE>> {
    let q = vars.v[0].clone();
    let x = vars.v[1].clone();
    proto_vulcan!([[], conde { [|z, fresh_name_9| { true == q }, false] }, [[q], _, [2, 1] | x] == (1, x)])
}
pub fn case_622(vars: &Vars) -> InferredGoal<DU, DE, Goal<DU, DE>> {
    let x = vars.v[0].clone();
    proto_vulcan!([[], [_, 3] == x, conde { [|y| { match _ { h => [x == P3([h, 3], h, [y, 1]), [y | 1] == x], }, [[], 'a' | y] == x, false }, [1, [x | x], x | "bc"] == [1, [1]]], [] }, closure { [3 == [x, [[], 2, 2 | x]], |tz| { tz == [1], [3, 3 | tz] != [3, 3, 1] }] }])
}
pub fn case_623(vars: &Vars) -> InferredGoal<DU, DE, Goal<DU, DE>> {
    let x = vars.v[0].clone();
    proto_vulcan!([[], [_, 3] == x, conde { [|y| { match _ { h => [x == P3([h, 3], h, [y, 1]), [y | 1] == x], }, [[], 'a' | y] == x, false }, [1, [x | x], x | "bc"] == [1, [1]]], [] }, closure { [3 == [x, [[], 2, 2 | x]], |fresh_name_9| { fresh_name_9 == [1], [3, 3 | fresh_name_9] != [3, 3, 1] }] }])
}
pub fn case_624(vars: &Vars) -> InferredGoal<DU, DE, Goal<DU, DE>> {
    let x = vars.v[0].clone();
    proto_vulcan!([x == [x, 1, x], x == 2, |t| { |t, z| { conde { [x, "a"] == t }, member(x, [1]) }, x == [x], |tz| { [2 | tz] != [2, 3], tz == [3] } }])
}
pub fn case_625(vars: &Vars) -> InferredGoal<DU, DE, Goal<DU, DE>> {
    let x = vars.v[0].clone();
    proto_vulcan!([x == [x, 1, x], x == 2, |t| { |t, z| { conde { [x, "a"] == t }, member(x, [1]) }, x == [x], |fresh_name_9| { [2 | fresh_name_9] != [2, 3], fresh_name_9 == [3] } }])
}
pub fn case_626(vars: &Vars) -> InferredGoal<DU, DE, Goal<DU, DE>> {
    let x = vars.v[0].clone();
    let y = vars.v[1].clone();
    proto_vulcan!([true, closure { [|x| { match x { _ => append(y, x, [2]), P3(y, [[]], t) => y == [1, y, 2 | y], }, conde { [y == 2, append(y, x, [2, 1])], y == [] } }, match [_, 3, 3] { 1 => [match x { [y, [3], false] => , }, y == x], [[y], [_], x] => { conde { x == _, [(2, [x]) == x, 2 == x] } }, }] }])
}
pub fn case_627(vars: &Vars) -> InferredGoal<DU, DE, Goal<DU, DE>> {
    let x = vars.v[0].clone();
    let y = vars.v[1].clone();
    proto_vulcan!([true, closure { [|x| { match x { _ => append(y, x, [2]), P3(y, [[]], t) => y == [1, y, 2 | y], }, conde { [y == 2, append(y, x, [2, 1])], y == [] } }, match [_, 3, 3] { 1 => [match x { [y, [3], false] => , }, y == x], [[y], [_], fresh_name_9] => { conde { fresh_name_9 == _, [(2, [fresh_name_9]) == fresh_name_9, 2 == fresh_name_9] } }, }] }])
}
pub const NCASES: usize = 628;
pub fn case(i: usize, vars: &Vars) -> Goal<DU, DE> {
    match i {
        0 => case_0(vars).goal,
        1 => case_1(vars).goal,
        2 => case_2(vars).goal,
        3 => case_3(vars).goal,
        4 => case_4(vars).goal,
        5 => case_5(vars).goal,
        6 => case_6(vars).goal,
        7 => case_7(vars).goal,
        8 => case_8(vars).goal,
        9 => case_9(vars).goal,
        10 => case_10(vars).goal,
        11 => case_11(vars).goal,
        12 => case_12(vars).goal,
        13 => case_13(vars).goal,
        14 => case_14(vars).goal,
        15 => case_15(vars).goal,
        16 => case_16(vars).goal,
        17 => case_17(vars).goal,
        18 => case_18(vars).goal,
        19 => case_19(vars).goal,
        20 => case_20(vars).goal,
        21 => case_21(vars).goal,
        22 => case_22(vars).goal,
        23 => case_23(vars).goal,
        24 => case_24(vars).goal,
        25 => case_25(vars).goal,
        26 => case_26(vars).goal,
        27 => case_27(vars).goal,
        28 => case_28(vars).goal,
        29 => case_29(vars).goal,
        30 => case_30(vars).goal,
        31 => case_31(vars).goal,
        32 => case_32(vars).goal,
        33 => case_33(vars).goal,
        34 => case_34(vars).goal,
        35 => case_35(vars).goal,
        36 => case_36(vars).goal,
        37 => case_37(vars).goal,
        38 => case_38(vars).goal,
        39 => case_39(vars).goal,
        40 => case_40(vars).goal,
        41 => case_41(vars).goal,
        42 => case_42(vars).goal,
        43 => case_43(vars).goal,
        44 => case_44(vars).goal,
        45 => case_45(vars).goal,
        46 => case_46(vars).goal,
        47 => case_47(vars).goal,
        48 => case_48(vars).goal,
        49 => case_49(vars).goal,
        50 => case_50(vars).goal,
        51 => case_51(vars).goal,
        52 => case_52(vars).goal,
        53 => case_53(vars).goal,
        54 => case_54(vars).goal,
        55 => case_55(vars).goal,
        56 => case_56(vars).goal,
        57 => case_57(vars).goal,
        58 => case_58(vars).goal,
        59 => case_59(vars).goal,
        60 => case_60(vars).goal,
        61 => case_61(vars).goal,
        62 => case_62(vars).goal,
        63 => case_63(vars).goal,
        64 => case_64(vars).goal,
        65 => case_65(vars).goal,
        66 => case_66(vars).goal,
        67 => case_67(vars).goal,
        68 => case_68(vars).goal,
        69 => case_69(vars).goal,
        70 => case_70(vars).goal,
        71 => case_71(vars).goal,
        72 => case_72(vars).goal,
        73 => case_73(vars).goal,
        74 => case_74(vars).goal,
        75 => case_75(vars).goal,
        76 => case_76(vars).goal,
        77 => case_77(vars).goal,
        78 => case_78(vars).goal,
        79 => case_79(vars).goal,
        80 => case_80(vars).goal,
        81 => case_81(vars).goal,
        82 => case_82(vars).goal,
        83 => case_83(vars).goal,
        84 => case_84(vars).goal,
        85 => case_85(vars).goal,
        86 => case_86(vars).goal,
        87 => case_87(vars).goal,
        88 => case_88(vars).goal,
        89 => case_89(vars).goal,
        90 => case_90(vars).goal,
        91 => case_91(vars).goal,
        92 => case_92(vars).goal,
        93 => case_93(vars).goal,
        94 => case_94(vars).goal,
        95 => case_95(vars).goal,
        96 => case_96(vars).goal,
        97 => case_97(vars).goal,
        98 => case_98(vars).goal,
        99 => case_99(vars).goal,
        100 => case_100(vars).goal,
        101 => case_101(vars).goal,
        102 => case_102(vars).goal,
        103 => case_103(vars).goal,
        104 => case_104(vars).goal,
        105 => case_105(vars).goal,
        106 => case_106(vars).goal,
        107 => case_107(vars).goal,
        108 => case_108(vars).goal,
        109 => case_109(vars).goal,
        110 => case_110(vars).goal,
        111 => case_111(vars).goal,
        112 => case_112(vars).goal,
        113 => case_113(vars).goal,
        114 => case_114(vars).goal,
        115 => case_115(vars).goal,
        116 => case_116(vars).goal,
        117 => case_117(vars).goal,
        118 => case_118(vars).goal,
        119 => case_119(vars).goal,
        120 => case_120(vars).goal,
        121 => case_121(vars).goal,
        122 => case_122(vars).goal,
        123 => case_123(vars).goal,
        124 => case_124(vars).goal,
        125 => case_125(vars).goal,
        126 => case_126(vars).goal,
        127 => case_127(vars).goal,
        128 => case_128(vars).goal,
        129 => case_129(vars).goal,
        130 => case_130(vars).goal,
        131 => case_131(vars).goal,
        132 => case_132(vars).goal,
        133 => case_133(vars).goal,
        134 => case_134(vars).goal,
        135 => case_135(vars).goal,
        136 => case_136(vars).goal,
        137 => case_137(vars).goal,
        138 => case_138(vars).goal,
        139 => case_139(vars).goal,
        140 => case_140(vars).goal,
        141 => case_141(vars).goal,
        142 => case_142(vars).goal,
        143 => case_143(vars).goal,
        144 => case_144(vars).goal,
        145 => case_145(vars).goal,
        146 => case_146(vars).goal,
        147 => case_147(vars).goal,
        148 => case_148(vars).goal,
        149 => case_149(vars).goal,
        150 => case_150(vars).goal,
        151 => case_151(vars).goal,
        152 => case_152(vars).goal,
        153 => case_153(vars).goal,
        154 => case_154(vars).goal,
        155 => case_155(vars).goal,
        156 => case_156(vars).goal,
        157 => case_157(vars).goal,
        158 => case_158(vars).goal,
        159 => case_159(vars).goal,
        160 => case_160(vars).goal,
        161 => case_161(vars).goal,
        162 => case_162(vars).goal,
        163 => case_163(vars).goal,
        164 => case_164(vars).goal,
        165 => case_165(vars).goal,
        166 => case_166(vars).goal,
        167 => case_167(vars).goal,
        168 => case_168(vars).goal,
        169 => case_169(vars).goal,
        170 => case_170(vars).goal,
        171 => case_171(vars).goal,
        172 => case_172(vars).goal,
        173 => case_173(vars).goal,
        174 => case_174(vars).goal,
        175 => case_175(vars).goal,
        176 => case_176(vars).goal,
        177 => case_177(vars).goal,
        178 => case_178(vars).goal,
        179 => case_179(vars).goal,
        180 => case_180(vars).goal,
        181 => case_181(vars).goal,
        182 => case_182(vars).goal,
        183 => case_183(vars).goal,
        184 => case_184(vars).goal,
        185 => case_185(vars).goal,
        186 => case_186(vars).goal,
        187 => case_187(vars).goal,
        188 => case_188(vars).goal,
        189 => case_189(vars).goal,
        190 => case_190(vars).goal,
        191 => case_191(vars).goal,
        192 => case_192(vars).goal,
        193 => case_193(vars).goal,
        194 => case_194(vars).goal,
        195 => case_195(vars).goal,
        196 => case_196(vars).goal,
        197 => case_197(vars).goal,
        198 => case_198(vars).goal,
        199 => case_199(vars).goal,
        200 => case_200(vars).goal,
        201 => case_201(vars).goal,
        202 => case_202(vars).goal,
        203 => case_203(vars).goal,
        204 => case_204(vars).goal,
        205 => case_205(vars).goal,
        206 => case_206(vars).goal,
        207 => case_207(vars).goal,
        208 => case_208(vars).goal,
        209 => case_209(vars).goal,
        210 => case_210(vars).goal,
        211 => case_211(vars).goal,
        212 => case_212(vars).goal,
        213 => case_213(vars).goal,
        214 => case_214(vars).goal,
        215 => case_215(vars).goal,
        216 => case_216(vars).goal,
        217 => case_217(vars).goal,
        218 => case_218(vars).goal,
        219 => case_219(vars).goal,
        220 => case_220(vars).goal,
        221 => case_221(vars).goal,
        222 => case_222(vars).goal,
        223 => case_223(vars).goal,
        224 => case_224(vars).goal,
        225 => case_225(vars).goal,
        226 => case_226(vars).goal,
        227 => case_227(vars).goal,
        228 => case_228(vars).goal,
        229 => case_229(vars).goal,
        230 => case_230(vars).goal,
        231 => case_231(vars).goal,
        232 => case_232(vars).goal,
        233 => case_233(vars).goal,
        234 => case_234(vars).goal,
        235 => case_235(vars).goal,
        236 => case_236(vars).goal,
        237 => case_237(vars).goal,
        238 => case_238(vars).goal,
        239 => case_239(vars).goal,
        240 => case_240(vars).goal,
        241 => case_241(vars).goal,
        242 => case_242(vars).goal,
        243 => case_243(vars).goal,
        244 => case_244(vars).goal,
        245 => case_245(vars).goal,
        246 => case_246(vars).goal,
        247 => case_247(vars).goal,
        248 => case_248(vars).goal,
        249 => case_249(vars).goal,
        250 => case_250(vars).goal,
        251 => case_251(vars).goal,
        252 => case_252(vars).goal,
        253 => case_253(vars).goal,
        254 => case_254(vars).goal,
        255 => case_255(vars).goal,
        256 => case_256(vars).goal,
        257 => case_257(vars).goal,
        258 => case_258(vars).goal,
        259 => case_259(vars).goal,
        260 => case_260(vars).goal,
        261 => case_261(vars).goal,
        262 => case_262(vars).goal,
        263 => case_263(vars).goal,
        264 => case_264(vars).goal,
        265 => case_265(vars).goal,
        266 => case_266(vars).goal,
        267 => case_267(vars).goal,
        268 => case_268(vars).goal,
        269 => case_269(vars).goal,
        270 => case_270(vars).goal,
        271 => case_271(vars).goal,
        272 => case_272(vars).goal,
        273 => case_273(vars).goal,
        274 => case_274(vars).goal,
        275 => case_275(vars).goal,
        276 => case_276(vars).goal,
        277 => case_277(vars).goal,
        278 => case_278(vars).goal,
        279 => case_279(vars).goal,
        280 => case_280(vars).goal,
        281 => case_281(vars).goal,
        282 => case_282(vars).goal,
        283 => case_283(vars).goal,
        284 => case_284(vars).goal,
        285 => case_285(vars).goal,
        286 => case_286(vars).goal,
        287 => case_287(vars).goal,
        288 => case_288(vars).goal,
        289 => case_289(vars).goal,
        290 => case_290(vars).goal,
        291 => case_291(vars).goal,
        292 => case_292(vars).goal,
        293 => case_293(vars).goal,
        294 => case_294(vars).goal,
        295 => case_295(vars).goal,
        296 => case_296(vars).goal,
        297 => case_297(vars).goal,
        298 => case_298(vars).goal,
        299 => case_299(vars).goal,
        300 => case_300(vars).goal,
        301 => case_301(vars).goal,
        302 => case_302(vars).goal,
        303 => case_303(vars).goal,
        304 => case_304(vars).goal,
        305 => case_305(vars).goal,
        306 => case_306(vars).goal,
        307 => case_307(vars).goal,
        308 => case_308(vars).goal,
        309 => case_309(vars).goal,
        310 => case_310(vars).goal,
        311 => case_311(vars).goal,
        312 => case_312(vars).goal,
        313 => case_313(vars).goal,
        314 => case_314(vars).goal,
        315 => case_315(vars).goal,
        316 => case_316(vars).goal,
        317 => case_317(vars).goal,
        318 => case_318(vars).goal,
        319 => case_319(vars).goal,
        320 => case_320(vars).goal,
        321 => case_321(vars).goal,
        322 => case_322(vars).goal,
        323 => case_323(vars).goal,
        324 => case_324(vars).goal,
        325 => case_325(vars).goal,
        326 => case_326(vars).goal,
        327 => case_327(vars).goal,
        328 => case_328(vars).goal,
        329 => case_329(vars).goal,
        330 => case_330(vars).goal,
        331 => case_331(vars).goal,
        332 => case_332(vars).goal,
        333 => case_333(vars).goal,
        334 => case_334(vars).goal,
        335 => case_335(vars).goal,
        336 => case_336(vars).goal,
        337 => case_337(vars).goal,
        338 => case_338(vars).goal,
        339 => case_339(vars).goal,
        340 => case_340(vars).goal,
        341 => case_341(vars).goal,
        342 => case_342(vars).goal,
        343 => case_343(vars).goal,
        344 => case_344(vars).goal,
        345 => case_345(vars).goal,
        346 => case_346(vars).goal,
        347 => case_347(vars).goal,
        348 => case_348(vars).goal,
        349 => case_349(vars).goal,
        350 => case_350(vars).goal,
        351 => case_351(vars).goal,
        352 => case_352(vars).goal,
        353 => case_353(vars).goal,
        354 => case_354(vars).goal,
        355 => case_355(vars).goal,
        356 => case_356(vars).goal,
        357 => case_357(vars).goal,
        358 => case_358(vars).goal,
        359 => case_359(vars).goal,
        360 => case_360(vars).goal,
        361 => case_361(vars).goal,
        362 => case_362(vars).goal,
        363 => case_363(vars).goal,
        364 => case_364(vars).goal,
        365 => case_365(vars).goal,
        366 => case_366(vars).goal,
        367 => case_367(vars).goal,
        368 => case_368(vars).goal,
        369 => case_369(vars).goal,
        370 => case_370(vars).goal,
        371 => case_371(vars).goal,
        372 => case_372(vars).goal,
        373 => case_373(vars).goal,
        374 => case_374(vars).goal,
        375 => case_375(vars).goal,
        376 => case_376(vars).goal,
        377 => case_377(vars).goal,
        378 => case_378(vars).goal,
        379 => case_379(vars).goal,
        380 => case_380(vars).goal,
        381 => case_381(vars).goal,
        382 => case_382(vars).goal,
        383 => case_383(vars).goal,
        384 => case_384(vars).goal,
        385 => case_385(vars).goal,
        386 => case_386(vars).goal,
        387 => case_387(vars).goal,
        388 => case_388(vars).goal,
        389 => case_389(vars).goal,
        390 => case_390(vars).goal,
        391 => case_391(vars).goal,
        392 => case_392(vars).goal,
        393 => case_393(vars).goal,
        394 => case_394(vars).goal,
        395 => case_395(vars).goal,
        396 => case_396(vars).goal,
        397 => case_397(vars).goal,
        398 => case_398(vars).goal,
        399 => case_399(vars).goal,
        400 => case_400(vars).goal,
        401 => case_401(vars).goal,
        402 => case_402(vars).goal,
        403 => case_403(vars).goal,
        404 => case_404(vars).goal,
        405 => case_405(vars).goal,
        406 => case_406(vars).goal,
        407 => case_407(vars).goal,
        408 => case_408(vars).goal,
        409 => case_409(vars).goal,
        410 => case_410(vars).goal,
        411 => case_411(vars).goal,
        412 => case_412(vars).goal,
        413 => case_413(vars).goal,
        414 => case_414(vars).goal,
        415 => case_415(vars).goal,
        416 => case_416(vars).goal,
        417 => case_417(vars).goal,
        418 => case_418(vars).goal,
        419 => case_419(vars).goal,
        420 => case_420(vars).goal,
        421 => case_421(vars).goal,
        422 => case_422(vars).goal,
        423 => case_423(vars).goal,
        424 => case_424(vars).goal,
        425 => case_425(vars).goal,
        426 => case_426(vars).goal,
        427 => case_427(vars).goal,
        428 => case_428(vars).goal,
        429 => case_429(vars).goal,
        430 => case_430(vars).goal,
        431 => case_431(vars).goal,
        432 => case_432(vars).goal,
        433 => case_433(vars).goal,
        434 => case_434(vars).goal,
        435 => case_435(vars).goal,
        436 => case_436(vars).goal,
        437 => case_437(vars).goal,
        438 => case_438(vars).goal,
        439 => case_439(vars).goal,
        440 => case_440(vars).goal,
        441 => case_441(vars).goal,
        442 => case_442(vars).goal,
        443 => case_443(vars).goal,
        444 => case_444(vars).goal,
        445 => case_445(vars).goal,
        446 => case_446(vars).goal,
        447 => case_447(vars).goal,
        448 => case_448(vars).goal,
        449 => case_449(vars).goal,
        450 => case_450(vars).goal,
        451 => case_451(vars).goal,
        452 => case_452(vars).goal,
        453 => case_453(vars).goal,
        454 => case_454(vars).goal,
        455 => case_455(vars).goal,
        456 => case_456(vars).goal,
        457 => case_457(vars).goal,
        458 => case_458(vars).goal,
        459 => case_459(vars).goal,
        460 => case_460(vars).goal,
        461 => case_461(vars).goal,
        462 => case_462(vars).goal,
        463 => case_463(vars).goal,
        464 => case_464(vars).goal,
        465 => case_465(vars).goal,
        466 => case_466(vars).goal,
        467 => case_467(vars).goal,
        468 => case_468(vars).goal,
        469 => case_469(vars).goal,
        470 => case_470(vars).goal,
        471 => case_471(vars).goal,
        472 => case_472(vars).goal,
        473 => case_473(vars).goal,
        474 => case_474(vars).goal,
        475 => case_475(vars).goal,
        476 => case_476(vars).goal,
        477 => case_477(vars).goal,
        478 => case_478(vars).goal,
        479 => case_479(vars).goal,
        480 => case_480(vars).goal,
        481 => case_481(vars).goal,
        482 => case_482(vars).goal,
        483 => case_483(vars).goal,
        484 => case_484(vars).goal,
        485 => case_485(vars).goal,
        486 => case_486(vars).goal,
        487 => case_487(vars).goal,
        488 => case_488(vars).goal,
        489 => case_489(vars).goal,
        490 => case_490(vars).goal,
        491 => case_491(vars).goal,
        492 => case_492(vars).goal,
        493 => case_493(vars).goal,
        494 => case_494(vars).goal,
        495 => case_495(vars).goal,
        496 => case_496(vars).goal,
        497 => case_497(vars).goal,
        498 => case_498(vars).goal,
        499 => case_499(vars).goal,
        500 => case_500(vars).goal,
        501 => case_501(vars).goal,
        502 => case_502(vars).goal,
        503 => case_503(vars).goal,
        504 => case_504(vars).goal,
        505 => case_505(vars).goal,
        506 => case_506(vars).goal,
        507 => case_507(vars).goal,
        508 => case_508(vars).goal,
        509 => case_509(vars).goal,
        510 => case_510(vars).goal,
        511 => case_511(vars).goal,
        512 => case_512(vars).goal,
        513 => case_513(vars).goal,
        514 => case_514(vars).goal,
        515 => case_515(vars).goal,
        516 => case_516(vars).goal,
        517 => case_517(vars).goal,
        518 => case_518(vars).goal,
        519 => case_519(vars).goal,
        520 => case_520(vars).goal,
        521 => case_521(vars).goal,
        522 => case_522(vars).goal,
        523 => case_523(vars).goal,
        524 => case_524(vars).goal,
        525 => case_525(vars).goal,
        526 => case_526(vars).goal,
        527 => case_527(vars).goal,
        528 => case_528(vars).goal,
        529 => case_529(vars).goal,
        530 => case_530(vars).goal,
        531 => case_531(vars).goal,
        532 => case_532(vars).goal,
        533 => case_533(vars).goal,
        534 => case_534(vars).goal,
        535 => case_535(vars).goal,
        536 => case_536(vars).goal,
        537 => case_537(vars).goal,
        538 => case_538(vars).goal,
        539 => case_539(vars).goal,
        540 => case_540(vars).goal,
        541 => case_541(vars).goal,
        542 => case_542(vars).goal,
        543 => case_543(vars).goal,
        544 => case_544(vars).goal,
        545 => case_545(vars).goal,
        546 => case_546(vars).goal,
        547 => case_547(vars).goal,
        548 => case_548(vars).goal,
        549 => case_549(vars).goal,
        550 => case_550(vars).goal,
        551 => case_551(vars).goal,
        552 => case_552(vars).goal,
        553 => case_553(vars).goal,
        554 => case_554(vars).goal,
        555 => case_555(vars).goal,
        556 => case_556(vars).goal,
        557 => case_557(vars).goal,
        558 => case_558(vars).goal,
        559 => case_559(vars).goal,
        560 => case_560(vars).goal,
        561 => case_561(vars).goal,
        562 => case_562(vars).goal,
        563 => case_563(vars).goal,
        564 => case_564(vars).goal,
        565 => case_565(vars).goal,
        566 => case_566(vars).goal,
        567 => case_567(vars).goal,
        568 => case_568(vars).goal,
        569 => case_569(vars).goal,
        570 => case_570(vars).goal,
        571 => case_571(vars).goal,
        572 => case_572(vars).goal,
        573 => case_573(vars).goal,
        574 => case_574(vars).goal,
        575 => case_575(vars).goal,
        576 => case_576(vars).goal,
        577 => case_577(vars).goal,
        578 => case_578(vars).goal,
        579 => case_579(vars).goal,
        580 => case_580(vars).goal,
        581 => case_581(vars).goal,
        582 => case_582(vars).goal,
        583 => case_583(vars).goal,
        584 => case_584(vars).goal,
        585 => case_585(vars).goal,
        586 => case_586(vars).goal,
        587 => case_587(vars).goal,
        588 => case_588(vars).goal,
        589 => case_589(vars).goal,
        590 => case_590(vars).goal,
        591 => case_591(vars).goal,
        592 => case_592(vars).goal,
        593 => case_593(vars).goal,
        594 => case_594(vars).goal,
        595 => case_595(vars).goal,
        596 => case_596(vars).goal,
        597 => case_597(vars).goal,
        598 => case_598(vars).goal,
        599 => case_599(vars).goal,
        600 => case_600(vars).goal,
        601 => case_601(vars).goal,
        602 => case_602(vars).goal,
        603 => case_603(vars).goal,
        604 => case_604(vars).goal,
        605 => case_605(vars).goal,
        606 => case_606(vars).goal,
        607 => case_607(vars).goal,
        608 => case_608(vars).goal,
        609 => case_609(vars).goal,
        610 => case_610(vars).goal,
        611 => case_611(vars).goal,
        612 => case_612(vars).goal,
        613 => case_613(vars).goal,
        614 => case_614(vars).goal,
        615 => case_615(vars).goal,
        616 => case_616(vars).goal,
        617 => case_617(vars).goal,
        618 => case_618(vars).goal,
        619 => case_619(vars).goal,
        620 => case_620(vars).goal,
        621 => case_621(vars).goal,
        622 => case_622(vars).goal,
        623 => case_623(vars).goal,
        624 => case_624(vars).goal,
        625 => case_625(vars).goal,
        626 => case_626(vars).goal,
        627 => case_627(vars).goal,
        _ => unreachable!(),
    }
}
