pub fn case_0(vars: &Vars) -> InferredGoal<DU, DE, Goal<DU, DE>> {
    let qa = vars.v[0].clone();
    let qb = vars.v[1].clone();
    let coll0: Vec<LT> = vec![qa.clone(), qa.clone()];
    proto_vulcan!([for e in &coll0 { conde { e == 1, true } }])
}
pub fn case_1(vars: &Vars) -> InferredGoal<DU, DE, Goal<DU, DE>> {
    let qa = vars.v[0].clone();
    let qb = vars.v[1].clone();
    let coll0: LT = LT::from_vec(vec![lterm!(7), lterm!(7), lterm!(3)]);
    proto_vulcan!([for e in &coll0 { conde { qa == 5, e == e } }])
}
pub fn case_2(vars: &Vars) -> InferredGoal<DU, DE, Goal<DU, DE>> {
    let qa = vars.v[0].clone();
    let qb = vars.v[1].clone();
    let coll0: LT = LT::from_vec(vec![qa.clone(), qb.clone(), qb.clone()]);
    proto_vulcan!([for e in &coll0 { conde { e == 2, true }, e != 3 }])
}
pub fn case_3(vars: &Vars) -> InferredGoal<DU, DE, Goal<DU, DE>> {
    let qa = vars.v[0].clone();
    let qb = vars.v[1].clone();
    let coll0: Vec<LT> = vec![lterm!(1), lterm!(2)];
    proto_vulcan!([conde { qa == 1, qa == 3 }, for e in &coll0 { qa != e, true }])
}
pub fn case_4(vars: &Vars) -> InferredGoal<DU, DE, Goal<DU, DE>> {
    let qa = vars.v[0].clone();
    let qb = vars.v[1].clone();
    let coll0: Vec<LT> = vec![qb.clone(), lterm!(2)];
    proto_vulcan!([for e in &coll0 { qa == 4, true, e != 2 }])
}
pub fn case_5(vars: &Vars) -> InferredGoal<DU, DE, Goal<DU, DE>> {
    let qa = vars.v[0].clone();
    let qb = vars.v[1].clone();
    let coll0: LT = LT::from_vec(vec![lterm!(1), lterm!([]), lterm!(2)]);
    proto_vulcan!([conde { qa == 1, qa == 2, qa == 3 }, for e in &coll0 { qa != e }])
}
pub fn case_6(vars: &Vars) -> InferredGoal<DU, DE, Goal<DU, DE>> {
    let qa = vars.v[0].clone();
    let qb = vars.v[1].clone();
    let coll0: Vec<LT> = vec![lterm!([]), qa.clone()];
    proto_vulcan!([for e in &coll0 { e != 2, conde { e == 1, true } }])
}
pub fn case_7(vars: &Vars) -> InferredGoal<DU, DE, Goal<DU, DE>> {
    let qa = vars.v[0].clone();
    let qb = vars.v[1].clone();
    let coll0: LT = LT::from_vec(vec![lterm!(2), lterm!([2]), lterm!(2)]);
    proto_vulcan!([for e in &coll0 { e == qb, |x| { |tz| { tz == [1], [1, 1 | tz] != [1, 1, 1] }, member(qa, [1, 3, 3]), _ == qb } }])
}
pub fn case_8(vars: &Vars) -> InferredGoal<DU, DE, Goal<DU, DE>> {
    let qa = vars.v[0].clone();
    let qb = vars.v[1].clone();
    let coll0: Vec<LT> = vec![];
    proto_vulcan!([[[qa], [qa, qb, qb]] == (qa, qb), for e in &coll0 { [[qb]] == (qa, [3]), |z| { e != (1, 1), |tz| { tz == [3, 2], [2 | tz] != [2, 3, 2] } } }])
}
pub fn case_9(vars: &Vars) -> InferredGoal<DU, DE, Goal<DU, DE>> {
    let qa = vars.v[0].clone();
    let qb = vars.v[1].clone();
    let coll0: Vec<LT> = vec![lterm!([[], 1]), qb.clone(), qb.clone(), lterm!([2])];
    proto_vulcan!([|x| { qa == qb, append(qa, qb, [1]) }, for e in &coll0 { conde { e == 1, true }, |tz| { tz == [3], [2, 3] != [2 | tz] }, qb != [_, qb] }])
}
pub fn case_10(vars: &Vars) -> InferredGoal<DU, DE, Goal<DU, DE>> {
    let qa = vars.v[0].clone();
    let qb = vars.v[1].clone();
    let coll0: Vec<LT> = vec![];
    proto_vulcan!([|x, t| {  }, for e in &coll0 { conde { e == 3, true }, [3 | [2, 3]] == qa, true }])
}
pub fn case_11(vars: &Vars) -> InferredGoal<DU, DE, Goal<DU, DE>> {
    let qa = vars.v[0].clone();
    let qb = vars.v[1].clone();
    let coll0: Vec<LT> = vec![];
    proto_vulcan!([|x| { x != x, x != [false, 3, false], false }, for e in &coll0 { conde { e == 2, true }, |z| { e == z } }])
}
pub fn case_12(vars: &Vars) -> InferredGoal<DU, DE, Goal<DU, DE>> {
    let qa = vars.v[0].clone();
    let qb = vars.v[1].clone();
    let coll0: LT = LT::from_vec(vec![lterm!([2]), lterm!([[], 1]), lterm!([2])]);
    proto_vulcan!([qa != [[]], for e in &coll0 { conde { e == 1, true }, qb == [[qb, qa | qa] | qa] }])
}
pub fn case_13(vars: &Vars) -> InferredGoal<DU, DE, Goal<DU, DE>> {
    let qa = vars.v[0].clone();
    let qb = vars.v[1].clone();
    let coll0: Vec<LT> = vec![];
    proto_vulcan!([for e in &coll0 { conde { e == 2, true }, |t| {  }, |t, h| { qb == ['a', 1] } }])
}
pub fn case_14(vars: &Vars) -> InferredGoal<DU, DE, Goal<DU, DE>> {
    let qa = vars.v[0].clone();
    let qb = vars.v[1].clone();
    let coll0: LT = LT::from_vec(vec![lterm!(1), lterm!([1]), lterm!([1])]);
    proto_vulcan!([for e in &coll0 { conde { e == 3, true }, [3] == e }])
}
pub fn case_15(vars: &Vars) -> InferredGoal<DU, DE, Goal<DU, DE>> {
    let qa = vars.v[0].clone();
    let qb = vars.v[1].clone();
    let coll0: Vec<LT> = vec![lterm!([1]), lterm!([1]), lterm!([1]), lterm!(1)];
    proto_vulcan!([[qb != qa], for e in &coll0 { conde { e == 1, true }, [] }])
}
pub fn case_16(vars: &Vars) -> InferredGoal<DU, DE, Goal<DU, DE>> {
    let qa = vars.v[0].clone();
    let qb = vars.v[1].clone();
    let coll0: LT = LT::from_vec(vec![lterm!(3), lterm!([]), lterm!([])]);
    proto_vulcan!([['a', _] == qa, for e in &coll0 { conde { e == 2, true }, qa != [_ | 2] }])
}
pub fn case_17(vars: &Vars) -> InferredGoal<DU, DE, Goal<DU, DE>> {
    let qa = vars.v[0].clone();
    let qb = vars.v[1].clone();
    let coll0: Vec<LT> = vec![lterm!(1), lterm!(1)];
    proto_vulcan!([for e in &coll0 { e == [2], conde { [[e] == qa, [] != e], member(e, [2]) } }])
}
pub fn case_18(vars: &Vars) -> InferredGoal<DU, DE, Goal<DU, DE>> {
    let qa = vars.v[0].clone();
    let qb = vars.v[1].clone();
    let coll0: LT = LT::from_vec(vec![lterm!([]), qb.clone(), qb.clone()]);
    proto_vulcan!([for e in &coll0 { |x| { [e, x, qa] == x, member(e, [1, 2]), member(qb, [3, 1]) } }])
}
pub fn case_19(vars: &Vars) -> InferredGoal<DU, DE, Goal<DU, DE>> {
    let qa = vars.v[0].clone();
    let qb = vars.v[1].clone();
    let coll0: LT = LT::from_vec(vec![lterm!(1)]);
    proto_vulcan!([for e in &coll0 { e == ["bc"], [e != [e, qa, 1]] }])
}
pub fn case_20(vars: &Vars) -> InferredGoal<DU, DE, Goal<DU, DE>> {
    let qa = vars.v[0].clone();
    let qb = vars.v[1].clone();
    let coll0: Vec<LT> = vec![lterm!(2), lterm!([[], 2])];
    proto_vulcan!([conde { [qa == 1, [[3, qa], qb, true | 3] == qa] }, for e in &coll0 { conde { e == 3, true }, [2] != e }])
}
pub fn case_21(vars: &Vars) -> InferredGoal<DU, DE, Goal<DU, DE>> {
    let qa = vars.v[0].clone();
    let qb = vars.v[1].clone();
    let coll0: LT = LT::from_vec(vec![lterm!([2])]);
    proto_vulcan!([for e in &coll0 { [[e, 3, _ | qb]] == qa }])
}
pub fn case_22(vars: &Vars) -> InferredGoal<DU, DE, Goal<DU, DE>> {
    let qa = vars.v[0].clone();
    let qb = vars.v[1].clone();
    let coll0: Vec<LT> = vec![];
    proto_vulcan!([qb == qa, for e in &coll0 { conde { e == 1, true }, [qa, 1, qb] != qa, |tz| { [3 | tz] != [3, 3], tz == [3] } }])
}
pub fn case_23(vars: &Vars) -> InferredGoal<DU, DE, Goal<DU, DE>> {
    let qa = vars.v[0].clone();
    let qb = vars.v[1].clone();
    let coll0: Vec<LT> = vec![lterm!([]), lterm!(2)];
    proto_vulcan!([conde { [[2, true | qb] == qa, [] == qa], qb == [3, qb, []] }, for e in &coll0 { e == 1, e == 2 }])
}
pub fn case_24(vars: &Vars) -> InferredGoal<DU, DE, Goal<DU, DE>> {
    let qa = vars.v[0].clone();
    let qb = vars.v[1].clone();
    let coll0: Vec<LT> = vec![];
    proto_vulcan!([for e in &coll0 { conde { e == 3, true }, conde { [[2, [[], _ | e]] == qa, false], [qa == [e, qa, e], qb == 1], [false, [[1, "bc", []], [3], e] != e] }, qb != [[e], [], [qa | qb] | qa] }])
}
pub fn case_25(vars: &Vars) -> InferredGoal<DU, DE, Goal<DU, DE>> {
    let qa = vars.v[0].clone();
    let qb = vars.v[1].clone();
    let coll0: Vec<LT> = vec![lterm!([[], 1]), lterm!([])];
    proto_vulcan!([for e in &coll0 { conde { e == 3, true }, |z| { append(z, e, [1]), z != [qa, 1] } }])
}
pub fn case_26(vars: &Vars) -> InferredGoal<DU, DE, Goal<DU, DE>> {
    let qa = vars.v[0].clone();
    let qb = vars.v[1].clone();
    let coll0: LT = LT::from_vec(vec![lterm!([[], 2]), lterm!([]), lterm!([2])]);
    proto_vulcan!([|y| { qb == true }, for e in &coll0 { |t| { qa != [[[], 1, e], [true, _], qa] }, [3, [_, 'a'], [e, e]] == e }])
}
pub fn case_27(vars: &Vars) -> InferredGoal<DU, DE, Goal<DU, DE>> {
    let qa = vars.v[0].clone();
    let qb = vars.v[1].clone();
    let coll0: LT = LT::from_vec(vec![lterm!([1]), lterm!([2]), lterm!(1)]);
    proto_vulcan!([for e in &coll0 { conde { e == 3, true }, [1 | e] != qa, |tz| { [2, 2, 3] != [2, 2 | tz], tz == [3] } }])
}
pub fn case_28(vars: &Vars) -> InferredGoal<DU, DE, Goal<DU, DE>> {
    let qa = vars.v[0].clone();
    let qb = vars.v[1].clone();
    let coll0: LT = LT::from_vec(vec![lterm!([[], 1]), lterm!(1), lterm!(1)]);
    proto_vulcan!([for e in &coll0 { conde { [member(qa, [1]), P3(3, e, 3) == qb], [true == qb, qa != _] }, qa == e }])
}
pub fn case_29(vars: &Vars) -> InferredGoal<DU, DE, Goal<DU, DE>> {
    let qa = vars.v[0].clone();
    let qb = vars.v[1].clone();
    let coll0: Vec<LT> = vec![];
    proto_vulcan!([for e in &coll0 { [[qb] == [e, [qa, 'a', _]], qa != 2, qa == qb] }])
}
pub fn case_30(vars: &Vars) -> InferredGoal<DU, DE, Goal<DU, DE>> {
    let qa = vars.v[0].clone();
    let qb = vars.v[1].clone();
    let coll0: LT = LT::from_vec(vec![lterm!([1])]);
    proto_vulcan!([for e in &coll0 { conde { e == (1, []), [append(e, qa, [2]), false], [_ != qa, false] }, [true] }])
}
pub fn case_31(vars: &Vars) -> InferredGoal<DU, DE, Goal<DU, DE>> {
    let qa = vars.v[0].clone();
    let qb = vars.v[1].clone();
    let coll0: Vec<LT> = vec![lterm!(2), lterm!([])];
    proto_vulcan!([for e in &coll0 { [qa == ['a' | qa], ["bc"] == qb, "a" == qb] }])
}
pub fn case_32(vars: &Vars) -> InferredGoal<DU, DE, Goal<DU, DE>> {
    let qa = vars.v[0].clone();
    let qb = vars.v[1].clone();
    let coll0: Vec<LT> = vec![qb.clone(), qb.clone(), qb.clone(), lterm!([[], 1])];
    proto_vulcan!([for e in &coll0 { conde { e == 2, true }, qb == qb, conde { true, qb == [[], 1, 1] } }])
}
pub fn case_33(vars: &Vars) -> InferredGoal<DU, DE, Goal<DU, DE>> {
    let qa = vars.v[0].clone();
    let qb = vars.v[1].clone();
    let coll0: Vec<LT> = vec![lterm!([2]), lterm!([2]), lterm!(2), lterm!(2)];
    proto_vulcan!([for e in &coll0 { conde { e == 2, true }, false, [(qa, 3) != e, e == [qb, qa | [qa]]] }])
}
pub fn case_34(vars: &Vars) -> InferredGoal<DU, DE, Goal<DU, DE>> {
    let qa = vars.v[0].clone();
    let qb = vars.v[1].clone();
    let coll0: Vec<LT> = vec![lterm!(3), lterm!(3)];
    proto_vulcan!([|y| { append(qb, qb, [1]), true, y != [y, qa, 2] }, for e in &coll0 { conde { e == 2, true }, qa == (qa, 1), P3([_], 1, []) == qa }])
}
pub fn case_35(vars: &Vars) -> InferredGoal<DU, DE, Goal<DU, DE>> {
    let qa = vars.v[0].clone();
    let qb = vars.v[1].clone();
    let coll0: Vec<LT> = vec![];
    proto_vulcan!([qb == qb, for e in &coll0 { conde { e == 1, true }, e == (2, _), [P3(3, 2, [_]) == [[1, qb] | e], true] }])
}
pub fn case_36(vars: &Vars) -> InferredGoal<DU, DE, Goal<DU, DE>> {
    let qa = vars.v[0].clone();
    let qb = vars.v[1].clone();
    let coll0: Vec<LT> = vec![lterm!(3), lterm!(3)];
    proto_vulcan!([for e in &coll0 { conde { e == 1, true }, conde { [], [append(e, qa, [2, 2]), member(qa, [2, 3])] } }])
}
pub fn case_37(vars: &Vars) -> InferredGoal<DU, DE, Goal<DU, DE>> {
    let qa = vars.v[0].clone();
    let qb = vars.v[1].clone();
    let coll0: LT = LT::from_vec(vec![lterm!(2), lterm!([2]), lterm!(3)]);
    proto_vulcan!([P3(_, [], qb) == qb, for e in &coll0 { [e, [3, _, 3 | e], ['a', "bc", _ | e] | e] == (e, _), e != [[e, 2, []], qb, qa] }])
}
pub fn case_38(vars: &Vars) -> InferredGoal<DU, DE, Goal<DU, DE>> {
    let qa = vars.v[0].clone();
    let qb = vars.v[1].clone();
    let coll0: Vec<LT> = vec![];
    proto_vulcan!([for e in &coll0 { conde { e == 1, true }, qa == [[_, 3 | qa]] }])
}
pub fn case_39(vars: &Vars) -> InferredGoal<DU, DE, Goal<DU, DE>> {
    let qa = vars.v[0].clone();
    let qb = vars.v[1].clone();
    let coll0: LT = LT::from_vec(vec![lterm!([[], 1]), lterm!([]), lterm!([])]);
    proto_vulcan!([qa == [[qb, qa, qa] | qb], for e in &coll0 { conde { e == 1, true }, |t, z| { P3([], qa, 2) == [[_, qb], [2, qb]], [[], [2, [] | ["a", t]]] == z } }])
}
pub fn case_40(vars: &Vars) -> InferredGoal<DU, DE, Goal<DU, DE>> {
    let qa = vars.v[0].clone();
    let qb = vars.v[1].clone();
    let coll0: Vec<LT> = vec![lterm!([[], 1]), qb.clone(), qb.clone(), lterm!(2)];
    proto_vulcan!([for e in &coll0 { conde { e == 2, true }, (3, []) == e }])
}
pub fn case_41(vars: &Vars) -> InferredGoal<DU, DE, Goal<DU, DE>> {
    let qa = vars.v[0].clone();
    let qb = vars.v[1].clone();
    let coll0: LT = LT::from_vec(vec![lterm!([2]), lterm!([2]), lterm!([2])]);
    proto_vulcan!([[1, qb, qb | qb] != qb, for e in &coll0 { conde { e == 2, true }, true }])
}
pub fn case_42(vars: &Vars) -> InferredGoal<DU, DE, Goal<DU, DE>> {
    let qa = vars.v[0].clone();
    let qb = vars.v[1].clone();
    let coll0: Vec<LT> = vec![];
    proto_vulcan!([|t| { [[[], false, "bc"]] == _, qa == [qa, _], t == [2, 3] }, for e in &coll0 { conde { e == 1, true }, append(qa, qa, [2, 2]), conde { [], qa == [2, "bc" | e] } }])
}
pub fn case_43(vars: &Vars) -> InferredGoal<DU, DE, Goal<DU, DE>> {
    let qa = vars.v[0].clone();
    let qb = vars.v[1].clone();
    let coll0: LT = LT::from_vec(vec![lterm!(3), lterm!([]), lterm!([2])]);
    proto_vulcan!([[qb, _] == qb, for e in &coll0 { conde { e == 2, true }, |h| { h != [3, 2 | e], h == P3([], 2, [[]]), qb != [1, 'a'] }, [] == qa }])
}
pub fn case_44(vars: &Vars) -> InferredGoal<DU, DE, Goal<DU, DE>> {
    let qa = vars.v[0].clone();
    let qb = vars.v[1].clone();
    let coll0: LT = LT::from_vec(vec![lterm!(2), lterm!(2), lterm!([])]);
    proto_vulcan!([_ == qa, for e in &coll0 { conde { e == 2, true }, |tz| { [1, 2] != [1 | tz], tz == [2] }, P3(_, [], qb) != e }])
}
pub fn case_45(vars: &Vars) -> InferredGoal<DU, DE, Goal<DU, DE>> {
    let qa = vars.v[0].clone();
    let qb = vars.v[1].clone();
    let coll0: LT = LT::from_vec(vec![lterm!(3), lterm!(3), qb.clone()]);
    proto_vulcan!([for e in &coll0 { conde { e == 3, true }, conde { [[false, 3, e] == qa, e != qb] } }])
}
pub fn case_46(vars: &Vars) -> InferredGoal<DU, DE, Goal<DU, DE>> {
    let qa = vars.v[0].clone();
    let qb = vars.v[1].clone();
    let coll0: Vec<LT> = vec![];
    proto_vulcan!([for e in &coll0 { [], qa == [2] }])
}
pub fn case_47(vars: &Vars) -> InferredGoal<DU, DE, Goal<DU, DE>> {
    let qa = vars.v[0].clone();
    let qb = vars.v[1].clone();
    let coll0: LT = LT::from_vec(vec![lterm!([2])]);
    proto_vulcan!([qa == qb, for e in &coll0 { conde { e == 2, true }, qa == [2 | qa] }])
}
pub fn case_48(vars: &Vars) -> InferredGoal<DU, DE, Goal<DU, DE>> {
    let qa = vars.v[0].clone();
    let qb = vars.v[1].clone();
    let coll0: Vec<LT> = vec![lterm!([1]), lterm!([1]), qb.clone(), qb.clone()];
    proto_vulcan!([for e in &coll0 { conde { e == 1, true }, [[true, _, []], [2, _, _ | qb]] == [[qa, 1, []], [qa, 2 | e], [[], 3]] }])
}
pub fn case_49(vars: &Vars) -> InferredGoal<DU, DE, Goal<DU, DE>> {
    let qa = vars.v[0].clone();
    let qb = vars.v[1].clone();
    let coll0: LT = LT::from_vec(vec![lterm!([1]), lterm!([1]), lterm!(3)]);
    proto_vulcan!([qa != [qa], for e in &coll0 { conde { e == 2, true }, qb != 3, P3([_], _, 2) == [e, [_, 1], [3, [] | qa] | qa] }])
}
pub fn case_50(vars: &Vars) -> InferredGoal<DU, DE, Goal<DU, DE>> {
    let qa = vars.v[0].clone();
    let qb = vars.v[1].clone();
    let coll0: Vec<LT> = vec![lterm!([]), lterm!([1])];
    proto_vulcan!([(1, qb) != qa, for e in &coll0 { P3(e, 2, 3) == qa, [P3(qa, qa, 1) != qb, [[2, e, 3]] != qa] }])
}
pub fn case_51(vars: &Vars) -> InferredGoal<DU, DE, Goal<DU, DE>> {
    let qa = vars.v[0].clone();
    let qb = vars.v[1].clone();
    let coll0: LT = LT::from_vec(vec![lterm!(3)]);
    proto_vulcan!([qa != [qa, qb, qb], for e in &coll0 { conde { e == 1, true }, 1 == true, conde { true, [false != qb, (qb, [[], _]) == qb], [] } }])
}
pub fn case_52(vars: &Vars) -> InferredGoal<DU, DE, Goal<DU, DE>> {
    let qa = vars.v[0].clone();
    let qb = vars.v[1].clone();
    let coll0: Vec<LT> = vec![qa.clone(), qa.clone()];
    proto_vulcan!([for e in &coll0 { conde { e == 2, true }, [3] == qa, qb == [2, 1 | qb] }])
}
pub fn case_53(vars: &Vars) -> InferredGoal<DU, DE, Goal<DU, DE>> {
    let qa = vars.v[0].clone();
    let qb = vars.v[1].clone();
    let coll0: LT = LT::from_vec(vec![lterm!(2)]);
    proto_vulcan!([for e in &coll0 { qa == (qb, qa) }])
}
pub fn case_54(vars: &Vars) -> InferredGoal<DU, DE, Goal<DU, DE>> {
    let qa = vars.v[0].clone();
    let qb = vars.v[1].clone();
    let coll0: Vec<LT> = vec![lterm!([[], 2]), qb.clone()];
    proto_vulcan!([for e in &coll0 { conde { [e, [], 'b'] == e, [qb == [1, 'a'], append(qa, e, [3])] }, qb == ['b', 1 | e] }])
}
pub fn case_55(vars: &Vars) -> InferredGoal<DU, DE, Goal<DU, DE>> {
    let qa = vars.v[0].clone();
    let qb = vars.v[1].clone();
    let coll0: Vec<LT> = vec![];
    proto_vulcan!([for e in &coll0 { conde { e == 3, true }, conde { qb != qa, [true, qb != ["bc", 3, []]], [e] != e }, |tz| { tz == [1], [2, 2, 1] != [2, 2 | tz] } }])
}
pub fn case_56(vars: &Vars) -> InferredGoal<DU, DE, Goal<DU, DE>> {
    let qa = vars.v[0].clone();
    let qb = vars.v[1].clone();
    let coll0: Vec<LT> = vec![lterm!([]), lterm!([]), lterm!([2]), qa.clone()];
    proto_vulcan!([for e in &coll0 { conde { e == 3, true }, [2, qa, 2 | e] == (3, e) }])
}
pub fn case_57(vars: &Vars) -> InferredGoal<DU, DE, Goal<DU, DE>> {
    let qa = vars.v[0].clone();
    let qb = vars.v[1].clone();
    let coll0: LT = LT::from_vec(vec![qb.clone(), qb.clone(), lterm!(1)]);
    proto_vulcan!([for e in &coll0 { qb != [1, false, e] }])
}
pub fn case_58(vars: &Vars) -> InferredGoal<DU, DE, Goal<DU, DE>> {
    let qa = vars.v[0].clone();
    let qb = vars.v[1].clone();
    let coll0: Vec<LT> = vec![];
    proto_vulcan!([for e in &coll0 { e == e }])
}
pub fn case_59(vars: &Vars) -> InferredGoal<DU, DE, Goal<DU, DE>> {
    let qa = vars.v[0].clone();
    let qb = vars.v[1].clone();
    let coll0: LT = LT::from_vec(vec![lterm!([2]), lterm!([]), lterm!([])]);
    proto_vulcan!([|x, h| { false, [1, _, h | qb] == qb, [x, [false, h, qa]] == h }, for e in &coll0 { conde { e == 2, true }, conde { [|tz| { [3, 1 | tz] != [3, 1, 3, 3], tz == [3, 3] }, (1, qb) != [3, qb, "a"]], [qb] == qa, [e == e, 2 != qa] } }])
}
pub fn case_60(vars: &Vars) -> InferredGoal<DU, DE, Goal<DU, DE>> {
    let qa = vars.v[0].clone();
    let qb = vars.v[1].clone();
    let coll0: LT = LT::from_vec(vec![lterm!([2]), lterm!(2), lterm!(2)]);
    proto_vulcan!([for e in &coll0 { conde { e == 3, true }, qa == qa, |t, h| { t == _, [[], [2 | h], [2]] == qb } }])
}
pub fn case_61(vars: &Vars) -> InferredGoal<DU, DE, Goal<DU, DE>> {
    let qa = vars.v[0].clone();
    let qb = vars.v[1].clone();
    let coll0: LT = LT::from_vec(vec![lterm!([]), qb.clone(), lterm!([])]);
    proto_vulcan!([[[_, 1 | qb] != qa, append(qa, qb, [1]), true], for e in &coll0 { member(e, [1, 1, 2]) }])
}
pub fn case_62(vars: &Vars) -> InferredGoal<DU, DE, Goal<DU, DE>> {
    let qa = vars.v[0].clone();
    let qb = vars.v[1].clone();
    let coll0: LT = LT::from_vec(vec![lterm!([[], 1]), lterm!([[], 1]), lterm!([[], 2])]);
    proto_vulcan!([for e in &coll0 { conde { e == 3, true }, qb != 2 }])
}
pub fn case_63(vars: &Vars) -> InferredGoal<DU, DE, Goal<DU, DE>> {
    let qa = vars.v[0].clone();
    let qb = vars.v[1].clone();
    let coll0: LT = LT::from_vec(vec![lterm!(2)]);
    proto_vulcan!([for e in &coll0 { [3] == qa, |t| { qa == qb, [t | 2] == qb, P3([_], [2], [1]) == qa } }])
}
pub fn case_64(vars: &Vars) -> InferredGoal<DU, DE, Goal<DU, DE>> {
    let qa = vars.v[0].clone();
    let qb = vars.v[1].clone();
    let coll0: Vec<LT> = vec![lterm!([[], 1]), qb.clone()];
    proto_vulcan!([for e in &coll0 { e == [qb, qa, qb] }])
}
pub fn case_65(vars: &Vars) -> InferredGoal<DU, DE, Goal<DU, DE>> {
    let qa = vars.v[0].clone();
    let qb = vars.v[1].clone();
    let coll0: LT = LT::from_vec(vec![lterm!(3), lterm!(3), lterm!([[], 1])]);
    proto_vulcan!([qa == qa, for e in &coll0 { conde { e == 3, true }, |tz| { tz == [2, 2], [3 | tz] != [3, 2, 2] }, qa == e }])
}
pub fn case_66(vars: &Vars) -> InferredGoal<DU, DE, Goal<DU, DE>> {
    let qa = vars.v[0].clone();
    let qb = vars.v[1].clone();
    let coll0: Vec<LT> = vec![];
    proto_vulcan!([for e in &coll0 { conde { e == 3, true }, conde { (qa, [qa, _]) == [[e], [qa, _] | _], [qa == (_, qa), member(e, [])] }, conde { qa != [qa, qa], false } }])
}
pub fn case_67(vars: &Vars) -> InferredGoal<DU, DE, Goal<DU, DE>> {
    let qa = vars.v[0].clone();
    let qb = vars.v[1].clone();
    let coll0: Vec<LT> = vec![];
    proto_vulcan!([true, for e in &coll0 { conde { e == 3, true }, qb != [2 | qb], (1, 2) == qb }])
}
pub fn case_68(vars: &Vars) -> InferredGoal<DU, DE, Goal<DU, DE>> {
    let qa = vars.v[0].clone();
    let qb = vars.v[1].clone();
    let coll0: LT = LT::from_vec(vec![lterm!(3), lterm!([[], 1]), lterm!([])]);
    proto_vulcan!([for e in &coll0 { conde { e == 1, true }, [[1, e, qb]] == (3, 2) }])
}
pub fn case_69(vars: &Vars) -> InferredGoal<DU, DE, Goal<DU, DE>> {
    let qa = vars.v[0].clone();
    let qb = vars.v[1].clone();
    let coll0: Vec<LT> = vec![];
    proto_vulcan!([(1, qa) == qa, for e in &coll0 { |z, y| {  } }])
}
pub fn case_70(vars: &Vars) -> InferredGoal<DU, DE, Goal<DU, DE>> {
    let qa = vars.v[0].clone();
    let qb = vars.v[1].clone();
    let coll0: Vec<LT> = vec![];
    proto_vulcan!([qa == qb, for e in &coll0 { conde { e == 1, true }, conde { qb == ["bc" | ['b']], [] } }])
}
pub fn case_71(vars: &Vars) -> InferredGoal<DU, DE, Goal<DU, DE>> {
    let qa = vars.v[0].clone();
    let qb = vars.v[1].clone();
    let coll0: LT = LT::from_vec(vec![lterm!(1)]);
    proto_vulcan!([|t, y| { (t, 2) == qa, true, |tz| { tz == [3, 3], [3, 3, 3, 3] != [3, 3 | tz] } }, for e in &coll0 { member(qb, [3, 1]), 2 != true }])
}
pub fn case_72(vars: &Vars) -> InferredGoal<DU, DE, Goal<DU, DE>> {
    let qa = vars.v[0].clone();
    let qb = vars.v[1].clone();
    let coll0: Vec<LT> = vec![];
    proto_vulcan!([for e in &coll0 { conde { e == 1, true }, [], false }])
}
pub fn case_73(vars: &Vars) -> InferredGoal<DU, DE, Goal<DU, DE>> {
    let qa = vars.v[0].clone();
    let qb = vars.v[1].clone();
    let coll0: Vec<LT> = vec![lterm!([[], 1]), qa.clone(), lterm!(2), lterm!(2)];
    proto_vulcan!([qb == [2 | [false]], for e in &coll0 { conde { e == 3, true }, [3, e | 1] == e, |h| { [qb] == qb, h != [[qb, _, h | qb]] } }])
}
pub fn case_74(vars: &Vars) -> InferredGoal<DU, DE, Goal<DU, DE>> {
    let qa = vars.v[0].clone();
    let qb = vars.v[1].clone();
    let coll0: LT = LT::from_vec(vec![lterm!(1), lterm!(1), lterm!(1)]);
    proto_vulcan!([member(qa, [3]), for e in &coll0 { conde { e == 1, true }, |h| { true } }])
}
pub fn case_75(vars: &Vars) -> InferredGoal<DU, DE, Goal<DU, DE>> {
    let qa = vars.v[0].clone();
    let qb = vars.v[1].clone();
    let coll0: Vec<LT> = vec![];
    proto_vulcan!([|h, t| { [2, 2, true] == qa, true, qb == 1 }, for e in &coll0 { conde { e == 3, true }, P3([], qa, []) == [e, [1, 3, qa], [_, e, qa]] }])
}
pub fn case_76(vars: &Vars) -> InferredGoal<DU, DE, Goal<DU, DE>> {
    let qa = vars.v[0].clone();
    let qb = vars.v[1].clone();
    let coll0: Vec<LT> = vec![];
    proto_vulcan!([for e in &coll0 { conde { e == 1, true }, (_, 2) == qb }])
}
pub fn case_77(vars: &Vars) -> InferredGoal<DU, DE, Goal<DU, DE>> {
    let qa = vars.v[0].clone();
    let qb = vars.v[1].clone();
    let coll0: Vec<LT> = vec![];
    proto_vulcan!([qb == [2, 2], for e in &coll0 { conde { e == 2, true }, e == [[e, 3 | qa], false], |x| { 1 == e, false } }])
}
pub fn case_78(vars: &Vars) -> InferredGoal<DU, DE, Goal<DU, DE>> {
    let qa = vars.v[0].clone();
    let qb = vars.v[1].clone();
    let coll0: Vec<LT> = vec![lterm!([1]), lterm!([1])];
    proto_vulcan!([for e in &coll0 { conde { e == 1, true }, [[], _, e] != qb, member(qa, [3, 3]) }])
}
pub fn case_79(vars: &Vars) -> InferredGoal<DU, DE, Goal<DU, DE>> {
    let qa = vars.v[0].clone();
    let qb = vars.v[1].clone();
    let coll0: Vec<LT> = vec![];
    proto_vulcan!([|t, z| { z == "bc", t == [z, qb, 1] }, for e in &coll0 { conde { e == 2, true }, |y| { append(qb, y, [3, 2]), e == [1] } }])
}
pub fn case_80(vars: &Vars) -> InferredGoal<DU, DE, Goal<DU, DE>> {
    let qa = vars.v[0].clone();
    let qb = vars.v[1].clone();
    let coll0: Vec<LT> = vec![];
    proto_vulcan!([[false], for e in &coll0 { P3([qb], 2, 1) != e }])
}
pub fn case_81(vars: &Vars) -> InferredGoal<DU, DE, Goal<DU, DE>> {
    let qa = vars.v[0].clone();
    let qb = vars.v[1].clone();
    let coll0: LT = LT::from_vec(vec![lterm!([[], 1]), lterm!(1), lterm!(1)]);
    proto_vulcan!([for e in &coll0 { conde { e == 2, true }, 1 != qb }])
}
pub fn case_82(vars: &Vars) -> InferredGoal<DU, DE, Goal<DU, DE>> {
    let qa = vars.v[0].clone();
    let qb = vars.v[1].clone();
    let coll0: LT = LT::from_vec(vec![lterm!([]), lterm!([]), lterm!(2)]);
    proto_vulcan!([qb != 1, for e in &coll0 { qa == [[2], 3], [P3(3, 2, []) == e, qb == [qa, [qa, qb], [3, qa, qb | qb] | 3], qb == "bc"] }])
}
pub fn case_83(vars: &Vars) -> InferredGoal<DU, DE, Goal<DU, DE>> {
    let qa = vars.v[0].clone();
    let qb = vars.v[1].clone();
    let coll0: LT = LT::from_vec(vec![qb.clone(), qa.clone(), lterm!(2)]);
    proto_vulcan!([for e in &coll0 { e == qb }])
}
pub fn case_84(vars: &Vars) -> InferredGoal<DU, DE, Goal<DU, DE>> {
    let qa = vars.v[0].clone();
    let qb = vars.v[1].clone();
    let coll0: Vec<LT> = vec![];
    proto_vulcan!([[2, qb, 2] != qa, for e in &coll0 { [qa, 2] == qa }])
}
pub fn case_85(vars: &Vars) -> InferredGoal<DU, DE, Goal<DU, DE>> {
    let qa = vars.v[0].clone();
    let qb = vars.v[1].clone();
    let coll0: Vec<LT> = vec![lterm!([[], 2]), lterm!(1)];
    proto_vulcan!([conde { [], true, [([], _) == qb, append(qa, qb, [2, 1])] }, for e in &coll0 { conde { e == 1, true }, [2, [true], [qb, 2 | qa]] == e, e == e }])
}
pub fn case_86(vars: &Vars) -> InferredGoal<DU, DE, Goal<DU, DE>> {
    let qa = vars.v[0].clone();
    let qb = vars.v[1].clone();
    let coll0: LT = LT::from_vec(vec![qa.clone(), lterm!(1), lterm!(1)]);
    proto_vulcan!([for e in &coll0 { conde { e == 1, true }, [1, qb, _] == qb }])
}
pub fn case_87(vars: &Vars) -> InferredGoal<DU, DE, Goal<DU, DE>> {
    let qa = vars.v[0].clone();
    let qb = vars.v[1].clone();
    let coll0: Vec<LT> = vec![qb.clone(), qb.clone()];
    proto_vulcan!([for e in &coll0 { conde { e == 1, true }, e == [[], 3] }])
}
pub fn case_88(vars: &Vars) -> InferredGoal<DU, DE, Goal<DU, DE>> {
    let qa = vars.v[0].clone();
    let qb = vars.v[1].clone();
    let coll0: Vec<LT> = vec![qa.clone(), qa.clone()];
    proto_vulcan!([for e in &coll0 { member(qa, [3]), [3, 1] == e }])
}
pub fn case_89(vars: &Vars) -> InferredGoal<DU, DE, Goal<DU, DE>> {
    let qa = vars.v[0].clone();
    let qb = vars.v[1].clone();
    let coll0: LT = LT::from_vec(vec![lterm!(1), lterm!(1), lterm!(1)]);
    proto_vulcan!([for e in &coll0 { conde { e == 1, true }, conde { [], [[["a"], 2, [e]] == qb, qa == [[]]] }, [[2]] == P3([e, []], [], 2) }])
}
pub fn case_90(vars: &Vars) -> InferredGoal<DU, DE, Goal<DU, DE>> {
    let qa = vars.v[0].clone();
    let qb = vars.v[1].clone();
    let coll0: LT = LT::from_vec(vec![lterm!([[], 1]), lterm!(2), lterm!(1)]);
    proto_vulcan!([for e in &coll0 { |t| { e != t, append(e, qb, [2, 3]) } }])
}
pub fn case_91(vars: &Vars) -> InferredGoal<DU, DE, Goal<DU, DE>> {
    let qa = vars.v[0].clone();
    let qb = vars.v[1].clone();
    let coll0: Vec<LT> = vec![lterm!([1]), qb.clone()];
    proto_vulcan!([for e in &coll0 { qa != qa, qb == P3(2, [3], qb) }])
}
pub fn case_92(vars: &Vars) -> InferredGoal<DU, DE, Goal<DU, DE>> {
    let qa = vars.v[0].clone();
    let qb = vars.v[1].clone();
    let coll0: Vec<LT> = vec![lterm!([2]), lterm!([2])];
    proto_vulcan!([|tz| { tz == [1, 1], [1, 1 | tz] != [1, 1, 1, 1] }, for e in &coll0 { conde { e == 3, true }, [[]] != qa }])
}
pub fn case_93(vars: &Vars) -> InferredGoal<DU, DE, Goal<DU, DE>> {
    let qa = vars.v[0].clone();
    let qb = vars.v[1].clone();
    let coll0: Vec<LT> = vec![lterm!([[], 1]), lterm!([[], 1])];
    proto_vulcan!([false, for e in &coll0 { conde { e == 3, true }, qa == [2, 1], |tz| { [2, 3, 1] != [2, 3 | tz], tz == [1] } }])
}
pub fn case_94(vars: &Vars) -> InferredGoal<DU, DE, Goal<DU, DE>> {
    let qa = vars.v[0].clone();
    let qb = vars.v[1].clone();
    let coll0: LT = LT::from_vec(vec![lterm!([]), lterm!(3), lterm!([1])]);
    proto_vulcan!([for e in &coll0 { conde { e == 2, true }, qa != e }])
}
pub fn case_95(vars: &Vars) -> InferredGoal<DU, DE, Goal<DU, DE>> {
    let qa = vars.v[0].clone();
    let qb = vars.v[1].clone();
    let coll0: LT = LT::from_vec(vec![lterm!([]), lterm!([[], 2]), lterm!([[], 2])]);
    proto_vulcan!([for e in &coll0 { conde { e == 1, true }, 2 == e, _ != [qa, []] }])
}
pub fn case_96(vars: &Vars) -> InferredGoal<DU, DE, Goal<DU, DE>> {
    let qa = vars.v[0].clone();
    let qb = vars.v[1].clone();
    let coll0: Vec<LT> = vec![];
    proto_vulcan!([for e in &coll0 { [qb] == qb }])
}
pub fn case_97(vars: &Vars) -> InferredGoal<DU, DE, Goal<DU, DE>> {
    let qa = vars.v[0].clone();
    let qb = vars.v[1].clone();
    let coll0: Vec<LT> = vec![lterm!(2), lterm!(2), lterm!(2), lterm!([2])];
    proto_vulcan!([[qb == [[], 'a']], for e in &coll0 { conde { e == 1, true }, conde { [[_] == [[e, 3, e], [2] | e], [] != qb], [[_, qb] == qb, e == 2] } }])
}
pub fn case_98(vars: &Vars) -> InferredGoal<DU, DE, Goal<DU, DE>> {
    let qa = vars.v[0].clone();
    let qb = vars.v[1].clone();
    let coll0: LT = LT::from_vec(vec![lterm!(1), lterm!(2), lterm!([[], 2])]);
    proto_vulcan!([false, for e in &coll0 { [1, "bc"] == qa, qb == qa }])
}
pub fn case_99(vars: &Vars) -> InferredGoal<DU, DE, Goal<DU, DE>> {
    let qa = vars.v[0].clone();
    let qb = vars.v[1].clone();
    let coll0: Vec<LT> = vec![];
    proto_vulcan!([for e in &coll0 { conde { e == 1, true }, [[3, e]] != qb, qb != [1, 3] }])
}
pub fn case_100(vars: &Vars) -> InferredGoal<DU, DE, Goal<DU, DE>> {
    let qa = vars.v[0].clone();
    let qb = vars.v[1].clone();
    let coll0: LT = LT::from_vec(vec![lterm!(1), lterm!([[], 2]), lterm!([])]);
    proto_vulcan!([for e in &coll0 { conde { [[2, [], qa], qa] != _, [qb == P3([1, 1], 1, 1), e == 2], [e == [[3]], member(e, [])] }, e == [2] }])
}
pub fn case_101(vars: &Vars) -> InferredGoal<DU, DE, Goal<DU, DE>> {
    let qa = vars.v[0].clone();
    let qb = vars.v[1].clone();
    let coll0: LT = LT::from_vec(vec![lterm!([[], 2])]);
    proto_vulcan!([qa == qa, for e in &coll0 { qb != (e, [2, 3]) }])
}
pub fn case_102(vars: &Vars) -> InferredGoal<DU, DE, Goal<DU, DE>> {
    let qa = vars.v[0].clone();
    let qb = vars.v[1].clone();
    let coll0: Vec<LT> = vec![lterm!([1]), lterm!([])];
    proto_vulcan!([for e in &coll0 { [member(qa, []), [[false, qb, 1]] == [[_, 2 | qa], [_ | e], [2, "a", [] | qb] | qa]], [qa, 2] == qa }])
}
pub fn case_103(vars: &Vars) -> InferredGoal<DU, DE, Goal<DU, DE>> {
    let qa = vars.v[0].clone();
    let qb = vars.v[1].clone();
    let coll0: Vec<LT> = vec![];
    proto_vulcan!([[qb == [qb, qb], [qb, 3] != [2, [[]], ['b', qb]], [qb, qa] == 1], for e in &coll0 { [] == qa, [qa, 1, 1] != e }])
}
pub fn case_104(vars: &Vars) -> InferredGoal<DU, DE, Goal<DU, DE>> {
    let qa = vars.v[0].clone();
    let qb = vars.v[1].clone();
    let coll0: Vec<LT> = vec![];
    proto_vulcan!([for e in &coll0 { |t, y| { [_, 2] == y, |tz| { [3, 2 | tz] != [3, 2, 1], tz == [1] } }, |x| { |tz| { [3 | tz] != [3, 3], tz == [3] }, append(e, e, []) } }])
}
pub fn case_105(vars: &Vars) -> InferredGoal<DU, DE, Goal<DU, DE>> {
    let qa = vars.v[0].clone();
    let qb = vars.v[1].clone();
    let coll0: Vec<LT> = vec![qb.clone(), qb.clone()];
    proto_vulcan!([|tz| { tz == [2, 1], [3, 3 | tz] != [3, 3, 2, 1] }, for e in &coll0 { conde { e == 1, true }, conde { false, false, [1 == qb, qa == P3(3, qb, [3])] }, append(e, e, []) }])
}
pub fn case_106(vars: &Vars) -> InferredGoal<DU, DE, Goal<DU, DE>> {
    let qa = vars.v[0].clone();
    let qb = vars.v[1].clone();
    let coll0: Vec<LT> = vec![lterm!([[], 2]), lterm!([])];
    proto_vulcan!([conde { [member(qb, [2]), qa == [qb | 1]], [qa, qa, _] == qa }, for e in &coll0 { conde { e == 1, true }, |tz| { tz == [2], [1, 2] != [1 | tz] } }])
}
pub fn case_107(vars: &Vars) -> InferredGoal<DU, DE, Goal<DU, DE>> {
    let qa = vars.v[0].clone();
    let qb = vars.v[1].clone();
    let coll0: LT = LT::from_vec(vec![lterm!([1])]);
    proto_vulcan!([|t, z| { false, false, t == qa }, for e in &coll0 { qa == (e, qb) }])
}
pub fn case_108(vars: &Vars) -> InferredGoal<DU, DE, Goal<DU, DE>> {
    let qa = vars.v[0].clone();
    let qb = vars.v[1].clone();
    let coll0: Vec<LT> = vec![];
    proto_vulcan!([for e in &coll0 { true, |t| {  } }])
}
pub fn case_109(vars: &Vars) -> InferredGoal<DU, DE, Goal<DU, DE>> {
    let qa = vars.v[0].clone();
    let qb = vars.v[1].clone();
    let coll0: Vec<LT> = vec![];
    proto_vulcan!([qb == [qa], for e in &coll0 { [] }])
}
pub fn case_110(vars: &Vars) -> InferredGoal<DU, DE, Goal<DU, DE>> {
    let qa = vars.v[0].clone();
    let qb = vars.v[1].clone();
    let coll0: Vec<LT> = vec![];
    proto_vulcan!([qa == (2, 1), for e in &coll0 { conde { e == 1, true }, e == qb, append(e, qb, []) }])
}
pub fn case_111(vars: &Vars) -> InferredGoal<DU, DE, Goal<DU, DE>> {
    let qa = vars.v[0].clone();
    let qb = vars.v[1].clone();
    let coll0: Vec<LT> = vec![lterm!(1), lterm!(1)];
    proto_vulcan!([for e in &coll0 { conde { e == 3, true }, [], 3 == ['a'] }])
}
pub fn case_112(vars: &Vars) -> InferredGoal<DU, DE, Goal<DU, DE>> {
    let qa = vars.v[0].clone();
    let qb = vars.v[1].clone();
    let coll0: Vec<LT> = vec![];
    proto_vulcan!([for e in &coll0 { conde { e == 2, true }, |tz| { [1, 2, 2] != [1 | tz], tz == [2, 2] }, qb != [] }])
}
pub fn case_113(vars: &Vars) -> InferredGoal<DU, DE, Goal<DU, DE>> {
    let qa = vars.v[0].clone();
    let qb = vars.v[1].clone();
    let coll0: Vec<LT> = vec![lterm!(2), lterm!(2)];
    proto_vulcan!([for e in &coll0 { conde { e == 1, true }, conde { false, [qb == e, true] } }])
}
pub fn case_114(vars: &Vars) -> InferredGoal<DU, DE, Goal<DU, DE>> {
    let qa = vars.v[0].clone();
    let qb = vars.v[1].clone();
    let coll0: LT = LT::from_vec(vec![qa.clone(), lterm!([]), qb.clone()]);
    proto_vulcan!([conde { 2 == qb, [_, [3], [qa]] == [3 | qa] }, for e in &coll0 { [e, _] == qb, [e] == e }])
}
pub fn case_115(vars: &Vars) -> InferredGoal<DU, DE, Goal<DU, DE>> {
    let qa = vars.v[0].clone();
    let qb = vars.v[1].clone();
    let coll0: LT = LT::from_vec(vec![lterm!(3), lterm!(2), lterm!(2)]);
    proto_vulcan!([for e in &coll0 { conde { e == 3, true }, qb == qa, conde { [member(e, [1]), e == P3(2, qa, [qb])], [e == [_, 2], true], e == [1, 3, 3] } }])
}
pub fn case_116(vars: &Vars) -> InferredGoal<DU, DE, Goal<DU, DE>> {
    let qa = vars.v[0].clone();
    let qb = vars.v[1].clone();
    let coll0: Vec<LT> = vec![lterm!([]), lterm!(1)];
    proto_vulcan!([for e in &coll0 { |z, h| { (_, 3) == ([3], [e]), [[], 1] == qa, [2, [], 'b'] == z } }])
}
pub fn case_117(vars: &Vars) -> InferredGoal<DU, DE, Goal<DU, DE>> {
    let qa = vars.v[0].clone();
    let qb = vars.v[1].clone();
    let coll0: Vec<LT> = vec![lterm!(2), lterm!(2)];
    proto_vulcan!([conde { false, [append(qb, qa, []), |tz| { [2, 1, 1] != [2, 1 | tz], tz == [1] }] }, for e in &coll0 { conde { e == 1, true }, member(e, [1, 3, 3]), |h| { qb == h } }])
}
pub fn case_118(vars: &Vars) -> InferredGoal<DU, DE, Goal<DU, DE>> {
    let qa = vars.v[0].clone();
    let qb = vars.v[1].clone();
    let coll0: Vec<LT> = vec![lterm!(1), lterm!(1)];
    proto_vulcan!([[qb] == qb, for e in &coll0 { conde { e == 2, true }, append(e, e, [2, 3]) }])
}
pub fn case_119(vars: &Vars) -> InferredGoal<DU, DE, Goal<DU, DE>> {
    let qa = vars.v[0].clone();
    let qb = vars.v[1].clone();
    let coll0: LT = LT::from_vec(vec![qa.clone(), lterm!([]), lterm!(2)]);
    proto_vulcan!([for e in &coll0 { |y| { [2] == qb, [qb] == qb }, [2, 1 | qa] == qb }])
}
pub fn case_120(vars: &Vars) -> InferredGoal<DU, DE, Goal<DU, DE>> {
    let qa = vars.v[0].clone();
    let qb = vars.v[1].clone();
    let coll0: Vec<LT> = vec![];
    proto_vulcan!([for e in &coll0 { |z, h| { true }, (2, []) != e }])
}
pub fn case_121(vars: &Vars) -> InferredGoal<DU, DE, Goal<DU, DE>> {
    let qa = vars.v[0].clone();
    let qb = vars.v[1].clone();
    let coll0: Vec<LT> = vec![lterm!([1]), lterm!([1]), lterm!([2]), qb.clone()];
    proto_vulcan!([conde { [[[]] == qb, 2 == qb], qa == qb }, for e in &coll0 { conde { e == 3, true }, |x| { x == [1, 3, [qb, 2, x]], append(e, x, [2]), ([qb, 2], _) == qa }, |tz| { tz == [2], [1 | tz] != [1, 2] } }])
}
pub fn case_122(vars: &Vars) -> InferredGoal<DU, DE, Goal<DU, DE>> {
    let qa = vars.v[0].clone();
    let qb = vars.v[1].clone();
    let coll0: Vec<LT> = vec![lterm!([[], 2]), qb.clone()];
    proto_vulcan!([for e in &coll0 { qb == [[], 1] }])
}
pub fn case_123(vars: &Vars) -> InferredGoal<DU, DE, Goal<DU, DE>> {
    let qa = vars.v[0].clone();
    let qb = vars.v[1].clone();
    let coll0: Vec<LT> = vec![lterm!(3), lterm!(3)];
    proto_vulcan!([for e in &coll0 { conde { e == 2, true }, conde { true, [true, qa == qa] } }])
}
pub fn case_124(vars: &Vars) -> InferredGoal<DU, DE, Goal<DU, DE>> {
    let qa = vars.v[0].clone();
    let qb = vars.v[1].clone();
    let coll0: LT = LT::from_vec(vec![qb.clone(), lterm!([]), lterm!([[], 1])]);
    proto_vulcan!([for e in &coll0 { conde { e == 2, true }, |x| { member(x, []), x == [["a", e, qb], _, [e]], true }, |tz| { tz == [1, 2], [2 | tz] != [2, 1, 2] } }])
}
pub fn case_125(vars: &Vars) -> InferredGoal<DU, DE, Goal<DU, DE>> {
    let qa = vars.v[0].clone();
    let qb = vars.v[1].clone();
    let coll0: LT = LT::from_vec(vec![qa.clone(), qa.clone(), lterm!(2)]);
    proto_vulcan!([([qb, _], [[]]) == qb, for e in &coll0 { conde { e == 3, true }, |tz| { tz == [1], [1, 2 | tz] != [1, 2, 1] }, |z| { qb == P3([_, []], 2, [qb, []]) } }])
}
pub fn case_126(vars: &Vars) -> InferredGoal<DU, DE, Goal<DU, DE>> {
    let qa = vars.v[0].clone();
    let qb = vars.v[1].clone();
    let coll0: Vec<LT> = vec![lterm!(3), lterm!(3)];
    proto_vulcan!([for e in &coll0 { conde { e == 1, true }, |z, h| { true } }])
}
pub fn case_127(vars: &Vars) -> InferredGoal<DU, DE, Goal<DU, DE>> {
    let qa = vars.v[0].clone();
    let qb = vars.v[1].clone();
    let coll0: Vec<LT> = vec![];
    proto_vulcan!([[qb, 1, qa | 3] == qa, for e in &coll0 { true, qb == qb }])
}
pub fn case_128(vars: &Vars) -> InferredGoal<DU, DE, Goal<DU, DE>> {
    let qa = vars.v[0].clone();
    let qb = vars.v[1].clone();
    let coll0: LT = LT::from_vec(vec![lterm!([]), lterm!([]), lterm!(3)]);
    proto_vulcan!([for e in &coll0 { conde { e == 3, true }, |tz| { [2, 3, 2, 2] != [2, 3 | tz], tz == [2, 2] } }])
}
pub fn case_129(vars: &Vars) -> InferredGoal<DU, DE, Goal<DU, DE>> {
    let qa = vars.v[0].clone();
    let qb = vars.v[1].clone();
    let coll0: Vec<LT> = vec![];
    proto_vulcan!([for e in &coll0 { conde { e == 3, true }, 'a' == 1 }])
}
pub fn case_130(vars: &Vars) -> InferredGoal<DU, DE, Goal<DU, DE>> {
    let qa = vars.v[0].clone();
    let qb = vars.v[1].clone();
    let coll0: LT = LT::from_vec(vec![lterm!(2), lterm!(2), lterm!(2)]);
    proto_vulcan!([for e in &coll0 { conde { e == 3, true }, [1] != qb }])
}
pub fn case_131(vars: &Vars) -> InferredGoal<DU, DE, Goal<DU, DE>> {
    let qa = vars.v[0].clone();
    let qb = vars.v[1].clone();
    let coll0: Vec<LT> = vec![];
    proto_vulcan!([for e in &coll0 { P3(e, 1, qa) != qa, qb == [3, "bc"] }])
}
pub fn case_132(vars: &Vars) -> InferredGoal<DU, DE, Goal<DU, DE>> {
    let qa = vars.v[0].clone();
    let qb = vars.v[1].clone();
    let coll0: Vec<LT> = vec![lterm!([[], 2]), lterm!([[], 2])];
    proto_vulcan!([for e in &coll0 { conde { e == 2, true }, conde { [true, true == qa] } }])
}
pub fn case_133(vars: &Vars) -> InferredGoal<DU, DE, Goal<DU, DE>> {
    let qa = vars.v[0].clone();
    let qb = vars.v[1].clone();
    let coll0: Vec<LT> = vec![];
    proto_vulcan!([qa == qa, for e in &coll0 { conde { e == 3, true }, e == qa, |y, h| {  } }])
}
pub fn case_134(vars: &Vars) -> InferredGoal<DU, DE, Goal<DU, DE>> {
    let qa = vars.v[0].clone();
    let qb = vars.v[1].clone();
    let coll0: LT = LT::from_vec(vec![lterm!(1), lterm!(1), lterm!([])]);
    proto_vulcan!([conde { [] }, for e in &coll0 { conde { e == 2, true }, conde { [], member(qb, [3]) } }])
}
pub fn case_135(vars: &Vars) -> InferredGoal<DU, DE, Goal<DU, DE>> {
    let qa = vars.v[0].clone();
    let qb = vars.v[1].clone();
    let coll0: Vec<LT> = vec![];
    proto_vulcan!([1 == qa, for e in &coll0 { qa == (_, []), e == (e, [e]) }])
}
pub fn case_136(vars: &Vars) -> InferredGoal<DU, DE, Goal<DU, DE>> {
    let qa = vars.v[0].clone();
    let qb = vars.v[1].clone();
    let coll0: Vec<LT> = vec![lterm!(2), lterm!([])];
    proto_vulcan!([for e in &coll0 { e != 3, [qa, qa] == (qb, _) }])
}
pub fn case_137(vars: &Vars) -> InferredGoal<DU, DE, Goal<DU, DE>> {
    let qa = vars.v[0].clone();
    let qb = vars.v[1].clone();
    let coll0: Vec<LT> = vec![];
    proto_vulcan!([|z| { [] != [3], qa == [], 3 == z }, for e in &coll0 { [] == [qa, [1, e, 1], 2 | e], |z| { P3(1, _, _) == qa } }])
}
pub fn case_138(vars: &Vars) -> InferredGoal<DU, DE, Goal<DU, DE>> {
    let qa = vars.v[0].clone();
    let qb = vars.v[1].clone();
    let coll0: Vec<LT> = vec![];
    proto_vulcan!([for e in &coll0 { conde { e == 2, true }, conde { false, [_, e] == e, e != 1 } }])
}
pub fn case_139(vars: &Vars) -> InferredGoal<DU, DE, Goal<DU, DE>> {
    let qa = vars.v[0].clone();
    let qb = vars.v[1].clone();
    let coll0: LT = LT::from_vec(vec![lterm!(3), lterm!([[], 1]), qa.clone()]);
    proto_vulcan!([[], for e in &coll0 { qb == [[] | e], qa != [e] }])
}
pub fn case_140(vars: &Vars) -> InferredGoal<DU, DE, Goal<DU, DE>> {
    let qa = vars.v[0].clone();
    let qb = vars.v[1].clone();
    let coll0: LT = LT::from_vec(vec![lterm!([[], 1]), lterm!(3), lterm!([])]);
    proto_vulcan!([qa == [[], 1 | qa], for e in &coll0 { [e == qa], conde { false, [qb == qa, qb != [1]], [[qb, qa | qb] == qa, false] } }])
}
pub fn case_141(vars: &Vars) -> InferredGoal<DU, DE, Goal<DU, DE>> {
    let qa = vars.v[0].clone();
    let qb = vars.v[1].clone();
    let coll0: Vec<LT> = vec![lterm!(3), lterm!([1]), lterm!([1]), qb.clone()];
    proto_vulcan!([for e in &coll0 { conde { e == 2, true }, qb == e }])
}
pub fn case_142(vars: &Vars) -> InferredGoal<DU, DE, Goal<DU, DE>> {
    let qa = vars.v[0].clone();
    let qb = vars.v[1].clone();
    let coll0: Vec<LT> = vec![lterm!([1]), lterm!([1])];
    proto_vulcan!([for e in &coll0 { conde { e == 3, true }, ([_], _) == qb }])
}
pub fn case_143(vars: &Vars) -> InferredGoal<DU, DE, Goal<DU, DE>> {
    let qa = vars.v[0].clone();
    let qb = vars.v[1].clone();
    let coll0: LT = LT::from_vec(vec![lterm!([1]), lterm!([1]), lterm!([1])]);
    proto_vulcan!([for e in &coll0 { conde { e == 1, true }, [3, e, []] != qa }])
}
pub fn case_144(vars: &Vars) -> InferredGoal<DU, DE, Goal<DU, DE>> {
    let qa = vars.v[0].clone();
    let qb = vars.v[1].clone();
    let coll0: LT = LT::from_vec(vec![qa.clone()]);
    proto_vulcan!([for e in &coll0 { conde { e == 3, true }, [[3 | qb], [3] | e] == P3([3], [qb], e) }])
}
pub fn case_145(vars: &Vars) -> InferredGoal<DU, DE, Goal<DU, DE>> {
    let qa = vars.v[0].clone();
    let qb = vars.v[1].clone();
    let coll0: Vec<LT> = vec![lterm!([]), lterm!([])];
    proto_vulcan!([for e in &coll0 { conde { e == 3, true }, [], member(e, [2]) }])
}
pub fn case_146(vars: &Vars) -> InferredGoal<DU, DE, Goal<DU, DE>> {
    let qa = vars.v[0].clone();
    let qb = vars.v[1].clone();
    let coll0: Vec<LT> = vec![lterm!([1]), lterm!([1])];
    proto_vulcan!([[[1], 1, [2 | [[]]] | [qb]] != qa, for e in &coll0 { conde { e == 1, true }, [[[], e, 1] != e, qa == qb, false == e] }])
}
pub fn case_147(vars: &Vars) -> InferredGoal<DU, DE, Goal<DU, DE>> {
    let x = vars.v[0].clone();
    proto_vulcan!([match x { [x | _] => x == 1, }])
}
pub fn case_148(vars: &Vars) -> InferredGoal<DU, DE, Goal<DU, DE>> {
    let x = vars.v[0].clone();
    let y = vars.v[1].clone();
    proto_vulcan!([match x { [h, h] => h == y, }])
}
pub fn case_149(vars: &Vars) -> InferredGoal<DU, DE, Goal<DU, DE>> {
    let x = vars.v[0].clone();
    proto_vulcan!([match x { [] | [_] => , [_, _ | t] => t == [], }])
}
pub fn case_150(vars: &Vars) -> InferredGoal<DU, DE, Goal<DU, DE>> {
    let x = vars.v[0].clone();
    let y = vars.v[1].clone();
    proto_vulcan!([member(x, [1, 2]), matcha x { 1 => y == 10, _ => y == 20, }])
}
pub fn case_151(vars: &Vars) -> InferredGoal<DU, DE, Goal<DU, DE>> {
    let x = vars.v[0].clone();
    let y = vars.v[1].clone();
    proto_vulcan!([matchu [x, y] { [h, _] => member(h, [1, 2]), _ => , }])
}
pub fn case_152(vars: &Vars) -> InferredGoal<DU, DE, Goal<DU, DE>> {
    let q = vars.v[0].clone();
    let b = vars.v[1].clone();
    proto_vulcan!([b == 5, match q { [a | [b]] => [a == 1, b == 7], }])
}
pub fn case_153(vars: &Vars) -> InferredGoal<DU, DE, Goal<DU, DE>> {
    let q = vars.v[0].clone();
    let x = vars.v[1].clone();
    proto_vulcan!([x == 9, matche q { [y | [x | _]] => [y == x, x == 2], }])
}
pub fn case_154(vars: &Vars) -> InferredGoal<DU, DE, Goal<DU, DE>> {
    let x = vars.v[0].clone();
    let y = vars.v[1].clone();
    proto_vulcan!([x == P3(1, 2, 3), match x { P3(_, b, _) => y == [2, b], P3(a, _, _) => y == [1, a], }])
}
pub fn case_155(vars: &Vars) -> InferredGoal<DU, DE, Goal<DU, DE>> {
    let x = vars.v[0].clone();
    let y = vars.v[1].clone();
    proto_vulcan!([x == P3(1, [2], 3), matche x { P3(_, _, c) => y == c, P3(a, _, _) => y == a, }])
}
pub fn case_156(vars: &Vars) -> InferredGoal<DU, DE, Goal<DU, DE>> {
    let x = vars.v[0].clone();
    let y = vars.v[1].clone();
    proto_vulcan!([match x { P3(_, b, _) => [b == 5, y == x], }])
}
pub fn case_157(vars: &Vars) -> InferredGoal<DU, DE, Goal<DU, DE>> {
    let x = vars.v[0].clone();
    proto_vulcan!([matcha x { _ => { member(x, [1, 2, 3]) }, x | [] => , [[3, t, h | _], _] => { conde { [x == x, t == t], [x == 1, |tz| { [2, 2 | tz] != [2, 2, 2], tz == [2] }] }, conde { false, [[], x, t] != t } }, }])
}
pub fn case_158(vars: &Vars) -> InferredGoal<DU, DE, Goal<DU, DE>> {
    let q = vars.v[0].clone();
    let x = vars.v[1].clone();
    proto_vulcan!([match [1] { _ | P3([], [1, 1], 2) => [x != P3(1, 2, q), conde { x != x, [] }], [[t, h]] | [_, [[], h]] => { matchu h { Named { a: z, b: _ } => , _ | _ => , }, (3, [_]) == _ }, ["a"] | [x, [1, 3, y], 1 | h] => { matcha q { [[3], [[], 1, 2] | []] => { member(q, [3]), member(q, [1]) }, } }, }])
}
pub fn case_159(vars: &Vars) -> InferredGoal<DU, DE, Goal<DU, DE>> {
    let q = vars.v[0].clone();
    let x = vars.v[1].clone();
    proto_vulcan!([[[3 | x], [_, 1]] == x, matchu x { _ => member(x, [1, 2, 3]), _ => { q == 7, q == 8 }, [x] => [conda { 1 != [2], [x == x, x == (x, 1)] }, q == 1], }])
}
pub fn case_160(vars: &Vars) -> InferredGoal<DU, DE, Goal<DU, DE>> {
    let q = vars.v[0].clone();
    let x = vars.v[1].clone();
    proto_vulcan!([|t| {  }, matcha q { x => , [[1, x, []], [[], "bc", []], [y]] | _ => , _ => , }])
}
pub fn case_161(vars: &Vars) -> InferredGoal<DU, DE, Goal<DU, DE>> {
    let q = vars.v[0].clone();
    let x = vars.v[1].clone();
    proto_vulcan!([matcha q { _ => { [(_, x) == q, x == [[], _, q]], [1 | x] == x }, _ => [x == 7, x == 8], [[3, h | h], 2, [x, z, y | x]] => , }])
}
pub fn case_162(vars: &Vars) -> InferredGoal<DU, DE, Goal<DU, DE>> {
    let x = vars.v[0].clone();
    let y = vars.v[1].clone();
    proto_vulcan!([matchu y { 1 => [|tz| { [3, 1 | tz] != [3, 1, 2, 2], tz == [2, 2] }, false], }])
}
pub fn case_163(vars: &Vars) -> InferredGoal<DU, DE, Goal<DU, DE>> {
    let x = vars.v[0].clone();
    let y = vars.v[1].clone();
    proto_vulcan!([|h| { [x, y | x] == y, x == [] }, matcha y { Named { a: 1, b: t } => conda { |tz| { tz == [2, 1], [1, 1, 2, 1] != [1, 1 | tz] }, [x == [[y, 1]], append(x, y, [2, 2])] }, }])
}
pub fn case_164(vars: &Vars) -> InferredGoal<DU, DE, Goal<DU, DE>> {
    let x = vars.v[0].clone();
    proto_vulcan!([|tz| { tz == [2, 1], [2, 3, 2, 1] != [2, 3 | tz] }, matchu [[], x] { 3 => , _ => member(x, [1, 2, 3]), [1] | P3(1, 3, [1, t]) => [member(x, [1]), P3(_, [[]], [_]) != [[3, _, []], 2]], }])
}
pub fn case_165(vars: &Vars) -> InferredGoal<DU, DE, Goal<DU, DE>> {
    let x = vars.v[0].clone();
    let y = vars.v[1].clone();
    proto_vulcan!([match y { _ | _ => [x == 7, x == 8], [[y], 1 | t] => [true, matche t { [[1, _, false | _], _ | _] => [[2, []] == y, x == _], _ => [y == 7, y == 8], }], }])
}
pub fn case_166(vars: &Vars) -> InferredGoal<DU, DE, Goal<DU, DE>> {
    let x = vars.v[0].clone();
    proto_vulcan!([matchu [x, x, x] { Named { a: _, b: [t] } => |tz| { [1, 1, 3] != [1, 1 | tz], tz == [3] }, }])
}
pub fn case_167(vars: &Vars) -> InferredGoal<DU, DE, Goal<DU, DE>> {
    let q = vars.v[0].clone();
    let x = vars.v[1].clone();
    proto_vulcan!([matche q { [2] | _ => conde { [([], 2) != (_, _), x != 1], q == (q, []) }, _ => [x == 7, x == 8], _ | [[t, 3], [], [z, 3] | h] => { |tz| { tz == [1], [3, 1] != [3 | tz] }, x == _ }, }])
}
pub fn case_168(vars: &Vars) -> InferredGoal<DU, DE, Goal<DU, DE>> {
    let x = vars.v[0].clone();
    proto_vulcan!([matche x { [[1], [t, 3 | h]] | 'a' => , }])
}
pub fn case_169(vars: &Vars) -> InferredGoal<DU, DE, Goal<DU, DE>> {
    let q = vars.v[0].clone();
    let x = vars.v[1].clone();
    proto_vulcan!([matcha x { [1 | [x, z]] | 2 => { true }, }])
}
pub fn case_170(vars: &Vars) -> InferredGoal<DU, DE, Goal<DU, DE>> {
    let q = vars.v[0].clone();
    let x = vars.v[1].clone();
    proto_vulcan!([matche [[], q, q | 3] { Named { a: 1, b: 3 } | P3(z, 3, 1) => { matcha q { [t, [3], ['a', 'b' | y]] | y => { [x] != [[y | []], x, [false, []] | []], [x, 3, x] == x }, } }, [[2, y, _] | _] => { conde { [[[], q] != y, q == [x, 3]], true }, [y == x, [[y, x | y], q, [1 | [y, 1]]] == [[y | q], 2, [] | [3]], append(q, y, [2])] }, _ => { member(q, [1, 2, 3]) }, }])
}
pub fn case_171(vars: &Vars) -> InferredGoal<DU, DE, Goal<DU, DE>> {
    let x = vars.v[0].clone();
    proto_vulcan!([matche 1 { [[_], [x, x, t | _]] => , _ => , }])
}
pub fn case_172(vars: &Vars) -> InferredGoal<DU, DE, Goal<DU, DE>> {
    let x = vars.v[0].clone();
    let y = vars.v[1].clone();
    proto_vulcan!([matchu y { [[z, x], [_ | _]] | _ => , }])
}
pub fn case_173(vars: &Vars) -> InferredGoal<DU, DE, Goal<DU, DE>> {
    let x = vars.v[0].clone();
    let y = vars.v[1].clone();
    proto_vulcan!([matchu [] { _ | 2 => { [], [|tz| { tz == [1], [2, 1] != [2 | tz] }, |tz| { tz == [3, 3], [2 | tz] != [2, 3, 3] }] }, Named { a: 2, b: x } => [y != x, onceo { x == [2 | y] }], }])
}
pub fn case_174(vars: &Vars) -> InferredGoal<DU, DE, Goal<DU, DE>> {
    let x = vars.v[0].clone();
    proto_vulcan!([conde { x != ([[]], x), [] }, matcha x { [[x | []], 2] | t => , }])
}
pub fn case_175(vars: &Vars) -> InferredGoal<DU, DE, Goal<DU, DE>> {
    let q = vars.v[0].clone();
    let x = vars.v[1].clone();
    proto_vulcan!([matche x { [[_, h, y] | []] => { [1, h] == ([1, []], [_]) }, 1 => { conde { [true, x != _], q != [x, _, _], [1 == x, 2 == x] }, |x, z| { q == [[_], 1, [] | z] } }, }])
}
pub fn case_176(vars: &Vars) -> InferredGoal<DU, DE, Goal<DU, DE>> {
    let x = vars.v[0].clone();
    proto_vulcan!([matcha x { [false, [h, y], [2, 2, 2] | []] => , [[[], 3]] => conda { [true, member(x, [3, 3])], x == true }, [] | x => , }])
}
pub fn case_177(vars: &Vars) -> InferredGoal<DU, DE, Goal<DU, DE>> {
    let x = vars.v[0].clone();
    proto_vulcan!([matcha x { 2 | ["bc", [1], [[]]] => , }])
}
pub fn case_178(vars: &Vars) -> InferredGoal<DU, DE, Goal<DU, DE>> {
    let x = vars.v[0].clone();
    let y = vars.v[1].clone();
    proto_vulcan!([matche x { _ | [[z, x | x]] => { P3([], y, [_, y]) == [[y, y]], [2 | y] == true }, 3 => [[append(y, x, [2, 1]), P3(3, 3, [y, x]) == x]], y => , }])
}
pub fn case_179(vars: &Vars) -> InferredGoal<DU, DE, Goal<DU, DE>> {
    let x = vars.v[0].clone();
    proto_vulcan!([|z, y| {  }, match x { 1 => [matchu x { _ => { member(x, [1, 2, 3]) }, [[y | _], ['b', 2, 2], [h, 2 | h]] => [append(x, h, []), |tz| { [2, 1, 2, 2] != [2, 1 | tz], tz == [2, 2] }], _ => , }, [] == [[2, x, x], [2]]], [x | _] => { x == [_, x] }, }])
}
pub fn case_180(vars: &Vars) -> InferredGoal<DU, DE, Goal<DU, DE>> {
    let x = vars.v[0].clone();
    proto_vulcan!([matchu x { _ => member(x, [1, 2, 3]), _ => |y, x| { [y, x, []] != x, [x, [], 3] == x, |tz| { tz == [3], [1, 1 | tz] != [1, 1, 3] } }, [[2, h, h], [1, 1 | _]] => append(x, h, [1, 2]), }])
}
pub fn case_181(vars: &Vars) -> InferredGoal<DU, DE, Goal<DU, DE>> {
    let q = vars.v[0].clone();
    let x = vars.v[1].clone();
    proto_vulcan!([match x { [[3, x, t], [_, 1, [] | y], y | t] => , P3(1, z, [1, x]) | [[x]] => , _ => { onceo { append(q, x, [3, 3]) } }, }])
}
pub fn case_182(vars: &Vars) -> InferredGoal<DU, DE, Goal<DU, DE>> {
    let x = vars.v[0].clone();
    let y = vars.v[1].clone();
    proto_vulcan!([_ != y, matchu [] { _ | _ => [x == 7, x == 8], _ => { member(x, [1, 2, 3]) }, ["bc", y, [z]] | P3([1], [2, _], 3) => { [[]] != x }, }])
}
pub fn case_183(vars: &Vars) -> InferredGoal<DU, DE, Goal<DU, DE>> {
    let q = vars.v[0].clone();
    let x = vars.v[1].clone();
    proto_vulcan!([["bc", _] == q, matchu q { [[h, y] | t] | [[t], 3 | t] => { append(q, t, []) }, _ => { member(q, [1, 2, 3]) }, _ | _ => { member(q, [1, 2, 3]) }, }])
}
pub fn case_184(vars: &Vars) -> InferredGoal<DU, DE, Goal<DU, DE>> {
    let x = vars.v[0].clone();
    proto_vulcan!([conde { [x == [x, x, x | x], x == [x]], |tz| { tz == [3, 1], [3, 3 | tz] != [3, 3, 3, 1] }, x == x }, matchu x { 2 => conde { false, member(x, [2, 3, 1]) }, }])
}
pub fn case_185(vars: &Vars) -> InferredGoal<DU, DE, Goal<DU, DE>> {
    let x = vars.v[0].clone();
    proto_vulcan!([matcha x { _ => member(x, [1, 2, 3]), 1 => { |z| { x == [[], 2, [3, x | x] | z], true }, |z, y| { P3(1, [2, 1], x) == x, [2 | y] == z } }, }])
}
pub fn case_186(vars: &Vars) -> InferredGoal<DU, DE, Goal<DU, DE>> {
    let x = vars.v[0].clone();
    proto_vulcan!([matche ['b', x] { _ | _ => { member(x, [1, 2, 3]) }, Named { a: _, b: x } | [] => , [1, [y, [] | _], [x, _, x] | _] | [[], x] => { [x | [x, x]] != x, onceo { [[], true, 1] == x } }, }])
}
pub fn case_187(vars: &Vars) -> InferredGoal<DU, DE, Goal<DU, DE>> {
    let x = vars.v[0].clone();
    let y = vars.v[1].clone();
    proto_vulcan!([[[x, x, 3 | x] | true] != x, matche y { _ => member(y, [1, 2, 3]), }])
}
pub fn case_188(vars: &Vars) -> InferredGoal<DU, DE, Goal<DU, DE>> {
    let x = vars.v[0].clone();
    let y = vars.v[1].clone();
    proto_vulcan!([|h, t| { (t, [2, y]) == y }, matcha x { Named { a: [x], b: 1 } => , _ => member(y, [1, 2, 3]), }])
}
pub fn case_189(vars: &Vars) -> InferredGoal<DU, DE, Goal<DU, DE>> {
    let q = vars.v[0].clone();
    let x = vars.v[1].clone();
    proto_vulcan!([matcha [1, _] { [] => [conde { ([], []) == "bc" }, onceo { |tz| { tz == [2, 3], [2 | tz] != [2, 2, 3] } }], [[_, _, h | x], [_], [[], y, _ | [[], _]] | "a"] => [[y, false, x] == [[q | q]], conde { [y != P3(3, [q, _], 3), (x, [q, h]) != [_]], [[2, x] == [y | x], ["bc"] == h] }], }])
}
pub fn case_190(vars: &Vars) -> InferredGoal<DU, DE, Goal<DU, DE>> {
    let x = vars.v[0].clone();
    let y = vars.v[1].clone();
    proto_vulcan!([conde { member(y, [1, 3, 3]), [x, 3] == x, member(x, [3]) }, match x { 1 | [[[], z, 1], [[], _, t], [2, z, 1] | h] => { |z, x| { x == x, x == [3 | y], false } }, [['b', y, false], t] | [[_, x | z], [1], [z, x]] => , 2 => , }])
}
pub fn case_191(vars: &Vars) -> InferredGoal<DU, DE, Goal<DU, DE>> {
    let x = vars.v[0].clone();
    let y = vars.v[1].clone();
    proto_vulcan!([matcha y { 2 => { matche [x, y, []] { Named { a: t, b: 3 } | P3(t, _, t) => y == y, } }, [x, [z, z]] => { [true, ([], _) != x, y != [[], z, 1 | z]], matche y { P3(t, h, x) => { true }, P3([], _, 1) => { append(x, y, [1]) }, } }, _ => { [2, [], false | x] == y, |t| { [t, 3] == x, false, [[]] != t } }, }])
}
pub fn case_192(vars: &Vars) -> InferredGoal<DU, DE, Goal<DU, DE>> {
    let q = vars.v[0].clone();
    let x = vars.v[1].clone();
    proto_vulcan!([[[x, [[], q | q], x | q] == x], matcha q { [[h], [[], 1 | _], [x]] => { (2, [x]) == x }, _ => { member(x, [1, 2, 3]) }, [[z, x], false | y] | P3([_, 1], 2, [t]) => , }])
}
pub fn case_193(vars: &Vars) -> InferredGoal<DU, DE, Goal<DU, DE>> {
    let x = vars.v[0].clone();
    proto_vulcan!([|x, h| { false, false }, matche x { [2, _, y] | [[false | [y]]] => , _ | [[z, 3]] => , [true] | _ => { onceo { _ == x } }, }])
}
pub fn case_194(vars: &Vars) -> InferredGoal<DU, DE, Goal<DU, DE>> {
    let x = vars.v[0].clone();
    let y = vars.v[1].clone();
    proto_vulcan!([matche y { [x | t] => , }])
}
pub fn case_195(vars: &Vars) -> InferredGoal<DU, DE, Goal<DU, DE>> {
    let q = vars.v[0].clone();
    let x = vars.v[1].clone();
    proto_vulcan!([[[[], []], 2] == [q], match [_, [], x | q] { 1 => , 1 | _ => conde { [[2 | 'a'], [x, 1], 'b'] != (_, [_]), true, [[false, 2, 2] != q, P3(q, 3, x) != q] }, }])
}
pub fn case_196(vars: &Vars) -> InferredGoal<DU, DE, Goal<DU, DE>> {
    let x = vars.v[0].clone();
    proto_vulcan!([x == [2], matchu x { Named { a: 1, b: z } => , }])
}
pub fn case_197(vars: &Vars) -> InferredGoal<DU, DE, Goal<DU, DE>> {
    let x = vars.v[0].clone();
    proto_vulcan!([match x { 1 => , _ | P3(2, _, []) => { onceo { |tz| { tz == [3], [2, 1, 3] != [2, 1 | tz] } } }, Named { a: 1, b: 1 } => { conde { [member(x, [3, 2, 3]), x != [true, [x, x | x]]], |tz| { tz == [2], [2, 3, 2] != [2, 3 | tz] }, [x == _, x == x] } }, }])
}
pub fn case_198(vars: &Vars) -> InferredGoal<DU, DE, Goal<DU, DE>> {
    let q = vars.v[0].clone();
    let x = vars.v[1].clone();
    proto_vulcan!([[true | x] != x, matcha q { y => { |y| { 2 != y, [1, _ | y] != x, [y] != x } }, 2 => { [x | x] == x }, _ | h => { |x, t| { x == P3(q, [[], x], [[]]) }, condu { [false, append(q, q, [1, 3])] } }, }])
}
pub fn case_199(vars: &Vars) -> InferredGoal<DU, DE, Goal<DU, DE>> {
    let x = vars.v[0].clone();
    let y = vars.v[1].clone();
    proto_vulcan!([matchu x { Named { a: [1, z], b: _ } => , }])
}
pub fn case_200(vars: &Vars) -> InferredGoal<DU, DE, Goal<DU, DE>> {
    let x = vars.v[0].clone();
    let y = vars.v[1].clone();
    proto_vulcan!([conda { [|tz| { tz == [1], [1 | tz] != [1, 1] }, false] }, matchu y { _ => { append(x, x, []), conde { P3(_, [1, _], _) == x, [(2, _) == P3(_, [], [[]]), append(x, y, [3])] } }, Named { a: 3, b: [] } => [[true]], z => [false, |t, h| { t == ([t, 2], _), P3(t, _, h) == t, true }], }])
}
pub fn case_201(vars: &Vars) -> InferredGoal<DU, DE, Goal<DU, DE>> {
    let q = vars.v[0].clone();
    let x = vars.v[1].clone();
    proto_vulcan!([matcha x { Named { a: [1], b: [2] } => { P3(_, x, x) == x }, _ => { x != [x | q] }, }])
}
pub fn case_202(vars: &Vars) -> InferredGoal<DU, DE, Goal<DU, DE>> {
    let q = vars.v[0].clone();
    let x = vars.v[1].clone();
    proto_vulcan!([true, matcha x { _ => { [3, x, [x | q]] == P3([q], 3, [2, 1]), [3] == q }, }])
}
pub fn case_203(vars: &Vars) -> InferredGoal<DU, DE, Goal<DU, DE>> {
    let x = vars.v[0].clone();
    proto_vulcan!([|t, y| { append(t, x, []), y == [[t, x, "bc"], 2 | x], y == [_, 1, x | x] }, matche x { _ => { |t| { t != [x, [], t], |tz| { [1, 3 | tz] != [1, 3, 3], tz == [3] }, x == [x | t] } }, [[x, 3, x | h], [[], y, y], ["a", y | [1, h]]] => condu { [(y, [[], 2]) != h, x == h], y == [[x | x], x | [x, []]], [[x | x] == y, [] != [1, x, [h, 'b' | h]]] }, }])
}
pub fn case_204(vars: &Vars) -> InferredGoal<DU, DE, Goal<DU, DE>> {
    let q = vars.v[0].clone();
    let x = vars.v[1].clone();
    proto_vulcan!([conde { false }, match x { Named { a: 3, b: _ } => , }])
}
pub fn case_205(vars: &Vars) -> InferredGoal<DU, DE, Goal<DU, DE>> {
    let x = vars.v[0].clone();
    let y = vars.v[1].clone();
    proto_vulcan!([matcha x { ['b'] | [2, [y, []] | x] => , 3 => , }])
}
pub fn case_206(vars: &Vars) -> InferredGoal<DU, DE, Goal<DU, DE>> {
    let x = vars.v[0].clone();
    let y = vars.v[1].clone();
    proto_vulcan!([x != (y, y), match y { _ => { member(x, [1, 2, 3]) }, [[x | _], [1] | y] => { [y == [x, y, 1 | x], P3(2, _, [_]) != x] }, _ | [[1, [] | x]] => [[y == [2], member(y, [3]), member(y, [3, 3])]], }])
}
pub fn case_207(vars: &Vars) -> InferredGoal<DU, DE, Goal<DU, DE>> {
    let x = vars.v[0].clone();
    proto_vulcan!([onceo { [[2, 'b' | x], [_]] == [1] }, matchu x { _ => { x == 7, x == 8 }, ['b' | _] => [conde { x == P3([], x, x), x == x, [x != [x, x | "bc"], [_, 'a' | x] == [[2, x, x | x], [1 | []], x]] }, x == 2], _ => , }])
}
pub fn case_208(vars: &Vars) -> InferredGoal<DU, DE, Goal<DU, DE>> {
    let q = vars.v[0].clone();
    let x = vars.v[1].clone();
    proto_vulcan!([append(q, q, [1, 1]), matcha x { Named { a: 3, b: [2, y] } => [conde { |tz| { [3, 2, 3] != [3 | tz], tz == [2, 3] }, (_, x) == q, true }, conde { false, [y == [[true, [], x | q] | [2]], false] }], _ => { x == 7, x == 8 }, [_, 1, h] => , }])
}
pub fn case_209(vars: &Vars) -> InferredGoal<DU, DE, Goal<DU, DE>> {
    let x = vars.v[0].clone();
    let y = vars.v[1].clone();
    proto_vulcan!([|tz| { [1, 1 | tz] != [1, 1, 1], tz == [1] }, matche y { P3(h, [3], y) | x => , [[_, h], [h, z, x]] => [matchu z { 2 => { z == [x, x] }, }, y == P3(x, h, x)], }])
}
pub fn case_210(vars: &Vars) -> InferredGoal<DU, DE, Goal<DU, DE>> {
    let q = vars.v[0].clone();
    let x = vars.v[1].clone();
    proto_vulcan!([[q == x, [q, [true, 2, []]] == q, [x] != x], matchu [q] { [_, [1, 1, 1], [[], "bc"]] => { x == (_, q) }, [[1, _], [[], t, _], [y, [], z] | h] => , P3(2, 2, 3) | 1 => , }])
}
pub fn case_211(vars: &Vars) -> InferredGoal<DU, DE, Goal<DU, DE>> {
    let q = vars.v[0].clone();
    let x = vars.v[1].clone();
    proto_vulcan!([matchu [2 | [q]] { _ => [condu { q == [true, "a", x], [[[_, 2], _, 2 | q] == q, q == [[x, q, 3 | q]]], [append(q, q, [1]), false] }, []], P3([[]], [_, 2], 1) | _ => , Named { a: z, b: t } => |y, h| { x != [1, [] | y], [h, 1] == [[q, y] | z], P3(2, [], [[]]) != t }, }])
}
pub fn case_212(vars: &Vars) -> InferredGoal<DU, DE, Goal<DU, DE>> {
    let x = vars.v[0].clone();
    let y = vars.v[1].clone();
    proto_vulcan!([append(y, y, [1, 1]), matchu x { 'b' | [x] => [y == [y, 2, []], y == 2], Named { a: 3, b: [_] } => [3, 2] == y, [[[], h, z], [2, t, 2], h] => { onceo { [2, y, 1] == z }, conda { [[1 | t] | x] != x, [true, y != [[], false, 2 | x]] } }, }])
}
pub fn case_213(vars: &Vars) -> InferredGoal<DU, DE, Goal<DU, DE>> {
    let x = vars.v[0].clone();
    let y = vars.v[1].clone();
    proto_vulcan!([matche y { z => { condu { [[y, [3 | z]] == z, [[1, z, 'b'] | x] != P3([z], z, [z])], x == (1, [1, y]), [true, [[]] == z] }, false }, P3(z, _, _) => , [[t, t, z], [t], [z, _ | t]] => { [], conde { [] == P3([], t, []), false, 1 == x } }, }])
}
pub fn case_214(vars: &Vars) -> InferredGoal<DU, DE, Goal<DU, DE>> {
    let x = vars.v[0].clone();
    let y = vars.v[1].clone();
    proto_vulcan!([matcha x { _ => { y == 3 }, }])
}
pub fn case_215(vars: &Vars) -> InferredGoal<DU, DE, Goal<DU, DE>> {
    let x = vars.v[0].clone();
    let y = vars.v[1].clone();
    proto_vulcan!([match y { z => [[[x, _, x]] == z, match [] { x | P3(x, 1, 1) => member(y, [2]), }], [[t, 3 | t], [z | h]] | h => , _ => , }])
}
pub fn case_216(vars: &Vars) -> InferredGoal<DU, DE, Goal<DU, DE>> {
    let x = vars.v[0].clone();
    let y = vars.v[1].clone();
    proto_vulcan!([matcha x { _ => { member(y, [1, 2, 3]) }, [1, y, [t, 1]] | _ => [condu { [x == x, x == [false, [3, x | []], [_, 2]]], [|tz| { tz == [2, 2], [1 | tz] != [1, 2, 2] }, member(x, [])] }, |y| { y == _, y == y }], }])
}
pub fn case_217(vars: &Vars) -> InferredGoal<DU, DE, Goal<DU, DE>> {
    let q = vars.v[0].clone();
    let x = vars.v[1].clone();
    proto_vulcan!([matcha x { [_ | 2] => { matchu q { [[h, h, 1 | [x, z]]] => , 3 | _ => [x, x, false | q] == x, } }, _ => { member(q, [1, 2, 3]) }, _ => { x == 7, x == 8 }, }])
}
pub fn case_218(vars: &Vars) -> InferredGoal<DU, DE, Goal<DU, DE>> {
    let x = vars.v[0].clone();
    proto_vulcan!([matcha x { [] => , [[1, t | y], ['b', x | []], [1, [] | h]] => { append(t, x, [1]) }, }])
}
pub fn case_219(vars: &Vars) -> InferredGoal<DU, DE, Goal<DU, DE>> {
    let x = vars.v[0].clone();
    proto_vulcan!([matcha x { [[_ | y], [h], []] => append(x, h, [3, 3]), _ => , 2 => x == [3], }])
}
pub fn case_220(vars: &Vars) -> InferredGoal<DU, DE, Goal<DU, DE>> {
    let q = vars.v[0].clone();
    let x = vars.v[1].clone();
    proto_vulcan!([[x != [_], ([q, 3], 1) == q], match x { x => , }])
}
pub fn case_221(vars: &Vars) -> InferredGoal<DU, DE, Goal<DU, DE>> {
    let x = vars.v[0].clone();
    proto_vulcan!([matche x { [[y, t, 2 | z], 3 | h] => , Named { a: [], b: t } => conde { [|tz| { tz == [2], [3, 1, 2] != [3, 1 | tz] }, (t, t) == t], false }, }])
}
pub fn case_222(vars: &Vars) -> InferredGoal<DU, DE, Goal<DU, DE>> {
    let x = vars.v[0].clone();
    proto_vulcan!([match x { 1 => , [1, 2] => { 2 == P3(2, x, _), conda { [false, [1 | _] == x], [2 == x, _ == P3([x, 3], x, 1)] } }, }])
}
pub fn case_223(vars: &Vars) -> InferredGoal<DU, DE, Goal<DU, DE>> {
    let q = vars.v[0].clone();
    let x = vars.v[1].clone();
    proto_vulcan!([x != q, matchu q { [[h], [y], [1] | _] => , [[2, 3, 1 | _], [_, x, h]] => , [[2, t, h], 2, [_, t, z | z] | h] => x == x, }])
}
pub fn case_224(vars: &Vars) -> InferredGoal<DU, DE, Goal<DU, DE>> {
    let x = vars.v[0].clone();
    proto_vulcan!([matchu x { [2] | Named { a: [3, y], b: _ } => , }])
}
pub fn case_225(vars: &Vars) -> InferredGoal<DU, DE, Goal<DU, DE>> {
    let x = vars.v[0].clone();
    let y = vars.v[1].clone();
    proto_vulcan!([|z| { x != z, [_, [[], 2, "bc" | [x, "a"]], z] == P3([3, x], [3], [_, []]), member(y, [2, 2, 3]) }, matchu y { P3(1, 3, h) | _ => { condu { |tz| { tz == [2, 2], [1, 2, 2] != [1 | tz] }, |tz| { [1, 3] != [1 | tz], tz == [3] }, [member(y, []), [2, y, 1 | [_]] == P3(3, [3, 3], [])] } }, _ => [x == 7, x == 8], P3([1], [], y) => matchu y { 1 => { append(x, y, [2]) }, _ => [true, x == 1], [[[] | y], [1, h, 1], [y, _, 2]] => [y, [1, h, 2] | y] == P3(3, 2, [3, []]), }, }])
}
pub fn case_226(vars: &Vars) -> InferredGoal<DU, DE, Goal<DU, DE>> {
    let x = vars.v[0].clone();
    proto_vulcan!([matchu [[] | x] { Named { a: [[]], b: h } => , "a" => { (1, 2) == x }, P3([_], t, x) => [onceo { P3([x], 3, x) != _ }, x == x], }])
}
pub fn case_227(vars: &Vars) -> InferredGoal<DU, DE, Goal<DU, DE>> {
    let x = vars.v[0].clone();
    proto_vulcan!([[[x, x, [] | x] == x, [] != x, x == [x, x, 'a']], match x { _ => { |z| { |tz| { [3, 1] != [3 | tz], tz == [1] } } }, t => , }])
}
pub fn case_228(vars: &Vars) -> InferredGoal<DU, DE, Goal<DU, DE>> {
    let x = vars.v[0].clone();
    let y = vars.v[1].clone();
    proto_vulcan!([matche [2, 2] { _ | [[1, 1, 3 | t], [2, h, 2], ["a", y, y | 2]] => , 2 => [[1, [], y | [x, 1]], [[]]] == x, Named { a: [x], b: [_, []] } => , }])
}
pub fn case_229(vars: &Vars) -> InferredGoal<DU, DE, Goal<DU, DE>> {
    let q = vars.v[0].clone();
    let x = vars.v[1].clone();
    proto_vulcan!([|y, h| { [q, [1, 1 | x], q | [q, h]] != x, [y] == h }, matche x { [[_]] | [h, x] => , [z] => [[z == P3(2, x, _)], [_, 1 | x] == x], }])
}
pub fn case_230(vars: &Vars) -> InferredGoal<DU, DE, Goal<DU, DE>> {
    let x = vars.v[0].clone();
    let y = vars.v[1].clone();
    proto_vulcan!([matchu [2] { 2 => false, P3(z, [_, _], z) => [1 == y, conde { member(x, [3, 3, 3]), true, x == ['b', 1, []] }], Named { a: _, b: 1 } => [y, [] | []] != x, }])
}
pub fn case_231(vars: &Vars) -> InferredGoal<DU, DE, Goal<DU, DE>> {
    let q = vars.v[0].clone();
    let x = vars.v[1].clone();
    proto_vulcan!([([], 3) == q, matche x { P3(t, 1, z) => , }])
}
pub fn case_232(vars: &Vars) -> InferredGoal<DU, DE, Goal<DU, DE>> {
    let q = vars.v[0].clone();
    let x = vars.v[1].clone();
    proto_vulcan!([|tz| { [1 | tz] != [1, 1, 3], tz == [1, 3] }, matchu q { [["a"]] | Named { a: z, b: 2 } => [[[[], 'a', x] != q, q != [], x == _]], Named { a: [], b: [[]] } => { [true, q == 1, |tz| { tz == [2, 3], [3, 2, 2, 3] != [3, 2 | tz] }] }, [] => { matcha q { _ => [x != [q], |tz| { tz == [1], [2 | tz] != [2, 1] }], true | h => { q == P3([], 1, 3), append(q, x, [2]) }, x => , }, x == [[q | x]] }, }])
}
pub fn case_233(vars: &Vars) -> InferredGoal<DU, DE, Goal<DU, DE>> {
    let q = vars.v[0].clone();
    let x = vars.v[1].clone();
    proto_vulcan!([match x { _ | [x, x] => , 2 => |tz| { [3, 3, 3] != [3, 3 | tz], tz == [3] }, _ => { |x, y| { false } }, }])
}
pub fn case_234(vars: &Vars) -> InferredGoal<DU, DE, Goal<DU, DE>> {
    let q = vars.v[0].clone();
    let x = vars.v[1].clone();
    proto_vulcan!([2 == x, match [x, 1, q] { [[3, _], [t] | _] | 2 => conde { |tz| { tz == [2, 3], [2, 2 | tz] != [2, 2, 2, 3] }, [[], 2 | q] == q, append(x, x, [2, 3]) }, 2 => , [[t, _, z | [x, 1]], [t, t | x]] | 1 => , }])
}
pub fn case_235(vars: &Vars) -> InferredGoal<DU, DE, Goal<DU, DE>> {
    let x = vars.v[0].clone();
    proto_vulcan!([x == [3, 2, x], match x { t => [member(x, []), matche t { Named { a: y, b: y } => [[t | x] == y, |tz| { [3, 3 | tz] != [3, 3, 2], tz == [2] }], }], }])
}
pub fn case_236(vars: &Vars) -> InferredGoal<DU, DE, Goal<DU, DE>> {
    let q = vars.v[0].clone();
    let x = vars.v[1].clone();
    proto_vulcan!([q == (2, [x, 3]), matche x { [_ | _] => , [[], 'b', [1, [], _]] => { x != [x, 1, _ | q], [[1, x, x] == [q, [1, x, q]], ([], _) == q] }, }])
}
pub fn case_237(vars: &Vars) -> InferredGoal<DU, DE, Goal<DU, DE>> {
    let q = vars.v[0].clone();
    let x = vars.v[1].clone();
    proto_vulcan!([matcha x { y => conda { [[1, _, 2] == [[2, x, 2], q, [1, x, [] | x]], member(q, [1])], [member(y, []), y == 2], [true, |tz| { [3 | tz] != [3, 1, 2], tz == [1, 2] }] }, [[false, _ | _]] => , z => [[], matcha q { [[[]] | [[]]] => { |tz| { [3 | tz] != [3, 2, 1], tz == [2, 1] }, z == ([3, x], 2) }, }], }])
}
pub fn case_238(vars: &Vars) -> InferredGoal<DU, DE, Goal<DU, DE>> {
    let q = vars.v[0].clone();
    let x = vars.v[1].clone();
    proto_vulcan!([member(q, []), matche q { [[_], [x, 2 | z] | [[], []]] | t => , [[x, x, 1], 2] => , [["bc" | _], z] | [[2, t], [[]]] => [|h| { x == [1], h == q }, matche x { t => [1 == t, x == P3(2, _, _)], P3([2, 3], [h], h) => , }], }])
}
pub fn case_239(vars: &Vars) -> InferredGoal<DU, DE, Goal<DU, DE>> {
    let q = vars.v[0].clone();
    let x = vars.v[1].clone();
    proto_vulcan!([conda { [1] == q, append(x, q, []), [q == [x, 3 | q], false] }, matcha [true, x | x] { [1] => , [[2 | _], [1]] | Named { a: _, b: [2] } => { |y| { append(x, y, [2]) }, [[], _] == q }, _ => { member(x, [1, 2, 3]) }, }])
}
pub fn case_240(vars: &Vars) -> InferredGoal<DU, DE, Goal<DU, DE>> {
    let x = vars.v[0].clone();
    proto_vulcan!([matche x { P3(y, [[], 1], [_]) => , }])
}
pub fn case_241(vars: &Vars) -> InferredGoal<DU, DE, Goal<DU, DE>> {
    let x = vars.v[0].clone();
    let y = vars.v[1].clone();
    proto_vulcan!([|y, x| { append(y, y, [3]), member(x, [1, 1]) }, matche x { _ => { matcha y { [[3, 2], z, _ | h] => { ["bc", [[], x]] == [], true }, [[3, 2, true], [h, x, x | 1], [y, [] | y]] | P3(h, _, t) => { h != [h, _, 1], [['a', 2, _], 1] == h }, }, [member(y, [1, 3, 3]), [x] != y] }, _ => { conda { [y == (2, 3), ['b', [[] | x]] == 2], y != [], [x, 2, y] == y } }, [[y, "a"], t] => , }])
}
pub fn case_242(vars: &Vars) -> InferredGoal<DU, DE, Goal<DU, DE>> {
    let x = vars.v[0].clone();
    proto_vulcan!([true, matche "a" { P3([[], _], t, z) | _ => , P3([1, _], 3, 3) => matche x { [[_, 2, []], [z, 3]] => [x == [[], x | x], [[2, 2, _], [z | z] | z] == x], [z, y | x] | P3([x], t, 3) => [x == x, x == x], }, }])
}
pub fn case_243(vars: &Vars) -> InferredGoal<DU, DE, Goal<DU, DE>> {
    let x = vars.v[0].clone();
    let y = vars.v[1].clone();
    proto_vulcan!([matchu [] { [[h, [], []], [z | x]] | _ => , _ | [[2, t, h]] => { y == [[x, 2 | []], [x, _, _]] }, }])
}
pub fn case_244(vars: &Vars) -> InferredGoal<DU, DE, Goal<DU, DE>> {
    let q = vars.v[0].clone();
    let x = vars.v[1].clone();
    proto_vulcan!([|t| { t != [x], (_, 2) != x, P3([], 3, [x, _]) == q }, match x { Named { a: [1, []], b: [t] } => , _ => , P3([_], [], _) => { false, |z| { [x, _ | q] == x, member(x, []), z != [[z], x, [2]] } }, }])
}
pub fn case_245(vars: &Vars) -> InferredGoal<DU, DE, Goal<DU, DE>> {
    let x = vars.v[0].clone();
    let y = vars.v[1].clone();
    proto_vulcan!([onceo { [1 | x] == x }, matchu _ { [[1, 1], t | h] => { onceo { |tz| { tz == [3, 3], [2, 2, 3, 3] != [2, 2 | tz] } }, |h, x| { member(h, [3]), append(t, h, []) } }, _ => y == x, }])
}
pub fn case_246(vars: &Vars) -> InferredGoal<DU, DE, Goal<DU, DE>> {
    let x = vars.v[0].clone();
    let y = vars.v[1].clone();
    proto_vulcan!([matchu y { 3 => { y == [y, [], _], append(y, y, [1, 2]) }, P3(t, [1, 2], 1) => , }])
}
pub fn case_247(vars: &Vars) -> InferredGoal<DU, DE, Goal<DU, DE>> {
    let q = vars.v[0].clone();
    let x = vars.v[1].clone();
    proto_vulcan!([2 != q, matche x { [[1, 1], [x | _]] => , [[3], [t, z], x] => [x == (3, 3), append(z, q, [1])], P3(1, h, 3) | [[z], [2, h], 1] => , }])
}
pub fn case_248(vars: &Vars) -> InferredGoal<DU, DE, Goal<DU, DE>> {
    let x = vars.v[0].clone();
    proto_vulcan!([x == x, matche [] { t => { |x, h| {  }, [2, t] == t }, }])
}
pub fn case_249(vars: &Vars) -> InferredGoal<DU, DE, Goal<DU, DE>> {
    let x = vars.v[0].clone();
    let y = vars.v[1].clone();
    proto_vulcan!([matche x { [[2, 2, 3]] => { |y| { |tz| { tz == [2, 1], [1, 2, 1] != [1 | tz] }, [x, y] == y }, x == (2, _) }, }])
}
pub fn case_250(vars: &Vars) -> InferredGoal<DU, DE, Goal<DU, DE>> {
    let x = vars.v[0].clone();
    let y = vars.v[1].clone();
    proto_vulcan!([y == y, matcha x { [[]] => { [append(y, x, [])] }, }])
}
pub fn case_251(vars: &Vars) -> InferredGoal<DU, DE, Goal<DU, DE>> {
    let x = vars.v[0].clone();
    let y = vars.v[1].clone();
    proto_vulcan!([matche x { [[3], [false, z, 2]] | y => , [_, [2] | h] => { matcha h { _ | 'b' => { h == [y, [] | [2, 1]], [3] == y }, [[1], x, 3] => , t | Named { a: h, b: 3 } => , } }, }])
}
pub fn case_252(vars: &Vars) -> InferredGoal<DU, DE, Goal<DU, DE>> {
    let q = vars.v[0].clone();
    let x = vars.v[1].clone();
    proto_vulcan!([matcha [2] { Named { a: 1, b: [[], []] } => [x != x, x == ([3], 3)], }])
}
pub fn case_253(vars: &Vars) -> InferredGoal<DU, DE, Goal<DU, DE>> {
    let q = vars.v[0].clone();
    let x = vars.v[1].clone();
    proto_vulcan!([matchu q { [[1, t]] => { |h| { [h, true | [3]] == x, h != (x, [2]), member(t, [1, 3]) }, conda { [_ == q, [1 | q] == x] } }, ['b'] => [[append(q, q, [1, 3]), append(x, q, [3, 2]), P3(1, x, [3, []]) != x], []], }])
}
pub fn case_254(vars: &Vars) -> InferredGoal<DU, DE, Goal<DU, DE>> {
    let x = vars.v[0].clone();
    let y = vars.v[1].clone();
    proto_vulcan!([["bc" == x, y == (2, _), [y] == y], matche y { [[x], 2, y] => { |z| { true, y == 1, x == [x] }, conde { [[[[] | [[]]]] == P3([x], _, 1), true], y == ([[]], [[], y]), [member(x, [2, 3]), y == [_, x, x]] } }, 3 | _ => { match y { [y | h] | [[]] => 2 == x, }, conda { true, [x, [], _] == x, [2 != x, y == "a"] } }, }])
}
pub fn case_255(vars: &Vars) -> InferredGoal<DU, DE, Goal<DU, DE>> {
    let q = vars.v[0].clone();
    let x = vars.v[1].clone();
    proto_vulcan!([[q == [1, [x, q], [q] | x], false], matche q { [x] => P3(2, [_, 2], [3, x]) == x, _ => member(x, [1, 2, 3]), P3(_, [t, []], 1) => , }])
}
pub fn case_256(vars: &Vars) -> InferredGoal<DU, DE, Goal<DU, DE>> {
    let x = vars.v[0].clone();
    proto_vulcan!([matcha x { Named { a: [_], b: x } => , }])
}
pub fn case_257(vars: &Vars) -> InferredGoal<DU, DE, Goal<DU, DE>> {
    let q = vars.v[0].clone();
    let x = vars.v[1].clone();
    proto_vulcan!([matche x { _ => { q == 7, q == 8 }, 1 => { [x, x, q] == q }, _ | P3(h, 3, []) => { q == [x, q, 1], [[_, x, 'b'] | _] == P3(_, [], []) }, }])
}
pub fn case_258(vars: &Vars) -> InferredGoal<DU, DE, Goal<DU, DE>> {
    let x = vars.v[0].clone();
    let y = vars.v[1].clone();
    proto_vulcan!([matchu y { [z] | Named { a: 3, b: [_, x] } => ([y], []) == y, }])
}
pub fn case_259(vars: &Vars) -> InferredGoal<DU, DE, Goal<DU, DE>> {
    let x = vars.v[0].clone();
    proto_vulcan!([matcha x { [[2, z, []], [h | t], []] | 2 => , }])
}
pub fn case_260(vars: &Vars) -> InferredGoal<DU, DE, Goal<DU, DE>> {
    let x = vars.v[0].clone();
    proto_vulcan!([[x == P3([1], _, 2), [[x, 'a' | x], [2, 2 | x] | x] == x, false], matchu x { _ => { member(x, [1, 2, 3]) }, }])
}
pub fn case_261(vars: &Vars) -> InferredGoal<DU, DE, Goal<DU, DE>> {
    let x = vars.v[0].clone();
    let y = vars.v[1].clone();
    proto_vulcan!([matchu y { [["bc"], 3, h | _] => { [x] == y }, [h, [_, t, t]] => { onceo { t == P3([t, 3], h, []) }, match t { [[_]] => P3(x, 2, []) == x, P3([1, []], 3, _) => , z => , } }, ['b', ["a", 'b' | _]] | [[x, 3, t], [[], z], 2 | z] => conde { [y == [y], member(y, [2, 3, 3])], [[y, y, []] == 2, y != [y]] }, }])
}
pub fn case_262(vars: &Vars) -> InferredGoal<DU, DE, Goal<DU, DE>> {
    let x = vars.v[0].clone();
    proto_vulcan!([matcha x { y => { matcha x { _ | [[1, t], "bc"] => { |tz| { [1, 1 | tz] != [1, 1, 3, 3], tz == [3, 3] } }, _ => { x == 7, x == 8 }, [_, _] | Named { a: [], b: 3 } => , } }, }])
}
pub fn case_263(vars: &Vars) -> InferredGoal<DU, DE, Goal<DU, DE>> {
    let q = vars.v[0].clone();
    let x = vars.v[1].clone();
    proto_vulcan!([matchu x { P3([], _, t) => [[|tz| { [3 | tz] != [3, 2], tz == [2] }], x == q], y => { conde { [y == 1, P3([[]], [_, _], [[], 3]) != q], [_ == q, x == [[]]], "a" == q } }, }])
}
pub fn case_264(vars: &Vars) -> InferredGoal<DU, DE, Goal<DU, DE>> {
    let x = vars.v[0].clone();
    let y = vars.v[1].clone();
    proto_vulcan!([matche y { [z, [2, y], [z, z]] => [onceo { true }, [([1], _) == z, member(z, []), [[1], 2] == z]], _ => [y == 7, y == 8], [[1 | _], [h, h | x], _ | z] => , }])
}
pub fn case_265(vars: &Vars) -> InferredGoal<DU, DE, Goal<DU, DE>> {
    let x = vars.v[0].clone();
    proto_vulcan!([matche x { x => [conde { [[x, 2, [2, 2, x] | x] == [x, [], x], x == []], [], [|tz| { tz == [1], [2 | tz] != [2, 1] }, false] }, [] == x], }])
}
pub fn case_266(vars: &Vars) -> InferredGoal<DU, DE, Goal<DU, DE>> {
    let x = vars.v[0].clone();
    proto_vulcan!([condu { [[x | 3] == x, [] == P3(_, x, [3])], ([], x) == [1], [member(x, []), append(x, x, [])] }, match [x] { [[2], [h], [3, _]] => , }])
}
pub fn case_267(vars: &Vars) -> InferredGoal<DU, DE, Goal<DU, DE>> {
    let x = vars.v[0].clone();
    let y = vars.v[1].clone();
    proto_vulcan!([[x, ['a', 2 | y] | y] != y, match y { [x, [[], 1, 3], [1, t | z]] => , }])
}
pub fn case_268(vars: &Vars) -> InferredGoal<DU, DE, Goal<DU, DE>> {
    let x = vars.v[0].clone();
    proto_vulcan!([matcha x { _ | Named { a: [], b: [] } => { [x] == P3(3, [x, _], [_]), onceo { x == P3(_, x, x) } }, Named { a: [1], b: [3, 1] } => { conde { [], member(x, [2, 2]) } }, _ => [x == 7, x == 8], }])
}
pub fn case_269(vars: &Vars) -> InferredGoal<DU, DE, Goal<DU, DE>> {
    let x = vars.v[0].clone();
    let y = vars.v[1].clone();
    proto_vulcan!([[_, _, x] != x, matche [] { Named { a: _, b: [t] } | [_, [false, _], x] => { [y == [_, 2], ['a'] == y], false }, [[_, 2 | z]] => |z, h| {  }, }])
}
pub fn case_270(vars: &Vars) -> InferredGoal<DU, DE, Goal<DU, DE>> {
    let x = vars.v[0].clone();
    proto_vulcan!([matchu x { h | _ => [['a', 3, []] == x, [x == x, [x] == x]], P3(x, y, x) => [true, y == [x, y, x]], z => [condu { z == [x, z, z], x == [], [x == z, true] }, matcha 1 { _ => { P3(_, [], _) == x }, }], }])
}
pub fn case_271(vars: &Vars) -> InferredGoal<DU, DE, Goal<DU, DE>> {
    let x = vars.v[0].clone();
    proto_vulcan!([matchu x { _ => [[x, 1, 1] == x, |h| {  }], }])
}
pub fn case_272(vars: &Vars) -> InferredGoal<DU, DE, Goal<DU, DE>> {
    let x = vars.v[0].clone();
    proto_vulcan!([|x, h| { true }, matchu x { _ => , _ => [x == 7, x == 8], }])
}
pub fn case_273(vars: &Vars) -> InferredGoal<DU, DE, Goal<DU, DE>> {
    let x = vars.v[0].clone();
    let y = vars.v[1].clone();
    proto_vulcan!([match x { [[h, [], "bc"], [_], z] => onceo { 1 != z }, }])
}
pub fn case_274(vars: &Vars) -> InferredGoal<DU, DE, Goal<DU, DE>> {
    let q = vars.v[0].clone();
    let x = vars.v[1].clone();
    proto_vulcan!([[[], 3, 1] != x, matchu q { _ => { member(q, [1, 2, 3]) }, }])
}
pub fn case_275(vars: &Vars) -> InferredGoal<DU, DE, Goal<DU, DE>> {
    let x = vars.v[0].clone();
    proto_vulcan!([matche [1] { [3, 1, [h, 1]] => { [[2, _, 2] | h] != _ }, [["bc" | x], [y, y, 1 | 3], [1, 2, z | 1]] => { conde { [], x == [x, "bc"] }, y == z }, _ | P3(y, 3, _) => true, }])
}
pub fn case_276(vars: &Vars) -> InferredGoal<DU, DE, Goal<DU, DE>> {
    let x = vars.v[0].clone();
    proto_vulcan!([|t| { [[3, [], 1], [2, x, x] | t] == t }, matcha x { [y] | _ => { |z, h| { z == [2, false, x], append(h, x, [1, 2]), append(x, h, [1]) } }, [t, [2, y | t]] => { ([_], 3) == [[t, 2, []], [t], y] }, }])
}
pub fn case_277(vars: &Vars) -> InferredGoal<DU, DE, Goal<DU, DE>> {
    let x = vars.v[0].clone();
    proto_vulcan!([conde { [], [_, x, x | x] == x }, matcha x { 'b' | P3([z, _], y, [t, 3]) => { 1 != (_, []) }, [z] => conde { [[z, 3, 2 | [_, _]] == x, [[x], 'a'] == [[]]], [true, true], [[true, x] == [], [z, [z, z], [z, 'a'] | x] != x] }, Named { a: 3, b: x } => { |tz| { tz == [1], [2 | tz] != [2, 1] } }, }])
}
pub fn case_278(vars: &Vars) -> InferredGoal<DU, DE, Goal<DU, DE>> {
    let x = vars.v[0].clone();
    proto_vulcan!([matchu x { ['b', [2, x], [1, z, _]] => [|z| { member(x, [2, 3, 2]), P3([z], x, z) == x }, append(x, x, [2])], 1 => |x, h| { true }, }])
}
pub fn case_279(vars: &Vars) -> InferredGoal<DU, DE, Goal<DU, DE>> {
    let q = vars.v[0].clone();
    let x = vars.v[1].clone();
    proto_vulcan!([matcha q { _ => , 2 => , }])
}
pub fn case_280(vars: &Vars) -> InferredGoal<DU, DE, Goal<DU, DE>> {
    let x = vars.v[0].clone();
    let y = vars.v[1].clone();
    proto_vulcan!([match [y | x] { [_, [] | y] | [y] => , }])
}
pub fn case_281(vars: &Vars) -> InferredGoal<DU, DE, Goal<DU, DE>> {
    let x = vars.v[0].clone();
    proto_vulcan!([x == ([], 3), match x { h => , }])
}
pub fn case_282(vars: &Vars) -> InferredGoal<DU, DE, Goal<DU, DE>> {
    let x = vars.v[0].clone();
    proto_vulcan!([onceo { [true, x] == x }, matchu x { [[y, _, 3], [t | _], [t, 1 | _]] => [matche [t, x] { _ => { x == 7, x == 8 }, [_] => t == "a", }, conde { false, [[t, 3 | []] == t, y == [[x, x | t], [x, t], [x, [], []] | x]], [] }], [3, [3, t, t]] => , [_] => [[[2], 1, x] != x, ["a", [3, 2]] == [_ | x]], }])
}
pub fn case_283(vars: &Vars) -> InferredGoal<DU, DE, Goal<DU, DE>> {
    let x = vars.v[0].clone();
    proto_vulcan!([_ == x, matche x { _ => { x == 7, x == 8 }, }])
}
pub fn case_284(vars: &Vars) -> InferredGoal<DU, DE, Goal<DU, DE>> {
    let x = vars.v[0].clone();
    proto_vulcan!([matchu [x] { [[1, false], [1 | []], _] => , }])
}
pub fn case_285(vars: &Vars) -> InferredGoal<DU, DE, Goal<DU, DE>> {
    let x = vars.v[0].clone();
    let y = vars.v[1].clone();
    proto_vulcan!([matcha x { [[2, 3], [t, false]] => [t == [y], matche x { _ => [[[y, 'a']] == t, member(y, [1, 1])], }], Named { a: y, b: h } => [conde { [y == [_, 1, x], y == h], [member(y, [1, 1, 2]), y != [1, 1, h]] }, |t| { |tz| { [2, 1 | tz] != [2, 1, 2, 3], tz == [2, 3] } }], }])
}
pub fn case_286(vars: &Vars) -> InferredGoal<DU, DE, Goal<DU, DE>> {
    let x = vars.v[0].clone();
    proto_vulcan!([[2 | 2] == x, match x { 2 => [conde { x == [], [] }, matchu x { Named { a: y, b: 2 } => , Named { a: [x, z], b: [] } => { [x] == x, P3([3], x, z) == x }, }], [[y], y, [h | z]] | Named { a: [1], b: [] } => x == x, 'b' => , }])
}
pub fn case_287(vars: &Vars) -> InferredGoal<DU, DE, Goal<DU, DE>> {
    let q = vars.v[0].clone();
    let x = vars.v[1].clone();
    proto_vulcan!([[2] != q, match q { Named { a: 2, b: 2 } => , }])
}
pub fn case_288(vars: &Vars) -> InferredGoal<DU, DE, Goal<DU, DE>> {
    let x = vars.v[0].clone();
    proto_vulcan!([matcha 2 { P3(y, [t, []], 1) | [[2, 1 | h], [h, []]] => , 2 => , }])
}
pub fn case_289(vars: &Vars) -> InferredGoal<DU, DE, Goal<DU, DE>> {
    let q = vars.v[0].clone();
    let x = vars.v[1].clone();
    proto_vulcan!([false == [1, _], match x { _ | [[h]] => , [[1] | z] => [matcha x { 2 => { x == ([1], _) }, h => [h == ([[], _], h), true], [z, x, []] => [[1, 3] | x] == 3, }, [[[]]] != [[q, 1], x, [q, 2, []]]], }])
}
pub fn case_290(vars: &Vars) -> InferredGoal<DU, DE, Goal<DU, DE>> {
    let q = vars.v[0].clone();
    let x = vars.v[1].clone();
    proto_vulcan!([P3(q, 1, _) == x, match q { x => { |h| { 3 == q, [1, x] == q }, true }, }])
}
pub fn case_291(vars: &Vars) -> InferredGoal<DU, DE, Goal<DU, DE>> {
    let x = vars.v[0].clone();
    let y = vars.v[1].clone();
    proto_vulcan!([matcha y { [[_ | h], [_, x, 1], 1] => , }])
}
pub fn case_292(vars: &Vars) -> InferredGoal<DU, DE, Goal<DU, DE>> {
    let q = vars.v[0].clone();
    let x = vars.v[1].clone();
    proto_vulcan!([matche q { [y, [_, true], [y, z, _ | 2] | _] | [[1, _ | _]] => [P3([_], [q, x], _) == x, onceo { [x] == x }], [[x]] => [[P3([1, []], [3], _) == q, q == [1, [], q], q == x], matchu q { P3(3, 2, _) => , }], }])
}
pub fn case_293(vars: &Vars) -> InferredGoal<DU, DE, Goal<DU, DE>> {
    let x = vars.v[0].clone();
    let y = vars.v[1].clone();
    proto_vulcan!([match x { [[_, 2 | _] | [2]] => { condu { [[y, 'b', [] | []] == x, [1, ['a', []]] == y], [member(y, []), [y | x] == [[y, 1, x], 1, [[], [], 1]]], [[] == x, x == 'a'] }, [[x, x, _] == x, y != _, false] }, }])
}
pub fn case_294(vars: &Vars) -> InferredGoal<DU, DE, Goal<DU, DE>> {
    let x = vars.v[0].clone();
    proto_vulcan!([matcha x { [[t, 2 | [t, x]]] => { t == x, |z, x| { (x, 2) == t } }, }])
}
pub fn case_295(vars: &Vars) -> InferredGoal<DU, DE, Goal<DU, DE>> {
    let x = vars.v[0].clone();
    let y = vars.v[1].clone();
    proto_vulcan!([matche y { [[], 2] => { [2, 2 | x] != _, conde { [[3] == y, [3] == y], [[[3], x, [y]] == [[2]], y != (1, 2)], [y] != x } }, [[h, x | [h, 2]], [1, x, z]] => { onceo { x == [[_, y, 2], [h, 1]] } }, _ | [[2, h | x]] => [y == (1, _), conde { y == y, [true, |tz| { [1, 1, 3, 2] != [1, 1 | tz], tz == [3, 2] }], false }], }])
}
pub fn case_296(vars: &Vars) -> InferredGoal<DU, DE, Goal<DU, DE>> {
    let x = vars.v[0].clone();
    proto_vulcan!([match x { P3([], y, _) => |t| { t == 1, [_, t] != [[2, 2], t, [[], x, y]], [[y, false, 'b']] == t }, }])
}
pub fn case_297(vars: &Vars) -> InferredGoal<DU, DE, Goal<DU, DE>> {
    let x = vars.v[0].clone();
    let y = vars.v[1].clone();
    proto_vulcan!([x == [1, [2, _] | y], y != []])
}
pub fn case_298(vars: &Vars) -> InferredGoal<DU, DE, Goal<DU, DE>> {
    let x = vars.v[0].clone();
    proto_vulcan!([conde { x == 'a', [x == "bc", true], false }])
}
pub fn case_299(vars: &Vars) -> InferredGoal<DU, DE, Goal<DU, DE>> {
    let x = vars.v[0].clone();
    proto_vulcan!([conde { x == 1, true, x == 2 }])
}
pub fn case_300(vars: &Vars) -> InferredGoal<DU, DE, Goal<DU, DE>> {
    let x = vars.v[0].clone();
    let y = vars.v[1].clone();
    proto_vulcan!([conde { x == 1, [true, true], y == 2, [x == 3, y == 3] }])
}
pub fn case_301(vars: &Vars) -> InferredGoal<DU, DE, Goal<DU, DE>> {
    let x = vars.v[0].clone();
    proto_vulcan!([conde { true, true }])
}
pub fn case_302(vars: &Vars) -> InferredGoal<DU, DE, Goal<DU, DE>> {
    let q = vars.v[0].clone();
    let x = vars.v[1].clone();
    proto_vulcan!([|x| { x == 1, q == [x, true] }])
}
pub fn case_303(vars: &Vars) -> InferredGoal<DU, DE, Goal<DU, DE>> {
    let x = vars.v[0].clone();
    proto_vulcan!([closure { [x == 1, conde { true, true }] }])
}
pub fn case_304(vars: &Vars) -> InferredGoal<DU, DE, Goal<DU, DE>> {
    let x = vars.v[0].clone();
    let y = vars.v[1].clone();
    proto_vulcan!([[] == x, y == [[]]])
}
pub fn case_305(vars: &Vars) -> InferredGoal<DU, DE, Goal<DU, DE>> {
    let x = vars.v[0].clone();
    let y = vars.v[1].clone();
    proto_vulcan!([x == [1, 2 | []], y == [x | [3]]])
}
pub fn case_306(vars: &Vars) -> InferredGoal<DU, DE, Goal<DU, DE>> {
    let x = vars.v[0].clone();
    proto_vulcan!([x != [1 | []], conde { x == [1], x == [1, []] }])
}
pub fn case_307(vars: &Vars) -> InferredGoal<DU, DE, Goal<DU, DE>> {
    let x = vars.v[0].clone();
    let y = vars.v[1].clone();
    proto_vulcan!([x == P3(x, [], x)])
}
pub fn case_308(vars: &Vars) -> InferredGoal<DU, DE, Goal<DU, DE>> {
    let q = vars.v[0].clone();
    let x = vars.v[1].clone();
    proto_vulcan!([[q == 2, [q == q], ([], 2) == (1, [x])], |z| { |x| { x == x }, [[x == [3, z | q], P3([_], 2, x) != x, member(x, [1, 1])]], false }, |t| {  }])
}
pub fn case_309(vars: &Vars) -> InferredGoal<DU, DE, Goal<DU, DE>> {
    let q = vars.v[0].clone();
    let x = vars.v[1].clone();
    proto_vulcan!([conde { x != [x, x, false], append(q, x, []) }, condu { [conde { [|tz| { [2, 2] != [2 | tz], tz == [2] }, |h| { [[], 1, q | [3, []]] != q, x == [[_, h, q], [false, h, q | x], [[], "a", []]] }], [conda { |tz| { tz == [3], [1, 2, 3] != [1, 2 | tz] } }, [x] != x], x == x }, 2 != ([], [x])] }, [[]] == q])
}
pub fn case_310(vars: &Vars) -> InferredGoal<DU, DE, Goal<DU, DE>> {
    let q = vars.v[0].clone();
    let x = vars.v[1].clone();
    proto_vulcan!([[2, [], q | q] == x, |tz| { tz == [2, 2], [3 | tz] != [3, 2, 2] }, true, { let c__: InferredGoal<DU, DE, Goal<DU, DE>> = proto_vulcan_closure!(|yy| { conde { [x == [yy | _], yy == 1], [x == [_, yy | _], yy == 2] } }); let g__: Goal<DU, DE> = ::proto_vulcan::GoalCast::cast_into(c__); let r__: InferredGoal<DU, DE, Goal<DU, DE>> = proto_vulcan!([g__.clone(), g__]); r__ }])
}
pub fn case_311(vars: &Vars) -> InferredGoal<DU, DE, Goal<DU, DE>> {
    let x = vars.v[0].clone();
    let y = vars.v[1].clone();
    proto_vulcan!([condu { |t, x| { 2 != (_, _), t == (2, [[]]) } }, x == "bc", { let c__: InferredGoal<DU, DE, Goal<DU, DE>> = proto_vulcan_closure!([|yy| { conde { [y == [yy | _], yy == 1], [y == [_, yy | _], yy == 2] } }, conda { P3([[], _], y, 2) == y }]); let g__: Goal<DU, DE> = ::proto_vulcan::GoalCast::cast_into(c__); let r__: InferredGoal<DU, DE, Goal<DU, DE>> = proto_vulcan!([g__.clone(), g__]); r__ }])
}
pub fn case_312(vars: &Vars) -> InferredGoal<DU, DE, Goal<DU, DE>> {
    let x = vars.v[0].clone();
    let y = vars.v[1].clone();
    proto_vulcan!([P3(3, 3, y) == x, conda { [y == x, y == 2] }, { let c__: InferredGoal<DU, DE, Goal<DU, DE>> = proto_vulcan_closure!(|yy| { conde { [x == [yy | _], yy == 1], [x == [_, yy | _], yy == 2] } }); let g__: Goal<DU, DE> = ::proto_vulcan::GoalCast::cast_into(c__); let r__: InferredGoal<DU, DE, Goal<DU, DE>> = proto_vulcan!([g__.clone(), g__]); r__ }])
}
pub fn case_313(vars: &Vars) -> InferredGoal<DU, DE, Goal<DU, DE>> {
    let x = vars.v[0].clone();
    let y = vars.v[1].clone();
    proto_vulcan!([true, [|x| { (2, x) != y, conde { [[], y] == y, [y | x] == y }, [_, 2] == x }], |z| { x != ([2], [[]]), true == y, onceo { true } }, { let c__: InferredGoal<DU, DE, Goal<DU, DE>> = proto_vulcan_closure!([|yy| { conde { [x == [yy | _], yy == 1], [x == [_, yy | _], yy == 2] } }, x == [[y, x, 3], [_, y]]]); let g__: Goal<DU, DE> = ::proto_vulcan::GoalCast::cast_into(c__); let r__: InferredGoal<DU, DE, Goal<DU, DE>> = proto_vulcan!([g__.clone(), g__]); r__ }])
}
pub fn case_314(vars: &Vars) -> InferredGoal<DU, DE, Goal<DU, DE>> {
    let x = vars.v[0].clone();
    proto_vulcan!([[x, x] == x, [1, true] == x, [[x, x] | x] == x])
}
pub fn case_315(vars: &Vars) -> InferredGoal<DU, DE, Goal<DU, DE>> {
    let x = vars.v[0].clone();
    let y = vars.v[1].clone();
    proto_vulcan!([|tz| { [1, 2 | tz] != [1, 2, 3], tz == [3] }, x == [y, [], true | y], conde { [] }, closure { [x == x, [[2 | x] != [[y, y, x], [y, 2], 2], [3, y, y | x] == y, onceo { x != [_, x] }]] }])
}
pub fn case_316(vars: &Vars) -> InferredGoal<DU, DE, Goal<DU, DE>> {
    let x = vars.v[0].clone();
    proto_vulcan!([x == x])
}
pub fn case_317(vars: &Vars) -> InferredGoal<DU, DE, Goal<DU, DE>> {
    let q = vars.v[0].clone();
    let x = vars.v[1].clone();
    proto_vulcan!([onceo { member(q, [1]) }, ([[], _], q) == x, |z, x| { ([3, 3], [1, 3]) == x }])
}
pub fn case_318(vars: &Vars) -> InferredGoal<DU, DE, Goal<DU, DE>> {
    let q = vars.v[0].clone();
    let x = vars.v[1].clone();
    proto_vulcan!([P3(3, [], [q, _]) == q, ['a'] == q, q != [_, 1, 1 | q], closure { [q == ['a' | q], x == P3(x, [q, 2], x)] }])
}
pub fn case_319(vars: &Vars) -> InferredGoal<DU, DE, Goal<DU, DE>> {
    let x = vars.v[0].clone();
    let y = vars.v[1].clone();
    proto_vulcan!([|tz| { tz == [3, 3], [2, 3 | tz] != [2, 3, 3, 3] }, _ == y, y == x])
}
pub fn case_320(vars: &Vars) -> InferredGoal<DU, DE, Goal<DU, DE>> {
    let q = vars.v[0].clone();
    let x = vars.v[1].clone();
    proto_vulcan!([P3(2, x, 1) == [3, q, 1 | q], append(q, x, [1, 3]), |x| { q != P3(1, q, _), x != [_, x, q] }, { let c__: InferredGoal<DU, DE, Goal<DU, DE>> = proto_vulcan_closure!(|yy| { conde { [q == [yy | _], yy == 1], [q == [_, yy | _], yy == 2] } }); let g__: Goal<DU, DE> = ::proto_vulcan::GoalCast::cast_into(c__); let r__: InferredGoal<DU, DE, Goal<DU, DE>> = proto_vulcan!([g__.clone(), g__]); r__ }])
}
pub fn case_321(vars: &Vars) -> InferredGoal<DU, DE, Goal<DU, DE>> {
    let q = vars.v[0].clone();
    let x = vars.v[1].clone();
    proto_vulcan!([x == P3(q, x, [x]), [q == _, P3([q], 1, _) == ([x, q], [2])], 1 == (q, _)])
}
pub fn case_322(vars: &Vars) -> InferredGoal<DU, DE, Goal<DU, DE>> {
    let x = vars.v[0].clone();
    let y = vars.v[1].clone();
    proto_vulcan!([y == ([1], x), y != []])
}
pub fn case_323(vars: &Vars) -> InferredGoal<DU, DE, Goal<DU, DE>> {
    let x = vars.v[0].clone();
    let y = vars.v[1].clone();
    proto_vulcan!([|y| { y == P3(_, y, y), conde { [[y] == x, condu { |tz| { [3, 3] != [3 | tz], tz == [3] }, [member(y, [1]), |tz| { tz == [1, 3], [1, 1, 3] != [1 | tz] }], [1 == y, false] }], [[false, x == ["bc", 1 | y]], |tz| { [2, 3, 2] != [2, 3 | tz], tz == [2] }] }, 3 != y }, [[]] == x, { let c__: InferredGoal<DU, DE, Goal<DU, DE>> = proto_vulcan_closure!([|yy| { conde { [y == [yy | _], yy == 1], [y == [_, yy | _], yy == 2] } }, [[x, y] == [[_, [], _], 3, [2, _, x | x] | y], 3 == x, [x, [y, x], x] == [[], 'a']]]); let g__: Goal<DU, DE> = ::proto_vulcan::GoalCast::cast_into(c__); let r__: InferredGoal<DU, DE, Goal<DU, DE>> = proto_vulcan!([g__.clone(), g__]); r__ }])
}
pub fn case_324(vars: &Vars) -> InferredGoal<DU, DE, Goal<DU, DE>> {
    let x = vars.v[0].clone();
    let y = vars.v[1].clone();
    proto_vulcan!([true, y != [[1], _], [_, _ | x] == y, closure { |tz| { [1, 2, 1] != [1 | tz], tz == [2, 1] } }])
}
pub fn case_325(vars: &Vars) -> InferredGoal<DU, DE, Goal<DU, DE>> {
    let q = vars.v[0].clone();
    let x = vars.v[1].clone();
    proto_vulcan!([x == [q | q]])
}
pub fn case_326(vars: &Vars) -> InferredGoal<DU, DE, Goal<DU, DE>> {
    let x = vars.v[0].clone();
    let y = vars.v[1].clone();
    proto_vulcan!([y != [2, 2, _]])
}
pub fn case_327(vars: &Vars) -> InferredGoal<DU, DE, Goal<DU, DE>> {
    let x = vars.v[0].clone();
    proto_vulcan!([|y| { |tz| { tz == [1], [3, 3 | tz] != [3, 3, 1] }, x != [2, _ | y] }, [["a"]] == x, [_, _ | x] != x])
}
pub fn case_328(vars: &Vars) -> InferredGoal<DU, DE, Goal<DU, DE>> {
    let x = vars.v[0].clone();
    proto_vulcan!([x != x, x == ([x], 3), |x| { [[append(x, x, []), x == x, x == x], 3 == x, onceo { _ == x }] }])
}
pub fn case_329(vars: &Vars) -> InferredGoal<DU, DE, Goal<DU, DE>> {
    let x = vars.v[0].clone();
    proto_vulcan!([[3, x | x] == x, closure { [|y| { |z, x| { [1, 2] == z, [y, 1, y] == z, y != y }, x == P3([x], _, [x]) }, |y| { P3([x, _], _, x) != y, y == [[_, 2, true | x], x, [x, x, x]] }] }])
}
pub fn case_330(vars: &Vars) -> InferredGoal<DU, DE, Goal<DU, DE>> {
    let x = vars.v[0].clone();
    proto_vulcan!([([1, 3], [x, 2]) != x, x == x, |h| { [1 | h] == x, |h| { conda { [] == [[3, 2], _], member(h, [2, 1]) }, x == x, [3, 2] == ([h], _) } }])
}
pub fn case_331(vars: &Vars) -> InferredGoal<DU, DE, Goal<DU, DE>> {
    let q = vars.v[0].clone();
    let x = vars.v[1].clone();
    proto_vulcan!([condu { conde { true, [_, x] != q, q != 2 }, [[x | q] == x, x == q], conda { [|tz| { tz == [2, 2], [3, 2, 2] != [3 | tz] }, member(q, [1, 1])], [[], 2 | q] != q, false } }, { let c__: InferredGoal<DU, DE, Goal<DU, DE>> = proto_vulcan_closure!(|yy| { conde { [q == [yy | _], yy == 1], [q == [_, yy | _], yy == 2] } }); let g__: Goal<DU, DE> = ::proto_vulcan::GoalCast::cast_into(c__); let r__: InferredGoal<DU, DE, Goal<DU, DE>> = proto_vulcan!([g__.clone(), g__]); r__ }])
}
pub fn case_332(vars: &Vars) -> InferredGoal<DU, DE, Goal<DU, DE>> {
    let x = vars.v[0].clone();
    proto_vulcan!([x == [2, [x | x], 1]])
}
pub fn case_333(vars: &Vars) -> InferredGoal<DU, DE, Goal<DU, DE>> {
    let x = vars.v[0].clone();
    proto_vulcan!([[3, 3, _] == x, ["bc" == x, P3(x, 1, [_, 2]) != x], conde { [[[], []] != x, [x, x | x] == x], [x == _, conde { false, [|z| { [[[], 2] | z] != x, [[1], "a", ["bc" | x]] == x, [3, 3, [false, x, 1]] == z }, onceo { x == [x, x, 'b' | x] }] }], [x != x, |tz| { tz == [2], [1, 3, 2] != [1, 3 | tz] }] }])
}
pub fn case_334(vars: &Vars) -> InferredGoal<DU, DE, Goal<DU, DE>> {
    let x = vars.v[0].clone();
    let y = vars.v[1].clone();
    proto_vulcan!([y != [], [y | y] == x])
}
pub fn case_335(vars: &Vars) -> InferredGoal<DU, DE, Goal<DU, DE>> {
    let q = vars.v[0].clone();
    let x = vars.v[1].clone();
    proto_vulcan!([["bc", 2] != q, |t, h| { member(q, [2, 1, 2]), conde { onceo { append(h, t, [2]) }, [append(h, q, []), conde { |tz| { tz == [3], [1 | tz] != [1, 3] }, [member(t, [3, 2, 1]), (1, x) == [["bc", []]]] }] } }])
}
pub fn case_336(vars: &Vars) -> InferredGoal<DU, DE, Goal<DU, DE>> {
    let x = vars.v[0].clone();
    let y = vars.v[1].clone();
    proto_vulcan!([P3(x, [1], 3) != 2])
}
pub fn case_337(vars: &Vars) -> InferredGoal<DU, DE, Goal<DU, DE>> {
    let x = vars.v[0].clone();
    proto_vulcan!([conde { x == [x, 2, x], [], [|tz| { tz == [2, 1], [2 | tz] != [2, 2, 1] }, [condu { [[x, 1, []] == x, [x, 1] == x] }, |t, h| { x != [false, 2, 2], t != P3(x, _, 2), 2 == h }]] }])
}
pub fn case_338(vars: &Vars) -> InferredGoal<DU, DE, Goal<DU, DE>> {
    let x = vars.v[0].clone();
    proto_vulcan!([[|x| { [[] != [x], (x, x) != x, false], x == 1, |h| { |tz| { [2, 3, 1] != [2, 3 | tz], tz == [1] } } }, |z, y| { [z == [2, 2]], z == 'b' }]])
}
pub fn case_339(vars: &Vars) -> InferredGoal<DU, DE, Goal<DU, DE>> {
    let x = vars.v[0].clone();
    proto_vulcan!([[x, [_, x], x] == [_, _, 2], onceo { [[]] }, [[3] | [3]] == x, { let c__: InferredGoal<DU, DE, Goal<DU, DE>> = proto_vulcan_closure!(|yy| { conde { [x == [yy | _], yy == 1], [x == [_, yy | _], yy == 2] } }); let g__: Goal<DU, DE> = ::proto_vulcan::GoalCast::cast_into(c__); let r__: InferredGoal<DU, DE, Goal<DU, DE>> = proto_vulcan!([g__.clone(), g__]); r__ }])
}
pub fn case_340(vars: &Vars) -> InferredGoal<DU, DE, Goal<DU, DE>> {
    let q = vars.v[0].clone();
    let x = vars.v[1].clone();
    proto_vulcan!([x == q, { let c__: InferredGoal<DU, DE, Goal<DU, DE>> = proto_vulcan_closure!(|yy| { conde { [q == [yy | _], yy == 1], [q == [_, yy | _], yy == 2] } }); let g__: Goal<DU, DE> = ::proto_vulcan::GoalCast::cast_into(c__); let r__: InferredGoal<DU, DE, Goal<DU, DE>> = proto_vulcan!([g__.clone(), g__]); r__ }])
}
pub fn case_341(vars: &Vars) -> InferredGoal<DU, DE, Goal<DU, DE>> {
    let x = vars.v[0].clone();
    proto_vulcan!([[[|tz| { [3 | tz] != [3, 1, 1], tz == [1, 1] }]], x == ["a", x, 1], []])
}
pub fn case_342(vars: &Vars) -> InferredGoal<DU, DE, Goal<DU, DE>> {
    let x = vars.v[0].clone();
    proto_vulcan!([false, x == [[], x, x]])
}
pub fn case_343(vars: &Vars) -> InferredGoal<DU, DE, Goal<DU, DE>> {
    let x = vars.v[0].clone();
    let y = vars.v[1].clone();
    proto_vulcan!([conde { |t| { [_ | x] != t }, conde { [[x, 'a'], [1]] == y, [], y == x }, [[[[], false, true | y] != y, [y] == y], condu { "a" == y, [condu { [[], _, 'a'] != x }, conde { [], false, |tz| { tz == [3, 3], [1 | tz] != [1, 3, 3] } }] }] }, y == [2, x], [[]] == x])
}
pub fn case_344(vars: &Vars) -> InferredGoal<DU, DE, Goal<DU, DE>> {
    let q = vars.v[0].clone();
    let x = vars.v[1].clone();
    proto_vulcan!([q != q, onceo { onceo { false } }, q == _, closure { [(2, 2) == [1 | x], P3(3, [[], _], x) != x] }])
}
pub fn case_345(vars: &Vars) -> InferredGoal<DU, DE, Goal<DU, DE>> {
    let x = vars.v[0].clone();
    let y = vars.v[1].clone();
    proto_vulcan!([conda { x == y }, x == y, |x| { [2, [], x] == y }, closure { conda { [1, [1] | x] == 1, [y == [y | y], y != [x, 3, _]] } }])
}
pub fn case_346(vars: &Vars) -> InferredGoal<DU, DE, Goal<DU, DE>> {
    let x = vars.v[0].clone();
    proto_vulcan!([|y, t| { t == P3(t, [[], _], 3), [[[], 2]] == 'b', 3 != y }, [x == x, []]])
}
pub fn case_347(vars: &Vars) -> InferredGoal<DU, DE, Goal<DU, DE>> {
    let x = vars.v[0].clone();
    let y = vars.v[1].clone();
    proto_vulcan!([[condu { false }, conde { ["bc", 2 | y] == 1, |x| { x != [_, 2, 'a'], [1] == x }, [true, y == ([], [])] }, |x| { x != [1] }], (x, [[]]) == x])
}
pub fn case_348(vars: &Vars) -> InferredGoal<DU, DE, Goal<DU, DE>> {
    let x = vars.v[0].clone();
    let y = vars.v[1].clone();
    proto_vulcan!([|h| { h == [x, x, x], [1, 1] == h, 'a' == y }, P3([_, []], x, [[]]) == [y | y], onceo { conde { [x == P3([], y, y), []], [[_, x | x] == x, y == [1, 2]], false } }])
}
pub fn case_349(vars: &Vars) -> InferredGoal<DU, DE, Goal<DU, DE>> {
    let x = vars.v[0].clone();
    proto_vulcan!([x == P3(x, x, [3, []]), true])
}
pub fn case_350(vars: &Vars) -> InferredGoal<DU, DE, Goal<DU, DE>> {
    let x = vars.v[0].clone();
    proto_vulcan!([onceo { 3 == x }, |z| { onceo { x == P3([x], [3], 3) }, member(x, [3, 1]), [] }, condu { [1 == x, x == [2, 3, x]] }])
}
pub fn case_351(vars: &Vars) -> InferredGoal<DU, DE, Goal<DU, DE>> {
    let x = vars.v[0].clone();
    let y = vars.v[1].clone();
    proto_vulcan!([|tz| { [3, 2, 3] != [3 | tz], tz == [2, 3] }, x == y, closure { P3(1, 1, x) == [[1, _], [x | x]] }])
}
pub fn case_352(vars: &Vars) -> InferredGoal<DU, DE, Goal<DU, DE>> {
    let x = vars.v[0].clone();
    let y = vars.v[1].clone();
    proto_vulcan!([[y, []] == x, |x, t| { conde { [[_] == y, append(y, x, [])], [conde { [[1, x] == x, [[x, 1 | t], y] == x] }, conde { [_ != y, t != [_, t]], [] }], [[x == 3, x != P3(1, 2, [t])], true] }, |tz| { [1, 1 | tz] != [1, 1, 2], tz == [2] } }])
}
pub fn case_353(vars: &Vars) -> InferredGoal<DU, DE, Goal<DU, DE>> {
    let q = vars.v[0].clone();
    let x = vars.v[1].clone();
    proto_vulcan!([onceo { |tz| { [3, 2] != [3 | tz], tz == [2] } }, [1, "bc" | x] == x, x == ([], [q, 1])])
}
pub fn case_354(vars: &Vars) -> InferredGoal<DU, DE, Goal<DU, DE>> {
    let x = vars.v[0].clone();
    let y = vars.v[1].clone();
    proto_vulcan!([[y, [3], [x, 2] | false] == y, { let c__: InferredGoal<DU, DE, Goal<DU, DE>> = proto_vulcan_closure!([|yy| { conde { [x == [yy | _], yy == 1], [x == [_, yy | _], yy == 2] } }, [[], 1, 2 | y] == x]); let g__: Goal<DU, DE> = ::proto_vulcan::GoalCast::cast_into(c__); let r__: InferredGoal<DU, DE, Goal<DU, DE>> = proto_vulcan!([g__.clone(), g__]); r__ }])
}
pub fn case_355(vars: &Vars) -> InferredGoal<DU, DE, Goal<DU, DE>> {
    let x = vars.v[0].clone();
    let y = vars.v[1].clone();
    proto_vulcan!([conde { [x != x, |tz| { tz == [2], [2, 1 | tz] != [2, 1, 2] }], [conda { [[[2]] == x, |x, h| { [x, []] != _, false }], y == ([y, x], []) }, conde { [([[]], []) == y, y != x], [[y != [x, [], x]]], onceo { y == x } }] }, { let c__: InferredGoal<DU, DE, Goal<DU, DE>> = proto_vulcan_closure!([|yy| { conde { [y == [yy | _], yy == 1], [y == [_, yy | _], yy == 2] } }, P3(x, 3, 3) == y]); let g__: Goal<DU, DE> = ::proto_vulcan::GoalCast::cast_into(c__); let r__: InferredGoal<DU, DE, Goal<DU, DE>> = proto_vulcan!([g__.clone(), g__]); r__ }])
}
pub fn case_356(vars: &Vars) -> InferredGoal<DU, DE, Goal<DU, DE>> {
    let x = vars.v[0].clone();
    let y = vars.v[1].clone();
    proto_vulcan!([[], onceo { y != [2 | y] }, y == [x, 2]])
}
pub fn case_357(vars: &Vars) -> InferredGoal<DU, DE, Goal<DU, DE>> {
    let q = vars.v[0].clone();
    let x = vars.v[1].clone();
    proto_vulcan!([condu { [[[[x, 2, 2] != x]], conde { x == x }] }, conde { [[|tz| { [1, 2] != [1 | tz], tz == [2] }, |x, t| { x != _, ([2, q], 1) == t, false }], [(2, q) != [], q == [x], conde { [false, q == q], (2, [_]) != q, [q != 1, q == 'a'] }]], |x| { [x] == x } }, conde { [q, 'b'] == x, |h, t| {  }, ([_, 2], x) == q }])
}
pub fn case_358(vars: &Vars) -> InferredGoal<DU, DE, Goal<DU, DE>> {
    let q = vars.v[0].clone();
    let x = vars.v[1].clone();
    proto_vulcan!([[q | []] == [[false], q]])
}
pub fn case_359(vars: &Vars) -> InferredGoal<DU, DE, Goal<DU, DE>> {
    let x = vars.v[0].clone();
    let y = vars.v[1].clone();
    proto_vulcan!([conde { y == [1], (2, x) == ([], _) }, [[y], 1] != 2])
}
pub fn case_360(vars: &Vars) -> InferredGoal<DU, DE, Goal<DU, DE>> {
    let x = vars.v[0].clone();
    let y = vars.v[1].clone();
    proto_vulcan!([conde { [|z| { y == [_, _, 1], |t| { [t, 2 | [y]] == x }, _ == [] }, |x| { |tz| { tz == [2], [3, 1 | tz] != [3, 1, 2] } }], [[[y] == [[y, x, []], y, [y, x] | [x]], y == [[x]]], [false] == y] }, onceo { 2 == y }])
}
pub fn case_361(vars: &Vars) -> InferredGoal<DU, DE, Goal<DU, DE>> {
    let x = vars.v[0].clone();
    let y = vars.v[1].clone();
    proto_vulcan!([|h| { conde { onceo { x == [2, false | h] }, member(h, [3]) }, x == [[1, y] | h], h != _ }, |tz| { tz == [2, 3], [2, 1, 2, 3] != [2, 1 | tz] }, { let c__: InferredGoal<DU, DE, Goal<DU, DE>> = proto_vulcan_closure!([|yy| { conde { [y == [yy | _], yy == 1], [y == [_, yy | _], yy == 2] } }, P3([], _, y) == x]); let g__: Goal<DU, DE> = ::proto_vulcan::GoalCast::cast_into(c__); let r__: InferredGoal<DU, DE, Goal<DU, DE>> = proto_vulcan!([g__.clone(), g__]); r__ }])
}
pub fn case_362(vars: &Vars) -> InferredGoal<DU, DE, Goal<DU, DE>> {
    let x = vars.v[0].clone();
    proto_vulcan!([|y| { y == (x, _) }, onceo { [1, x, 2] == [[3, false], [x, 1], [true, 2]] }, { let c__: InferredGoal<DU, DE, Goal<DU, DE>> = proto_vulcan_closure!(|yy| { conde { [x == [yy | _], yy == 1], [x == [_, yy | _], yy == 2] } }); let g__: Goal<DU, DE> = ::proto_vulcan::GoalCast::cast_into(c__); let r__: InferredGoal<DU, DE, Goal<DU, DE>> = proto_vulcan!([g__.clone(), g__]); r__ }])
}
pub fn case_363(vars: &Vars) -> InferredGoal<DU, DE, Goal<DU, DE>> {
    let q = vars.v[0].clone();
    let x = vars.v[1].clone();
    proto_vulcan!([|y, h| { false }, [x == ["a", q, q], x == x], ['b', [], 2 | q] == x])
}
pub fn case_364(vars: &Vars) -> InferredGoal<DU, DE, Goal<DU, DE>> {
    let x = vars.v[0].clone();
    proto_vulcan!([[_] != x, [[false] == ([1], _)]])
}
pub fn case_365(vars: &Vars) -> InferredGoal<DU, DE, Goal<DU, DE>> {
    let q = vars.v[0].clone();
    let x = vars.v[1].clone();
    proto_vulcan!([q != _, |z, x| { |h| { append(q, x, [1]), conde { [true, false], [[x] == (x, h), append(h, x, [2])] }, |t| { x == (2, _), P3(_, t, q) == h, h == [] } } }])
}
pub fn case_366(vars: &Vars) -> InferredGoal<DU, DE, Goal<DU, DE>> {
    let q = vars.v[0].clone();
    let x = vars.v[1].clone();
    proto_vulcan!([P3(1, 1, x) == q, { let c__: InferredGoal<DU, DE, Goal<DU, DE>> = proto_vulcan_closure!([|yy| { conde { [x == [yy | _], yy == 1], [x == [_, yy | _], yy == 2] } }, conde { append(q, x, [1, 3]) }]); let g__: Goal<DU, DE> = ::proto_vulcan::GoalCast::cast_into(c__); let r__: InferredGoal<DU, DE, Goal<DU, DE>> = proto_vulcan!([g__.clone(), g__]); r__ }])
}
pub fn case_367(vars: &Vars) -> InferredGoal<DU, DE, Goal<DU, DE>> {
    let x = vars.v[0].clone();
    proto_vulcan!([x == [x], |z| {  }])
}
pub fn case_368(vars: &Vars) -> InferredGoal<DU, DE, Goal<DU, DE>> {
    let x = vars.v[0].clone();
    proto_vulcan!([|y, x| { y == y }, [["a", x], [x, []], x] == x, ['b', x, x | x] == [[true, [], true], [[]], [x, _] | [[], 2]]])
}
pub fn case_369(vars: &Vars) -> InferredGoal<DU, DE, Goal<DU, DE>> {
    let x = vars.v[0].clone();
    let y = vars.v[1].clone();
    proto_vulcan!([|t, h| {  }, [true], conde { [condu { [x == y, ([], []) != y], x == y, [[x, true, y | y], [[] | [y]] | x] != y }, x == [1, [] | x]], |tz| { tz == [2, 2], [3, 1, 2, 2] != [3, 1 | tz] } }, closure { [onceo { |h, x| { [2, [] | x] != y, |tz| { [2, 1 | tz] != [2, 1, 3, 1], tz == [3, 1] } } }, conde { [], [[x, x, 2] == y, onceo { x == [y, [] | y] }], [[y, x | [3]] != x, P3(y, 2, 3) != y] }] }])
}
pub fn case_370(vars: &Vars) -> InferredGoal<DU, DE, Goal<DU, DE>> {
    let x = vars.v[0].clone();
    proto_vulcan!([[], condu { |h, z| { [h != "a", x == (2, _)] }, [onceo { conde { [_ == x, [_] == x], append(x, x, []), [] } }, x == _], x == "a" }, closure { 1 == x }])
}
pub fn case_371(vars: &Vars) -> InferredGoal<DU, DE, Goal<DU, DE>> {
    let x = vars.v[0].clone();
    let y = vars.v[1].clone();
    proto_vulcan!([conde { [[]], [|t, z| { P3([z], [y, y], []) != x }, x == [[2]]], [[onceo { x != x }, conde { [_, 3] == y, [[x] != y, true], [|tz| { [3, 2] != [3 | tz], tz == [2] }, y == 2] }]] }])
}
pub fn case_372(vars: &Vars) -> InferredGoal<DU, DE, Goal<DU, DE>> {
    let q = vars.v[0].clone();
    let x = vars.v[1].clone();
    proto_vulcan!([q == x, true, conde { [[[] | x] == [_, []], q == ([_, []], q)], [P3([_], [], 3) == q, false] }])
}
pub fn case_373(vars: &Vars) -> InferredGoal<DU, DE, Goal<DU, DE>> {
    let q = vars.v[0].clone();
    let x = vars.v[1].clone();
    proto_vulcan!([P3(x, 1, []) == [[q, 3]]])
}
pub fn case_374(vars: &Vars) -> InferredGoal<DU, DE, Goal<DU, DE>> {
    let x = vars.v[0].clone();
    let y = vars.v[1].clone();
    proto_vulcan!([onceo { |x, t| { conde { x == [_, [], _ | 3] }, (t, [_, _]) == y } }, member(x, [1, 2, 1])])
}
pub fn case_375(vars: &Vars) -> InferredGoal<DU, DE, Goal<DU, DE>> {
    let q = vars.v[0].clone();
    let x = vars.v[1].clone();
    proto_vulcan!([member(q, []), ([q, 2], [2]) == [[_, _ | [1]], _ | q], [1, q, 3] == q])
}
pub fn case_376(vars: &Vars) -> InferredGoal<DU, DE, Goal<DU, DE>> {
    let q = vars.v[0].clone();
    let x = vars.v[1].clone();
    proto_vulcan!([|z| { conde { (2, 2) != q, 2 != z, [[1, _ | x] == (_, []), |h, x| {  }] }, [z | z] != [[z, _, "a" | x], q, q] }, |h, y| { P3([2], x, h) == h, conda { x == P3([2], [], 2), [append(x, h, [3, 3]), q != [[]]] } }, [2, [] | x] != q])
}
pub fn case_377(vars: &Vars) -> InferredGoal<DU, DE, Goal<DU, DE>> {
    let q = vars.v[0].clone();
    let x = vars.v[1].clone();
    proto_vulcan!([|h| { h == [3, h], x == [q] }, |x| { P3([x, q], q, x) == x }, onceo { [[condu { (_, _) == q }]] }])
}
pub fn case_378(vars: &Vars) -> InferredGoal<DU, DE, Goal<DU, DE>> {
    let x = vars.v[0].clone();
    proto_vulcan!([onceo { x == [[1, x, x | _], [[]]] }, x != [_ | x], [x, x] == x])
}
pub fn case_379(vars: &Vars) -> InferredGoal<DU, DE, Goal<DU, DE>> {
    let x = vars.v[0].clone();
    proto_vulcan!([conda { [1, x] == x, [P3(x, [x], _) == x, []] }, closure { [|z| { |x| { false, P3(x, x, z) == z }, z != P3(1, [3, _], []), x == [x, x] }, x == ["a", [x, _]]] }])
}
pub fn case_380(vars: &Vars) -> InferredGoal<DU, DE, Goal<DU, DE>> {
    let q = vars.v[0].clone();
    let x = vars.v[1].clone();
    proto_vulcan!([false, closure { q == [x, 1] }])
}
pub fn case_381(vars: &Vars) -> InferredGoal<DU, DE, Goal<DU, DE>> {
    let x = vars.v[0].clone();
    proto_vulcan!([x == [[_, x]], x != [[x, x | x], [x, [], []], 3], closure { |x| { conda { x == x }, x != (_, x), [[x, _, false] == x] } }])
}
pub fn case_382(vars: &Vars) -> InferredGoal<DU, DE, Goal<DU, DE>> {
    let x = vars.v[0].clone();
    let y = vars.v[1].clone();
    proto_vulcan!([conda { [conde { condu { y == x }, [conde { [x == y, append(y, x, [3, 1])], member(x, []), [[x] == x, y == (x, x)] }, onceo { [2, 2, [] | x] == x }] }, x == 3], conda { false, [conde { |tz| { [3, 3, 1, 3] != [3, 3 | tz], tz == [1, 3] }, |tz| { [2, 2] != [2 | tz], tz == [2] } }, conde { [y == P3([1, y], [], x), member(y, [2, 2, 1])], [x == "a", x == [1, 2]], [true, true] }], [[x != x]] }, [['a', y, x] != x, y == true] }])
}
pub fn case_383(vars: &Vars) -> InferredGoal<DU, DE, Goal<DU, DE>> {
    let x = vars.v[0].clone();
    let y = vars.v[1].clone();
    proto_vulcan!([conde { [conde { [y, [x, y, _], [x]] == [[], [2]] }, 2 != y], [|h, y| { |t| {  }, conde { member(x, [1, 2]), [(3, [[]]) == h, true], append(y, x, [1]) } }, member(y, [1, 1, 2])], conda { x == P3(x, [3], y) } }, append(y, x, [2]), closure { x == P3(3, [], [3]) }])
}
pub fn case_384(vars: &Vars) -> InferredGoal<DU, DE, Goal<DU, DE>> {
    let x = vars.v[0].clone();
    let y = vars.v[1].clone();
    proto_vulcan!([conde { x == y, onceo { y != [_, x | x] } }, conde { x == [y, [2, y, 2 | "bc"], [[], false] | x], y == y, [(_, x) != y, [y | [2, 1]] == y] }, x == [y, x], { let c__: InferredGoal<DU, DE, Goal<DU, DE>> = proto_vulcan_closure!(|yy| { conde { [y == [yy | _], yy == 1], [y == [_, yy | _], yy == 2] } }); let g__: Goal<DU, DE> = ::proto_vulcan::GoalCast::cast_into(c__); let r__: InferredGoal<DU, DE, Goal<DU, DE>> = proto_vulcan!([g__.clone(), g__]); r__ }])
}
pub fn case_385(vars: &Vars) -> InferredGoal<DU, DE, Goal<DU, DE>> {
    let x = vars.v[0].clone();
    proto_vulcan!([x != [[x, 'a', "a" | x], _, 1 | x], closure { [|y| { condu { [x == 3, true] } }, x == (3, [1])] }])
}
pub fn case_386(vars: &Vars) -> InferredGoal<DU, DE, Goal<DU, DE>> {
    let x = vars.v[0].clone();
    let y = vars.v[1].clone();
    proto_vulcan!([|y| { [x, 1 | x] == y, [[[], y, 1 | x]] == [], y == [[x, x], [_, _, "bc"]] }, { let c__: InferredGoal<DU, DE, Goal<DU, DE>> = proto_vulcan_closure!(|yy| { conde { [y == [yy | _], yy == 1], [y == [_, yy | _], yy == 2] } }); let g__: Goal<DU, DE> = ::proto_vulcan::GoalCast::cast_into(c__); let r__: InferredGoal<DU, DE, Goal<DU, DE>> = proto_vulcan!([g__.clone(), g__]); r__ }])
}
pub fn case_387(vars: &Vars) -> InferredGoal<DU, DE, Goal<DU, DE>> {
    let q = vars.v[0].clone();
    let x = vars.v[1].clone();
    proto_vulcan!([[1] == P3(2, q, q), |y, t| { onceo { x == [x, 1, _ | q] }, t != x, _ == t }, |y, t| { P3(3, q, []) == [y, y, "a" | y], |tz| { tz == [2, 1], [2, 2, 1] != [2 | tz] }, [1, q] == y }])
}
pub fn case_388(vars: &Vars) -> InferredGoal<DU, DE, Goal<DU, DE>> {
    let x = vars.v[0].clone();
    let y = vars.v[1].clone();
    proto_vulcan!([[|z, t| { (2, _) == t, conde { [], |tz| { [3, 1 | tz] != [3, 1, 1, 2], tz == [1, 2] }, false }, |t, x| { 1 == x, 1 == [[z, "bc", y], [x, [], 1], t | t], false } }, conde { [|t| { [1, [false, true, y], [_, 3, []] | x] == x }, [_, 1, [] | [_]] == [[_, 1, _], [y, [] | [_]], [1, 'b', 1]]] }]])
}
pub fn case_389(vars: &Vars) -> InferredGoal<DU, DE, Goal<DU, DE>> {
    let x = vars.v[0].clone();
    let y = vars.v[1].clone();
    proto_vulcan!([[|y| { [2, y, "a" | y] == y, y == [[_, [] | y], [x, [], x], ["a", 2, y | x]] }, [] != x, y != [[x | y] | x]], y == y])
}
pub fn case_390(vars: &Vars) -> InferredGoal<DU, DE, Goal<DU, DE>> {
    let q = vars.v[0].clone();
    let x = vars.v[1].clone();
    proto_vulcan!([([1], []) == q, |t, x| { ([3], _) != x }, append(x, q, [1, 3]), { let c__: InferredGoal<DU, DE, Goal<DU, DE>> = proto_vulcan_closure!(|yy| { conde { [q == [yy | _], yy == 1], [q == [_, yy | _], yy == 2] } }); let g__: Goal<DU, DE> = ::proto_vulcan::GoalCast::cast_into(c__); let r__: InferredGoal<DU, DE, Goal<DU, DE>> = proto_vulcan!([g__.clone(), g__]); r__ }])
}
pub fn case_391(vars: &Vars) -> InferredGoal<DU, DE, Goal<DU, DE>> {
    let x = vars.v[0].clone();
    let y = vars.v[1].clone();
    proto_vulcan!([["a", 'b'] != x])
}
pub fn case_392(vars: &Vars) -> InferredGoal<DU, DE, Goal<DU, DE>> {
    let x = vars.v[0].clone();
    let y = vars.v[1].clone();
    proto_vulcan!([[x, 1, []] == x, |h, x| {  }])
}
pub fn case_393(vars: &Vars) -> InferredGoal<DU, DE, Goal<DU, DE>> {
    let x = vars.v[0].clone();
    let y = vars.v[1].clone();
    proto_vulcan!([|tz| { tz == [1], [3, 1, 1] != [3, 1 | tz] }, [condu { |tz| { [1, 1 | tz] != [1, 1, 2, 2], tz == [2, 2] } }], [x != [[[], x, _]], |x| { y == [y, 1 | x], x != y }]])
}
pub fn case_394(vars: &Vars) -> InferredGoal<DU, DE, Goal<DU, DE>> {
    let x = vars.v[0].clone();
    let y = vars.v[1].clone();
    proto_vulcan!([conde { [y] == y, ([2], 3) == y, [[] != x, conda { [y == x, conda { P3(2, x, []) == y }] }] }])
}
pub fn case_395(vars: &Vars) -> InferredGoal<DU, DE, Goal<DU, DE>> {
    let q = vars.v[0].clone();
    let x = vars.v[1].clone();
    proto_vulcan!([3 == (x, [x]), closure { onceo { conde { ([1, q], _) == q, [q == q, [x] == ([[]], q)], (q, 2) != [[x, 1, 2], ["bc"], [2, [], 2]] } } }])
}
pub fn case_396(vars: &Vars) -> InferredGoal<DU, DE, Goal<DU, DE>> {
    let x = vars.v[0].clone();
    let y = vars.v[1].clone();
    proto_vulcan!([condu { [conde { [], [1, _ | x] != x, x == 1 }, P3(1, [y], x) == y] }, closure { conde { [P3(x, y, _) != y, y == [[1, x] | x]] } }])
}
pub fn case_397(vars: &Vars) -> InferredGoal<DU, DE, Goal<DU, DE>> {
    let x = vars.v[0].clone();
    let y = vars.v[1].clone();
    proto_vulcan!([[(y, y) == y], closure { conde { x == [[2, x | []], y | y], [|t| { x == [[t], y, 2] }, |t| { |tz| { tz == [2, 2], [2, 1 | tz] != [2, 1, 2, 2] }, t != [3], true }] } }])
}
pub fn case_398(vars: &Vars) -> InferredGoal<DU, DE, Goal<DU, DE>> {
    let q = vars.v[0].clone();
    let x = vars.v[1].clone();
    proto_vulcan!([[condu { [conde { [q == [q, q, x | q], ([], []) == q], member(x, [1]) }, member(x, [2, 3])], [P3(2, q, _) == x, conde { q == [x] }], |y| { P3(2, x, 3) == x, P3([[], x], [3, x], []) == y } }], conde { [|x| { P3([], 2, 2) == q }, |z| {  }], [] }])
}
pub fn case_399(vars: &Vars) -> InferredGoal<DU, DE, Goal<DU, DE>> {
    let x = vars.v[0].clone();
    let y = vars.v[1].clone();
    proto_vulcan!([|z, t| { conde { [[3, z] | x] == x, true, [conde { [append(t, x, [3, 3]), false], [append(t, z, [2]), x == [[], z]], [true, t == [z]] }, |tz| { tz == [2, 1], [3, 1 | tz] != [3, 1, 2, 1] }] }, |tz| { tz == [1, 1], [2, 2, 1, 1] != [2, 2 | tz] }, x == z }, conde { [x != x, |t| { member(x, [2]), conde { [([], [t, 3]) == "a", t != [1]], [_ | t] == [], [append(y, t, [2, 2]), t == [1, 3, 2 | y]] } }], [[conde { [y == x, false], [[1, 1, _], x] != x }, true, conde { [[[[], 1], x] == y, member(y, [3, 1, 1])], x != [x, [], _ | []], [|tz| { tz == [3], [3 | tz] != [3, 3] }, x != [y | x]] }]] }, x != 3, closure { onceo { onceo { x == x } } }])
}
pub fn case_400(vars: &Vars) -> InferredGoal<DU, DE, Goal<DU, DE>> {
    let x = vars.v[0].clone();
    let y = vars.v[1].clone();
    proto_vulcan!([conde { member(x, []), append(y, x, [3]) }, conde { y != [["bc"], [1, x, true]] }, closure { [true, onceo { _ != y }] }])
}
pub fn case_401(vars: &Vars) -> InferredGoal<DU, DE, Goal<DU, DE>> {
    let q = vars.v[0].clone();
    let x = vars.v[1].clone();
    proto_vulcan!([|h| { append(x, x, []) }, q == [1, q, _], q == [2, 1]])
}
pub fn case_402(vars: &Vars) -> InferredGoal<DU, DE, Goal<DU, DE>> {
    let q = vars.v[0].clone();
    let x = vars.v[1].clone();
    proto_vulcan!([[] == [1]])
}
pub fn case_403(vars: &Vars) -> InferredGoal<DU, DE, Goal<DU, DE>> {
    let x = vars.v[0].clone();
    let y = vars.v[1].clone();
    proto_vulcan!([P3([], 2, 2) != x, conde { [false, condu { [x == [_ | 'b'], x != 3], [member(y, []), |h, z| { y == [[2, [] | []], 2], |tz| { [3, 1, 1] != [3 | tz], tz == [1, 1] } }] }] }, onceo { x == x }])
}
pub fn case_404(vars: &Vars) -> InferredGoal<DU, DE, Goal<DU, DE>> {
    let x = vars.v[0].clone();
    let y = vars.v[1].clone();
    proto_vulcan!([|tz| { [3, 3, 3, 3] != [3, 3 | tz], tz == [3, 3] }])
}
pub fn case_405(vars: &Vars) -> InferredGoal<DU, DE, Goal<DU, DE>> {
    let q = vars.v[0].clone();
    let x = vars.v[1].clone();
    proto_vulcan!([q != x, |t, x| { [true, [2 | q]] != [[1, [], "a"], [t, 3, 1], [[]]] }, [[_], [], [[], x]] != q, { let c__: InferredGoal<DU, DE, Goal<DU, DE>> = proto_vulcan_closure!(|yy| { conde { [q == [yy | _], yy == 1], [q == [_, yy | _], yy == 2] } }); let g__: Goal<DU, DE> = ::proto_vulcan::GoalCast::cast_into(c__); let r__: InferredGoal<DU, DE, Goal<DU, DE>> = proto_vulcan!([g__.clone(), g__]); r__ }])
}
pub fn case_406(vars: &Vars) -> InferredGoal<DU, DE, Goal<DU, DE>> {
    let x = vars.v[0].clone();
    proto_vulcan!([[x, x, "bc"] != [x], |tz| { tz == [3, 2], [3 | tz] != [3, 3, 2] }, append(x, x, []), { let c__: InferredGoal<DU, DE, Goal<DU, DE>> = proto_vulcan_closure!(|yy| { conde { [x == [yy | _], yy == 1], [x == [_, yy | _], yy == 2] } }); let g__: Goal<DU, DE> = ::proto_vulcan::GoalCast::cast_into(c__); let r__: InferredGoal<DU, DE, Goal<DU, DE>> = proto_vulcan!([g__.clone(), g__]); r__ }])
}
pub fn case_407(vars: &Vars) -> InferredGoal<DU, DE, Goal<DU, DE>> {
    let x = vars.v[0].clone();
    proto_vulcan!([[condu { x == [x, _ | x] }, [[_, x, []], [false, x, 3], 2] == x], P3(x, x, x) != x])
}
pub fn case_408(vars: &Vars) -> InferredGoal<DU, DE, Goal<DU, DE>> {
    let x = vars.v[0].clone();
    proto_vulcan!([|x| { |y| { |t| { |tz| { [1 | tz] != [1, 3, 3], tz == [3, 3] }, false, [2] == t }, (1, x) == y, 1 != [_] }, |x, z| { |z| { member(z, [1, 3, 1]) } } }, (3, []) != x])
}
pub fn case_409(vars: &Vars) -> InferredGoal<DU, DE, Goal<DU, DE>> {
    let x = vars.v[0].clone();
    proto_vulcan!([|z, h| { [[x == (x, [2])]], x == z }, [x | x] == x, closure { 3 == _ }])
}
pub fn case_410(vars: &Vars) -> InferredGoal<DU, DE, Goal<DU, DE>> {
    let q = vars.v[0].clone();
    let x = vars.v[1].clone();
    proto_vulcan!([|z, x| { onceo { 3 == (_, []) }, [2, x | x] == x }, closure { [q == (2, _), |x| { true, onceo { x != [x] }, |x, y| { true, 1 == x } }] }])
}
pub fn case_411(vars: &Vars) -> InferredGoal<DU, DE, Goal<DU, DE>> {
    let q = vars.v[0].clone();
    let x = vars.v[1].clone();
    proto_vulcan!([conde { x == ([], _), conde { [|z| { [[z, 2, 1 | [1]] | 1] == [_], [['b', 2, 1 | z], z] == (1, [_, _]) }, conda { true, [[3 | x] == x, x != [[], [], 2]] }], [conde { [["bc", [q, true, q], q] == [[], q, []], [1, "bc", [] | x] == q] }, |y, h| { [1] == h }] } }, [(_, x) == P3([1, q], q, [1]), q == _, _ == q], [[], "bc" | x] != x, { let c__: InferredGoal<DU, DE, Goal<DU, DE>> = proto_vulcan_closure!(|yy| { conde { [q == [yy | _], yy == 1], [q == [_, yy | _], yy == 2] } }); let g__: Goal<DU, DE> = ::proto_vulcan::GoalCast::cast_into(c__); let r__: InferredGoal<DU, DE, Goal<DU, DE>> = proto_vulcan!([g__.clone(), g__]); r__ }])
}
pub fn case_412(vars: &Vars) -> InferredGoal<DU, DE, Goal<DU, DE>> {
    let q = vars.v[0].clone();
    let x = vars.v[1].clone();
    proto_vulcan!(["a" == x])
}
pub fn case_413(vars: &Vars) -> InferredGoal<DU, DE, Goal<DU, DE>> {
    let x = vars.v[0].clone();
    proto_vulcan!([x != P3([x, _], [1], [x, 1]), x == [x, 1, _], [|tz| { tz == [1, 2], [1, 1, 1, 2] != [1, 1 | tz] }]])
}
pub fn case_414(vars: &Vars) -> InferredGoal<DU, DE, Goal<DU, DE>> {
    let x = vars.v[0].clone();
    proto_vulcan!([[2, x, false | x] == x, conde { false, [|z| { (2, _) == x, [x == [], [x] == z, [x] == z], ([], []) == [] }, ["a", 2] == x], [|z| { [z, 2 | z] == z, conde { [false, |tz| { tz == [1, 1], [1, 2 | tz] != [1, 2, 1, 1] }], false }, member(x, [2]) }, x == [x, 2]] }, { let c__: InferredGoal<DU, DE, Goal<DU, DE>> = proto_vulcan_closure!(|yy| { conde { [x == [yy | _], yy == 1], [x == [_, yy | _], yy == 2] } }); let g__: Goal<DU, DE> = ::proto_vulcan::GoalCast::cast_into(c__); let r__: InferredGoal<DU, DE, Goal<DU, DE>> = proto_vulcan!([g__.clone(), g__]); r__ }])
}
pub fn case_415(vars: &Vars) -> InferredGoal<DU, DE, Goal<DU, DE>> {
    let q = vars.v[0].clone();
    let x = vars.v[1].clone();
    proto_vulcan!([conde { [x == P3(1, [1], _), [[]] == [2, "bc" | x]], |y, z| { 3 == y, y == [[2]] } }, conde { conda { [condu { [[[] | q] == x, false] }, onceo { x != [2] }], [|z, t| { [x | z] != q }, [true]], [[["bc"], 1 | q] == q, conde { [q != x, member(q, [1, 1])] }] } }])
}
pub fn case_416(vars: &Vars) -> InferredGoal<DU, DE, Goal<DU, DE>> {
    let q = vars.v[0].clone();
    let x = vars.v[1].clone();
    proto_vulcan!([conde { [|x| { x == x, conde { [|tz| { tz == [2, 3], [3, 3, 2, 3] != [3, 3 | tz] }, x == [[3], x, [q, x, 1] | x]], [q != ([], x), x == P3(2, _, [])] } }, append(x, x, [3])], [q == q, true], (3, []) == q }, conde { |x, y| { [3, q, 1] == y }, P3(x, x, []) == x }, { let c__: InferredGoal<DU, DE, Goal<DU, DE>> = proto_vulcan_closure!([|yy| { conde { [x == [yy | _], yy == 1], [x == [_, yy | _], yy == 2] } }, [P3(3, [_], []) == q]]); let g__: Goal<DU, DE> = ::proto_vulcan::GoalCast::cast_into(c__); let r__: InferredGoal<DU, DE, Goal<DU, DE>> = proto_vulcan!([g__.clone(), g__]); r__ }])
}
pub fn case_417(vars: &Vars) -> InferredGoal<DU, DE, Goal<DU, DE>> {
    let x = vars.v[0].clone();
    let y = vars.v[1].clone();
    proto_vulcan!([condu { [member(x, [1, 3, 2]), onceo { [[_, x, 'b'], ["bc", x, _ | x] | y] != y }], [condu { [[true, false]], [[], |z| { [2, 3, [] | z] != y, z == 'b', ([3], 3) == x }], [_ == y, y == [y, x, false | y]] }, x == [_, y, _ | y]], [x == x, onceo { x == (2, []) }] }, onceo { |x| { |t, y| { [[], 3, "bc"] == y, [x] != P3(t, 1, x), t != 1 } } }])
}
pub fn case_418(vars: &Vars) -> InferredGoal<DU, DE, Goal<DU, DE>> {
    let x = vars.v[0].clone();
    let y = vars.v[1].clone();
    proto_vulcan!([[2, x, 1] != x])
}
pub fn case_419(vars: &Vars) -> InferredGoal<DU, DE, Goal<DU, DE>> {
    let x = vars.v[0].clone();
    proto_vulcan!([conde { x != [2], [[x == ['b', x, x], (x, x) != x, |z, y| { [2, x] == x, y == P3([], 3, 2) }], false], true }, x == (_, 3), member(x, [])])
}
pub fn case_420(vars: &Vars) -> InferredGoal<DU, DE, Goal<DU, DE>> {
    let q = vars.v[0].clone();
    let x = vars.v[1].clone();
    proto_vulcan!([true, x == x, true])
}
pub fn case_421(vars: &Vars) -> InferredGoal<DU, DE, Goal<DU, DE>> {
    let x = vars.v[0].clone();
    proto_vulcan!([[|y, h| { y == [3, 3] }, |h| { onceo { h == x }, x == [_, 2, _] }, _ == x], { let c__: InferredGoal<DU, DE, Goal<DU, DE>> = proto_vulcan_closure!([|yy| { conde { [x == [yy | _], yy == 1], [x == [_, yy | _], yy == 2] } }, onceo { x == [true, x] }]); let g__: Goal<DU, DE> = ::proto_vulcan::GoalCast::cast_into(c__); let r__: InferredGoal<DU, DE, Goal<DU, DE>> = proto_vulcan!([g__.clone(), g__]); r__ }])
}
pub fn case_422(vars: &Vars) -> InferredGoal<DU, DE, Goal<DU, DE>> {
    let x = vars.v[0].clone();
    let y = vars.v[1].clone();
    proto_vulcan!([condu { [onceo { x != 2 }, [y, y, y] == x], P3(y, 2, _) == y }, [['b', 3 | y], [3], "a"] == x, |y| { condu { [y == [1, y], y == P3(y, [], [])], onceo { [2] != y } } }])
}
pub fn case_423(vars: &Vars) -> InferredGoal<DU, DE, Goal<DU, DE>> {
    let x = vars.v[0].clone();
    proto_vulcan!([|x| { |x, y| { x == [[], x] } }])
}
pub fn case_424(vars: &Vars) -> InferredGoal<DU, DE, Goal<DU, DE>> {
    let x = vars.v[0].clone();
    proto_vulcan!([x != []])
}
pub fn case_425(vars: &Vars) -> InferredGoal<DU, DE, Goal<DU, DE>> {
    let q = vars.v[0].clone();
    let x = vars.v[1].clone();
    proto_vulcan!([|h| { [conde { append(q, h, []), [q == [[h, 1], [[], 2 | h], [3, x | h]], member(h, [2])] }, |z| { false, P3(q, h, [_]) == (2, 2) }], (h, [2]) == x }, |h, z| { conda { [[false], q == [[h, 3], [false | x], _]] }, |z| { conda { [z == 2, member(z, [3])], [z == P3([q, z], 3, []), x != q] }, conde { member(h, []), z == z, [] }, member(h, []) } }, false])
}
pub fn case_426(vars: &Vars) -> InferredGoal<DU, DE, Goal<DU, DE>> {
    let q = vars.v[0].clone();
    let x = vars.v[1].clone();
    proto_vulcan!([x == [x, _]])
}
pub fn case_427(vars: &Vars) -> InferredGoal<DU, DE, Goal<DU, DE>> {
    let x = vars.v[0].clone();
    let y = vars.v[1].clone();
    proto_vulcan!([member(x, []), conde { y == ([y, 1], x), [[x] == y, 3 != 'a'] }, [[y, y | x], [x, x, []]] == x])
}
pub fn case_428(vars: &Vars) -> InferredGoal<DU, DE, Goal<DU, DE>> {
    let x = vars.v[0].clone();
    proto_vulcan!([x == (x, [2, 1]), (2, x) != x])
}
pub fn case_429(vars: &Vars) -> InferredGoal<DU, DE, Goal<DU, DE>> {
    let x = vars.v[0].clone();
    let y = vars.v[1].clone();
    proto_vulcan!([y == ([2], [_, 1])])
}
pub fn case_430(vars: &Vars) -> InferredGoal<DU, DE, Goal<DU, DE>> {
    let x = vars.v[0].clone();
    let y = vars.v[1].clone();
    proto_vulcan!([y == P3(3, 3, []), [y != [x, []], [true, x] == ([y, x], []), [] == y], y != [[x], y, [_] | y], { let c__: InferredGoal<DU, DE, Goal<DU, DE>> = proto_vulcan_closure!(|yy| { conde { [y == [yy | _], yy == 1], [y == [_, yy | _], yy == 2] } }); let g__: Goal<DU, DE> = ::proto_vulcan::GoalCast::cast_into(c__); let r__: InferredGoal<DU, DE, Goal<DU, DE>> = proto_vulcan!([g__.clone(), g__]); r__ }])
}
pub fn case_431(vars: &Vars) -> InferredGoal<DU, DE, Goal<DU, DE>> {
    let x = vars.v[0].clone();
    let y = vars.v[1].clone();
    proto_vulcan!([P3(1, [2, 3], x) == P3(3, _, y)])
}
pub fn case_432(vars: &Vars) -> InferredGoal<DU, DE, Goal<DU, DE>> {
    let x = vars.v[0].clone();
    let y = vars.v[1].clone();
    proto_vulcan!([y == _, false])
}
pub fn case_433(vars: &Vars) -> InferredGoal<DU, DE, Goal<DU, DE>> {
    let q = vars.v[0].clone();
    let x = vars.v[1].clone();
    proto_vulcan!([|z, t| { q != [[], 3 | []] }, |tz| { [3, 1, 1] != [3, 1 | tz], tz == [1] }, |z| { (3, 3) == q, conda { [[[3, 2 | q] != [[[], 2], z, 3]]], conde { [3 == q, z == 2], z == x } }, [q, q] != q }])
}
pub fn case_434(vars: &Vars) -> InferredGoal<DU, DE, Goal<DU, DE>> {
    let x = vars.v[0].clone();
    proto_vulcan!([[[] | [1, x]] == x, x != []])
}
pub fn case_435(vars: &Vars) -> InferredGoal<DU, DE, Goal<DU, DE>> {
    let q = vars.v[0].clone();
    let x = vars.v[1].clone();
    proto_vulcan!([|h| { h == P3(3, x, [[]]), [h | x] == q }, [1 | _] != q, conde { [|x| { |tz| { [3, 1 | tz] != [3, 1, 1, 2], tz == [1, 2] }, x == x, |y| { [[2] | q] == y } }, conda { [|x, h| { true, h == h }, x == 3], x == P3(3, 1, []), [2 != q, [false]] }] }, closure { [x != [[_, q, q], [q], [1]], |y| { |tz| { [3, 2, 1] != [3 | tz], tz == [2, 1] }, q == [[q, x] | x] }] }])
}
pub fn case_436(vars: &Vars) -> InferredGoal<DU, DE, Goal<DU, DE>> {
    let x = vars.v[0].clone();
    let y = vars.v[1].clone();
    proto_vulcan!([[[], 2, y] == x, y != 'a'])
}
pub fn case_437(vars: &Vars) -> InferredGoal<DU, DE, Goal<DU, DE>> {
    let q = vars.v[0].clone();
    let x = vars.v[1].clone();
    proto_vulcan!([member(q, []), |h, z| { false }, [['b', 2, 3 | q], [[], 1, x | x], ["bc", _, 1 | x] | q] == x])
}
pub fn case_438(vars: &Vars) -> InferredGoal<DU, DE, Goal<DU, DE>> {
    let x = vars.v[0].clone();
    let y = vars.v[1].clone();
    proto_vulcan!([conda { [[member(y, [])], |t, x| { t != t }] }, |t| { [_, 2, t] == x, [1 | t] != x, [t, t | t] == y }, { let c__: InferredGoal<DU, DE, Goal<DU, DE>> = proto_vulcan_closure!(|yy| { conde { [x == [yy | _], yy == 1], [x == [_, yy | _], yy == 2] } }); let g__: Goal<DU, DE> = ::proto_vulcan::GoalCast::cast_into(c__); let r__: InferredGoal<DU, DE, Goal<DU, DE>> = proto_vulcan!([g__.clone(), g__]); r__ }])
}
pub fn case_439(vars: &Vars) -> InferredGoal<DU, DE, Goal<DU, DE>> {
    let q = vars.v[0].clone();
    let x = vars.v[1].clone();
    proto_vulcan!([member(x, [2, 2, 3])])
}
pub fn case_440(vars: &Vars) -> InferredGoal<DU, DE, Goal<DU, DE>> {
    let x = vars.v[0].clone();
    let y = vars.v[1].clone();
    proto_vulcan!([P3(x, [[], 3], _) == x, [2 == y, |h| { onceo { y == y }, h == x }, onceo { x == 1 }]])
}
pub fn case_441(vars: &Vars) -> InferredGoal<DU, DE, Goal<DU, DE>> {
    let q = vars.v[0].clone();
    let x = vars.v[1].clone();
    proto_vulcan!([x == [[]], [] == x])
}
pub fn case_442(vars: &Vars) -> InferredGoal<DU, DE, Goal<DU, DE>> {
    let q = vars.v[0].clone();
    let x = vars.v[1].clone();
    proto_vulcan!([(2, q) == q, |t| { conda { [t, 'a'] != t, member(t, [2]) }, conde { [onceo { |tz| { [2, 3, 3, 2] != [2, 3 | tz], tz == [3, 2] } }, x == P3(3, _, _)], [x, _ | q] == t } }, [conde { [[[], 'b'] != x, []], [[|tz| { tz == [3, 3], [3, 2, 3, 3] != [3, 2 | tz] }]], true }]])
}
pub fn case_443(vars: &Vars) -> InferredGoal<DU, DE, Goal<DU, DE>> {
    let q = vars.v[0].clone();
    let x = vars.v[1].clone();
    proto_vulcan!([q == [[[], [], 1 | x], [_], []], { let c__: InferredGoal<DU, DE, Goal<DU, DE>> = proto_vulcan_closure!(|yy| { conde { [q == [yy | _], yy == 1], [q == [_, yy | _], yy == 2] } }); let g__: Goal<DU, DE> = ::proto_vulcan::GoalCast::cast_into(c__); let r__: InferredGoal<DU, DE, Goal<DU, DE>> = proto_vulcan!([g__.clone(), g__]); r__ }])
}
pub fn case_444(vars: &Vars) -> InferredGoal<DU, DE, Goal<DU, DE>> {
    let x = vars.v[0].clone();
    proto_vulcan!([x == [2, 1, [1] | x], onceo { x == [true] }, |y| { x == P3([3, 2], [y], 3) }, closure { [condu { [[x == x, true, false], x == P3(2, _, x)], x != x }, conde { [3] == x, x == [] }] }])
}
pub fn case_445(vars: &Vars) -> InferredGoal<DU, DE, Goal<DU, DE>> {
    let x = vars.v[0].clone();
    proto_vulcan!([conda { [[|x, y| { x == "a", [] != 2 }], false], append(x, x, [3]) }, 1 == x, member(x, [2])])
}
pub fn case_446(vars: &Vars) -> InferredGoal<DU, DE, Goal<DU, DE>> {
    let q = vars.v[0].clone();
    let x = vars.v[1].clone();
    proto_vulcan!([append(q, x, [3])])
}
pub fn case_447(vars: &Vars) -> InferredGoal<DU, DE, Goal<DU, DE>> {
    let x = vars.v[0].clone();
    proto_vulcan!([match x { [x | _] => x == 1, }])
}
pub fn case_448(vars: &Vars) -> InferredGoal<DU, DE, Goal<DU, DE>> {
    let x = vars.v[0].clone();
    let y = vars.v[1].clone();
    proto_vulcan!([x == [1, 2], matche x { [x, y] => x == 1, }])
}
pub fn case_449(vars: &Vars) -> InferredGoal<DU, DE, Goal<DU, DE>> {
    let q = vars.v[0].clone();
    proto_vulcan!([|x| { q == [1 | x] }])
}
pub fn case_450(vars: &Vars) -> InferredGoal<DU, DE, Goal<DU, DE>> {
    let q = vars.v[0].clone();
    proto_vulcan!([|x, y| { q == [x, [2] | y], x != 1 }])
}
pub fn case_451(vars: &Vars) -> InferredGoal<DU, DE, Goal<DU, DE>> {
    let q = vars.v[0].clone();
    proto_vulcan!([append([1, 2], q, [1, 2, 0 | _])])
}
pub fn case_452(vars: &Vars) -> InferredGoal<DU, DE, Goal<DU, DE>> {
    let q = vars.v[0].clone();
    proto_vulcan!([|x| { x == 1, |x| { x == 2 }, q == x }])
}
pub fn case_453(vars: &Vars) -> InferredGoal<DU, DE, Goal<DU, DE>> {
    let q = vars.v[0].clone();
    proto_vulcan!([|x, y| { |x| { x == [y] }, y == 7, q == [x, y] }])
}
pub fn case_454(vars: &Vars) -> InferredGoal<DU, DE, Goal<DU, DE>> {
    let q = vars.v[0].clone();
    proto_vulcan!([|y| { y == [q], |q| { q == 0 }, y != [0] }])
}
pub fn case_455(vars: &Vars) -> InferredGoal<DU, DE, Goal<DU, DE>> {
    let x = vars.v[0].clone();
    let y = vars.v[1].clone();
    proto_vulcan!([y == [2 | x], conde { [matche x { t => { conde { [([_, []], [2]) != x, [x, "a", x | y] == x], |tz| { tz == [3, 3], [2, 1 | tz] != [2, 1, 3, 3] } }, false }, }, [2, y, x] == y], [conde { [1, x, 3] == y, [conde { [], [[x | 1] == x, [y, _] == y] }, [2 == y]], y != [[1, 1], [_, y]] }, member(x, [1, 2, 3])], |h, x| { |t| { h == [] }, matche x { Named { a: 2, b: [] } => [x != ([_], h), false], }, member(y, [2, 1, 2]) } }, conde { 3 == 1, match x { "bc" => { |y, z| { append(y, x, [1]), z == 1 } }, 3 => |h, x| { x == [y, false, ['b' | x] | _] }, 1 => { matche y { [['a', 2]] => { y != ([y, _], 2) }, _ | [] => , [[h, 1 | _], 1, true | h] => true, }, member(y, [1]) }, }, conde { [x == [[1 | x]], |tz| { [3, 2] != [3 | tz], tz == [2] }], [[(x, 3) == (y, [_, []]), |tz| { [1, 2, 3] != [1, 2 | tz], tz == [3] }, [y, [] | y] != y], [[x, x | y], [1, _], [x, 2, x | x]] == [_, x | []]] } }])
}
pub fn case_456(vars: &Vars) -> InferredGoal<DU, DE, Goal<DU, DE>> {
    let x = vars.v[0].clone();
    let y = vars.v[1].clone();
    proto_vulcan!([y == [2 | x], conde { [matche x { t => { conde { [([_, []], [2]) != x, [x, "a", x | y] == x], |tz| { tz == [3, 3], [2, 1 | tz] != [2, 1, 3, 3] } }, false }, }, [2, y, x] == y], [conde { [1, x, 3] == y, [conde { [], [[x | 1] == x, [y, _] == y] }, [2 == y]], y != [[1, 1], [_, y]] }, member(x, [1, 2, 3])], |h, x| { |t| { h == [] }, matche x { Named { a: 2, b: [] } => [x != ([_], h), false], }, member(y, [2, 1, 2]) } }, conde { 3 == 1, match x { "bc" => { |y, z| { append(y, x, [1]), z == 1 } }, 3 => |h, x| { x == [y, false, ['b' | x] | _] }, 1 => { matche y { [['a', 2]] => { y != ([y, _], 2) }, _ | [] => , [[fresh_name_9, 1 | _], 1, true | fresh_name_9] => true, }, member(y, [1]) }, }, conde { [x == [[1 | x]], |tz| { [3, 2] != [3 | tz], tz == [2] }], [[(x, 3) == (y, [_, []]), |tz| { [1, 2, 3] != [1, 2 | tz], tz == [3] }, [y, [] | y] != y], [[x, x | y], [1, _], [x, 2, x | x]] == [_, x | []]] } }])
}
pub fn case_457(vars: &Vars) -> InferredGoal<DU, DE, Goal<DU, DE>> {
    let q = vars.v[0].clone();
    let x = vars.v[1].clone();
    proto_vulcan!([1 != q, q == (x, [[], x]), conde { conde { [conde { x == x, [true, append(x, x, [])] }, match q { P3(x, [[]], [[]]) => [member(q, []), member(x, [1, 3])], }], [[x == [_, x], q == [[], q, 1 | x]]], [[x == [q, q | q]], member(x, [3, 2, 2])] }, [q, q, _ | x] == q, conde { |t| { append(t, x, [1]) }, P3([], x, q) == x, [|z| { [[1 | z], ['b', q], z] == 2 }, q != P3(1, x, 2)] } }])
}
pub fn case_458(vars: &Vars) -> InferredGoal<DU, DE, Goal<DU, DE>> {
    let q = vars.v[0].clone();
    let x = vars.v[1].clone();
    proto_vulcan!([1 != q, q == (x, [[], x]), conde { conde { [conde { x == x, [true, append(x, x, [])] }, match q { P3(x, [[]], [[]]) => [member(q, []), member(x, [1, 3])], }], [[x == [_, x], q == [[], q, 1 | x]]], [[x == [q, q | q]], member(x, [3, 2, 2])] }, [q, q, _ | x] == q, conde { |fresh_name_9| { append(fresh_name_9, x, [1]) }, P3([], x, q) == x, [|z| { [[1 | z], ['b', q], z] == 2 }, q != P3(1, x, 2)] } }])
}
pub fn case_459(vars: &Vars) -> InferredGoal<DU, DE, Goal<DU, DE>> {
    let x = vars.v[0].clone();
    proto_vulcan!([x != [x, _], [true, x | 2] == x, { let c__: InferredGoal<DU, DE, Goal<DU, DE>> = proto_vulcan_closure!(|yy| { conde { [x == [yy | _], yy == 1], [x == [_, yy | _], yy == 2] } }); let g__: Goal<DU, DE> = ::proto_vulcan::GoalCast::cast_into(c__); let r__: InferredGoal<DU, DE, Goal<DU, DE>> = proto_vulcan!([g__.clone(), g__]); r__ }])
}
pub fn case_460(vars: &Vars) -> InferredGoal<DU, DE, Goal<DU, DE>> {
    let x = vars.v[0].clone();
    proto_vulcan!([x != [x, _], [true, x | 2] == x, { let c__: InferredGoal<DU, DE, Goal<DU, DE>> = proto_vulcan_closure!(|fresh_name_9| { conde { [x == [fresh_name_9 | _], fresh_name_9 == 1], [x == [_, fresh_name_9 | _], fresh_name_9 == 2] } }); let g__: Goal<DU, DE> = ::proto_vulcan::GoalCast::cast_into(c__); let r__: InferredGoal<DU, DE, Goal<DU, DE>> = proto_vulcan!([g__.clone(), g__]); r__ }])
}
pub fn case_461(vars: &Vars) -> InferredGoal<DU, DE, Goal<DU, DE>> {
    let x = vars.v[0].clone();
    let y = vars.v[1].clone();
    proto_vulcan!([conde { [1] == y, y != [3, [], 1] }, [[y, _ | y] | 3] == [y, true | x], conde { [([2], 1) != x, |z, t| { |h, t| { y != P3([_], [], [_]) } }], [], [[[x, [], [[]]] == (2, [x, 3]), match x { _ => y != [_, _], true | x => |tz| { tz == [1, 2], [1, 2, 1, 2] != [1, 2 | tz] }, }, [3, y | [y, y]] != x]] }, { let c__: InferredGoal<DU, DE, Goal<DU, DE>> = proto_vulcan_closure!(|yy| { conde { [y == [yy | _], yy == 1], [y == [_, yy | _], yy == 2] } }); let g__: Goal<DU, DE> = ::proto_vulcan::GoalCast::cast_into(c__); let r__: InferredGoal<DU, DE, Goal<DU, DE>> = proto_vulcan!([g__.clone(), g__]); r__ }])
}
pub fn case_462(vars: &Vars) -> InferredGoal<DU, DE, Goal<DU, DE>> {
    let x = vars.v[0].clone();
    let y = vars.v[1].clone();
    proto_vulcan!([conde { [1] == y, y != [3, [], 1] }, [[y, _ | y] | 3] == [y, true | x], conde { [([2], 1) != x, |z, t| { |h, t| { y != P3([_], [], [_]) } }], [], [[[x, [], [[]]] == (2, [x, 3]), match x { _ => y != [_, _], true | x => |fresh_name_9| { fresh_name_9 == [1, 2], [1, 2, 1, 2] != [1, 2 | fresh_name_9] }, }, [3, y | [y, y]] != x]] }, { let c__: InferredGoal<DU, DE, Goal<DU, DE>> = proto_vulcan_closure!(|yy| { conde { [y == [yy | _], yy == 1], [y == [_, yy | _], yy == 2] } }); let g__: Goal<DU, DE> = ::proto_vulcan::GoalCast::cast_into(c__); let r__: InferredGoal<DU, DE, Goal<DU, DE>> = proto_vulcan!([g__.clone(), g__]); r__ }])
}
pub fn case_463(vars: &Vars) -> InferredGoal<DU, DE, Goal<DU, DE>> {
    let q = vars.v[0].clone();
    let x = vars.v[1].clone();
    proto_vulcan!([x == (x, [_]), false, matche q { y => , y => , }, closure { matche q { _ => [|t, h| { 2 != t, t == [_, 'b', x | x], true }, false], } }])
}
pub fn case_464(vars: &Vars) -> InferredGoal<DU, DE, Goal<DU, DE>> {
    let q = vars.v[0].clone();
    let x = vars.v[1].clone();
    proto_vulcan!([x == (x, [_]), false, matche q { y => , y => , }, closure { matche q { _ => [|t, fresh_name_9| { 2 != t, t == [_, 'b', x | x], true }, false], } }])
}
pub fn case_465(vars: &Vars) -> InferredGoal<DU, DE, Goal<DU, DE>> {
    let x = vars.v[0].clone();
    proto_vulcan!([x == P3(3, 3, 2), |h| { |z| { h == [[], [h]] }, x == [x], [conde { [x == (x, 2), [h, h] != h], [3 != h, member(h, [])], [[] != h, true] }, |tz| { tz == [1, 2], [2, 3, 1, 2] != [2, 3 | tz] }, |h, t| { append(h, x, [2]), x != ([[]], _) }] }, [[_, []] | x] == ([], _)])
}
pub fn case_466(vars: &Vars) -> InferredGoal<DU, DE, Goal<DU, DE>> {
    let x = vars.v[0].clone();
    proto_vulcan!([x == P3(3, 3, 2), |h| { |z| { h == [[], [h]] }, x == [x], [conde { [x == (x, 2), [h, h] != h], [3 != h, member(h, [])], [[] != h, true] }, |tz| { tz == [1, 2], [2, 3, 1, 2] != [2, 3 | tz] }, |fresh_name_9, t| { append(fresh_name_9, x, [2]), x != ([[]], _) }] }, [[_, []] | x] == ([], _)])
}
pub fn case_467(vars: &Vars) -> InferredGoal<DU, DE, Goal<DU, DE>> {
    let q = vars.v[0].clone();
    let x = vars.v[1].clone();
    proto_vulcan!([[2, x, 2 | q] == q, |h| { [q, [[], h], h] == q, match h { [h, [_], [y]] => { true }, } }, conde { [|y, z| { match q { P3([], [[]], 1) => [y] == x, } }, q == [[[], []], [_, q | x], [2]]], |tz| { [3, 2 | tz] != [3, 2, 1, 1], tz == [1, 1] } }])
}
pub fn case_468(vars: &Vars) -> InferredGoal<DU, DE, Goal<DU, DE>> {
    let q = vars.v[0].clone();
    let x = vars.v[1].clone();
    proto_vulcan!([[2, x, 2 | q] == q, |h| { [q, [[], h], h] == q, match h { [h, [_], [y]] => { true }, } }, conde { [|fresh_name_9, z| { match q { P3([], [[]], 1) => [fresh_name_9] == x, } }, q == [[[], []], [_, q | x], [2]]], |tz| { [3, 2 | tz] != [3, 2, 1, 1], tz == [1, 1] } }])
}
pub fn case_469(vars: &Vars) -> InferredGoal<DU, DE, Goal<DU, DE>> {
    let q = vars.v[0].clone();
    let x = vars.v[1].clone();
    proto_vulcan!([q == (2, x), match x { [] => , }, x == _, { let c__: InferredGoal<DU, DE, Goal<DU, DE>> = proto_vulcan_closure!(|yy| { conde { [x == [yy | _], yy == 1], [x == [_, yy | _], yy == 2] } }); let g__: Goal<DU, DE> = ::proto_vulcan::GoalCast::cast_into(c__); let r__: InferredGoal<DU, DE, Goal<DU, DE>> = proto_vulcan!([g__.clone(), g__]); r__ }])
}
pub fn case_470(vars: &Vars) -> InferredGoal<DU, DE, Goal<DU, DE>> {
    let q = vars.v[0].clone();
    let x = vars.v[1].clone();
    proto_vulcan!([q == (2, x), match x { [] => , }, x == _, { let c__: InferredGoal<DU, DE, Goal<DU, DE>> = proto_vulcan_closure!(|fresh_name_9| { conde { [x == [fresh_name_9 | _], fresh_name_9 == 1], [x == [_, fresh_name_9 | _], fresh_name_9 == 2] } }); let g__: Goal<DU, DE> = ::proto_vulcan::GoalCast::cast_into(c__); let r__: InferredGoal<DU, DE, Goal<DU, DE>> = proto_vulcan!([g__.clone(), g__]); r__ }])
}
pub fn case_471(vars: &Vars) -> InferredGoal<DU, DE, Goal<DU, DE>> {
    let x = vars.v[0].clone();
    let y = vars.v[1].clone();
    proto_vulcan!([(y, []) != y, |y| { x == ([], y) }])
}
pub fn case_472(vars: &Vars) -> InferredGoal<DU, DE, Goal<DU, DE>> {
    let x = vars.v[0].clone();
    let y = vars.v[1].clone();
    proto_vulcan!([(y, []) != y, |fresh_name_9| { x == ([], fresh_name_9) }])
}
pub fn case_473(vars: &Vars) -> InferredGoal<DU, DE, Goal<DU, DE>> {
    let x = vars.v[0].clone();
    let y = vars.v[1].clone();
    proto_vulcan!([match [] { Named { a: t, b: x } => [conde { |h, t| { 1 == t } }, |tz| { [3, 2 | tz] != [3, 2, 2], tz == [2] }], }, [["a", x, 3]] != [1, _], [x, []] != y])
}
pub fn case_474(vars: &Vars) -> InferredGoal<DU, DE, Goal<DU, DE>> {
    let x = vars.v[0].clone();
    let y = vars.v[1].clone();
    proto_vulcan!([match [] { Named { a: t, b: x } => [conde { |h, t| { 1 == t } }, |fresh_name_9| { [3, 2 | fresh_name_9] != [3, 2, 2], fresh_name_9 == [2] }], }, [["a", x, 3]] != [1, _], [x, []] != y])
}
pub fn case_475(vars: &Vars) -> InferredGoal<DU, DE, Goal<DU, DE>> {
    let q = vars.v[0].clone();
    let x = vars.v[1].clone();
    proto_vulcan!([|h, t| { x != [q, [true, h], [q, _, t | x]], t == _, [['a' | t] == t] }, x == x, x != [2]])
}
pub fn case_476(vars: &Vars) -> InferredGoal<DU, DE, Goal<DU, DE>> {
    let q = vars.v[0].clone();
    let x = vars.v[1].clone();
    proto_vulcan!([|h, fresh_name_9| { x != [q, [true, h], [q, _, fresh_name_9 | x]], fresh_name_9 == _, [['a' | fresh_name_9] == fresh_name_9] }, x == x, x != [2]])
}
pub fn case_477(vars: &Vars) -> InferredGoal<DU, DE, Goal<DU, DE>> {
    let x = vars.v[0].clone();
    let y = vars.v[1].clone();
    proto_vulcan!([match x { [[true, z, y | []]] => , }, [y] == x, match y { _ | 1 => y == x, }])
}
pub fn case_478(vars: &Vars) -> InferredGoal<DU, DE, Goal<DU, DE>> {
    let x = vars.v[0].clone();
    let y = vars.v[1].clone();
    proto_vulcan!([match x { [[true, z, fresh_name_9 | []]] => , }, [y] == x, match y { _ | 1 => y == x, }])
}
pub fn case_479(vars: &Vars) -> InferredGoal<DU, DE, Goal<DU, DE>> {
    let x = vars.v[0].clone();
    let y = vars.v[1].clone();
    proto_vulcan!([['a', "bc", false | x] == y, conde { [], member(x, []), x == (3, 1) }, { let c__: InferredGoal<DU, DE, Goal<DU, DE>> = proto_vulcan_closure!([|yy| { conde { [y == [yy | _], yy == 1], [y == [_, yy | _], yy == 2] } }, conde { [], true }]); let g__: Goal<DU, DE> = ::proto_vulcan::GoalCast::cast_into(c__); let r__: InferredGoal<DU, DE, Goal<DU, DE>> = proto_vulcan!([g__.clone(), g__]); r__ }])
}
pub fn case_480(vars: &Vars) -> InferredGoal<DU, DE, Goal<DU, DE>> {
    let x = vars.v[0].clone();
    let y = vars.v[1].clone();
    proto_vulcan!([['a', "bc", false | x] == y, conde { [], member(x, []), x == (3, 1) }, { let c__: InferredGoal<DU, DE, Goal<DU, DE>> = proto_vulcan_closure!([|fresh_name_9| { conde { [y == [fresh_name_9 | _], fresh_name_9 == 1], [y == [_, fresh_name_9 | _], fresh_name_9 == 2] } }, conde { [], true }]); let g__: Goal<DU, DE> = ::proto_vulcan::GoalCast::cast_into(c__); let r__: InferredGoal<DU, DE, Goal<DU, DE>> = proto_vulcan!([g__.clone(), g__]); r__ }])
}
pub fn case_481(vars: &Vars) -> InferredGoal<DU, DE, Goal<DU, DE>> {
    let x = vars.v[0].clone();
    proto_vulcan!([[] == x, [|x| { conde { [append(x, x, [2, 3]), P3([], _, 3) == x] } }], conde { [matche x { [[y], h, [y, z, y] | _] | [] => , [_, h, []] => , }, P3(x, 3, x) == [1]], [[[[_ | x], [_, 1] | x] == x, match 2 { "a" => [member(x, [1, 1]), x == ([1, x], [[], _])], }, x == ([], [])], [conde { [x == x, [x, x | x] == x], [member(x, []), x != _], [[x, [[], x, 1] | x] == x, x != ([], _)] }, [false, [x] == P3([[]], [x, 3], [])], false]], [(x, x) == x, x == P3(x, [x, 2], x)] }])
}
pub fn case_482(vars: &Vars) -> InferredGoal<DU, DE, Goal<DU, DE>> {
    let x = vars.v[0].clone();
    proto_vulcan!([[] == x, [|fresh_name_9| { conde { [append(fresh_name_9, fresh_name_9, [2, 3]), P3([], _, 3) == fresh_name_9] } }], conde { [matche x { [[y], h, [y, z, y] | _] | [] => , [_, h, []] => , }, P3(x, 3, x) == [1]], [[[[_ | x], [_, 1] | x] == x, match 2 { "a" => [member(x, [1, 1]), x == ([1, x], [[], _])], }, x == ([], [])], [conde { [x == x, [x, x | x] == x], [member(x, []), x != _], [[x, [[], x, 1] | x] == x, x != ([], _)] }, [false, [x] == P3([[]], [x, 3], [])], false]], [(x, x) == x, x == P3(x, [x, 2], x)] }])
}
pub fn case_483(vars: &Vars) -> InferredGoal<DU, DE, Goal<DU, DE>> {
    let x = vars.v[0].clone();
    let y = vars.v[1].clone();
    proto_vulcan!([y == P3(1, [y, _], [[]]), { let c__: InferredGoal<DU, DE, Goal<DU, DE>> = proto_vulcan_closure!([|yy| { conde { [x == [yy | _], yy == 1], [x == [_, yy | _], yy == 2] } }, x == 1]); let g__: Goal<DU, DE> = ::proto_vulcan::GoalCast::cast_into(c__); let r__: InferredGoal<DU, DE, Goal<DU, DE>> = proto_vulcan!([g__.clone(), g__]); r__ }])
}
pub fn case_484(vars: &Vars) -> InferredGoal<DU, DE, Goal<DU, DE>> {
    let x = vars.v[0].clone();
    let y = vars.v[1].clone();
    proto_vulcan!([y == P3(1, [y, _], [[]]), { let c__: InferredGoal<DU, DE, Goal<DU, DE>> = proto_vulcan_closure!([|fresh_name_9| { conde { [x == [fresh_name_9 | _], fresh_name_9 == 1], [x == [_, fresh_name_9 | _], fresh_name_9 == 2] } }, x == 1]); let g__: Goal<DU, DE> = ::proto_vulcan::GoalCast::cast_into(c__); let r__: InferredGoal<DU, DE, Goal<DU, DE>> = proto_vulcan!([g__.clone(), g__]); r__ }])
}
pub fn case_485(vars: &Vars) -> InferredGoal<DU, DE, Goal<DU, DE>> {
    let q = vars.v[0].clone();
    let x = vars.v[1].clone();
    proto_vulcan!([|tz| { [1, 1, 3] != [1, 1 | tz], tz == [3] }, |z| { |x, t| { [([1, t], [2, x]) != t, ([x], []) != q, t == 1], x == _ }, conde { [x == x, true], [x, q] == z, [] }, |x, y| { conde { [[1, 'b'] == y, (q, [2, 3]) == y], member(q, [2, 3, 3]) } } }])
}
pub fn case_486(vars: &Vars) -> InferredGoal<DU, DE, Goal<DU, DE>> {
    let q = vars.v[0].clone();
    let x = vars.v[1].clone();
    proto_vulcan!([|tz| { [1, 1, 3] != [1, 1 | tz], tz == [3] }, |z| { |x, fresh_name_9| { [([1, fresh_name_9], [2, x]) != fresh_name_9, ([x], []) != q, fresh_name_9 == 1], x == _ }, conde { [x == x, true], [x, q] == z, [] }, |x, y| { conde { [[1, 'b'] == y, (q, [2, 3]) == y], member(q, [2, 3, 3]) } } }])
}
pub fn case_487(vars: &Vars) -> InferredGoal<DU, DE, Goal<DU, DE>> {
    let x = vars.v[0].clone();
    proto_vulcan!([match x { _ => { |tz| { [1, 3 | tz] != [1, 3, 1, 2], tz == [1, 2] } }, _ => { member(x, [1, 2, 3]) }, [[], [2, 2]] => x == [], }, x != [_, 3], [false, conde { [true, x, _] == x, [match x { 2 | 2 => , [] | P3([1], [_], h) => { [x, x, 1] == x, true }, }, [member(x, [])]] }]])
}
pub fn case_488(vars: &Vars) -> InferredGoal<DU, DE, Goal<DU, DE>> {
    let x = vars.v[0].clone();
    proto_vulcan!([match x { _ => { |fresh_name_9| { [1, 3 | fresh_name_9] != [1, 3, 1, 2], fresh_name_9 == [1, 2] } }, _ => { member(x, [1, 2, 3]) }, [[], [2, 2]] => x == [], }, x != [_, 3], [false, conde { [true, x, _] == x, [match x { 2 | 2 => , [] | P3([1], [_], h) => { [x, x, 1] == x, true }, }, [member(x, [])]] }]])
}
pub fn case_489(vars: &Vars) -> InferredGoal<DU, DE, Goal<DU, DE>> {
    let q = vars.v[0].clone();
    let x = vars.v[1].clone();
    proto_vulcan!([q == [], { let c__: InferredGoal<DU, DE, Goal<DU, DE>> = proto_vulcan_closure!(|yy| { conde { [x == [yy | _], yy == 1], [x == [_, yy | _], yy == 2] } }); let g__: Goal<DU, DE> = ::proto_vulcan::GoalCast::cast_into(c__); let r__: InferredGoal<DU, DE, Goal<DU, DE>> = proto_vulcan!([g__.clone(), g__]); r__ }])
}
pub fn case_490(vars: &Vars) -> InferredGoal<DU, DE, Goal<DU, DE>> {
    let q = vars.v[0].clone();
    let x = vars.v[1].clone();
    proto_vulcan!([q == [], { let c__: InferredGoal<DU, DE, Goal<DU, DE>> = proto_vulcan_closure!(|fresh_name_9| { conde { [x == [fresh_name_9 | _], fresh_name_9 == 1], [x == [_, fresh_name_9 | _], fresh_name_9 == 2] } }); let g__: Goal<DU, DE> = ::proto_vulcan::GoalCast::cast_into(c__); let r__: InferredGoal<DU, DE, Goal<DU, DE>> = proto_vulcan!([g__.clone(), g__]); r__ }])
}
pub fn case_491(vars: &Vars) -> InferredGoal<DU, DE, Goal<DU, DE>> {
    let x = vars.v[0].clone();
    let y = vars.v[1].clone();
    proto_vulcan!([[conde { [[y] == y, y == [y | y]], [] }, |z| { [x == [y, 1]] }], |y, h| { h == "bc", |h, y| { match h { [[[]], [1]] => { [x] == [y, x, 3 | y], y == [1, y, h] }, [_] => { (2, [x, y]) == y, y == y }, }, conde { y == [_], h == [[[], 2], ['a', [], 2], [h, []]], [y != _, member(h, [1, 3, 2])] } }, y == ["bc"] }, { let c__: InferredGoal<DU, DE, Goal<DU, DE>> = proto_vulcan_closure!(|yy| { conde { [y == [yy | _], yy == 1], [y == [_, yy | _], yy == 2] } }); let g__: Goal<DU, DE> = ::proto_vulcan::GoalCast::cast_into(c__); let r__: InferredGoal<DU, DE, Goal<DU, DE>> = proto_vulcan!([g__.clone(), g__]); r__ }])
}
pub fn case_492(vars: &Vars) -> InferredGoal<DU, DE, Goal<DU, DE>> {
    let x = vars.v[0].clone();
    let y = vars.v[1].clone();
    proto_vulcan!([[conde { [[y] == y, y == [y | y]], [] }, |z| { [x == [y, 1]] }], |y, h| { h == "bc", |h, y| { match h { [[[]], [1]] => { [x] == [y, x, 3 | y], y == [1, y, h] }, [_] => { (2, [x, y]) == y, y == y }, }, conde { y == [_], h == [[[], 2], ['a', [], 2], [h, []]], [y != _, member(h, [1, 3, 2])] } }, y == ["bc"] }, { let c__: InferredGoal<DU, DE, Goal<DU, DE>> = proto_vulcan_closure!(|fresh_name_9| { conde { [y == [fresh_name_9 | _], fresh_name_9 == 1], [y == [_, fresh_name_9 | _], fresh_name_9 == 2] } }); let g__: Goal<DU, DE> = ::proto_vulcan::GoalCast::cast_into(c__); let r__: InferredGoal<DU, DE, Goal<DU, DE>> = proto_vulcan!([g__.clone(), g__]); r__ }])
}
pub fn case_493(vars: &Vars) -> InferredGoal<DU, DE, Goal<DU, DE>> {
    let x = vars.v[0].clone();
    let y = vars.v[1].clone();
    proto_vulcan!([member(x, [2, 2]), conde { [[matche _ { Named { a: z, b: _ } => , [[x], z | x] => member(z, [3, 2, 3]), }, y != P3([x, []], [_, 1], _)], conde { y != [_, 'a'] }], [false, [[], |tz| { tz == [2, 1], [1, 2, 1] != [1 | tz] }, y != x]], y == [] }, _ == x])
}
pub fn case_494(vars: &Vars) -> InferredGoal<DU, DE, Goal<DU, DE>> {
    let x = vars.v[0].clone();
    let y = vars.v[1].clone();
    proto_vulcan!([member(x, [2, 2]), conde { [[matche _ { Named { a: fresh_name_9, b: _ } => , [[x], z | x] => member(z, [3, 2, 3]), }, y != P3([x, []], [_, 1], _)], conde { y != [_, 'a'] }], [false, [[], |tz| { tz == [2, 1], [1, 2, 1] != [1 | tz] }, y != x]], y == [] }, _ == x])
}
pub fn case_495(vars: &Vars) -> InferredGoal<DU, DE, Goal<DU, DE>> {
    let q = vars.v[0].clone();
    let x = vars.v[1].clone();
    proto_vulcan!([x == _, { let c__: InferredGoal<DU, DE, Goal<DU, DE>> = proto_vulcan_closure!(|yy| { conde { [q == [yy | _], yy == 1], [q == [_, yy | _], yy == 2] } }); let g__: Goal<DU, DE> = ::proto_vulcan::GoalCast::cast_into(c__); let r__: InferredGoal<DU, DE, Goal<DU, DE>> = proto_vulcan!([g__.clone(), g__]); r__ }])
}
pub fn case_496(vars: &Vars) -> InferredGoal<DU, DE, Goal<DU, DE>> {
    let q = vars.v[0].clone();
    let x = vars.v[1].clone();
    proto_vulcan!([x == _, { let c__: InferredGoal<DU, DE, Goal<DU, DE>> = proto_vulcan_closure!(|fresh_name_9| { conde { [q == [fresh_name_9 | _], fresh_name_9 == 1], [q == [_, fresh_name_9 | _], fresh_name_9 == 2] } }); let g__: Goal<DU, DE> = ::proto_vulcan::GoalCast::cast_into(c__); let r__: InferredGoal<DU, DE, Goal<DU, DE>> = proto_vulcan!([g__.clone(), g__]); r__ }])
}
pub fn case_497(vars: &Vars) -> InferredGoal<DU, DE, Goal<DU, DE>> {
    let x = vars.v[0].clone();
    let y = vars.v[1].clone();
    proto_vulcan!([x == ([], 3), |t| { [y, x, 1] == x }, |t| { conde { [match t { Named { a: t, b: 1 } => [|tz| { [2, 1 | tz] != [2, 1, 2, 2], tz == [2, 2] }, x == ([], [[]])], _ => [t == 7, t == 8], [] | h => { y == y }, }, |y, z| {  }], [[(3, y) != y], true], conde { x == [t, [], t], [x != y, append(x, t, [2, 1])], [[[2], [2, t]] == [_], 1 == x] } }, conde { [[t] == x, [member(t, [2, 1, 2]), [x, 1, 2] == t, member(y, [1])]], |x| { true, P3([3], [], [1, 3]) == t } }, [t] == x }])
}
pub fn case_498(vars: &Vars) -> InferredGoal<DU, DE, Goal<DU, DE>> {
    let x = vars.v[0].clone();
    let y = vars.v[1].clone();
    proto_vulcan!([x == ([], 3), |t| { [y, x, 1] == x }, |fresh_name_9| { conde { [match fresh_name_9 { Named { a: t, b: 1 } => [|tz| { [2, 1 | tz] != [2, 1, 2, 2], tz == [2, 2] }, x == ([], [[]])], _ => [fresh_name_9 == 7, fresh_name_9 == 8], [] | h => { y == y }, }, |y, z| {  }], [[(3, y) != y], true], conde { x == [fresh_name_9, [], fresh_name_9], [x != y, append(x, fresh_name_9, [2, 1])], [[[2], [2, fresh_name_9]] == [_], 1 == x] } }, conde { [[fresh_name_9] == x, [member(fresh_name_9, [2, 1, 2]), [x, 1, 2] == fresh_name_9, member(y, [1])]], |x| { true, P3([3], [], [1, 3]) == fresh_name_9 } }, [fresh_name_9] == x }])
}
pub fn case_499(vars: &Vars) -> InferredGoal<DU, DE, Goal<DU, DE>> {
    let x = vars.v[0].clone();
    let y = vars.v[1].clone();
    proto_vulcan!([y != (_, 1), [y | x] == x, |x, h| { match x { 2 | Named { a: [_], b: z } => , [[y, h, x | h], [_ | t]] => { x == [x] }, } }, { let c__: InferredGoal<DU, DE, Goal<DU, DE>> = proto_vulcan_closure!([|yy| { conde { [x == [yy | _], yy == 1], [x == [_, yy | _], yy == 2] } }, |y| {  }]); let g__: Goal<DU, DE> = ::proto_vulcan::GoalCast::cast_into(c__); let r__: InferredGoal<DU, DE, Goal<DU, DE>> = proto_vulcan!([g__.clone(), g__]); r__ }])
}
pub fn case_500(vars: &Vars) -> InferredGoal<DU, DE, Goal<DU, DE>> {
    let x = vars.v[0].clone();
    let y = vars.v[1].clone();
    proto_vulcan!([y != (_, 1), [y | x] == x, |x, h| { match x { 2 | Named { a: [_], b: z } => , [[y, h, x | h], [_ | fresh_name_9]] => { x == [x] }, } }, { let c__: InferredGoal<DU, DE, Goal<DU, DE>> = proto_vulcan_closure!([|yy| { conde { [x == [yy | _], yy == 1], [x == [_, yy | _], yy == 2] } }, |y| {  }]); let g__: Goal<DU, DE> = ::proto_vulcan::GoalCast::cast_into(c__); let r__: InferredGoal<DU, DE, Goal<DU, DE>> = proto_vulcan!([g__.clone(), g__]); r__ }])
}
pub fn case_501(vars: &Vars) -> InferredGoal<DU, DE, Goal<DU, DE>> {
    let x = vars.v[0].clone();
    let y = vars.v[1].clone();
    proto_vulcan!([[_ == y], [[|tz| { tz == [1], [1, 3 | tz] != [1, 3, 1] }, [2, [], 1] == x, 2 == y], [false]]])
}
pub fn case_502(vars: &Vars) -> InferredGoal<DU, DE, Goal<DU, DE>> {
    let x = vars.v[0].clone();
    let y = vars.v[1].clone();
    proto_vulcan!([[_ == y], [[|fresh_name_9| { fresh_name_9 == [1], [1, 3 | fresh_name_9] != [1, 3, 1] }, [2, [], 1] == x, 2 == y], [false]]])
}
pub fn case_503(vars: &Vars) -> InferredGoal<DU, DE, Goal<DU, DE>> {
    let x = vars.v[0].clone();
    proto_vulcan!([1 != x, conde { x == [_, _], [|tz| { tz == [2, 2], [2, 1 | tz] != [2, 1, 2, 2] }, matche x { 1 => , [] | [] => , }] }, { let c__: InferredGoal<DU, DE, Goal<DU, DE>> = proto_vulcan_closure!(|yy| { conde { [x == [yy | _], yy == 1], [x == [_, yy | _], yy == 2] } }); let g__: Goal<DU, DE> = ::proto_vulcan::GoalCast::cast_into(c__); let r__: InferredGoal<DU, DE, Goal<DU, DE>> = proto_vulcan!([g__.clone(), g__]); r__ }])
}
pub fn case_504(vars: &Vars) -> InferredGoal<DU, DE, Goal<DU, DE>> {
    let x = vars.v[0].clone();
    proto_vulcan!([1 != x, conde { x == [_, _], [|tz| { tz == [2, 2], [2, 1 | tz] != [2, 1, 2, 2] }, matche x { 1 => , [] | [] => , }] }, { let c__: InferredGoal<DU, DE, Goal<DU, DE>> = proto_vulcan_closure!(|fresh_name_9| { conde { [x == [fresh_name_9 | _], fresh_name_9 == 1], [x == [_, fresh_name_9 | _], fresh_name_9 == 2] } }); let g__: Goal<DU, DE> = ::proto_vulcan::GoalCast::cast_into(c__); let r__: InferredGoal<DU, DE, Goal<DU, DE>> = proto_vulcan!([g__.clone(), g__]); r__ }])
}
pub fn case_505(vars: &Vars) -> InferredGoal<DU, DE, Goal<DU, DE>> {
    let x = vars.v[0].clone();
    proto_vulcan!([|tz| { [2, 1 | tz] != [2, 1, 3, 3], tz == [3, 3] }, [false, true, [x == [[[], true, 2] | [2, 1]], x == [[], 3, x]]], x != _])
}
pub fn case_506(vars: &Vars) -> InferredGoal<DU, DE, Goal<DU, DE>> {
    let x = vars.v[0].clone();
    proto_vulcan!([|fresh_name_9| { [2, 1 | fresh_name_9] != [2, 1, 3, 3], fresh_name_9 == [3, 3] }, [false, true, [x == [[[], true, 2] | [2, 1]], x == [[], 3, x]]], x != _])
}
pub fn case_507(vars: &Vars) -> InferredGoal<DU, DE, Goal<DU, DE>> {
    let x = vars.v[0].clone();
    proto_vulcan!([[x == x], closure { conde { [], [match x { 3 | [_] => [1 | []] == x, 2 => { append(x, x, [3]), [true, "a", x] == x }, Named { a: [x, 3], b: [_, []] } => x == x, }, [1] != x] } }])
}
pub fn case_508(vars: &Vars) -> InferredGoal<DU, DE, Goal<DU, DE>> {
    let x = vars.v[0].clone();
    proto_vulcan!([[x == x], closure { conde { [], [match x { 3 | [_] => [1 | []] == x, 2 => { append(x, x, [3]), [true, "a", x] == x }, Named { a: [fresh_name_9, 3], b: [_, []] } => fresh_name_9 == fresh_name_9, }, [1] != x] } }])
}
pub fn case_509(vars: &Vars) -> InferredGoal<DU, DE, Goal<DU, DE>> {
    let q = vars.v[0].clone();
    let x = vars.v[1].clone();
    proto_vulcan!([match q { [] => { [|y| { true, x == [y, y], [] == q }, [q == (1, _), x != ([], q)]] }, }, x == _, _ == q])
}
pub fn case_510(vars: &Vars) -> InferredGoal<DU, DE, Goal<DU, DE>> {
    let q = vars.v[0].clone();
    let x = vars.v[1].clone();
    proto_vulcan!([match q { [] => { [|fresh_name_9| { true, x == [fresh_name_9, fresh_name_9], [] == q }, [q == (1, _), x != ([], q)]] }, }, x == _, _ == q])
}
pub fn case_511(vars: &Vars) -> InferredGoal<DU, DE, Goal<DU, DE>> {
    let q = vars.v[0].clone();
    let x = vars.v[1].clone();
    proto_vulcan!([1 == x, x == [x, 3, x | x], closure { [|tz| { [2, 3, 3] != [2 | tz], tz == [3, 3] }, |x| { [x == [[], [] | x], false, q == (1, [])], conde { x == P3(3, [[], 2], _), [] } }] }])
}
pub fn case_512(vars: &Vars) -> InferredGoal<DU, DE, Goal<DU, DE>> {
    let q = vars.v[0].clone();
    let x = vars.v[1].clone();
    proto_vulcan!([1 == x, x == [x, 3, x | x], closure { [|tz| { [2, 3, 3] != [2 | tz], tz == [3, 3] }, |fresh_name_9| { [fresh_name_9 == [[], [] | fresh_name_9], false, q == (1, [])], conde { fresh_name_9 == P3(3, [[], 2], _), [] } }] }])
}
pub fn case_513(vars: &Vars) -> InferredGoal<DU, DE, Goal<DU, DE>> {
    let x = vars.v[0].clone();
    let y = vars.v[1].clone();
    proto_vulcan!([|y, x| { append(x, x, []) }, closure { conde { [[3, 1] == y, append(x, x, [])] } }])
}
pub fn case_514(vars: &Vars) -> InferredGoal<DU, DE, Goal<DU, DE>> {
    let x = vars.v[0].clone();
    let y = vars.v[1].clone();
    proto_vulcan!([|fresh_name_9, x| { append(x, x, []) }, closure { conde { [[3, 1] == y, append(x, x, [])] } }])
}
pub fn case_515(vars: &Vars) -> InferredGoal<DU, DE, Goal<DU, DE>> {
    let x = vars.v[0].clone();
    proto_vulcan!(['b' == x, true, { let c__: InferredGoal<DU, DE, Goal<DU, DE>> = proto_vulcan_closure!([|yy| { conde { [x == [yy | _], yy == 1], [x == [_, yy | _], yy == 2] } }, |tz| { [2 | tz] != [2, 1, 3], tz == [1, 3] }]); let g__: Goal<DU, DE> = ::proto_vulcan::GoalCast::cast_into(c__); let r__: InferredGoal<DU, DE, Goal<DU, DE>> = proto_vulcan!([g__.clone(), g__]); r__ }])
}
pub fn case_516(vars: &Vars) -> InferredGoal<DU, DE, Goal<DU, DE>> {
    let x = vars.v[0].clone();
    proto_vulcan!(['b' == x, true, { let c__: InferredGoal<DU, DE, Goal<DU, DE>> = proto_vulcan_closure!([|yy| { conde { [x == [yy | _], yy == 1], [x == [_, yy | _], yy == 2] } }, |fresh_name_9| { [2 | fresh_name_9] != [2, 1, 3], fresh_name_9 == [1, 3] }]); let g__: Goal<DU, DE> = ::proto_vulcan::GoalCast::cast_into(c__); let r__: InferredGoal<DU, DE, Goal<DU, DE>> = proto_vulcan!([g__.clone(), g__]); r__ }])
}
pub fn case_517(vars: &Vars) -> InferredGoal<DU, DE, Goal<DU, DE>> {
    let x = vars.v[0].clone();
    proto_vulcan!([matche x { [_] => , [x, [1, 2] | 1] => { |t| { true } }, 1 | P3([1], 1, [[], z]) => , }])
}
pub fn case_518(vars: &Vars) -> InferredGoal<DU, DE, Goal<DU, DE>> {
    let x = vars.v[0].clone();
    proto_vulcan!([matche x { [_] => , [x, [1, 2] | 1] => { |fresh_name_9| { true } }, 1 | P3([1], 1, [[], z]) => , }])
}
pub fn case_519(vars: &Vars) -> InferredGoal<DU, DE, Goal<DU, DE>> {
    let q = vars.v[0].clone();
    let x = vars.v[1].clone();
    proto_vulcan!([x == [2 | q], [], { let c__: InferredGoal<DU, DE, Goal<DU, DE>> = proto_vulcan_closure!([|yy| { conde { [x == [yy | _], yy == 1], [x == [_, yy | _], yy == 2] } }, |h, y| { |tz| { [3, 3 | tz] != [3, 3, 1], tz == [1] }, [2, h | x] == h, true }]); let g__: Goal<DU, DE> = ::proto_vulcan::GoalCast::cast_into(c__); let r__: InferredGoal<DU, DE, Goal<DU, DE>> = proto_vulcan!([g__.clone(), g__]); r__ }])
}
pub fn case_520(vars: &Vars) -> InferredGoal<DU, DE, Goal<DU, DE>> {
    let q = vars.v[0].clone();
    let x = vars.v[1].clone();
    proto_vulcan!([x == [2 | q], [], { let c__: InferredGoal<DU, DE, Goal<DU, DE>> = proto_vulcan_closure!([|yy| { conde { [x == [yy | _], yy == 1], [x == [_, yy | _], yy == 2] } }, |h, y| { |fresh_name_9| { [3, 3 | fresh_name_9] != [3, 3, 1], fresh_name_9 == [1] }, [2, h | x] == h, true }]); let g__: Goal<DU, DE> = ::proto_vulcan::GoalCast::cast_into(c__); let r__: InferredGoal<DU, DE, Goal<DU, DE>> = proto_vulcan!([g__.clone(), g__]); r__ }])
}
pub fn case_521(vars: &Vars) -> InferredGoal<DU, DE, Goal<DU, DE>> {
    let x = vars.v[0].clone();
    let y = vars.v[1].clone();
    proto_vulcan!([P3(2, [x], _) == y, |y, z| { |y, z| { |tz| { [2, 1, 2] != [2, 1 | tz], tz == [2] } }, [z, [y | z], 1 | []] != _, [] == y }, conde { true, [[false], P3([_], 3, 2) == x], [] }])
}
pub fn case_522(vars: &Vars) -> InferredGoal<DU, DE, Goal<DU, DE>> {
    let x = vars.v[0].clone();
    let y = vars.v[1].clone();
    proto_vulcan!([P3(2, [x], _) == y, |fresh_name_9, z| { |y, z| { |tz| { [2, 1, 2] != [2, 1 | tz], tz == [2] } }, [z, [fresh_name_9 | z], 1 | []] != _, [] == fresh_name_9 }, conde { true, [[false], P3([_], 3, 2) == x], [] }])
}
pub fn case_523(vars: &Vars) -> InferredGoal<DU, DE, Goal<DU, DE>> {
    let q = vars.v[0].clone();
    let x = vars.v[1].clone();
    proto_vulcan!([matche [1] { x => { |z, y| {  }, 1 == x }, }, 2 != [['a', 2], [x]], { let c__: InferredGoal<DU, DE, Goal<DU, DE>> = proto_vulcan_closure!([|yy| { conde { [x == [yy | _], yy == 1], [x == [_, yy | _], yy == 2] } }, q == []]); let g__: Goal<DU, DE> = ::proto_vulcan::GoalCast::cast_into(c__); let r__: InferredGoal<DU, DE, Goal<DU, DE>> = proto_vulcan!([g__.clone(), g__]); r__ }])
}
pub fn case_524(vars: &Vars) -> InferredGoal<DU, DE, Goal<DU, DE>> {
    let q = vars.v[0].clone();
    let x = vars.v[1].clone();
    proto_vulcan!([matche [1] { fresh_name_9 => { |z, y| {  }, 1 == fresh_name_9 }, }, 2 != [['a', 2], [x]], { let c__: InferredGoal<DU, DE, Goal<DU, DE>> = proto_vulcan_closure!([|yy| { conde { [x == [yy | _], yy == 1], [x == [_, yy | _], yy == 2] } }, q == []]); let g__: Goal<DU, DE> = ::proto_vulcan::GoalCast::cast_into(c__); let r__: InferredGoal<DU, DE, Goal<DU, DE>> = proto_vulcan!([g__.clone(), g__]); r__ }])
}
pub fn case_525(vars: &Vars) -> InferredGoal<DU, DE, Goal<DU, DE>> {
    let x = vars.v[0].clone();
    let y = vars.v[1].clone();
    proto_vulcan!([|t, x| { ([_, []], 3) == x, |y| { [] } }, closure { conde { [] } }])
}
pub fn case_526(vars: &Vars) -> InferredGoal<DU, DE, Goal<DU, DE>> {
    let x = vars.v[0].clone();
    let y = vars.v[1].clone();
    proto_vulcan!([|t, fresh_name_9| { ([_, []], 3) == fresh_name_9, |y| { [] } }, closure { conde { [] } }])
}
pub fn case_527(vars: &Vars) -> InferredGoal<DU, DE, Goal<DU, DE>> {
    let q = vars.v[0].clone();
    let x = vars.v[1].clone();
    proto_vulcan!([P3(2, 1, _) != q, |tz| { [1, 1] != [1 | tz], tz == [1] }])
}
pub fn case_528(vars: &Vars) -> InferredGoal<DU, DE, Goal<DU, DE>> {
    let q = vars.v[0].clone();
    let x = vars.v[1].clone();
    proto_vulcan!([P3(2, 1, _) != q, |fresh_name_9| { [1, 1] != [1 | fresh_name_9], fresh_name_9 == [1] }])
}
pub fn case_529(vars: &Vars) -> InferredGoal<DU, DE, Goal<DU, DE>> {
    let x = vars.v[0].clone();
    let y = vars.v[1].clone();
    proto_vulcan!([y != [y | _], y != P3(3, [[]], x), [[2, x, 1] | 3] == x, { let c__: InferredGoal<DU, DE, Goal<DU, DE>> = proto_vulcan_closure!([|yy| { conde { [y == [yy | _], yy == 1], [y == [_, yy | _], yy == 2] } }, true]); let g__: Goal<DU, DE> = ::proto_vulcan::GoalCast::cast_into(c__); let r__: InferredGoal<DU, DE, Goal<DU, DE>> = proto_vulcan!([g__.clone(), g__]); r__ }])
}
pub fn case_530(vars: &Vars) -> InferredGoal<DU, DE, Goal<DU, DE>> {
    let x = vars.v[0].clone();
    let y = vars.v[1].clone();
    proto_vulcan!([y != [y | _], y != P3(3, [[]], x), [[2, x, 1] | 3] == x, { let c__: InferredGoal<DU, DE, Goal<DU, DE>> = proto_vulcan_closure!([|fresh_name_9| { conde { [y == [fresh_name_9 | _], fresh_name_9 == 1], [y == [_, fresh_name_9 | _], fresh_name_9 == 2] } }, true]); let g__: Goal<DU, DE> = ::proto_vulcan::GoalCast::cast_into(c__); let r__: InferredGoal<DU, DE, Goal<DU, DE>> = proto_vulcan!([g__.clone(), g__]); r__ }])
}
pub fn case_531(vars: &Vars) -> InferredGoal<DU, DE, Goal<DU, DE>> {
    let x = vars.v[0].clone();
    let y = vars.v[1].clone();
    proto_vulcan!([match y { [2 | [x]] => , }, |z, h| { [x != P3([2, []], y, [1, 2]), conde { [], true, [] }], matche y { Named { a: [_], b: [_, []] } | [[[], y, 2]] => { [] }, P3([], _, z) => [|x, z| { |tz| { tz == [1, 2], [1, 1, 2] != [1 | tz] }, (x, 3) != [1, [h | z], [z]] }, [[[], z, true | []], [z, _, h | z], [x]] == x], }, [true, y, _] != h }, |y| { match y { P3(z, [h, _], 1) => { (h, h) == h }, [[z, z, _ | 'b'], 1] => [y == y, x == _], } }])
}
pub fn case_532(vars: &Vars) -> InferredGoal<DU, DE, Goal<DU, DE>> {
    let x = vars.v[0].clone();
    let y = vars.v[1].clone();
    proto_vulcan!([match y { [2 | [x]] => , }, |fresh_name_9, h| { [x != P3([2, []], y, [1, 2]), conde { [], true, [] }], matche y { Named { a: [_], b: [_, []] } | [[[], y, 2]] => { [] }, P3([], _, z) => [|x, z| { |tz| { tz == [1, 2], [1, 1, 2] != [1 | tz] }, (x, 3) != [1, [h | z], [z]] }, [[[], z, true | []], [z, _, h | z], [x]] == x], }, [true, y, _] != h }, |y| { match y { P3(z, [h, _], 1) => { (h, h) == h }, [[z, z, _ | 'b'], 1] => [y == y, x == _], } }])
}
pub fn case_533(vars: &Vars) -> InferredGoal<DU, DE, Goal<DU, DE>> {
    let x = vars.v[0].clone();
    proto_vulcan!([false, ([], 2) == x, |z| {  }])
}
pub fn case_534(vars: &Vars) -> InferredGoal<DU, DE, Goal<DU, DE>> {
    let x = vars.v[0].clone();
    proto_vulcan!([false, ([], 2) == x, |fresh_name_9| {  }])
}
pub fn case_535(vars: &Vars) -> InferredGoal<DU, DE, Goal<DU, DE>> {
    let q = vars.v[0].clone();
    let x = vars.v[1].clone();
    proto_vulcan!([P3([x, q], 3, 2) == q, match q { [[2, 2], 1] | _ => match q { _ | P3([], _, [2, _]) => [conde { [[3, x, x | x], [x, _, q | _], _] == [], [] }, |z| { |tz| { tz == [3, 1], [2, 3, 1] != [2 | tz] }, member(q, []), [q, "a", _] == q }], 2 => { conde { [[q | q] == q, [q, x, _] == q] } }, x => , }, 3 | [[x], z, 1] => { q == false, conde { member(q, [1]), false } }, }])
}
pub fn case_536(vars: &Vars) -> InferredGoal<DU, DE, Goal<DU, DE>> {
    let q = vars.v[0].clone();
    let x = vars.v[1].clone();
    proto_vulcan!([P3([x, q], 3, 2) == q, match q { [[2, 2], 1] | _ => match q { _ | P3([], _, [2, _]) => [conde { [[3, x, x | x], [x, _, q | _], _] == [], [] }, |fresh_name_9| { |tz| { tz == [3, 1], [2, 3, 1] != [2 | tz] }, member(q, []), [q, "a", _] == q }], 2 => { conde { [[q | q] == q, [q, x, _] == q] } }, x => , }, 3 | [[x], z, 1] => { q == false, conde { member(q, [1]), false } }, }])
}
pub fn case_537(vars: &Vars) -> InferredGoal<DU, DE, Goal<DU, DE>> {
    let x = vars.v[0].clone();
    let y = vars.v[1].clone();
    proto_vulcan!([matche [y, x, x] { _ => , P3([[]], [2], []) => [conde { ['a', true | x] == y, |t| { x == 2 }, [] }, [[y, 1 | x], [false, "a", y], x] == []], t => { |tz| { tz == [3], [3, 3] != [3 | tz] } }, }, member(y, [3]), closure { [matche [1, _ | x] { [[1], [2, _, _ | h], ['a', 2, z]] => , }, matche x { [[t | t], [x, 3, _] | _] => { conde { [[[]] == t, y != P3(2, _, [_])], [false, append(x, t, [2])] }, [x == 3] }, 3 => x != [3, y], [[z | t], [y, 2, _ | z]] => , }] }])
}
pub fn case_538(vars: &Vars) -> InferredGoal<DU, DE, Goal<DU, DE>> {
    let x = vars.v[0].clone();
    let y = vars.v[1].clone();
    proto_vulcan!([matche [y, x, x] { _ => , P3([[]], [2], []) => [conde { ['a', true | x] == y, |t| { x == 2 }, [] }, [[y, 1 | x], [false, "a", y], x] == []], t => { |fresh_name_9| { fresh_name_9 == [3], [3, 3] != [3 | fresh_name_9] } }, }, member(y, [3]), closure { [matche [1, _ | x] { [[1], [2, _, _ | h], ['a', 2, z]] => , }, matche x { [[t | t], [x, 3, _] | _] => { conde { [[[]] == t, y != P3(2, _, [_])], [false, append(x, t, [2])] }, [x == 3] }, 3 => x != [3, y], [[z | t], [y, 2, _ | z]] => , }] }])
}
pub fn case_539(vars: &Vars) -> InferredGoal<DU, DE, Goal<DU, DE>> {
    let x = vars.v[0].clone();
    let y = vars.v[1].clone();
    proto_vulcan!([|tz| { [3, 1 | tz] != [3, 1, 2], tz == [2] }, |t| { [[true, [3, y] == t, P3(1, t, [3]) != x]] }])
}
pub fn case_540(vars: &Vars) -> InferredGoal<DU, DE, Goal<DU, DE>> {
    let x = vars.v[0].clone();
    let y = vars.v[1].clone();
    proto_vulcan!([|tz| { [3, 1 | tz] != [3, 1, 2], tz == [2] }, |fresh_name_9| { [[true, [3, y] == fresh_name_9, P3(1, fresh_name_9, [3]) != x]] }])
}
pub fn case_541(vars: &Vars) -> InferredGoal<DU, DE, Goal<DU, DE>> {
    let x = vars.v[0].clone();
    proto_vulcan!([matche x { _ => [x == 7, x == 8], [[y, y, t | "a"] | 2] => [member(y, [1]), y != t], ["a", [3, 'b' | x] | 3] => [|x, t| { matche [x] { 1 => [member(t, [2, 3, 3]), [1] == x], _ => , }, |y| { true, x == x }, matche [t, 3] { [[z]] | [[2], [true | h]] => x == [[1, _, t], [x]], } }, match x { [[] | t] => [|y, t| { x == [1], [[1] | 3] == [[y, _, t | _], x | 2] }, _ == x], _ => [x, x, []] == x, [[t], [_]] => { matche x { [[], ['a', t, x]] | t => true, } }, }], }])
}
pub fn case_542(vars: &Vars) -> InferredGoal<DU, DE, Goal<DU, DE>> {
    let x = vars.v[0].clone();
    proto_vulcan!([matche x { _ => [x == 7, x == 8], [[y, y, t | "a"] | 2] => [member(y, [1]), y != t], ["a", [3, 'b' | x] | 3] => [|x, t| { matche [x] { 1 => [member(t, [2, 3, 3]), [1] == x], _ => , }, |y| { true, x == x }, matche [t, 3] { [[z]] | [[2], [true | h]] => x == [[1, _, t], [x]], } }, match x { [[] | t] => [|y, t| { x == [1], [[1] | 3] == [[y, _, t | _], x | 2] }, _ == x], _ => [x, x, []] == x, [[fresh_name_9], [_]] => { matche x { [[], ['a', t, x]] | t => true, } }, }], }])
}
pub fn case_543(vars: &Vars) -> InferredGoal<DU, DE, Goal<DU, DE>> {
    let q = vars.v[0].clone();
    let x = vars.v[1].clone();
    proto_vulcan!([match ['b', q] { _ | [[3, [] | h] | z] => [|t, z| {  }, (q, [q, _]) == x], }, |h| { matche q { [z, [t, h, h], [h, [], t] | y] => [3 == x, y == (_, [1, _])], [[2, t], [z] | y] => conde { [([], 3) == z, false], [], [false, |tz| { tz == [2, 2], [2, 2 | tz] != [2, 2, 2, 2] }] }, [t, 2, [1, h, x] | x] => match q { P3([_], t, _) => , _ => { member(h, [1, 2, 3]) }, }, } }])
}
pub fn case_544(vars: &Vars) -> InferredGoal<DU, DE, Goal<DU, DE>> {
    let q = vars.v[0].clone();
    let x = vars.v[1].clone();
    proto_vulcan!([match ['b', q] { _ | [[3, [] | h] | z] => [|t, z| {  }, (q, [q, _]) == x], }, |fresh_name_9| { matche q { [z, [t, h, h], [h, [], t] | y] => [3 == x, y == (_, [1, _])], [[2, t], [z] | y] => conde { [([], 3) == z, false], [], [false, |tz| { tz == [2, 2], [2, 2 | tz] != [2, 2, 2, 2] }] }, [t, 2, [1, h, x] | x] => match q { P3([_], t, _) => , _ => { member(h, [1, 2, 3]) }, }, } }])
}
pub fn case_545(vars: &Vars) -> InferredGoal<DU, DE, Goal<DU, DE>> {
    let x = vars.v[0].clone();
    let y = vars.v[1].clone();
    proto_vulcan!([matche [_ | y] { [["bc", "a", x | _], [y, 1 | 1], ["bc"]] => { match x { t => , "bc" => match y { _ | _ => member(x, [1, 2, 3]), [t, [z], t | z] => { true }, }, Named { a: 2, b: 3 } | _ => , }, x == [y, 2, [[], x, 1]] }, _ => matche y { [_, [3, []]] => { y != [2, y], |y| { |tz| { [2, 1, 1] != [2 | tz], tz == [1, 1] } } }, [[h]] | 2 => , y => , }, [[2, _, 2] | [[], []]] => [[([y], _) == P3([3], [2, 1], x), (_, []) == (_, [1]), conde { [append(y, y, [1]), true], [append(x, y, [2]), true], [[[], 2, y] == x, false] }], y != P3(x, [2, _], [])], }, y != P3(2, [x, y], 2)])
}
pub fn case_546(vars: &Vars) -> InferredGoal<DU, DE, Goal<DU, DE>> {
    let x = vars.v[0].clone();
    let y = vars.v[1].clone();
    proto_vulcan!([matche [_ | y] { [["bc", "a", x | _], [y, 1 | 1], ["bc"]] => { match x { fresh_name_9 => , "bc" => match y { _ | _ => member(x, [1, 2, 3]), [t, [z], t | z] => { true }, }, Named { a: 2, b: 3 } | _ => , }, x == [y, 2, [[], x, 1]] }, _ => matche y { [_, [3, []]] => { y != [2, y], |y| { |tz| { [2, 1, 1] != [2 | tz], tz == [1, 1] } } }, [[h]] | 2 => , y => , }, [[2, _, 2] | [[], []]] => [[([y], _) == P3([3], [2, 1], x), (_, []) == (_, [1]), conde { [append(y, y, [1]), true], [append(x, y, [2]), true], [[[], 2, y] == x, false] }], y != P3(x, [2, _], [])], }, y != P3(2, [x, y], 2)])
}
pub fn case_547(vars: &Vars) -> InferredGoal<DU, DE, Goal<DU, DE>> {
    let x = vars.v[0].clone();
    proto_vulcan!([[x == [x, true, x], conde { [[]], conde { [member(x, [3, 3]), (1, [[]]) == x], [[_, x | x] == x, 1 == x], [append(x, x, [1, 3]), false] } }, |x| { match x { t | [1, [z, 2, [] | [_, 2]], []] => , [[[]], x] => , }, append(x, x, []), match x { y => { [true] == x, |tz| { [2, 3, 2] != [2, 3 | tz], tz == [2] } }, P3(t, 1, 1) | t => x != 3, [[z] | []] => { [2, _] == z, [_ | [x, _]] == x }, } }], x == [2, [], x], |x| { member(x, [3, 3]) }, { let c__: InferredGoal<DU, DE, Goal<DU, DE>> = proto_vulcan_closure!(|yy| { conde { [x == [yy | _], yy == 1], [x == [_, yy | _], yy == 2] } }); let g__: Goal<DU, DE> = ::proto_vulcan::GoalCast::cast_into(c__); let r__: InferredGoal<DU, DE, Goal<DU, DE>> = proto_vulcan!([g__.clone(), g__]); r__ }])
}
pub fn case_548(vars: &Vars) -> InferredGoal<DU, DE, Goal<DU, DE>> {
    let x = vars.v[0].clone();
    proto_vulcan!([[x == [x, true, x], conde { [[]], conde { [member(x, [3, 3]), (1, [[]]) == x], [[_, x | x] == x, 1 == x], [append(x, x, [1, 3]), false] } }, |x| { match x { t | [1, [z, 2, [] | [_, 2]], []] => , [[[]], x] => , }, append(x, x, []), match x { y => { [true] == x, |tz| { [2, 3, 2] != [2, 3 | tz], tz == [2] } }, P3(t, 1, 1) | t => x != 3, [[z] | []] => { [2, _] == z, [_ | [x, _]] == x }, } }], x == [2, [], x], |x| { member(x, [3, 3]) }, { let c__: InferredGoal<DU, DE, Goal<DU, DE>> = proto_vulcan_closure!(|fresh_name_9| { conde { [x == [fresh_name_9 | _], fresh_name_9 == 1], [x == [_, fresh_name_9 | _], fresh_name_9 == 2] } }); let g__: Goal<DU, DE> = ::proto_vulcan::GoalCast::cast_into(c__); let r__: InferredGoal<DU, DE, Goal<DU, DE>> = proto_vulcan!([g__.clone(), g__]); r__ }])
}
pub fn case_549(vars: &Vars) -> InferredGoal<DU, DE, Goal<DU, DE>> {
    let x = vars.v[0].clone();
    let y = vars.v[1].clone();
    proto_vulcan!([matche y { [1, 1, [x, 'a' | []]] => { y == [_, 3, x] }, [[y, _, 'b'], t, t] => { y != ([2], [x]) }, [] => y != 2, }, [y, y, 1] == x, y == [1, _, 1]])
}
pub fn case_550(vars: &Vars) -> InferredGoal<DU, DE, Goal<DU, DE>> {
    let x = vars.v[0].clone();
    let y = vars.v[1].clone();
    proto_vulcan!([matche y { [1, 1, [x, 'a' | []]] => { y == [_, 3, x] }, [[fresh_name_9, _, 'b'], t, t] => { fresh_name_9 != ([2], [x]) }, [] => y != 2, }, [y, y, 1] == x, y == [1, _, 1]])
}
pub fn case_551(vars: &Vars) -> InferredGoal<DU, DE, Goal<DU, DE>> {
    let q = vars.v[0].clone();
    let x = vars.v[1].clone();
    proto_vulcan!([q == P3([1, []], _, _), match x { P3(t, 2, []) => [[]], Named { a: _, b: [2] } => , }, closure { [conde { [matche q { [[h, 2], [h, []]] => { h != x }, [[], [1, h, 2], [_, 2, 1]] => [([], [[], h]) != x, member(q, [1])], [['a', 2, 1], [[], 3, y | "a"], [_, y, 1 | [z]]] => , }, x == P3([2], q, 2)], append(q, x, [3]) }, |x| { |z, h| { [1] == z } }] }])
}
pub fn case_552(vars: &Vars) -> InferredGoal<DU, DE, Goal<DU, DE>> {
    let q = vars.v[0].clone();
    let x = vars.v[1].clone();
    proto_vulcan!([q == P3([1, []], _, _), match x { P3(t, 2, []) => [[]], Named { a: _, b: [2] } => , }, closure { [conde { [matche q { [[h, 2], [h, []]] => { h != x }, [[], [1, fresh_name_9, 2], [_, 2, 1]] => [([], [[], fresh_name_9]) != x, member(q, [1])], [['a', 2, 1], [[], 3, y | "a"], [_, y, 1 | [z]]] => , }, x == P3([2], q, 2)], append(q, x, [3]) }, |x| { |z, h| { [1] == z } }] }])
}
pub fn case_553(vars: &Vars) -> InferredGoal<DU, DE, Goal<DU, DE>> {
    let x = vars.v[0].clone();
    proto_vulcan!([append(x, x, [1, 1]), conde { [[[2, x], ['b']] == x, |tz| { [2, 3, 1] != [2, 3 | tz], tz == [1] }], [conde { |h| { x == [x, x, 2 | "bc"] }, [] }, true], [[x == [1 | x], [2, [x, 3, true]] != x, |y, z| { [3, 2] != y, y != [[2, 1, []], y | "bc"], [1, 1] != z }]] }])
}
pub fn case_554(vars: &Vars) -> InferredGoal<DU, DE, Goal<DU, DE>> {
    let x = vars.v[0].clone();
    proto_vulcan!([append(x, x, [1, 1]), conde { [[[2, x], ['b']] == x, |tz| { [2, 3, 1] != [2, 3 | tz], tz == [1] }], [conde { |fresh_name_9| { x == [x, x, 2 | "bc"] }, [] }, true], [[x == [1 | x], [2, [x, 3, true]] != x, |y, z| { [3, 2] != y, y != [[2, 1, []], y | "bc"], [1, 1] != z }]] }])
}
pub fn case_555(vars: &Vars) -> InferredGoal<DU, DE, Goal<DU, DE>> {
    let x = vars.v[0].clone();
    let y = vars.v[1].clone();
    proto_vulcan!([[y] != y, |tz| { tz == [2, 1], [1, 2, 1] != [1 | tz] }])
}
pub fn case_556(vars: &Vars) -> InferredGoal<DU, DE, Goal<DU, DE>> {
    let x = vars.v[0].clone();
    let y = vars.v[1].clone();
    proto_vulcan!([[y] != y, |fresh_name_9| { fresh_name_9 == [2, 1], [1, 2, 1] != [1 | fresh_name_9] }])
}
pub fn case_557(vars: &Vars) -> InferredGoal<DU, DE, Goal<DU, DE>> {
    let x = vars.v[0].clone();
    proto_vulcan!([x != P3(x, 1, [2, x]), _ != [[2, x, x | "a"]], { let c__: InferredGoal<DU, DE, Goal<DU, DE>> = proto_vulcan_closure!(|yy| { conde { [x == [yy | _], yy == 1], [x == [_, yy | _], yy == 2] } }); let g__: Goal<DU, DE> = ::proto_vulcan::GoalCast::cast_into(c__); let r__: InferredGoal<DU, DE, Goal<DU, DE>> = proto_vulcan!([g__.clone(), g__]); r__ }])
}
pub fn case_558(vars: &Vars) -> InferredGoal<DU, DE, Goal<DU, DE>> {
    let x = vars.v[0].clone();
    proto_vulcan!([x != P3(x, 1, [2, x]), _ != [[2, x, x | "a"]], { let c__: InferredGoal<DU, DE, Goal<DU, DE>> = proto_vulcan_closure!(|fresh_name_9| { conde { [x == [fresh_name_9 | _], fresh_name_9 == 1], [x == [_, fresh_name_9 | _], fresh_name_9 == 2] } }); let g__: Goal<DU, DE> = ::proto_vulcan::GoalCast::cast_into(c__); let r__: InferredGoal<DU, DE, Goal<DU, DE>> = proto_vulcan!([g__.clone(), g__]); r__ }])
}
pub fn case_559(vars: &Vars) -> InferredGoal<DU, DE, Goal<DU, DE>> {
    let q = vars.v[0].clone();
    let x = vars.v[1].clone();
    proto_vulcan!([q == q, q == [[q] | [q, x]], |z| { conde { [[member(x, []), q == (x, 1), member(x, [])]] }, match q { 3 => , [[h, 'a'], ['a', 3, 1], [2, 3, 2]] => { [z == (1, [[]]), |tz| { tz == [3], [2, 1, 3] != [2, 1 | tz] }, append(q, h, [2])], match x { [y, [[], y, y], h] | _ => [(z, []) != q, [1, 2, z] == z], } }, } }])
}
pub fn case_560(vars: &Vars) -> InferredGoal<DU, DE, Goal<DU, DE>> {
    let q = vars.v[0].clone();
    let x = vars.v[1].clone();
    proto_vulcan!([q == q, q == [[q] | [q, x]], |fresh_name_9| { conde { [[member(x, []), q == (x, 1), member(x, [])]] }, match q { 3 => , [[h, 'a'], ['a', 3, 1], [2, 3, 2]] => { [fresh_name_9 == (1, [[]]), |tz| { tz == [3], [2, 1, 3] != [2, 1 | tz] }, append(q, h, [2])], match x { [y, [[], y, y], h] | _ => [(fresh_name_9, []) != q, [1, 2, fresh_name_9] == fresh_name_9], } }, } }])
}
pub fn case_561(vars: &Vars) -> InferredGoal<DU, DE, Goal<DU, DE>> {
    let x = vars.v[0].clone();
    let y = vars.v[1].clone();
    proto_vulcan!([|tz| { tz == [2, 1], [1 | tz] != [1, 2, 1] }])
}
pub fn case_562(vars: &Vars) -> InferredGoal<DU, DE, Goal<DU, DE>> {
    let x = vars.v[0].clone();
    let y = vars.v[1].clone();
    proto_vulcan!([|fresh_name_9| { fresh_name_9 == [2, 1], [1 | fresh_name_9] != [1, 2, 1] }])
}
pub fn case_563(vars: &Vars) -> InferredGoal<DU, DE, Goal<DU, DE>> {
    let x = vars.v[0].clone();
    proto_vulcan!([|x| { [|h, x| { h == x }, [[3], [[]], [true, "bc", x]] != P3(2, x, [[], 1]), [1] == [x]], P3(x, [x, x], [x, x]) == x }, x != [2], closure { [|x, y| { matche x { [t] => [member(x, [3, 1]), false], } }, true] }])
}
pub fn case_564(vars: &Vars) -> InferredGoal<DU, DE, Goal<DU, DE>> {
    let x = vars.v[0].clone();
    proto_vulcan!([|x| { [|h, x| { h == x }, [[3], [[]], [true, "bc", x]] != P3(2, x, [[], 1]), [1] == [x]], P3(x, [x, x], [x, x]) == x }, x != [2], closure { [|x, y| { matche x { [fresh_name_9] => [member(x, [3, 1]), false], } }, true] }])
}
pub fn case_565(vars: &Vars) -> InferredGoal<DU, DE, Goal<DU, DE>> {
    let q = vars.v[0].clone();
    let x = vars.v[1].clone();
    proto_vulcan!([false, conde { [[conde { [[q, [], q] != x, [[x | x], [q, q, q], [x, _, []]] == q], [member(q, [3, 1]), append(x, q, [])] }, conde { q == [1, x, 3 | [_]], [true, false], [q == x, true] }], match x { _ => , [[_, y, 'a' | h] | 2] => [conde { |tz| { tz == [2, 2], [2, 2, 2, 2] != [2, 2 | tz] }, x == ([1, 1], 3), [[y, 3, [1 | h]] == y, append(y, x, [2, 3])] }, y != q], [['b', t, 1 | x]] => { |t, z| { _ == x, q == x } }, }], x != x, x == false }, q != (2, [1, _])])
}
pub fn case_566(vars: &Vars) -> InferredGoal<DU, DE, Goal<DU, DE>> {
    let q = vars.v[0].clone();
    let x = vars.v[1].clone();
    proto_vulcan!([false, conde { [[conde { [[q, [], q] != x, [[x | x], [q, q, q], [x, _, []]] == q], [member(q, [3, 1]), append(x, q, [])] }, conde { q == [1, x, 3 | [_]], [true, false], [q == x, true] }], match x { _ => , [[_, y, 'a' | h] | 2] => [conde { |tz| { tz == [2, 2], [2, 2, 2, 2] != [2, 2 | tz] }, x == ([1, 1], 3), [[y, 3, [1 | h]] == y, append(y, x, [2, 3])] }, y != q], [['b', fresh_name_9, 1 | x]] => { |t, z| { _ == x, q == x } }, }], x != x, x == false }, q != (2, [1, _])])
}
pub fn case_567(vars: &Vars) -> InferredGoal<DU, DE, Goal<DU, DE>> {
    let x = vars.v[0].clone();
    proto_vulcan!([matche x { [[2 | [1]]] | x => , Named { a: 1, b: 3 } => { x != P3(_, x, x) }, P3(_, [], [3, 2]) => , }, matche [2] { true => , [] | [2, _, [z | ["a", _]]] => [[[x, x, 1 | 1] == x]], [2] => { conde { [] == x, [conde { [], [[[3, x | [x]], [2], [x, 3, 1] | x] == "a", x != [x, 1]], [] }, x == 'b'] } }, }, { let c__: InferredGoal<DU, DE, Goal<DU, DE>> = proto_vulcan_closure!([|yy| { conde { [x == [yy | _], yy == 1], [x == [_, yy | _], yy == 2] } }, |tz| { [3, 3 | tz] != [3, 3, 1], tz == [1] }]); let g__: Goal<DU, DE> = ::proto_vulcan::GoalCast::cast_into(c__); let r__: InferredGoal<DU, DE, Goal<DU, DE>> = proto_vulcan!([g__.clone(), g__]); r__ }])
}
pub fn case_568(vars: &Vars) -> InferredGoal<DU, DE, Goal<DU, DE>> {
    let x = vars.v[0].clone();
    proto_vulcan!([matche x { [[2 | [1]]] | x => , Named { a: 1, b: 3 } => { x != P3(_, x, x) }, P3(_, [], [3, 2]) => , }, matche [2] { true => , [] | [2, _, [z | ["a", _]]] => [[[x, x, 1 | 1] == x]], [2] => { conde { [] == x, [conde { [], [[[3, x | [x]], [2], [x, 3, 1] | x] == "a", x != [x, 1]], [] }, x == 'b'] } }, }, { let c__: InferredGoal<DU, DE, Goal<DU, DE>> = proto_vulcan_closure!([|yy| { conde { [x == [yy | _], yy == 1], [x == [_, yy | _], yy == 2] } }, |fresh_name_9| { [3, 3 | fresh_name_9] != [3, 3, 1], fresh_name_9 == [1] }]); let g__: Goal<DU, DE> = ::proto_vulcan::GoalCast::cast_into(c__); let r__: InferredGoal<DU, DE, Goal<DU, DE>> = proto_vulcan!([g__.clone(), g__]); r__ }])
}
pub fn case_569(vars: &Vars) -> InferredGoal<DU, DE, Goal<DU, DE>> {
    let x = vars.v[0].clone();
    proto_vulcan!([[2, _, _ | x] == x, matche x { 3 => { conde { [], [|y| { false, x == (_, 2) }, match x { _ => { x == [3, x] }, [_, [h, [], t] | z] | [[y, "bc", 1 | _], [t, 1, false | _], [[], h, 1]] => , }], match x { [t, ["a", x], ["a", "a", [] | _]] => { P3(x, x, 1) == x }, [z, [y], [t, h, true]] => t == [[[], 1, 2]], } } }, _ => { member(x, [1, 2, 3]) }, Named { a: t, b: _ } => , }, 2 == _])
}
pub fn case_570(vars: &Vars) -> InferredGoal<DU, DE, Goal<DU, DE>> {
    let x = vars.v[0].clone();
    proto_vulcan!([[2, _, _ | x] == x, matche x { 3 => { conde { [], [|y| { false, x == (_, 2) }, match x { _ => { x == [3, x] }, [_, [h, [], t] | z] | [[y, "bc", 1 | _], [t, 1, false | _], [[], h, 1]] => , }], match x { [t, ["a", x], ["a", "a", [] | _]] => { P3(x, x, 1) == x }, [z, [y], [t, fresh_name_9, true]] => t == [[[], 1, 2]], } } }, _ => { member(x, [1, 2, 3]) }, Named { a: t, b: _ } => , }, 2 == _])
}
pub fn case_571(vars: &Vars) -> InferredGoal<DU, DE, Goal<DU, DE>> {
    let q = vars.v[0].clone();
    let x = vars.v[1].clone();
    proto_vulcan!([q == [x], matche q { [1, [z, y, t]] => , [[z, 'b', 1 | x], [[], x], 'a'] => conde { [[x, true] == x, append(x, q, [3])], x == ['b', [[], []]], [] }, }, |tz| { tz == [2, 1], [1, 2 | tz] != [1, 2, 2, 1] }])
}
pub fn case_572(vars: &Vars) -> InferredGoal<DU, DE, Goal<DU, DE>> {
    let q = vars.v[0].clone();
    let x = vars.v[1].clone();
    proto_vulcan!([q == [x], matche q { [1, [fresh_name_9, y, t]] => , [[z, 'b', 1 | x], [[], x], 'a'] => conde { [[x, true] == x, append(x, q, [3])], x == ['b', [[], []]], [] }, }, |tz| { tz == [2, 1], [1, 2 | tz] != [1, 2, 2, 1] }])
}
pub fn case_573(vars: &Vars) -> InferredGoal<DU, DE, Goal<DU, DE>> {
    let x = vars.v[0].clone();
    let y = vars.v[1].clone();
    proto_vulcan!([(1, [_, 3]) != y, P3(x, x, 3) == y, [|h| { y == 2 }]])
}
pub fn case_574(vars: &Vars) -> InferredGoal<DU, DE, Goal<DU, DE>> {
    let x = vars.v[0].clone();
    let y = vars.v[1].clone();
    proto_vulcan!([(1, [_, 3]) != y, P3(x, x, 3) == y, [|fresh_name_9| { y == 2 }]])
}
pub fn case_575(vars: &Vars) -> InferredGoal<DU, DE, Goal<DU, DE>> {
    let x = vars.v[0].clone();
    proto_vulcan!([match x { P3(1, 3, [3, t]) => { x == [x | t], append(x, x, []) }, "bc" => conde { [[_ | x] != x, match x { [_, []] | [2, [2, y, 3 | z] | x] => , _ => , [[h, 3], [y, [], 1], h | x] => x == (x, []), }] }, Named { a: [], b: 3 } => { |tz| { tz == [3, 1], [3, 3, 1] != [3 | tz] }, append(x, x, [2]) }, }, conde { [[_, 3, 1] == [3], []] }, { let c__: InferredGoal<DU, DE, Goal<DU, DE>> = proto_vulcan_closure!(|yy| { conde { [x == [yy | _], yy == 1], [x == [_, yy | _], yy == 2] } }); let g__: Goal<DU, DE> = ::proto_vulcan::GoalCast::cast_into(c__); let r__: InferredGoal<DU, DE, Goal<DU, DE>> = proto_vulcan!([g__.clone(), g__]); r__ }])
}
pub fn case_576(vars: &Vars) -> InferredGoal<DU, DE, Goal<DU, DE>> {
    let x = vars.v[0].clone();
    proto_vulcan!([match x { P3(1, 3, [3, t]) => { x == [x | t], append(x, x, []) }, "bc" => conde { [[_ | x] != x, match x { [_, []] | [2, [2, y, 3 | z] | x] => , _ => , [[h, 3], [y, [], 1], h | x] => x == (x, []), }] }, Named { a: [], b: 3 } => { |fresh_name_9| { fresh_name_9 == [3, 1], [3, 3, 1] != [3 | fresh_name_9] }, append(x, x, [2]) }, }, conde { [[_, 3, 1] == [3], []] }, { let c__: InferredGoal<DU, DE, Goal<DU, DE>> = proto_vulcan_closure!(|yy| { conde { [x == [yy | _], yy == 1], [x == [_, yy | _], yy == 2] } }); let g__: Goal<DU, DE> = ::proto_vulcan::GoalCast::cast_into(c__); let r__: InferredGoal<DU, DE, Goal<DU, DE>> = proto_vulcan!([g__.clone(), g__]); r__ }])
}
pub fn case_577(vars: &Vars) -> InferredGoal<DU, DE, Goal<DU, DE>> {
    let x = vars.v[0].clone();
    proto_vulcan!([match x { Named { a: _, b: t } => |t| { [[t, x] == t, x == t, [[t, t], x, t] == t], [3, 1 | t] == ["bc", [_, x] | t], |z, t| { [1, _ | x] != [[2, 2 | t]], member(z, [2]) } }, 2 | Named { a: y, b: 3 } => [[x == [x], match x { Named { a: _, b: t } | 2 => P3([], 2, x) != x, 3 => [[x, 'a'], []] != x, x => , }]], 'a' => [conde { [conde { [] }, x == [3]], [x == x, [[2, "bc" | x]] == ([2], _)], [([], [1, x]) != x, [] == P3(_, [], x)] }, x == [[], 1]], }, x == [[], x | x]])
}
pub fn case_578(vars: &Vars) -> InferredGoal<DU, DE, Goal<DU, DE>> {
    let x = vars.v[0].clone();
    proto_vulcan!([match x { Named { a: _, b: t } => |fresh_name_9| { [[fresh_name_9, x] == fresh_name_9, x == fresh_name_9, [[fresh_name_9, fresh_name_9], x, fresh_name_9] == fresh_name_9], [3, 1 | fresh_name_9] == ["bc", [_, x] | fresh_name_9], |z, t| { [1, _ | x] != [[2, 2 | t]], member(z, [2]) } }, 2 | Named { a: y, b: 3 } => [[x == [x], match x { Named { a: _, b: t } | 2 => P3([], 2, x) != x, 3 => [[x, 'a'], []] != x, x => , }]], 'a' => [conde { [conde { [] }, x == [3]], [x == x, [[2, "bc" | x]] == ([2], _)], [([], [1, x]) != x, [] == P3(_, [], x)] }, x == [[], 1]], }, x == [[], x | x]])
}
pub fn case_579(vars: &Vars) -> InferredGoal<DU, DE, Goal<DU, DE>> {
    let x = vars.v[0].clone();
    let y = vars.v[1].clone();
    proto_vulcan!([|h, z| { |h, t| { matche h { _ => , } }, |tz| { [1, 3, 3, 2] != [1, 3 | tz], tz == [3, 2] }, |tz| { [1, 1 | tz] != [1, 1, 1, 2], tz == [1, 2] } }])
}
pub fn case_580(vars: &Vars) -> InferredGoal<DU, DE, Goal<DU, DE>> {
    let x = vars.v[0].clone();
    let y = vars.v[1].clone();
    proto_vulcan!([|h, z| { |h, t| { matche h { _ => , } }, |tz| { [1, 3, 3, 2] != [1, 3 | tz], tz == [3, 2] }, |fresh_name_9| { [1, 1 | fresh_name_9] != [1, 1, 1, 2], fresh_name_9 == [1, 2] } }])
}
pub fn case_581(vars: &Vars) -> InferredGoal<DU, DE, Goal<DU, DE>> {
    let x = vars.v[0].clone();
    let y = vars.v[1].clone();
    proto_vulcan!([[x, y | x] != y, matche [1, 'a'] { 3 | _ => conde { [2 != [], x == []], [['a', [2, 'a', y | [3]], _] != x, ['b', y | y] != y] }, [[t], y] | _ => , [[3, t, z | h], [2, 2], 'a'] | _ => |x| { matche y { [[1, t], [1]] => y == P3([t, x], [2], y), [h | _] => y == h, P3(t, [t], t) => , }, x != [2, [2, false, [] | true] | x], |h| { y == y, x == P3([], [[]], 3), |tz| { [3 | tz] != [3, 3], tz == [3] } } }, }, { let c__: InferredGoal<DU, DE, Goal<DU, DE>> = proto_vulcan_closure!([|yy| { conde { [y == [yy | _], yy == 1], [y == [_, yy | _], yy == 2] } }, [[3] | y] != y]); let g__: Goal<DU, DE> = ::proto_vulcan::GoalCast::cast_into(c__); let r__: InferredGoal<DU, DE, Goal<DU, DE>> = proto_vulcan!([g__.clone(), g__]); r__ }])
}
pub fn case_582(vars: &Vars) -> InferredGoal<DU, DE, Goal<DU, DE>> {
    let x = vars.v[0].clone();
    let y = vars.v[1].clone();
    proto_vulcan!([[x, y | x] != y, matche [1, 'a'] { 3 | _ => conde { [2 != [], x == []], [['a', [2, 'a', y | [3]], _] != x, ['b', y | y] != y] }, [[t], y] | _ => , [[3, t, z | h], [2, 2], 'a'] | _ => |x| { matche y { [[1, t], [1]] => y == P3([t, x], [2], y), [h | _] => y == h, P3(t, [t], t) => , }, x != [2, [2, false, [] | true] | x], |h| { y == y, x == P3([], [[]], 3), |fresh_name_9| { [3 | fresh_name_9] != [3, 3], fresh_name_9 == [3] } } }, }, { let c__: InferredGoal<DU, DE, Goal<DU, DE>> = proto_vulcan_closure!([|yy| { conde { [y == [yy | _], yy == 1], [y == [_, yy | _], yy == 2] } }, [[3] | y] != y]); let g__: Goal<DU, DE> = ::proto_vulcan::GoalCast::cast_into(c__); let r__: InferredGoal<DU, DE, Goal<DU, DE>> = proto_vulcan!([g__.clone(), g__]); r__ }])
}
pub fn case_583(vars: &Vars) -> InferredGoal<DU, DE, Goal<DU, DE>> {
    let x = vars.v[0].clone();
    proto_vulcan!([|h| { h == [2, 1, x] }])
}
pub fn case_584(vars: &Vars) -> InferredGoal<DU, DE, Goal<DU, DE>> {
    let x = vars.v[0].clone();
    proto_vulcan!([|fresh_name_9| { fresh_name_9 == [2, 1, x] }])
}
pub fn case_585(vars: &Vars) -> InferredGoal<DU, DE, Goal<DU, DE>> {
    let q = vars.v[0].clone();
    let x = vars.v[1].clone();
    proto_vulcan!([matche q { P3(1, y, []) => |z, y| { [3, _] == (y, y), y == q }, }, matche x { [3, [2, y]] => { [q, 1] == x, conde { [false, [true, 3] != x], [true, matche x { [[3, 1, _ | h], [[] | z]] => true, [x, [z, h | _], [2, _, _] | x] | P3([_], 3, []) => , [h] => , }] } }, [[[]], [1]] | [[1, _]] => , [[], 1, [y, 1]] => matche 3 { _ | 3 => { conde { member(x, [1]), [q != [false, 1, q], 2 != y], [] } }, _ => { y == 7, y == 8 }, }, }, match q { _ => conde { [([], [2]) == q, [3, _] != x], [[true, [x, 3, 1] == x], x == true] }, }])
}
pub fn case_586(vars: &Vars) -> InferredGoal<DU, DE, Goal<DU, DE>> {
    let q = vars.v[0].clone();
    let x = vars.v[1].clone();
    proto_vulcan!([matche q { P3(1, y, []) => |z, y| { [3, _] == (y, y), y == q }, }, matche x { [3, [2, y]] => { [q, 1] == x, conde { [false, [true, 3] != x], [true, matche x { [[3, 1, _ | h], [[] | z]] => true, [x, [z, h | _], [2, _, _] | x] | P3([_], 3, []) => , [h] => , }] } }, [[[]], [1]] | [[1, _]] => , [[], 1, [fresh_name_9, 1]] => matche 3 { _ | 3 => { conde { member(x, [1]), [q != [false, 1, q], 2 != fresh_name_9], [] } }, _ => { fresh_name_9 == 7, fresh_name_9 == 8 }, }, }, match q { _ => conde { [([], [2]) == q, [3, _] != x], [[true, [x, 3, 1] == x], x == true] }, }])
}
pub fn case_587(vars: &Vars) -> InferredGoal<DU, DE, Goal<DU, DE>> {
    let x = vars.v[0].clone();
    let y = vars.v[1].clone();
    proto_vulcan!([[_, "a" | x] == y, match [_, 3, y] { _ => member(x, [1, 2, 3]), _ => [append(x, y, [3]), |h| { [y, "a"] == x, false != y }], [[3], 3, [x, _]] => [|x, y| { [x, 'a'] == y, |x| {  }, |h| { y == [2 | [x]], [h, 2] == h, y != x } }, matche x { P3([[], 2], 1, _) => { x == P3(y, [3, []], y), x == [1, 1, x] }, }], }, x == ([y, []], [x])])
}
pub fn case_588(vars: &Vars) -> InferredGoal<DU, DE, Goal<DU, DE>> {
    let x = vars.v[0].clone();
    let y = vars.v[1].clone();
    proto_vulcan!([[_, "a" | x] == y, match [_, 3, y] { _ => member(x, [1, 2, 3]), _ => [append(x, y, [3]), |h| { [y, "a"] == x, false != y }], [[3], 3, [x, _]] => [|x, y| { [x, 'a'] == y, |fresh_name_9| {  }, |h| { y == [2 | [x]], [h, 2] == h, y != x } }, matche x { P3([[], 2], 1, _) => { x == P3(y, [3, []], y), x == [1, 1, x] }, }], }, x == ([y, []], [x])])
}
pub fn case_589(vars: &Vars) -> InferredGoal<DU, DE, Goal<DU, DE>> {
    let x = vars.v[0].clone();
    let y = vars.v[1].clone();
    proto_vulcan!([[1, [x, 'a'], [_ | y] | x] == P3(x, [], y), |tz| { [3, 3 | tz] != [3, 3, 1], tz == [1] }, match [false] { [t | _] | Named { a: _, b: z } => { [[x == ["bc", y, x], append(y, y, [1]), member(y, [3, 1, 3])]] }, [y] => , }])
}
pub fn case_590(vars: &Vars) -> InferredGoal<DU, DE, Goal<DU, DE>> {
    let x = vars.v[0].clone();
    let y = vars.v[1].clone();
    proto_vulcan!([[1, [x, 'a'], [_ | y] | x] == P3(x, [], y), |fresh_name_9| { [3, 3 | fresh_name_9] != [3, 3, 1], fresh_name_9 == [1] }, match [false] { [t | _] | Named { a: _, b: z } => { [[x == ["bc", y, x], append(y, y, [1]), member(y, [3, 1, 3])]] }, [y] => , }])
}
pub fn case_591(vars: &Vars) -> InferredGoal<DU, DE, Goal<DU, DE>> {
    let x = vars.v[0].clone();
    proto_vulcan!([|y| { conde { matche y { [[z, false]] => , h => , }, [|h| { y == y, h == [[[] | y], [[], y, []], 3] }, ["a", 3, []] != x] }, "a" == false }])
}
pub fn case_592(vars: &Vars) -> InferredGoal<DU, DE, Goal<DU, DE>> {
    let x = vars.v[0].clone();
    proto_vulcan!([|y| { conde { matche y { [[z, false]] => , h => , }, [|fresh_name_9| { y == y, fresh_name_9 == [[[] | y], [[], y, []], 3] }, ["a", 3, []] != x] }, "a" == false }])
}
pub fn case_593(vars: &Vars) -> InferredGoal<DU, DE, Goal<DU, DE>> {
    let x = vars.v[0].clone();
    let y = vars.v[1].clone();
    proto_vulcan!([|tz| { [3, 3, 3, 2] != [3, 3 | tz], tz == [3, 2] }, matche y { z => { [[], 2, y] == 'b', [] }, [1, 2] => { conde { [append(y, y, [2]), match y { 3 => , }], matche y { [1, [2, h]] => [[1, x, _], [2 | x], [_]] == h, [_, [1, 3, 'a']] => { x == [_, 1], [_, y, "bc" | y] != y }, }, y == [y, y | y] } }, }, [[]] != x])
}
pub fn case_594(vars: &Vars) -> InferredGoal<DU, DE, Goal<DU, DE>> {
    let x = vars.v[0].clone();
    let y = vars.v[1].clone();
    proto_vulcan!([|tz| { [3, 3, 3, 2] != [3, 3 | tz], tz == [3, 2] }, matche y { z => { [[], 2, y] == 'b', [] }, [1, 2] => { conde { [append(y, y, [2]), match y { 3 => , }], matche y { [1, [2, fresh_name_9]] => [[1, x, _], [2 | x], [_]] == fresh_name_9, [_, [1, 3, 'a']] => { x == [_, 1], [_, y, "bc" | y] != y }, }, y == [y, y | y] } }, }, [[]] != x])
}
pub fn case_595(vars: &Vars) -> InferredGoal<DU, DE, Goal<DU, DE>> {
    let x = vars.v[0].clone();
    proto_vulcan!([match x { [1] => { |t, x| { x == [] }, conde { [x, x, _] != x } }, }, matche x { P3(z, z, _) => { [|t| { true, [] == t }], |t, z| {  } }, [[2, 2 | z], [2, x | t], [y, 1, []]] => , _ => { member(x, [2]) }, }, match x { ['b' | h] | false => match x { [1] => [P3(x, x, 3) == x, |h, t| { h == t, [false, x, t | x] == h }], P3(_, 3, _) | _ => [[2, x, x] == x, [true, [[x], [2], 1] == 'b']], }, _ => { member(x, [1, 2, 3]) }, }, { let c__: InferredGoal<DU, DE, Goal<DU, DE>> = proto_vulcan_closure!([|yy| { conde { [x == [yy | _], yy == 1], [x == [_, yy | _], yy == 2] } }, match x { false => , }]); let g__: Goal<DU, DE> = ::proto_vulcan::GoalCast::cast_into(c__); let r__: InferredGoal<DU, DE, Goal<DU, DE>> = proto_vulcan!([g__.clone(), g__]); r__ }])
}
pub fn case_596(vars: &Vars) -> InferredGoal<DU, DE, Goal<DU, DE>> {
    let x = vars.v[0].clone();
    proto_vulcan!([match x { [1] => { |t, fresh_name_9| { fresh_name_9 == [] }, conde { [x, x, _] != x } }, }, matche x { P3(z, z, _) => { [|t| { true, [] == t }], |t, z| {  } }, [[2, 2 | z], [2, x | t], [y, 1, []]] => , _ => { member(x, [2]) }, }, match x { ['b' | h] | false => match x { [1] => [P3(x, x, 3) == x, |h, t| { h == t, [false, x, t | x] == h }], P3(_, 3, _) | _ => [[2, x, x] == x, [true, [[x], [2], 1] == 'b']], }, _ => { member(x, [1, 2, 3]) }, }, { let c__: InferredGoal<DU, DE, Goal<DU, DE>> = proto_vulcan_closure!([|yy| { conde { [x == [yy | _], yy == 1], [x == [_, yy | _], yy == 2] } }, match x { false => , }]); let g__: Goal<DU, DE> = ::proto_vulcan::GoalCast::cast_into(c__); let r__: InferredGoal<DU, DE, Goal<DU, DE>> = proto_vulcan!([g__.clone(), g__]); r__ }])
}
pub fn case_597(vars: &Vars) -> InferredGoal<DU, DE, Goal<DU, DE>> {
    let q = vars.v[0].clone();
    let x = vars.v[1].clone();
    proto_vulcan!([conde { false, x == [[1, []], [q]], [member(x, [2, 1]), true] }, |tz| { [3, 2, 2] != [3 | tz], tz == [2, 2] }, |tz| { tz == [2, 1], [2 | tz] != [2, 2, 1] }])
}
pub fn case_598(vars: &Vars) -> InferredGoal<DU, DE, Goal<DU, DE>> {
    let q = vars.v[0].clone();
    let x = vars.v[1].clone();
    proto_vulcan!([conde { false, x == [[1, []], [q]], [member(x, [2, 1]), true] }, |tz| { [3, 2, 2] != [3 | tz], tz == [2, 2] }, |fresh_name_9| { fresh_name_9 == [2, 1], [2 | fresh_name_9] != [2, 2, 1] }])
}
pub fn case_599(vars: &Vars) -> InferredGoal<DU, DE, Goal<DU, DE>> {
    let x = vars.v[0].clone();
    let y = vars.v[1].clone();
    proto_vulcan!([[[_ | x] == y, [y == [3]]], [x | x] == x, { let c__: InferredGoal<DU, DE, Goal<DU, DE>> = proto_vulcan_closure!(|yy| { conde { [y == [yy | _], yy == 1], [y == [_, yy | _], yy == 2] } }); let g__: Goal<DU, DE> = ::proto_vulcan::GoalCast::cast_into(c__); let r__: InferredGoal<DU, DE, Goal<DU, DE>> = proto_vulcan!([g__.clone(), g__]); r__ }])
}
pub fn case_600(vars: &Vars) -> InferredGoal<DU, DE, Goal<DU, DE>> {
    let x = vars.v[0].clone();
    let y = vars.v[1].clone();
    proto_vulcan!([[[_ | x] == y, [y == [3]]], [x | x] == x, { let c__: InferredGoal<DU, DE, Goal<DU, DE>> = proto_vulcan_closure!(|fresh_name_9| { conde { [y == [fresh_name_9 | _], fresh_name_9 == 1], [y == [_, fresh_name_9 | _], fresh_name_9 == 2] } }); let g__: Goal<DU, DE> = ::proto_vulcan::GoalCast::cast_into(c__); let r__: InferredGoal<DU, DE, Goal<DU, DE>> = proto_vulcan!([g__.clone(), g__]); r__ }])
}
pub fn case_601(vars: &Vars) -> InferredGoal<DU, DE, Goal<DU, DE>> {
    let x = vars.v[0].clone();
    let y = vars.v[1].clone();
    proto_vulcan!([|t| { match y { [[2, h, "a"], [false, 'a', t], [[]]] => [[], matche h { [[z, t, 2 | z], [t]] => { x == [[], [], t], y == [1, [_ | "bc"], [[], h | [false]] | 2] }, [] | _ => { 'a' == t }, [2] => , }], t | [1, "bc" | _] => { y == x, |y| { P3(1, 3, y) != y } }, }, conde { x == [1], conde { [], x == 1 }, [y != [2 | y], conde { (_, t) == x, x == 1, true == [[2 | t], true, y] }] }, |x| { match x { z => , [h] => [member(x, []), x != [_]], Named { a: [], b: t } | [[3 | x], [z]] => { y == [2, y, y] }, }, true } }, closure { conde { [member(x, []), match y { _ => [x == 7, x == 8], }], [1 | x] == x } }])
}
pub fn case_602(vars: &Vars) -> InferredGoal<DU, DE, Goal<DU, DE>> {
    let x = vars.v[0].clone();
    let y = vars.v[1].clone();
    proto_vulcan!([|t| { match y { [[2, h, "a"], [false, 'a', t], [[]]] => [[], matche h { [[z, t, 2 | z], [t]] => { x == [[], [], t], y == [1, [_ | "bc"], [[], h | [false]] | 2] }, [] | _ => { 'a' == t }, [2] => , }], t | [1, "bc" | _] => { y == x, |fresh_name_9| { P3(1, 3, fresh_name_9) != fresh_name_9 } }, }, conde { x == [1], conde { [], x == 1 }, [y != [2 | y], conde { (_, t) == x, x == 1, true == [[2 | t], true, y] }] }, |x| { match x { z => , [h] => [member(x, []), x != [_]], Named { a: [], b: t } | [[3 | x], [z]] => { y == [2, y, y] }, }, true } }, closure { conde { [member(x, []), match y { _ => [x == 7, x == 8], }], [1 | x] == x } }])
}
pub fn case_603(vars: &Vars) -> InferredGoal<DU, DE, Goal<DU, DE>> {
    let x = vars.v[0].clone();
    let y = vars.v[1].clone();
    proto_vulcan!([|t, y| { (_, []) == (_, []) }, |t, x| { [3, 2, x] == t }, { let c__: InferredGoal<DU, DE, Goal<DU, DE>> = proto_vulcan_closure!([|yy| { conde { [x == [yy | _], yy == 1], [x == [_, yy | _], yy == 2] } }, match y { _ | [[[], y, z | x], [1], [] | h] => , }]); let g__: Goal<DU, DE> = ::proto_vulcan::GoalCast::cast_into(c__); let r__: InferredGoal<DU, DE, Goal<DU, DE>> = proto_vulcan!([g__.clone(), g__]); r__ }])
}
pub fn case_604(vars: &Vars) -> InferredGoal<DU, DE, Goal<DU, DE>> {
    let x = vars.v[0].clone();
    let y = vars.v[1].clone();
    proto_vulcan!([|fresh_name_9, y| { (_, []) == (_, []) }, |t, x| { [3, 2, x] == t }, { let c__: InferredGoal<DU, DE, Goal<DU, DE>> = proto_vulcan_closure!([|yy| { conde { [x == [yy | _], yy == 1], [x == [_, yy | _], yy == 2] } }, match y { _ | [[[], y, z | x], [1], [] | h] => , }]); let g__: Goal<DU, DE> = ::proto_vulcan::GoalCast::cast_into(c__); let r__: InferredGoal<DU, DE, Goal<DU, DE>> = proto_vulcan!([g__.clone(), g__]); r__ }])
}
pub fn case_605(vars: &Vars) -> InferredGoal<DU, DE, Goal<DU, DE>> {
    let x = vars.v[0].clone();
    let y = vars.v[1].clone();
    proto_vulcan!([x == 3, conde { [], |x| { false, x == x, y != [_, 1, 2] } }])
}
pub fn case_606(vars: &Vars) -> InferredGoal<DU, DE, Goal<DU, DE>> {
    let x = vars.v[0].clone();
    let y = vars.v[1].clone();
    proto_vulcan!([x == 3, conde { [], |fresh_name_9| { false, fresh_name_9 == fresh_name_9, y != [_, 1, 2] } }])
}
pub fn case_607(vars: &Vars) -> InferredGoal<DU, DE, Goal<DU, DE>> {
    let q = vars.v[0].clone();
    let x = vars.v[1].clone();
    proto_vulcan!([|y| { |y| { false, [y == ["bc", 1], q == [2], [[q, 2, _], _ | y] == []] } }])
}
pub fn case_608(vars: &Vars) -> InferredGoal<DU, DE, Goal<DU, DE>> {
    let q = vars.v[0].clone();
    let x = vars.v[1].clone();
    proto_vulcan!([|fresh_name_9| { |y| { false, [y == ["bc", 1], q == [2], [[q, 2, _], _ | y] == []] } }])
}
pub fn case_609(vars: &Vars) -> InferredGoal<DU, DE, Goal<DU, DE>> {
    let x = vars.v[0].clone();
    let y = vars.v[1].clone();
    proto_vulcan!([y == y, |tz| { [2, 3 | tz] != [2, 3, 2], tz == [2] }, |tz| { [2, 1, 1, 1] != [2, 1 | tz], tz == [1, 1] }])
}
pub fn case_610(vars: &Vars) -> InferredGoal<DU, DE, Goal<DU, DE>> {
    let x = vars.v[0].clone();
    let y = vars.v[1].clone();
    proto_vulcan!([y == y, |fresh_name_9| { [2, 3 | fresh_name_9] != [2, 3, 2], fresh_name_9 == [2] }, |tz| { [2, 1, 1, 1] != [2, 1 | tz], tz == [1, 1] }])
}
pub fn case_611(vars: &Vars) -> InferredGoal<DU, DE, Goal<DU, DE>> {
    let q = vars.v[0].clone();
    let x = vars.v[1].clone();
    proto_vulcan!([conde { |h| { 3 == h, P3([], 2, 1) == x, |t| { [2, 1, x | t] == [['b', 2 | 1], 1], q == 1, t == x } }, [[1, 2, _] != x, |t| { ([2], _) != t, [([_, []], [[], []]) == t, q != P3([], _, 2), false] }], [[matche ['a', 2] { P3([h, []], 1, []) => { h == (1, h) }, x => { x == x, member(x, []) }, }], [[q, 3 | x], [2, 3] | [_, 3]] != 1] }, conde { [[q, _] == q, [1 | x] != x] }, [[2, q, q | x], q] == q])
}
pub fn case_612(vars: &Vars) -> InferredGoal<DU, DE, Goal<DU, DE>> {
    let q = vars.v[0].clone();
    let x = vars.v[1].clone();
    proto_vulcan!([conde { |h| { 3 == h, P3([], 2, 1) == x, |t| { [2, 1, x | t] == [['b', 2 | 1], 1], q == 1, t == x } }, [[1, 2, _] != x, |fresh_name_9| { ([2], _) != fresh_name_9, [([_, []], [[], []]) == fresh_name_9, q != P3([], _, 2), false] }], [[matche ['a', 2] { P3([h, []], 1, []) => { h == (1, h) }, x => { x == x, member(x, []) }, }], [[q, 3 | x], [2, 3] | [_, 3]] != 1] }, conde { [[q, _] == q, [1 | x] != x] }, [[2, q, q | x], q] == q])
}
pub fn case_613(vars: &Vars) -> InferredGoal<DU, DE, Goal<DU, DE>> {
    let x = vars.v[0].clone();
    let y = vars.v[1].clone();
    proto_vulcan!([match x { 2 => { x != [x], matche y { [_, [h | _] | z] => { z != [1, 'a' | [_]], z == ["bc", _] }, } }, }, append(y, y, [])])
}
pub fn case_614(vars: &Vars) -> InferredGoal<DU, DE, Goal<DU, DE>> {
    let x = vars.v[0].clone();
    let y = vars.v[1].clone();
    proto_vulcan!([match x { 2 => { x != [x], matche y { [_, [fresh_name_9 | _] | z] => { z != [1, 'a' | [_]], z == ["bc", _] }, } }, }, append(y, y, [])])
}
pub fn case_615(vars: &Vars) -> InferredGoal<DU, DE, Goal<DU, DE>> {
    let x = vars.v[0].clone();
    proto_vulcan!([|y, z| { [2, z | []] == y, [y, _, x] == z, y == "a" }, ([1, _], 3) != x, |y| { [[2, [], _], [[] | y]] != x }])
}
pub fn case_616(vars: &Vars) -> InferredGoal<DU, DE, Goal<DU, DE>> {
    let x = vars.v[0].clone();
    proto_vulcan!([|fresh_name_9, z| { [2, z | []] == fresh_name_9, [fresh_name_9, _, x] == z, fresh_name_9 == "a" }, ([1, _], 3) != x, |y| { [[2, [], _], [[] | y]] != x }])
}
pub fn case_617(vars: &Vars) -> InferredGoal<DU, DE, Goal<DU, DE>> {
    let q = vars.v[0].clone();
    let x = vars.v[1].clone();
    proto_vulcan!([matche x { [_, _, [[], _] | h] => , h => [x == (x, 3), |x| { matche x { y | [false] => { 2 != P3(2, x, [1]) }, }, [q == [[x] | q], member(q, [1]), q == [2 | h]] }], }, q == [2, 3, []]])
}
pub fn case_618(vars: &Vars) -> InferredGoal<DU, DE, Goal<DU, DE>> {
    let q = vars.v[0].clone();
    let x = vars.v[1].clone();
    proto_vulcan!([matche x { [_, _, [[], _] | fresh_name_9] => , h => [x == (x, 3), |x| { matche x { y | [false] => { 2 != P3(2, x, [1]) }, }, [q == [[x] | q], member(q, [1]), q == [2 | h]] }], }, q == [2, 3, []]])
}
pub fn case_619(vars: &Vars) -> InferredGoal<DU, DE, Goal<DU, DE>> {
    let q = vars.v[0].clone();
    let x = vars.v[1].clone();
    proto_vulcan!([|z| { ['b' == q, x == P3([], [1, z], _)], [1, [], z] != x, matche [z, q, 2 | 3] { [_, true, [h, 2]] => , 2 => , } }])
}
pub fn case_620(vars: &Vars) -> InferredGoal<DU, DE, Goal<DU, DE>> {
    let q = vars.v[0].clone();
    let x = vars.v[1].clone();
    proto_vulcan!([|fresh_name_9| { ['b' == q, x == P3([], [1, fresh_name_9], _)], [1, [], fresh_name_9] != x, matche [fresh_name_9, q, 2 | 3] { [_, true, [h, 2]] => , 2 => , } }])
}
pub fn case_621(vars: &Vars) -> InferredGoal<DU, DE, Goal<DU, DE>> {
    let x = vars.v[0].clone();
    proto_vulcan!([1 == x, match x { z => conde { [|tz| { [3, 3 | tz] != [3, 3, 1], tz == [1] }, false], [conde { [z == z, append(x, z, [1, 3])], [false, [1] == [[x, 2, _ | 'b'], 2]] }, member(z, [2])], [2] == x }, }])
}
pub fn case_622(vars: &Vars) -> InferredGoal<DU, DE, Goal<DU, DE>> {
    let x = vars.v[0].clone();
    proto_vulcan!([1 == x, match x { fresh_name_9 => conde { [|tz| { [3, 3 | tz] != [3, 3, 1], tz == [1] }, false], [conde { [fresh_name_9 == fresh_name_9, append(x, fresh_name_9, [1, 3])], [false, [1] == [[x, 2, _ | 'b'], 2]] }, member(fresh_name_9, [2])], [2] == x }, }])
}
pub fn case_623(vars: &Vars) -> InferredGoal<DU, DE, Goal<DU, DE>> {
    let x = vars.v[0].clone();
    let y = vars.v[1].clone();
    proto_vulcan!([matche _ { 2 => [[[[]] == y, [y == 1, member(y, []), true]]], z => , [[y, t, false | x]] | P3([y, _], h, [1, []]) => , }, x != []])
}
pub fn case_624(vars: &Vars) -> InferredGoal<DU, DE, Goal<DU, DE>> {
    let x = vars.v[0].clone();
    let y = vars.v[1].clone();
    proto_vulcan!([matche _ { 2 => [[[[]] == y, [y == 1, member(y, []), true]]], fresh_name_9 => , [[y, t, false | x]] | P3([y, _], h, [1, []]) => , }, x != []])
}
pub fn case_625(vars: &Vars) -> InferredGoal<DU, DE, Goal<DU, DE>> {
    let x = vars.v[0].clone();
    let y = vars.v[1].clone();
    proto_vulcan!([match 2 { _ => [y == 7, y == 8], [[x, 1, h | z]] => [|z| {  }, conde { [|tz| { [1, 3 | tz] != [1, 3, 3], tz == [3] }, [|tz| { [1 | tz] != [1, 3, 3], tz == [3, 3] }]], [|x| { [[_, h | h]] == y, false, true }, true] }], }, x == 3, y == y])
}
pub fn case_626(vars: &Vars) -> InferredGoal<DU, DE, Goal<DU, DE>> {
    let x = vars.v[0].clone();
    let y = vars.v[1].clone();
    proto_vulcan!([match 2 { _ => [y == 7, y == 8], [[fresh_name_9, 1, h | z]] => [|z| {  }, conde { [|tz| { [1, 3 | tz] != [1, 3, 3], tz == [3] }, [|tz| { [1 | tz] != [1, 3, 3], tz == [3, 3] }]], [|x| { [[_, h | h]] == y, false, true }, true] }], }, x == 3, y == y])
}
pub fn case_627(vars: &Vars) -> InferredGoal<DU, DE, Goal<DU, DE>> {
    let x = vars.v[0].clone();
    let y = vars.v[1].clone();
    proto_vulcan!([conde { [y, 'b' | [2]] == y }, conde { [x == 1, y == 3], [[P3(3, [[]], [1]) == [["bc"], [2, x] | y], matche y { [[], [h, _, x | _]] => [P3([y], 3, 2) != y, x == 1], _ => , _ => , }, conde { |tz| { tz == [3, 3], [2, 3, 3] != [2 | tz] }, [(_, x) == y, false], [_ == x, [[3, 2, x], [2, y, x]] == y] }]], [x == P3(2, [y, x], y), P3([1, 3], [[]], [_]) == [[x], [1, x, 1]]] }, { let c__: InferredGoal<DU, DE, Goal<DU, DE>> = proto_vulcan_closure!(|yy| { conde { [y == [yy | _], yy == 1], [y == [_, yy | _], yy == 2] } }); let g__: Goal<DU, DE> = ::proto_vulcan::GoalCast::cast_into(c__); let r__: InferredGoal<DU, DE, Goal<DU, DE>> = proto_vulcan!([g__.clone(), g__]); r__ }])
}
pub fn case_628(vars: &Vars) -> InferredGoal<DU, DE, Goal<DU, DE>> {
    let x = vars.v[0].clone();
    let y = vars.v[1].clone();
    proto_vulcan!([conde { [y, 'b' | [2]] == y }, conde { [x == 1, y == 3], [[P3(3, [[]], [1]) == [["bc"], [2, x] | y], matche y { [[], [h, _, x | _]] => [P3([y], 3, 2) != y, x == 1], _ => , _ => , }, conde { |tz| { tz == [3, 3], [2, 3, 3] != [2 | tz] }, [(_, x) == y, false], [_ == x, [[3, 2, x], [2, y, x]] == y] }]], [x == P3(2, [y, x], y), P3([1, 3], [[]], [_]) == [[x], [1, x, 1]]] }, { let c__: InferredGoal<DU, DE, Goal<DU, DE>> = proto_vulcan_closure!(|fresh_name_9| { conde { [y == [fresh_name_9 | _], fresh_name_9 == 1], [y == [_, fresh_name_9 | _], fresh_name_9 == 2] } }); let g__: Goal<DU, DE> = ::proto_vulcan::GoalCast::cast_into(c__); let r__: InferredGoal<DU, DE, Goal<DU, DE>> = proto_vulcan!([g__.clone(), g__]); r__ }])
}
pub fn case_629(vars: &Vars) -> InferredGoal<DU, DE, Goal<DU, DE>> {
    let q = vars.v[0].clone();
    let x = vars.v[1].clone();
    proto_vulcan!([[q == [q, x, true], |y, z| { matche [x, 1] { z => { (q, 2) == _, q == false }, }, matche [x, z, 1 | z] { t => { z != z, z == t }, 3 => P3([_, z], [], y) != q, [h | z] => , } }, matche x { _ => { q == 7, q == 8 }, }], [[_, 'b'], [3, x, q | 1], [1]] == q])
}
pub fn case_630(vars: &Vars) -> InferredGoal<DU, DE, Goal<DU, DE>> {
    let q = vars.v[0].clone();
    let x = vars.v[1].clone();
    proto_vulcan!([[q == [q, x, true], |y, z| { matche [x, 1] { fresh_name_9 => { (q, 2) == _, q == false }, }, matche [x, z, 1 | z] { t => { z != z, z == t }, 3 => P3([_, z], [], y) != q, [h | z] => , } }, matche x { _ => { q == 7, q == 8 }, }], [[_, 'b'], [3, x, q | 1], [1]] == q])
}
pub fn case_631(vars: &Vars) -> InferredGoal<DU, DE, Goal<DU, DE>> {
    let x = vars.v[0].clone();
    proto_vulcan!([([], _) == x, match x { [[[], 2], h] => [match 2 { P3([], 3, []) => { conde { [2] == x, [[[x, h, 1 | [_]], 1, [h, h, 'a']] != x, x == [_, [x] | h]], [true, (h, [[]]) != x] }, [] }, [[3 | _], [3], [_, false] | y] | 2 => [P3(3, 3, 3) == h, [[_]] == [[h, 1]]], [_, 2] => match x { x => [['b'] != x, append(x, h, [1])], _ => { h == _, h == [x] }, _ | P3(_, [], h) => (1, x) == x, }, }, [1, x] == h], _ => , }, closure { [x == [[_, 1 | x], [1, x, 2], [[]]], |y| { true, member(y, [1, 2, 3]) }] }])
}
pub fn case_632(vars: &Vars) -> InferredGoal<DU, DE, Goal<DU, DE>> {
    let x = vars.v[0].clone();
    proto_vulcan!([([], _) == x, match x { [[[], 2], h] => [match 2 { P3([], 3, []) => { conde { [2] == x, [[[x, h, 1 | [_]], 1, [h, h, 'a']] != x, x == [_, [x] | h]], [true, (h, [[]]) != x] }, [] }, [[3 | _], [3], [_, false] | y] | 2 => [P3(3, 3, 3) == h, [[_]] == [[h, 1]]], [_, 2] => match x { fresh_name_9 => [['b'] != fresh_name_9, append(fresh_name_9, h, [1])], _ => { h == _, h == [x] }, _ | P3(_, [], h) => (1, x) == x, }, }, [1, x] == h], _ => , }, closure { [x == [[_, 1 | x], [1, x, 2], [[]]], |y| { true, member(y, [1, 2, 3]) }] }])
}
pub fn case_633(vars: &Vars) -> InferredGoal<DU, DE, Goal<DU, DE>> {
    let x = vars.v[0].clone();
    let y = vars.v[1].clone();
    proto_vulcan!([conde { [matche x { _ => { y == 7, y == 8 }, }, matche y { P3(z, [x], [[], 3]) => , [[_], [2, [], 2] | 2] => matche x { _ | [[z, [], h], 1, [t, h, t | z]] => [[x] == y, |tz| { tz == [1], [1, 3 | tz] != [1, 3, 1] }], [t, [[]]] => member(y, [3, 1, 1]), 1 => , }, false => y == 2, }], y == [y, _, y] }, conde { [|y, t| { [[[], [], []], 3] == _, x == y }, [y, x | x] != x], [x, 3] != P3(3, x, 1) }, conde { conde { y == y, |y, x| { [_, [y, x], 1] == P3(1, y, 1), [2, "bc", false] == y, x == [[2, y, x]] } }, [[[2], [y], [2, x]] != y, [y != 3, |z, t| { y != [[x | 2], z | t] }, y == (1, 1)]] }])
}
pub fn case_634(vars: &Vars) -> InferredGoal<DU, DE, Goal<DU, DE>> {
    let x = vars.v[0].clone();
    let y = vars.v[1].clone();
    proto_vulcan!([conde { [matche x { _ => { y == 7, y == 8 }, }, matche y { P3(z, [x], [[], 3]) => , [[_], [2, [], 2] | 2] => matche x { _ | [[z, [], h], 1, [t, h, t | z]] => [[x] == y, |tz| { tz == [1], [1, 3 | tz] != [1, 3, 1] }], [t, [[]]] => member(y, [3, 1, 1]), 1 => , }, false => y == 2, }], y == [y, _, y] }, conde { [|y, t| { [[[], [], []], 3] == _, x == y }, [y, x | x] != x], [x, 3] != P3(3, x, 1) }, conde { conde { y == y, |fresh_name_9, x| { [_, [fresh_name_9, x], 1] == P3(1, fresh_name_9, 1), [2, "bc", false] == fresh_name_9, x == [[2, fresh_name_9, x]] } }, [[[2], [y], [2, x]] != y, [y != 3, |z, t| { y != [[x | 2], z | t] }, y == (1, 1)]] }])
}
pub fn case_635(vars: &Vars) -> InferredGoal<DU, DE, Goal<DU, DE>> {
    let q = vars.v[0].clone();
    let x = vars.v[1].clone();
    proto_vulcan!([|x, z| {  }, [[[], q, [] | q] == q, [|z, h| { |tz| { [3 | tz] != [3, 3, 1], tz == [3, 1] } }, member(x, [1, 3]), q == [1, x]]], { let c__: InferredGoal<DU, DE, Goal<DU, DE>> = proto_vulcan_closure!([|yy| { conde { [x == [yy | _], yy == 1], [x == [_, yy | _], yy == 2] } }, matche x { x => , _ => |tz| { tz == [3, 2], [3 | tz] != [3, 3, 2] }, }]); let g__: Goal<DU, DE> = ::proto_vulcan::GoalCast::cast_into(c__); let r__: InferredGoal<DU, DE, Goal<DU, DE>> = proto_vulcan!([g__.clone(), g__]); r__ }])
}
pub fn case_636(vars: &Vars) -> InferredGoal<DU, DE, Goal<DU, DE>> {
    let q = vars.v[0].clone();
    let x = vars.v[1].clone();
    proto_vulcan!([|x, z| {  }, [[[], q, [] | q] == q, [|z, fresh_name_9| { |tz| { [3 | tz] != [3, 3, 1], tz == [3, 1] } }, member(x, [1, 3]), q == [1, x]]], { let c__: InferredGoal<DU, DE, Goal<DU, DE>> = proto_vulcan_closure!([|yy| { conde { [x == [yy | _], yy == 1], [x == [_, yy | _], yy == 2] } }, matche x { x => , _ => |tz| { tz == [3, 2], [3 | tz] != [3, 3, 2] }, }]); let g__: Goal<DU, DE> = ::proto_vulcan::GoalCast::cast_into(c__); let r__: InferredGoal<DU, DE, Goal<DU, DE>> = proto_vulcan!([g__.clone(), g__]); r__ }])
}
pub fn case_637(vars: &Vars) -> InferredGoal<DU, DE, Goal<DU, DE>> {
    let q = vars.v[0].clone();
    let x = vars.v[1].clone();
    proto_vulcan!([[[_, q | x], [1 | x]] == P3(x, [_, x], 2), P3(3, _, x) == q, { let c__: InferredGoal<DU, DE, Goal<DU, DE>> = proto_vulcan_closure!(|yy| { conde { [q == [yy | _], yy == 1], [q == [_, yy | _], yy == 2] } }); let g__: Goal<DU, DE> = ::proto_vulcan::GoalCast::cast_into(c__); let r__: InferredGoal<DU, DE, Goal<DU, DE>> = proto_vulcan!([g__.clone(), g__]); r__ }])
}
pub fn case_638(vars: &Vars) -> InferredGoal<DU, DE, Goal<DU, DE>> {
    let q = vars.v[0].clone();
    let x = vars.v[1].clone();
    proto_vulcan!([[[_, q | x], [1 | x]] == P3(x, [_, x], 2), P3(3, _, x) == q, { let c__: InferredGoal<DU, DE, Goal<DU, DE>> = proto_vulcan_closure!(|fresh_name_9| { conde { [q == [fresh_name_9 | _], fresh_name_9 == 1], [q == [_, fresh_name_9 | _], fresh_name_9 == 2] } }); let g__: Goal<DU, DE> = ::proto_vulcan::GoalCast::cast_into(c__); let r__: InferredGoal<DU, DE, Goal<DU, DE>> = proto_vulcan!([g__.clone(), g__]); r__ }])
}
pub fn case_639(vars: &Vars) -> InferredGoal<DU, DE, Goal<DU, DE>> {
    let x = vars.v[0].clone();
    let y = vars.v[1].clone();
    proto_vulcan!([[|y| { conde { [false, x != (2, y)], [1, _] != y } }, conde { [], conde { y == [[[], 1], 2], [y == [_ | x], x == [y, y]] } }, [[1, [1]] == ([y, y], 3)]], y == x, { let c__: InferredGoal<DU, DE, Goal<DU, DE>> = proto_vulcan_closure!([|yy| { conde { [y == [yy | _], yy == 1], [y == [_, yy | _], yy == 2] } }, false]); let g__: Goal<DU, DE> = ::proto_vulcan::GoalCast::cast_into(c__); let r__: InferredGoal<DU, DE, Goal<DU, DE>> = proto_vulcan!([g__.clone(), g__]); r__ }])
}
pub fn case_640(vars: &Vars) -> InferredGoal<DU, DE, Goal<DU, DE>> {
    let x = vars.v[0].clone();
    let y = vars.v[1].clone();
    proto_vulcan!([[|fresh_name_9| { conde { [false, x != (2, fresh_name_9)], [1, _] != fresh_name_9 } }, conde { [], conde { y == [[[], 1], 2], [y == [_ | x], x == [y, y]] } }, [[1, [1]] == ([y, y], 3)]], y == x, { let c__: InferredGoal<DU, DE, Goal<DU, DE>> = proto_vulcan_closure!([|yy| { conde { [y == [yy | _], yy == 1], [y == [_, yy | _], yy == 2] } }, false]); let g__: Goal<DU, DE> = ::proto_vulcan::GoalCast::cast_into(c__); let r__: InferredGoal<DU, DE, Goal<DU, DE>> = proto_vulcan!([g__.clone(), g__]); r__ }])
}
pub fn case_641(vars: &Vars) -> InferredGoal<DU, DE, Goal<DU, DE>> {
    let q = vars.v[0].clone();
    let x = vars.v[1].clone();
    proto_vulcan!([[match q { _ => { [_ | x] == q, append(q, q, [2]) }, }], q != "a", { let c__: InferredGoal<DU, DE, Goal<DU, DE>> = proto_vulcan_closure!([|yy| { conde { [x == [yy | _], yy == 1], [x == [_, yy | _], yy == 2] } }, true]); let g__: Goal<DU, DE> = ::proto_vulcan::GoalCast::cast_into(c__); let r__: InferredGoal<DU, DE, Goal<DU, DE>> = proto_vulcan!([g__.clone(), g__]); r__ }])
}
pub fn case_642(vars: &Vars) -> InferredGoal<DU, DE, Goal<DU, DE>> {
    let q = vars.v[0].clone();
    let x = vars.v[1].clone();
    proto_vulcan!([[match q { _ => { [_ | x] == q, append(q, q, [2]) }, }], q != "a", { let c__: InferredGoal<DU, DE, Goal<DU, DE>> = proto_vulcan_closure!([|fresh_name_9| { conde { [x == [fresh_name_9 | _], fresh_name_9 == 1], [x == [_, fresh_name_9 | _], fresh_name_9 == 2] } }, true]); let g__: Goal<DU, DE> = ::proto_vulcan::GoalCast::cast_into(c__); let r__: InferredGoal<DU, DE, Goal<DU, DE>> = proto_vulcan!([g__.clone(), g__]); r__ }])
}
pub fn case_643(vars: &Vars) -> InferredGoal<DU, DE, Goal<DU, DE>> {
    let q = vars.v[0].clone();
    let x = vars.v[1].clone();
    proto_vulcan!([true, conde { ['b' != x, q == [x, "bc" | x]], [[[3, 1, []], 'b', [1 | q]] == false, |z, t| { match x { [h, [y, _], [h, x, z | h]] => { false }, } }] }])
}
pub fn case_644(vars: &Vars) -> InferredGoal<DU, DE, Goal<DU, DE>> {
    let q = vars.v[0].clone();
    let x = vars.v[1].clone();
    proto_vulcan!([true, conde { ['b' != x, q == [x, "bc" | x]], [[[3, 1, []], 'b', [1 | q]] == false, |z, t| { match x { [fresh_name_9, [y, _], [fresh_name_9, x, z | fresh_name_9]] => { false }, } }] }])
}
pub fn case_645(vars: &Vars) -> InferredGoal<DU, DE, Goal<DU, DE>> {
    let q = vars.v[0].clone();
    let x = vars.v[1].clone();
    proto_vulcan!([x == 2, conde { [[member(x, [3])], conde { conde { [], member(q, [1, 2]), [q != 2, member(x, [1, 3])] }, member(x, []) }], [[false] == 2, |h| { x != P3(x, [], [[], 2]) }] }, |t, h| { true }, closure { [append(x, q, [1]), conde { [q != ['b'], |y, x| { x == 2, P3([_, 1], [], x) == q }], [[q == x, [1, [], [x] | q] == q, append(x, x, [])], x == [[_ | q], [3, q, _] | q]] }] }])
}
pub fn case_646(vars: &Vars) -> InferredGoal<DU, DE, Goal<DU, DE>> {
    let q = vars.v[0].clone();
    let x = vars.v[1].clone();
    proto_vulcan!([x == 2, conde { [[member(x, [3])], conde { conde { [], member(q, [1, 2]), [q != 2, member(x, [1, 3])] }, member(x, []) }], [[false] == 2, |h| { x != P3(x, [], [[], 2]) }] }, |t, fresh_name_9| { true }, closure { [append(x, q, [1]), conde { [q != ['b'], |y, x| { x == 2, P3([_, 1], [], x) == q }], [[q == x, [1, [], [x] | q] == q, append(x, x, [])], x == [[_ | q], [3, q, _] | q]] }] }])
}
pub fn case_647(vars: &Vars) -> InferredGoal<DU, DE, Goal<DU, DE>> {
    let x = vars.v[0].clone();
    let y = vars.v[1].clone();
    proto_vulcan!([2 == y, { let c__: InferredGoal<DU, DE, Goal<DU, DE>> = proto_vulcan_closure!([|yy| { conde { [y == [yy | _], yy == 1], [y == [_, yy | _], yy == 2] } }, x == [2, [], y]]); let g__: Goal<DU, DE> = ::proto_vulcan::GoalCast::cast_into(c__); let r__: InferredGoal<DU, DE, Goal<DU, DE>> = proto_vulcan!([g__.clone(), g__]); r__ }])
}
pub fn case_648(vars: &Vars) -> InferredGoal<DU, DE, Goal<DU, DE>> {
    let x = vars.v[0].clone();
    let y = vars.v[1].clone();
    proto_vulcan!([2 == y, { let c__: InferredGoal<DU, DE, Goal<DU, DE>> = proto_vulcan_closure!([|fresh_name_9| { conde { [y == [fresh_name_9 | _], fresh_name_9 == 1], [y == [_, fresh_name_9 | _], fresh_name_9 == 2] } }, x == [2, [], y]]); let g__: Goal<DU, DE> = ::proto_vulcan::GoalCast::cast_into(c__); let r__: InferredGoal<DU, DE, Goal<DU, DE>> = proto_vulcan!([g__.clone(), g__]); r__ }])
}
pub fn case_649(vars: &Vars) -> InferredGoal<DU, DE, Goal<DU, DE>> {
    let q = vars.v[0].clone();
    let x = vars.v[1].clone();
    proto_vulcan!([q == 3, append(q, x, []), { let c__: InferredGoal<DU, DE, Goal<DU, DE>> = proto_vulcan_closure!([|yy| { conde { [q == [yy | _], yy == 1], [q == [_, yy | _], yy == 2] } }, [2 == [], x == [1]]]); let g__: Goal<DU, DE> = ::proto_vulcan::GoalCast::cast_into(c__); let r__: InferredGoal<DU, DE, Goal<DU, DE>> = proto_vulcan!([g__.clone(), g__]); r__ }])
}
pub fn case_650(vars: &Vars) -> InferredGoal<DU, DE, Goal<DU, DE>> {
    let q = vars.v[0].clone();
    let x = vars.v[1].clone();
    proto_vulcan!([q == 3, append(q, x, []), { let c__: InferredGoal<DU, DE, Goal<DU, DE>> = proto_vulcan_closure!([|fresh_name_9| { conde { [q == [fresh_name_9 | _], fresh_name_9 == 1], [q == [_, fresh_name_9 | _], fresh_name_9 == 2] } }, [2 == [], x == [1]]]); let g__: Goal<DU, DE> = ::proto_vulcan::GoalCast::cast_into(c__); let r__: InferredGoal<DU, DE, Goal<DU, DE>> = proto_vulcan!([g__.clone(), g__]); r__ }])
}
pub fn case_651(vars: &Vars) -> InferredGoal<DU, DE, Goal<DU, DE>> {
    let x = vars.v[0].clone();
    proto_vulcan!([x != [x | 'b'], [[], 3, [1, x]] != [[1, x, []], x, [2, [], 2] | x], match x { [[_, t, [] | t], ['b' | x], x | [2]] => t == [2], }])
}
pub fn case_652(vars: &Vars) -> InferredGoal<DU, DE, Goal<DU, DE>> {
    let x = vars.v[0].clone();
    proto_vulcan!([x != [x | 'b'], [[], 3, [1, x]] != [[1, x, []], x, [2, [], 2] | x], match x { [[_, fresh_name_9, [] | fresh_name_9], ['b' | x], x | [2]] => fresh_name_9 == [2], }])
}
pub fn case_653(vars: &Vars) -> InferredGoal<DU, DE, Goal<DU, DE>> {
    let x = vars.v[0].clone();
    proto_vulcan!([matche x { y => y != ["bc", 1], }, [1, x | x] == x, true, { let c__: InferredGoal<DU, DE, Goal<DU, DE>> = proto_vulcan_closure!(|yy| { conde { [x == [yy | _], yy == 1], [x == [_, yy | _], yy == 2] } }); let g__: Goal<DU, DE> = ::proto_vulcan::GoalCast::cast_into(c__); let r__: InferredGoal<DU, DE, Goal<DU, DE>> = proto_vulcan!([g__.clone(), g__]); r__ }])
}
pub fn case_654(vars: &Vars) -> InferredGoal<DU, DE, Goal<DU, DE>> {
    let x = vars.v[0].clone();
    proto_vulcan!([matche x { fresh_name_9 => fresh_name_9 != ["bc", 1], }, [1, x | x] == x, true, { let c__: InferredGoal<DU, DE, Goal<DU, DE>> = proto_vulcan_closure!(|yy| { conde { [x == [yy | _], yy == 1], [x == [_, yy | _], yy == 2] } }); let g__: Goal<DU, DE> = ::proto_vulcan::GoalCast::cast_into(c__); let r__: InferredGoal<DU, DE, Goal<DU, DE>> = proto_vulcan!([g__.clone(), g__]); r__ }])
}
pub fn case_655(vars: &Vars) -> InferredGoal<DU, DE, Goal<DU, DE>> {
    let x = vars.v[0].clone();
    let y = vars.v[1].clone();
    proto_vulcan!([|x| { y == ([[], x], [2]) }, matche y { [[3, 2 | _], [1, y]] => , }, match y { y => [P3([], [[], y], 2) == ([3, []], y), conde { x == y, [y == 1, |h| {  }] }], }])
}
pub fn case_656(vars: &Vars) -> InferredGoal<DU, DE, Goal<DU, DE>> {
    let x = vars.v[0].clone();
    let y = vars.v[1].clone();
    proto_vulcan!([|fresh_name_9| { y == ([[], fresh_name_9], [2]) }, matche y { [[3, 2 | _], [1, y]] => , }, match y { y => [P3([], [[], y], 2) == ([3, []], y), conde { x == y, [y == 1, |h| {  }] }], }])
}
pub fn case_657(vars: &Vars) -> InferredGoal<DU, DE, Goal<DU, DE>> {
    let x = vars.v[0].clone();
    let y = vars.v[1].clone();
    proto_vulcan!([match ["a", y, y] { true => , [1, [t, z, z | z]] => |tz| { [1, 1 | tz] != [1, 1, 2, 3], tz == [2, 3] }, x => { x != 2 }, }, |y| { (_, 1) == y, |t| { (3, [1]) == y, matche 3 { [[z, 1, 2]] | 1 => , 1 => { false, y == [y, x] }, }, x == [2 | x] }, conde { [y, x | x] == [1, [1]], [], [[[[], true] == y, append(y, y, [1])]] } }, closure { (2, x) == x }])
}
pub fn case_658(vars: &Vars) -> InferredGoal<DU, DE, Goal<DU, DE>> {
    let x = vars.v[0].clone();
    let y = vars.v[1].clone();
    proto_vulcan!([match ["a", y, y] { true => , [1, [t, z, z | z]] => |tz| { [1, 1 | tz] != [1, 1, 2, 3], tz == [2, 3] }, fresh_name_9 => { fresh_name_9 != 2 }, }, |y| { (_, 1) == y, |t| { (3, [1]) == y, matche 3 { [[z, 1, 2]] | 1 => , 1 => { false, y == [y, x] }, }, x == [2 | x] }, conde { [y, x | x] == [1, [1]], [], [[[[], true] == y, append(y, y, [1])]] } }, closure { (2, x) == x }])
}
pub fn case_659(vars: &Vars) -> InferredGoal<DU, DE, Goal<DU, DE>> {
    let x = vars.v[0].clone();
    proto_vulcan!([x == P3(x, [_], 2), 2 == [2, 2, x | x], { let c__: InferredGoal<DU, DE, Goal<DU, DE>> = proto_vulcan_closure!([|yy| { conde { [x == [yy | _], yy == 1], [x == [_, yy | _], yy == 2] } }, |x, t| { [x] != t, t == P3([t, x], 1, x) }]); let g__: Goal<DU, DE> = ::proto_vulcan::GoalCast::cast_into(c__); let r__: InferredGoal<DU, DE, Goal<DU, DE>> = proto_vulcan!([g__.clone(), g__]); r__ }])
}
pub fn case_660(vars: &Vars) -> InferredGoal<DU, DE, Goal<DU, DE>> {
    let x = vars.v[0].clone();
    proto_vulcan!([x == P3(x, [_], 2), 2 == [2, 2, x | x], { let c__: InferredGoal<DU, DE, Goal<DU, DE>> = proto_vulcan_closure!([|yy| { conde { [x == [yy | _], yy == 1], [x == [_, yy | _], yy == 2] } }, |x, fresh_name_9| { [x] != fresh_name_9, fresh_name_9 == P3([fresh_name_9, x], 1, x) }]); let g__: Goal<DU, DE> = ::proto_vulcan::GoalCast::cast_into(c__); let r__: InferredGoal<DU, DE, Goal<DU, DE>> = proto_vulcan!([g__.clone(), g__]); r__ }])
}
pub const NCASES: usize = 661;
pub fn case(i: usize, vars: &Vars) -> Goal<DU, DE> {
    match i {
        0 => case_0(vars).goal,
        1 => case_1(vars).goal,
        2 => case_2(vars).goal,
        3 => case_3(vars).goal,
        4 => case_4(vars).goal,
        5 => case_5(vars).goal,
        6 => case_6(vars).goal,
        7 => case_7(vars).goal,
        8 => case_8(vars).goal,
        9 => case_9(vars).goal,
        10 => case_10(vars).goal,
        11 => case_11(vars).goal,
        12 => case_12(vars).goal,
        13 => case_13(vars).goal,
        14 => case_14(vars).goal,
        15 => case_15(vars).goal,
        16 => case_16(vars).goal,
        17 => case_17(vars).goal,
        18 => case_18(vars).goal,
        19 => case_19(vars).goal,
        20 => case_20(vars).goal,
        21 => case_21(vars).goal,
        22 => case_22(vars).goal,
        23 => case_23(vars).goal,
        24 => case_24(vars).goal,
        25 => case_25(vars).goal,
        26 => case_26(vars).goal,
        27 => case_27(vars).goal,
        28 => case_28(vars).goal,
        29 => case_29(vars).goal,
        30 => case_30(vars).goal,
        31 => case_31(vars).goal,
        32 => case_32(vars).goal,
        33 => case_33(vars).goal,
        34 => case_34(vars).goal,
        35 => case_35(vars).goal,
        36 => case_36(vars).goal,
        37 => case_37(vars).goal,
        38 => case_38(vars).goal,
        39 => case_39(vars).goal,
        40 => case_40(vars).goal,
        41 => case_41(vars).goal,
        42 => case_42(vars).goal,
        43 => case_43(vars).goal,
        44 => case_44(vars).goal,
        45 => case_45(vars).goal,
        46 => case_46(vars).goal,
        47 => case_47(vars).goal,
        48 => case_48(vars).goal,
        49 => case_49(vars).goal,
        50 => case_50(vars).goal,
        51 => case_51(vars).goal,
        52 => case_52(vars).goal,
        53 => case_53(vars).goal,
        54 => case_54(vars).goal,
        55 => case_55(vars).goal,
        56 => case_56(vars).goal,
        57 => case_57(vars).goal,
        58 => case_58(vars).goal,
        59 => case_59(vars).goal,
        60 => case_60(vars).goal,
        61 => case_61(vars).goal,
        62 => case_62(vars).goal,
        63 => case_63(vars).goal,
        64 => case_64(vars).goal,
        65 => case_65(vars).goal,
        66 => case_66(vars).goal,
        67 => case_67(vars).goal,
        68 => case_68(vars).goal,
        69 => case_69(vars).goal,
        70 => case_70(vars).goal,
        71 => case_71(vars).goal,
        72 => case_72(vars).goal,
        73 => case_73(vars).goal,
        74 => case_74(vars).goal,
        75 => case_75(vars).goal,
        76 => case_76(vars).goal,
        77 => case_77(vars).goal,
        78 => case_78(vars).goal,
        79 => case_79(vars).goal,
        80 => case_80(vars).goal,
        81 => case_81(vars).goal,
        82 => case_82(vars).goal,
        83 => case_83(vars).goal,
        84 => case_84(vars).goal,
        85 => case_85(vars).goal,
        86 => case_86(vars).goal,
        87 => case_87(vars).goal,
        88 => case_88(vars).goal,
        89 => case_89(vars).goal,
        90 => case_90(vars).goal,
        91 => case_91(vars).goal,
        92 => case_92(vars).goal,
        93 => case_93(vars).goal,
        94 => case_94(vars).goal,
        95 => case_95(vars).goal,
        96 => case_96(vars).goal,
        97 => case_97(vars).goal,
        98 => case_98(vars).goal,
        99 => case_99(vars).goal,
        100 => case_100(vars).goal,
        101 => case_101(vars).goal,
        102 => case_102(vars).goal,
        103 => case_103(vars).goal,
        104 => case_104(vars).goal,
        105 => case_105(vars).goal,
        106 => case_106(vars).goal,
        107 => case_107(vars).goal,
        108 => case_108(vars).goal,
        109 => case_109(vars).goal,
        110 => case_110(vars).goal,
        111 => case_111(vars).goal,
        112 => case_112(vars).goal,
        113 => case_113(vars).goal,
        114 => case_114(vars).goal,
        115 => case_115(vars).goal,
        116 => case_116(vars).goal,
        117 => case_117(vars).goal,
        118 => case_118(vars).goal,
        119 => case_119(vars).goal,
        120 => case_120(vars).goal,
        121 => case_121(vars).goal,
        122 => case_122(vars).goal,
        123 => case_123(vars).goal,
        124 => case_124(vars).goal,
        125 => case_125(vars).goal,
        126 => case_126(vars).goal,
        127 => case_127(vars).goal,
        128 => case_128(vars).goal,
        129 => case_129(vars).goal,
        130 => case_130(vars).goal,
        131 => case_131(vars).goal,
        132 => case_132(vars).goal,
        133 => case_133(vars).goal,
        134 => case_134(vars).goal,
        135 => case_135(vars).goal,
        136 => case_136(vars).goal,
        137 => case_137(vars).goal,
        138 => case_138(vars).goal,
        139 => case_139(vars).goal,
        140 => case_140(vars).goal,
        141 => case_141(vars).goal,
        142 => case_142(vars).goal,
        143 => case_143(vars).goal,
        144 => case_144(vars).goal,
        145 => case_145(vars).goal,
        146 => case_146(vars).goal,
        147 => case_147(vars).goal,
        148 => case_148(vars).goal,
        149 => case_149(vars).goal,
        150 => case_150(vars).goal,
        151 => case_151(vars).goal,
        152 => case_152(vars).goal,
        153 => case_153(vars).goal,
        154 => case_154(vars).goal,
        155 => case_155(vars).goal,
        156 => case_156(vars).goal,
        157 => case_157(vars).goal,
        158 => case_158(vars).goal,
        159 => case_159(vars).goal,
        160 => case_160(vars).goal,
        161 => case_161(vars).goal,
        162 => case_162(vars).goal,
        163 => case_163(vars).goal,
        164 => case_164(vars).goal,
        165 => case_165(vars).goal,
        166 => case_166(vars).goal,
        167 => case_167(vars).goal,
        168 => case_168(vars).goal,
        169 => case_169(vars).goal,
        170 => case_170(vars).goal,
        171 => case_171(vars).goal,
        172 => case_172(vars).goal,
        173 => case_173(vars).goal,
        174 => case_174(vars).goal,
        175 => case_175(vars).goal,
        176 => case_176(vars).goal,
        177 => case_177(vars).goal,
        178 => case_178(vars).goal,
        179 => case_179(vars).goal,
        180 => case_180(vars).goal,
        181 => case_181(vars).goal,
        182 => case_182(vars).goal,
        183 => case_183(vars).goal,
        184 => case_184(vars).goal,
        185 => case_185(vars).goal,
        186 => case_186(vars).goal,
        187 => case_187(vars).goal,
        188 => case_188(vars).goal,
        189 => case_189(vars).goal,
        190 => case_190(vars).goal,
        191 => case_191(vars).goal,
        192 => case_192(vars).goal,
        193 => case_193(vars).goal,
        194 => case_194(vars).goal,
        195 => case_195(vars).goal,
        196 => case_196(vars).goal,
        197 => case_197(vars).goal,
        198 => case_198(vars).goal,
        199 => case_199(vars).goal,
        200 => case_200(vars).goal,
        201 => case_201(vars).goal,
        202 => case_202(vars).goal,
        203 => case_203(vars).goal,
        204 => case_204(vars).goal,
        205 => case_205(vars).goal,
        206 => case_206(vars).goal,
        207 => case_207(vars).goal,
        208 => case_208(vars).goal,
        209 => case_209(vars).goal,
        210 => case_210(vars).goal,
        211 => case_211(vars).goal,
        212 => case_212(vars).goal,
        213 => case_213(vars).goal,
        214 => case_214(vars).goal,
        215 => case_215(vars).goal,
        216 => case_216(vars).goal,
        217 => case_217(vars).goal,
        218 => case_218(vars).goal,
        219 => case_219(vars).goal,
        220 => case_220(vars).goal,
        221 => case_221(vars).goal,
        222 => case_222(vars).goal,
        223 => case_223(vars).goal,
        224 => case_224(vars).goal,
        225 => case_225(vars).goal,
        226 => case_226(vars).goal,
        227 => case_227(vars).goal,
        228 => case_228(vars).goal,
        229 => case_229(vars).goal,
        230 => case_230(vars).goal,
        231 => case_231(vars).goal,
        232 => case_232(vars).goal,
        233 => case_233(vars).goal,
        234 => case_234(vars).goal,
        235 => case_235(vars).goal,
        236 => case_236(vars).goal,
        237 => case_237(vars).goal,
        238 => case_238(vars).goal,
        239 => case_239(vars).goal,
        240 => case_240(vars).goal,
        241 => case_241(vars).goal,
        242 => case_242(vars).goal,
        243 => case_243(vars).goal,
        244 => case_244(vars).goal,
        245 => case_245(vars).goal,
        246 => case_246(vars).goal,
        247 => case_247(vars).goal,
        248 => case_248(vars).goal,
        249 => case_249(vars).goal,
        250 => case_250(vars).goal,
        251 => case_251(vars).goal,
        252 => case_252(vars).goal,
        253 => case_253(vars).goal,
        254 => case_254(vars).goal,
        255 => case_255(vars).goal,
        256 => case_256(vars).goal,
        257 => case_257(vars).goal,
        258 => case_258(vars).goal,
        259 => case_259(vars).goal,
        260 => case_260(vars).goal,
        261 => case_261(vars).goal,
        262 => case_262(vars).goal,
        263 => case_263(vars).goal,
        264 => case_264(vars).goal,
        265 => case_265(vars).goal,
        266 => case_266(vars).goal,
        267 => case_267(vars).goal,
        268 => case_268(vars).goal,
        269 => case_269(vars).goal,
        270 => case_270(vars).goal,
        271 => case_271(vars).goal,
        272 => case_272(vars).goal,
        273 => case_273(vars).goal,
        274 => case_274(vars).goal,
        275 => case_275(vars).goal,
        276 => case_276(vars).goal,
        277 => case_277(vars).goal,
        278 => case_278(vars).goal,
        279 => case_279(vars).goal,
        280 => case_280(vars).goal,
        281 => case_281(vars).goal,
        282 => case_282(vars).goal,
        283 => case_283(vars).goal,
        284 => case_284(vars).goal,
        285 => case_285(vars).goal,
        286 => case_286(vars).goal,
        287 => case_287(vars).goal,
        288 => case_288(vars).goal,
        289 => case_289(vars).goal,
        290 => case_290(vars).goal,
        291 => case_291(vars).goal,
        292 => case_292(vars).goal,
        293 => case_293(vars).goal,
        294 => case_294(vars).goal,
        295 => case_295(vars).goal,
        296 => case_296(vars).goal,
        297 => case_297(vars).goal,
        298 => case_298(vars).goal,
        299 => case_299(vars).goal,
        300 => case_300(vars).goal,
        301 => case_301(vars).goal,
        302 => case_302(vars).goal,
        303 => case_303(vars).goal,
        304 => case_304(vars).goal,
        305 => case_305(vars).goal,
        306 => case_306(vars).goal,
        307 => case_307(vars).goal,
        308 => case_308(vars).goal,
        309 => case_309(vars).goal,
        310 => case_310(vars).goal,
        311 => case_311(vars).goal,
        312 => case_312(vars).goal,
        313 => case_313(vars).goal,
        314 => case_314(vars).goal,
        315 => case_315(vars).goal,
        316 => case_316(vars).goal,
        317 => case_317(vars).goal,
        318 => case_318(vars).goal,
        319 => case_319(vars).goal,
        320 => case_320(vars).goal,
        321 => case_321(vars).goal,
        322 => case_322(vars).goal,
        323 => case_323(vars).goal,
        324 => case_324(vars).goal,
        325 => case_325(vars).goal,
        326 => case_326(vars).goal,
        327 => case_327(vars).goal,
        328 => case_328(vars).goal,
        329 => case_329(vars).goal,
        330 => case_330(vars).goal,
        331 => case_331(vars).goal,
        332 => case_332(vars).goal,
        333 => case_333(vars).goal,
        334 => case_334(vars).goal,
        335 => case_335(vars).goal,
        336 => case_336(vars).goal,
        337 => case_337(vars).goal,
        338 => case_338(vars).goal,
        339 => case_339(vars).goal,
        340 => case_340(vars).goal,
        341 => case_341(vars).goal,
        342 => case_342(vars).goal,
        343 => case_343(vars).goal,
        344 => case_344(vars).goal,
        345 => case_345(vars).goal,
        346 => case_346(vars).goal,
        347 => case_347(vars).goal,
        348 => case_348(vars).goal,
        349 => case_349(vars).goal,
        350 => case_350(vars).goal,
        351 => case_351(vars).goal,
        352 => case_352(vars).goal,
        353 => case_353(vars).goal,
        354 => case_354(vars).goal,
        355 => case_355(vars).goal,
        356 => case_356(vars).goal,
        357 => case_357(vars).goal,
        358 => case_358(vars).goal,
        359 => case_359(vars).goal,
        360 => case_360(vars).goal,
        361 => case_361(vars).goal,
        362 => case_362(vars).goal,
        363 => case_363(vars).goal,
        364 => case_364(vars).goal,
        365 => case_365(vars).goal,
        366 => case_366(vars).goal,
        367 => case_367(vars).goal,
        368 => case_368(vars).goal,
        369 => case_369(vars).goal,
        370 => case_370(vars).goal,
        371 => case_371(vars).goal,
        372 => case_372(vars).goal,
        373 => case_373(vars).goal,
        374 => case_374(vars).goal,
        375 => case_375(vars).goal,
        376 => case_376(vars).goal,
        377 => case_377(vars).goal,
        378 => case_378(vars).goal,
        379 => case_379(vars).goal,
        380 => case_380(vars).goal,
        381 => case_381(vars).goal,
        382 => case_382(vars).goal,
        383 => case_383(vars).goal,
        384 => case_384(vars).goal,
        385 => case_385(vars).goal,
        386 => case_386(vars).goal,
        387 => case_387(vars).goal,
        388 => case_388(vars).goal,
        389 => case_389(vars).goal,
        390 => case_390(vars).goal,
        391 => case_391(vars).goal,
        392 => case_392(vars).goal,
        393 => case_393(vars).goal,
        394 => case_394(vars).goal,
        395 => case_395(vars).goal,
        396 => case_396(vars).goal,
        397 => case_397(vars).goal,
        398 => case_398(vars).goal,
        399 => case_399(vars).goal,
        400 => case_400(vars).goal,
        401 => case_401(vars).goal,
        402 => case_402(vars).goal,
        403 => case_403(vars).goal,
        404 => case_404(vars).goal,
        405 => case_405(vars).goal,
        406 => case_406(vars).goal,
        407 => case_407(vars).goal,
        408 => case_408(vars).goal,
        409 => case_409(vars).goal,
        410 => case_410(vars).goal,
        411 => case_411(vars).goal,
        412 => case_412(vars).goal,
        413 => case_413(vars).goal,
        414 => case_414(vars).goal,
        415 => case_415(vars).goal,
        416 => case_416(vars).goal,
        417 => case_417(vars).goal,
        418 => case_418(vars).goal,
        419 => case_419(vars).goal,
        420 => case_420(vars).goal,
        421 => case_421(vars).goal,
        422 => case_422(vars).goal,
        423 => case_423(vars).goal,
        424 => case_424(vars).goal,
        425 => case_425(vars).goal,
        426 => case_426(vars).goal,
        427 => case_427(vars).goal,
        428 => case_428(vars).goal,
        429 => case_429(vars).goal,
        430 => case_430(vars).goal,
        431 => case_431(vars).goal,
        432 => case_432(vars).goal,
        433 => case_433(vars).goal,
        434 => case_434(vars).goal,
        435 => case_435(vars).goal,
        436 => case_436(vars).goal,
        437 => case_437(vars).goal,
        438 => case_438(vars).goal,
        439 => case_439(vars).goal,
        440 => case_440(vars).goal,
        441 => case_441(vars).goal,
        442 => case_442(vars).goal,
        443 => case_443(vars).goal,
        444 => case_444(vars).goal,
        445 => case_445(vars).goal,
        446 => case_446(vars).goal,
        447 => case_447(vars).goal,
        448 => case_448(vars).goal,
        449 => case_449(vars).goal,
        450 => case_450(vars).goal,
        451 => case_451(vars).goal,
        452 => case_452(vars).goal,
        453 => case_453(vars).goal,
        454 => case_454(vars).goal,
        455 => case_455(vars).goal,
        456 => case_456(vars).goal,
        457 => case_457(vars).goal,
        458 => case_458(vars).goal,
        459 => case_459(vars).goal,
        460 => case_460(vars).goal,
        461 => case_461(vars).goal,
        462 => case_462(vars).goal,
        463 => case_463(vars).goal,
        464 => case_464(vars).goal,
        465 => case_465(vars).goal,
        466 => case_466(vars).goal,
        467 => case_467(vars).goal,
        468 => case_468(vars).goal,
        469 => case_469(vars).goal,
        470 => case_470(vars).goal,
        471 => case_471(vars).goal,
        472 => case_472(vars).goal,
        473 => case_473(vars).goal,
        474 => case_474(vars).goal,
        475 => case_475(vars).goal,
        476 => case_476(vars).goal,
        477 => case_477(vars).goal,
        478 => case_478(vars).goal,
        479 => case_479(vars).goal,
        480 => case_480(vars).goal,
        481 => case_481(vars).goal,
        482 => case_482(vars).goal,
        483 => case_483(vars).goal,
        484 => case_484(vars).goal,
        485 => case_485(vars).goal,
        486 => case_486(vars).goal,
        487 => case_487(vars).goal,
        488 => case_488(vars).goal,
        489 => case_489(vars).goal,
        490 => case_490(vars).goal,
        491 => case_491(vars).goal,
        492 => case_492(vars).goal,
        493 => case_493(vars).goal,
        494 => case_494(vars).goal,
        495 => case_495(vars).goal,
        496 => case_496(vars).goal,
        497 => case_497(vars).goal,
        498 => case_498(vars).goal,
        499 => case_499(vars).goal,
        500 => case_500(vars).goal,
        501 => case_501(vars).goal,
        502 => case_502(vars).goal,
        503 => case_503(vars).goal,
        504 => case_504(vars).goal,
        505 => case_505(vars).goal,
        506 => case_506(vars).goal,
        507 => case_507(vars).goal,
        508 => case_508(vars).goal,
        509 => case_509(vars).goal,
        510 => case_510(vars).goal,
        511 => case_511(vars).goal,
        512 => case_512(vars).goal,
        513 => case_513(vars).goal,
        514 => case_514(vars).goal,
        515 => case_515(vars).goal,
        516 => case_516(vars).goal,
        517 => case_517(vars).goal,
        518 => case_518(vars).goal,
        519 => case_519(vars).goal,
        520 => case_520(vars).goal,
        521 => case_521(vars).goal,
        522 => case_522(vars).goal,
        523 => case_523(vars).goal,
        524 => case_524(vars).goal,
        525 => case_525(vars).goal,
        526 => case_526(vars).goal,
        527 => case_527(vars).goal,
        528 => case_528(vars).goal,
        529 => case_529(vars).goal,
        530 => case_530(vars).goal,
        531 => case_531(vars).goal,
        532 => case_532(vars).goal,
        533 => case_533(vars).goal,
        534 => case_534(vars).goal,
        535 => case_535(vars).goal,
        536 => case_536(vars).goal,
        537 => case_537(vars).goal,
        538 => case_538(vars).goal,
        539 => case_539(vars).goal,
        540 => case_540(vars).goal,
        541 => case_541(vars).goal,
        542 => case_542(vars).goal,
        543 => case_543(vars).goal,
        544 => case_544(vars).goal,
        545 => case_545(vars).goal,
        546 => case_546(vars).goal,
        547 => case_547(vars).goal,
        548 => case_548(vars).goal,
        549 => case_549(vars).goal,
        550 => case_550(vars).goal,
        551 => case_551(vars).goal,
        552 => case_552(vars).goal,
        553 => case_553(vars).goal,
        554 => case_554(vars).goal,
        555 => case_555(vars).goal,
        556 => case_556(vars).goal,
        557 => case_557(vars).goal,
        558 => case_558(vars).goal,
        559 => case_559(vars).goal,
        560 => case_560(vars).goal,
        561 => case_561(vars).goal,
        562 => case_562(vars).goal,
        563 => case_563(vars).goal,
        564 => case_564(vars).goal,
        565 => case_565(vars).goal,
        566 => case_566(vars).goal,
        567 => case_567(vars).goal,
        568 => case_568(vars).goal,
        569 => case_569(vars).goal,
        570 => case_570(vars).goal,
        571 => case_571(vars).goal,
        572 => case_572(vars).goal,
        573 => case_573(vars).goal,
        574 => case_574(vars).goal,
        575 => case_575(vars).goal,
        576 => case_576(vars).goal,
        577 => case_577(vars).goal,
        578 => case_578(vars).goal,
        579 => case_579(vars).goal,
        580 => case_580(vars).goal,
        581 => case_581(vars).goal,
        582 => case_582(vars).goal,
        583 => case_583(vars).goal,
        584 => case_584(vars).goal,
        585 => case_585(vars).goal,
        586 => case_586(vars).goal,
        587 => case_587(vars).goal,
        588 => case_588(vars).goal,
        589 => case_589(vars).goal,
        590 => case_590(vars).goal,
        591 => case_591(vars).goal,
        592 => case_592(vars).goal,
        593 => case_593(vars).goal,
        594 => case_594(vars).goal,
        595 => case_595(vars).goal,
        596 => case_596(vars).goal,
        597 => case_597(vars).goal,
        598 => case_598(vars).goal,
        599 => case_599(vars).goal,
        600 => case_600(vars).goal,
        601 => case_601(vars).goal,
        602 => case_602(vars).goal,
        603 => case_603(vars).goal,
        604 => case_604(vars).goal,
        605 => case_605(vars).goal,
        606 => case_606(vars).goal,
        607 => case_607(vars).goal,
        608 => case_608(vars).goal,
        609 => case_609(vars).goal,
        610 => case_610(vars).goal,
        611 => case_611(vars).goal,
        612 => case_612(vars).goal,
        613 => case_613(vars).goal,
        614 => case_614(vars).goal,
        615 => case_615(vars).goal,
        616 => case_616(vars).goal,
        617 => case_617(vars).goal,
        618 => case_618(vars).goal,
        619 => case_619(vars).goal,
        620 => case_620(vars).goal,
        621 => case_621(vars).goal,
        622 => case_622(vars).goal,
        623 => case_623(vars).goal,
        624 => case_624(vars).goal,
        625 => case_625(vars).goal,
        626 => case_626(vars).goal,
        627 => case_627(vars).goal,
        628 => case_628(vars).goal,
        629 => case_629(vars).goal,
        630 => case_630(vars).goal,
        631 => case_631(vars).goal,
        632 => case_632(vars).goal,
        633 => case_633(vars).goal,
        634 => case_634(vars).goal,
        635 => case_635(vars).goal,
        636 => case_636(vars).goal,
        637 => case_637(vars).goal,
        638 => case_638(vars).goal,
        639 => case_639(vars).goal,
        640 => case_640(vars).goal,
        641 => case_641(vars).goal,
        642 => case_642(vars).goal,
        643 => case_643(vars).goal,
        644 => case_644(vars).goal,
        645 => case_645(vars).goal,
        646 => case_646(vars).goal,
        647 => case_647(vars).goal,
        648 => case_648(vars).goal,
        649 => case_649(vars).goal,
        650 => case_650(vars).goal,
        651 => case_651(vars).goal,
        652 => case_652(vars).goal,
        653 => case_653(vars).goal,
        654 => case_654(vars).goal,
        655 => case_655(vars).goal,
        656 => case_656(vars).goal,
        657 => case_657(vars).goal,
        658 => case_658(vars).goal,
        659 => case_659(vars).goal,
        660 => case_660(vars).goal,
        _ => unreachable!(),
    }
}
