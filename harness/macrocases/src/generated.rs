pub fn case_0(vars: &Vars) -> InferredGoal<DU, DE, Goal<DU, DE>> {
    let qa = vars.v[0].clone();
    let qb = vars.v[1].clone();
    let coll0: Vec<LT> = vec![qa.clone(), qa.clone()];
    proto_vulcan!([for e in &coll0 { conde { e == 1, true } }])
}
pub fn case_1(vars: &Vars) -> InferredGoal<DU, DE, Goal<DU, DE>> {
    let qa = vars.v[0].clone();
    let qb = vars.v[1].clone();
    let coll0: LT = LT::from_vec(vec![lterm!(7), lterm!(7), lterm!(3)]);
    proto_vulcan!([for e in &coll0 { conde { qa == 5, e == e } }])
}
pub fn case_2(vars: &Vars) -> InferredGoal<DU, DE, Goal<DU, DE>> {
    let qa = vars.v[0].clone();
    let qb = vars.v[1].clone();
    let coll0: LT = LT::from_vec(vec![qa.clone(), qb.clone(), qb.clone()]);
    proto_vulcan!([for e in &coll0 { conde { e == 2, true }, e != 3 }])
}
pub fn case_3(vars: &Vars) -> InferredGoal<DU, DE, Goal<DU, DE>> {
    let qa = vars.v[0].clone();
    let qb = vars.v[1].clone();
    let coll0: Vec<LT> = vec![lterm!(1), lterm!(2)];
    proto_vulcan!([conde { qa == 1, qa == 3 }, for e in &coll0 { qa != e, true }])
}
pub fn case_4(vars: &Vars) -> InferredGoal<DU, DE, Goal<DU, DE>> {
    let qa = vars.v[0].clone();
    let qb = vars.v[1].clone();
    let coll0: Vec<LT> = vec![qb.clone(), lterm!(2)];
    proto_vulcan!([for e in &coll0 { qa == 4, true, e != 2 }])
}
pub fn case_5(vars: &Vars) -> InferredGoal<DU, DE, Goal<DU, DE>> {
    let qa = vars.v[0].clone();
    let qb = vars.v[1].clone();
    let coll0: LT = LT::from_vec(vec![lterm!(1), lterm!([]), lterm!(2)]);
    proto_vulcan!([conde { qa == 1, qa == 2, qa == 3 }, for e in &coll0 { qa != e }])
}
pub fn case_6(vars: &Vars) -> InferredGoal<DU, DE, Goal<DU, DE>> {
    let qa = vars.v[0].clone();
    let qb = vars.v[1].clone();
    let coll0: Vec<LT> = vec![lterm!([]), qa.clone()];
    proto_vulcan!([for e in &coll0 { e != 2, conde { e == 1, true } }])
}
pub fn case_7(vars: &Vars) -> InferredGoal<DU, DE, Goal<DU, DE>> {
    let qa = vars.v[0].clone();
    let qb = vars.v[1].clone();
    let coll0: LT = LT::from_vec(vec![lterm!(2), lterm!(2), lterm!([[], 1])]);
    proto_vulcan!([[[1, 3, 'b' | 'b'] | qa] != qb, for e in &coll0 { P3(e, 2, 2) == (3, []) }])
}
pub fn case_8(vars: &Vars) -> InferredGoal<DU, DE, Goal<DU, DE>> {
    let qa = vars.v[0].clone();
    let qb = vars.v[1].clone();
    let coll0: Vec<LT> = vec![lterm!(3), lterm!([])];
    proto_vulcan!([for e in &coll0 { append(qb, qa, [3, 3]) }])
}
pub fn case_9(vars: &Vars) -> InferredGoal<DU, DE, Goal<DU, DE>> {
    let qa = vars.v[0].clone();
    let qb = vars.v[1].clone();
    let coll0: Vec<LT> = vec![lterm!([2]), qb.clone()];
    proto_vulcan!([[|tz| { [3, 3, 2] != [3, 3 | tz], tz == [2] }, |tz| { [1, 3] != [1 | tz], tz == [3] }], for e in &coll0 { [1, qa, []] == qb }])
}
pub fn case_10(vars: &Vars) -> InferredGoal<DU, DE, Goal<DU, DE>> {
    let qa = vars.v[0].clone();
    let qb = vars.v[1].clone();
    let coll0: LT = LT::from_vec(vec![lterm!([1])]);
    proto_vulcan!([for e in &coll0 { e == [qb, 1 | []] }])
}
pub fn case_11(vars: &Vars) -> InferredGoal<DU, DE, Goal<DU, DE>> {
    let qa = vars.v[0].clone();
    let qb = vars.v[1].clone();
    let coll0: Vec<LT> = vec![];
    proto_vulcan!([[qa != P3(1, 2, 1), false], for e in &coll0 { |t| { [["a", _]] == t } }])
}
pub fn case_12(vars: &Vars) -> InferredGoal<DU, DE, Goal<DU, DE>> {
    let qa = vars.v[0].clone();
    let qb = vars.v[1].clone();
    let coll0: Vec<LT> = vec![lterm!([[], 1]), lterm!([[], 1])];
    proto_vulcan!([for e in &coll0 { conde { e == 3, true }, [e, "a", 1 | _] == qb }])
}
pub fn case_13(vars: &Vars) -> InferredGoal<DU, DE, Goal<DU, DE>> {
    let qa = vars.v[0].clone();
    let qb = vars.v[1].clone();
    let coll0: Vec<LT> = vec![];
    proto_vulcan!([|y, z| { qb == z, false, 2 != z }, for e in &coll0 { P3(3, _, [_, 3]) == e, e != qb }])
}
pub fn case_14(vars: &Vars) -> InferredGoal<DU, DE, Goal<DU, DE>> {
    let qa = vars.v[0].clone();
    let qb = vars.v[1].clone();
    let coll0: Vec<LT> = vec![lterm!([2]), lterm!([2])];
    proto_vulcan!([|h| { h == [_, 1, qa], (h, _) != [qa, _, 3] }, for e in &coll0 { conde { e == 3, true }, qa == [e, [], []], qb == [[2, e], 1, [3, 2] | qa] }])
}
pub fn case_15(vars: &Vars) -> InferredGoal<DU, DE, Goal<DU, DE>> {
    let qa = vars.v[0].clone();
    let qb = vars.v[1].clone();
    let coll0: Vec<LT> = vec![lterm!([2]), lterm!([2]), qb.clone(), lterm!(3)];
    proto_vulcan!([for e in &coll0 { conde { e == 1, true }, append(e, qa, []) }])
}
pub fn case_16(vars: &Vars) -> InferredGoal<DU, DE, Goal<DU, DE>> {
    let qa = vars.v[0].clone();
    let qb = vars.v[1].clone();
    let coll0: Vec<LT> = vec![lterm!([]), lterm!([[], 1]), lterm!([[], 1]), lterm!(1)];
    proto_vulcan!([for e in &coll0 { conde { e == 3, true }, [qa, 3, qb] == qb }])
}
pub fn case_17(vars: &Vars) -> InferredGoal<DU, DE, Goal<DU, DE>> {
    let qa = vars.v[0].clone();
    let qb = vars.v[1].clone();
    let coll0: Vec<LT> = vec![lterm!([2]), lterm!([[], 1])];
    proto_vulcan!([for e in &coll0 { qb == [e], 2 != qa }])
}
pub fn case_18(vars: &Vars) -> InferredGoal<DU, DE, Goal<DU, DE>> {
    let qa = vars.v[0].clone();
    let qb = vars.v[1].clone();
    let coll0: LT = LT::from_vec(vec![lterm!([])]);
    proto_vulcan!([for e in &coll0 { [2, 3 | e] == e }])
}
pub fn case_19(vars: &Vars) -> InferredGoal<DU, DE, Goal<DU, DE>> {
    let qa = vars.v[0].clone();
    let qb = vars.v[1].clone();
    let coll0: Vec<LT> = vec![lterm!([1]), lterm!([])];
    proto_vulcan!([member(qb, [3, 3, 3]), for e in &coll0 { conde { e == 2, true }, |t| { [t, []] == t, true } }])
}
pub fn case_20(vars: &Vars) -> InferredGoal<DU, DE, Goal<DU, DE>> {
    let qa = vars.v[0].clone();
    let qb = vars.v[1].clone();
    let coll0: Vec<LT> = vec![lterm!([2]), lterm!(1)];
    proto_vulcan!([for e in &coll0 { |x, z| { false, qb == qa, append(qb, e, [2]) }, qb == [e, qa] }])
}
pub fn case_21(vars: &Vars) -> InferredGoal<DU, DE, Goal<DU, DE>> {
    let qa = vars.v[0].clone();
    let qb = vars.v[1].clone();
    let coll0: Vec<LT> = vec![];
    proto_vulcan!([true, for e in &coll0 { P3(_, _, [_]) == qa }])
}
pub fn case_22(vars: &Vars) -> InferredGoal<DU, DE, Goal<DU, DE>> {
    let qa = vars.v[0].clone();
    let qb = vars.v[1].clone();
    let coll0: Vec<LT> = vec![lterm!([[], 2]), qa.clone()];
    proto_vulcan!([for e in &coll0 { conde { [false, 3] == qa } }])
}
pub fn case_23(vars: &Vars) -> InferredGoal<DU, DE, Goal<DU, DE>> {
    let qa = vars.v[0].clone();
    let qb = vars.v[1].clone();
    let coll0: Vec<LT> = vec![];
    proto_vulcan!([for e in &coll0 { conde { e == 1, true }, e == [[], 1] }])
}
pub fn case_24(vars: &Vars) -> InferredGoal<DU, DE, Goal<DU, DE>> {
    let qa = vars.v[0].clone();
    let qb = vars.v[1].clone();
    let coll0: LT = LT::from_vec(vec![qa.clone()]);
    proto_vulcan!([qb == qa, for e in &coll0 { |tz| { [1, 2, 3] != [1 | tz], tz == [2, 3] } }])
}
pub fn case_25(vars: &Vars) -> InferredGoal<DU, DE, Goal<DU, DE>> {
    let qa = vars.v[0].clone();
    let qb = vars.v[1].clone();
    let coll0: Vec<LT> = vec![qa.clone(), lterm!(2)];
    proto_vulcan!([for e in &coll0 { [append(qb, qa, []), P3(e, e, [[]]) == qb] }])
}
pub fn case_26(vars: &Vars) -> InferredGoal<DU, DE, Goal<DU, DE>> {
    let qa = vars.v[0].clone();
    let qb = vars.v[1].clone();
    let coll0: Vec<LT> = vec![lterm!([2]), lterm!(3)];
    proto_vulcan!([for e in &coll0 { e == 3, append(e, qb, [1]) }])
}
pub fn case_27(vars: &Vars) -> InferredGoal<DU, DE, Goal<DU, DE>> {
    let qa = vars.v[0].clone();
    let qb = vars.v[1].clone();
    let coll0: Vec<LT> = vec![];
    proto_vulcan!([for e in &coll0 { ([], qb) == qb }])
}
pub fn case_28(vars: &Vars) -> InferredGoal<DU, DE, Goal<DU, DE>> {
    let qa = vars.v[0].clone();
    let qb = vars.v[1].clone();
    let coll0: Vec<LT> = vec![lterm!(2), lterm!([])];
    proto_vulcan!([for e in &coll0 { conde { e == 1, true }, 1 == [[], qa], e != (qb, e) }])
}
pub fn case_29(vars: &Vars) -> InferredGoal<DU, DE, Goal<DU, DE>> {
    let qa = vars.v[0].clone();
    let qb = vars.v[1].clone();
    let coll0: Vec<LT> = vec![];
    proto_vulcan!([P3([], [[]], qb) == qa, for e in &coll0 { qb != qa }])
}
pub fn case_30(vars: &Vars) -> InferredGoal<DU, DE, Goal<DU, DE>> {
    let qa = vars.v[0].clone();
    let qb = vars.v[1].clone();
    let coll0: Vec<LT> = vec![lterm!(3), lterm!(1)];
    proto_vulcan!([P3(_, [1, _], [[]]) == qa, for e in &coll0 { [] }])
}
pub fn case_31(vars: &Vars) -> InferredGoal<DU, DE, Goal<DU, DE>> {
    let qa = vars.v[0].clone();
    let qb = vars.v[1].clone();
    let coll0: LT = LT::from_vec(vec![lterm!([])]);
    proto_vulcan!([for e in &coll0 { qa == (2, qb) }])
}
pub fn case_32(vars: &Vars) -> InferredGoal<DU, DE, Goal<DU, DE>> {
    let qa = vars.v[0].clone();
    let qb = vars.v[1].clone();
    let coll0: LT = LT::from_vec(vec![lterm!([1]), qa.clone(), qa.clone()]);
    proto_vulcan!([qb == true, for e in &coll0 { conde { e == 2, true }, [1] != qa }])
}
pub fn case_33(vars: &Vars) -> InferredGoal<DU, DE, Goal<DU, DE>> {
    let qa = vars.v[0].clone();
    let qb = vars.v[1].clone();
    let coll0: Vec<LT> = vec![lterm!(3), lterm!(1)];
    proto_vulcan!([for e in &coll0 { conde { [[], e] == [[[]], [1, _] | qa], true } }])
}
pub fn case_34(vars: &Vars) -> InferredGoal<DU, DE, Goal<DU, DE>> {
    let qa = vars.v[0].clone();
    let qb = vars.v[1].clone();
    let coll0: Vec<LT> = vec![lterm!([2]), lterm!([2]), lterm!(3), lterm!([2])];
    proto_vulcan!([for e in &coll0 { conde { e == 2, true }, qa != [2, qa, e], e == 3 }])
}
pub fn case_35(vars: &Vars) -> InferredGoal<DU, DE, Goal<DU, DE>> {
    let qa = vars.v[0].clone();
    let qb = vars.v[1].clone();
    let coll0: Vec<LT> = vec![qa.clone(), lterm!(1), lterm!([]), lterm!([])];
    proto_vulcan!([for e in &coll0 { conde { e == 1, true }, |tz| { tz == [2], [1 | tz] != [1, 2] } }])
}
pub fn case_36(vars: &Vars) -> InferredGoal<DU, DE, Goal<DU, DE>> {
    let qa = vars.v[0].clone();
    let qb = vars.v[1].clone();
    let coll0: Vec<LT> = vec![lterm!(1), lterm!(2)];
    proto_vulcan!([for e in &coll0 { |h| { e == 3, (2, 1) == h, e == [2, 1 | qa] } }])
}
pub fn case_37(vars: &Vars) -> InferredGoal<DU, DE, Goal<DU, DE>> {
    let qa = vars.v[0].clone();
    let qb = vars.v[1].clone();
    let coll0: LT = LT::from_vec(vec![lterm!(1), lterm!([]), lterm!(2)]);
    proto_vulcan!([|z| { qb == qa }, for e in &coll0 { 'b' != qb, conde { [[[]], qa, [e, 3, 1] | e] == qb, [[[qb, e | qa], _, [2 | qb] | e] == qa, [] == e] } }])
}
pub fn case_38(vars: &Vars) -> InferredGoal<DU, DE, Goal<DU, DE>> {
    let qa = vars.v[0].clone();
    let qb = vars.v[1].clone();
    let coll0: Vec<LT> = vec![lterm!(3), lterm!(3)];
    proto_vulcan!([for e in &coll0 { conde { e == 2, true }, |t| { qb == [e, 2, 'b'], qb == [[3, 'a', 2 | 2]] }, append(e, qa, []) }])
}
pub fn case_39(vars: &Vars) -> InferredGoal<DU, DE, Goal<DU, DE>> {
    let qa = vars.v[0].clone();
    let qb = vars.v[1].clone();
    let coll0: Vec<LT> = vec![lterm!([]), lterm!([[], 1]), lterm!([[], 1]), lterm!([2])];
    proto_vulcan!([for e in &coll0 { conde { e == 3, true }, [e] == e }])
}
pub fn case_40(vars: &Vars) -> InferredGoal<DU, DE, Goal<DU, DE>> {
    let qa = vars.v[0].clone();
    let qb = vars.v[1].clone();
    let coll0: LT = LT::from_vec(vec![lterm!(3), lterm!(3), lterm!([])]);
    proto_vulcan!([for e in &coll0 { qb != ([qa, _], [qa]), |h, y| { 1 == y } }])
}
pub fn case_41(vars: &Vars) -> InferredGoal<DU, DE, Goal<DU, DE>> {
    let qa = vars.v[0].clone();
    let qb = vars.v[1].clone();
    let coll0: LT = LT::from_vec(vec![lterm!([])]);
    proto_vulcan!([[[] != qa, "bc" == qb, [2, 2] == qb], for e in &coll0 { qa == 2, |z| {  } }])
}
pub fn case_42(vars: &Vars) -> InferredGoal<DU, DE, Goal<DU, DE>> {
    let qa = vars.v[0].clone();
    let qb = vars.v[1].clone();
    let coll0: Vec<LT> = vec![];
    proto_vulcan!([conde { [], [[qb, [], 1]] != [], [[1], 1, [true, qa]] != qb }, for e in &coll0 { [[_, 'b' | qb] | e] == [qa | [e]] }])
}
pub fn case_43(vars: &Vars) -> InferredGoal<DU, DE, Goal<DU, DE>> {
    let qa = vars.v[0].clone();
    let qb = vars.v[1].clone();
    let coll0: LT = LT::from_vec(vec![qa.clone(), lterm!(1), lterm!(2)]);
    proto_vulcan!([[[3, []] == qa], for e in &coll0 { conde { e == 1, true }, |tz| { tz == [2, 1], [2, 3 | tz] != [2, 3, 2, 1] }, [_, qa] == qa }])
}
pub fn case_44(vars: &Vars) -> InferredGoal<DU, DE, Goal<DU, DE>> {
    let qa = vars.v[0].clone();
    let qb = vars.v[1].clone();
    let coll0: Vec<LT> = vec![lterm!(2), lterm!(2)];
    proto_vulcan!([|tz| { tz == [1, 1], [2, 1, 1] != [2 | tz] }, for e in &coll0 { conde { e == 3, true }, |x| { P3(_, 2, [1, qa]) == qa, ["a"] == e, 1 != qa }, [member(e, []), qb == P3(qa, qb, e), qa == qa] }])
}
pub fn case_45(vars: &Vars) -> InferredGoal<DU, DE, Goal<DU, DE>> {
    let qa = vars.v[0].clone();
    let qb = vars.v[1].clone();
    let coll0: Vec<LT> = vec![lterm!([]), lterm!([2])];
    proto_vulcan!([[qa, qb | [qb, qa]] == qb, for e in &coll0 { |y, x| { append(x, e, [3]), e == [1, _, 1], append(qa, qa, []) } }])
}
pub fn case_46(vars: &Vars) -> InferredGoal<DU, DE, Goal<DU, DE>> {
    let qa = vars.v[0].clone();
    let qb = vars.v[1].clone();
    let coll0: LT = LT::from_vec(vec![lterm!(3)]);
    proto_vulcan!([for e in &coll0 { [1, e, 2] == qa }])
}
pub fn case_47(vars: &Vars) -> InferredGoal<DU, DE, Goal<DU, DE>> {
    let qa = vars.v[0].clone();
    let qb = vars.v[1].clone();
    let coll0: Vec<LT> = vec![];
    proto_vulcan!([[2 | qb] == qa, for e in &coll0 { conde { e == 3, true }, qb != e, |t| {  } }])
}
pub fn case_48(vars: &Vars) -> InferredGoal<DU, DE, Goal<DU, DE>> {
    let qa = vars.v[0].clone();
    let qb = vars.v[1].clone();
    let coll0: LT = LT::from_vec(vec![lterm!([]), lterm!(3), lterm!(2)]);
    proto_vulcan!([for e in &coll0 { qb == 1, |h| { h == [1, 3, qb | qb], P3(h, qa, [_, 1]) == [e, [h], [qb, qa] | 2] } }])
}
pub fn case_49(vars: &Vars) -> InferredGoal<DU, DE, Goal<DU, DE>> {
    let qa = vars.v[0].clone();
    let qb = vars.v[1].clone();
    let coll0: LT = LT::from_vec(vec![lterm!([[], 2])]);
    proto_vulcan!([|t| { [t, ["bc", 'b'] | 1] == t, append(qb, t, [2]), qa != P3(1, [t, qb], 3) }, for e in &coll0 { ["bc", "bc", [_, e, [] | qa]] == [_, 3, 2 | qb] }])
}
pub fn case_50(vars: &Vars) -> InferredGoal<DU, DE, Goal<DU, DE>> {
    let qa = vars.v[0].clone();
    let qb = vars.v[1].clone();
    let coll0: Vec<LT> = vec![];
    proto_vulcan!([conde { [append(qb, qb, [2, 2]), |tz| { [1, 1] != [1 | tz], tz == [1] }] }, for e in &coll0 { [qa, 1, [] | e] == qa }])
}
pub fn case_51(vars: &Vars) -> InferredGoal<DU, DE, Goal<DU, DE>> {
    let qa = vars.v[0].clone();
    let qb = vars.v[1].clone();
    let coll0: Vec<LT> = vec![lterm!(1), qa.clone()];
    proto_vulcan!([for e in &coll0 { [[2, e | qb], [2 | qb]] == qa, |y, x| { y == [], true, [qb, _] == e } }])
}
pub fn case_52(vars: &Vars) -> InferredGoal<DU, DE, Goal<DU, DE>> {
    let qa = vars.v[0].clone();
    let qb = vars.v[1].clone();
    let coll0: LT = LT::from_vec(vec![lterm!(3), qb.clone(), qb.clone()]);
    proto_vulcan!([false, for e in &coll0 { conde { e == 1, true }, qa == [qa, _, 3], |z| { qa == [[qb, qa | qa], _, [z]], qb == (_, _) } }])
}
pub fn case_53(vars: &Vars) -> InferredGoal<DU, DE, Goal<DU, DE>> {
    let qa = vars.v[0].clone();
    let qb = vars.v[1].clone();
    let coll0: Vec<LT> = vec![];
    proto_vulcan!([for e in &coll0 { conde { e == 3, true }, |x| { member(x, [1]), [[3, 1], x, qa] == _ }, conde { e == e, [qa == [[[], 3], [qa, e] | qa], qb == _], [[] == e, [qb] == qa] } }])
}
pub fn case_54(vars: &Vars) -> InferredGoal<DU, DE, Goal<DU, DE>> {
    let qa = vars.v[0].clone();
    let qb = vars.v[1].clone();
    let coll0: LT = LT::from_vec(vec![lterm!(2)]);
    proto_vulcan!([conde { [append(qa, qb, [1, 2]), qb == [2, _]] }, for e in &coll0 { [1, e | qa] == qb }])
}
pub fn case_55(vars: &Vars) -> InferredGoal<DU, DE, Goal<DU, DE>> {
    let qa = vars.v[0].clone();
    let qb = vars.v[1].clone();
    let coll0: Vec<LT> = vec![lterm!([]), lterm!([])];
    proto_vulcan!([for e in &coll0 { (qb, 2) == e }])
}
pub fn case_56(vars: &Vars) -> InferredGoal<DU, DE, Goal<DU, DE>> {
    let qa = vars.v[0].clone();
    let qb = vars.v[1].clone();
    let coll0: Vec<LT> = vec![lterm!(3), lterm!(3), qa.clone(), qb.clone()];
    proto_vulcan!([for e in &coll0 { conde { e == 1, true }, e == P3([qa, qb], qb, [1, qa]) }])
}
pub fn case_57(vars: &Vars) -> InferredGoal<DU, DE, Goal<DU, DE>> {
    let qa = vars.v[0].clone();
    let qb = vars.v[1].clone();
    let coll0: LT = LT::from_vec(vec![lterm!([])]);
    proto_vulcan!([for e in &coll0 { [[e, 1, [] | qb] | e] != ([_, []], qb), qa == [qa, _, e | [qa]] }])
}
pub fn case_58(vars: &Vars) -> InferredGoal<DU, DE, Goal<DU, DE>> {
    let qa = vars.v[0].clone();
    let qb = vars.v[1].clone();
    let coll0: Vec<LT> = vec![];
    proto_vulcan!([for e in &coll0 { [['a', _], 3, [2, [], e | [1, []]] | qa] != [[e, "bc", []], ['a'], _], qb == ([3], _) }])
}
pub fn case_59(vars: &Vars) -> InferredGoal<DU, DE, Goal<DU, DE>> {
    let qa = vars.v[0].clone();
    let qb = vars.v[1].clone();
    let coll0: Vec<LT> = vec![];
    proto_vulcan!([qb == ([], []), for e in &coll0 { |x| { true } }])
}
pub fn case_60(vars: &Vars) -> InferredGoal<DU, DE, Goal<DU, DE>> {
    let qa = vars.v[0].clone();
    let qb = vars.v[1].clone();
    let coll0: Vec<LT> = vec![lterm!([]), qa.clone()];
    proto_vulcan!([true, for e in &coll0 { [["bc" | qb]] == _, [e, 3 | 2] != e }])
}
pub fn case_61(vars: &Vars) -> InferredGoal<DU, DE, Goal<DU, DE>> {
    let qa = vars.v[0].clone();
    let qb = vars.v[1].clone();
    let coll0: Vec<LT> = vec![];
    proto_vulcan!([|tz| { tz == [2, 3], [2, 1, 2, 3] != [2, 1 | tz] }, for e in &coll0 { conde { e == 1, true }, qa != (_, [_]) }])
}
pub fn case_62(vars: &Vars) -> InferredGoal<DU, DE, Goal<DU, DE>> {
    let qa = vars.v[0].clone();
    let qb = vars.v[1].clone();
    let coll0: Vec<LT> = vec![];
    proto_vulcan!([[(qb, qb) != qa, member(qb, [1, 3]), append(qb, qb, [2])], for e in &coll0 { qa != [2 | e] }])
}
pub fn case_63(vars: &Vars) -> InferredGoal<DU, DE, Goal<DU, DE>> {
    let qa = vars.v[0].clone();
    let qb = vars.v[1].clone();
    let coll0: Vec<LT> = vec![lterm!(3), lterm!([[], 1])];
    proto_vulcan!([[[qa, qa, qa], 2] == [2, 2], for e in &coll0 { conde { e == 1, true }, [1] != P3([[], 2], 2, e) }])
}
pub fn case_64(vars: &Vars) -> InferredGoal<DU, DE, Goal<DU, DE>> {
    let qa = vars.v[0].clone();
    let qb = vars.v[1].clone();
    let coll0: Vec<LT> = vec![qa.clone(), lterm!([])];
    proto_vulcan!([for e in &coll0 { conde { [e == [1, 2, 2 | qa], qb == [2]], |tz| { [2, 3 | tz] != [2, 3, 2], tz == [2] }, |tz| { tz == [3], [2, 2 | tz] != [2, 2, 3] } } }])
}
pub fn case_65(vars: &Vars) -> InferredGoal<DU, DE, Goal<DU, DE>> {
    let qa = vars.v[0].clone();
    let qb = vars.v[1].clone();
    let coll0: Vec<LT> = vec![lterm!(1), lterm!(3)];
    proto_vulcan!([for e in &coll0 { qb == ([e, qa], qa) }])
}
pub fn case_66(vars: &Vars) -> InferredGoal<DU, DE, Goal<DU, DE>> {
    let qa = vars.v[0].clone();
    let qb = vars.v[1].clone();
    let coll0: Vec<LT> = vec![];
    proto_vulcan!([for e in &coll0 { (2, [_]) == 3 }])
}
pub fn case_67(vars: &Vars) -> InferredGoal<DU, DE, Goal<DU, DE>> {
    let qa = vars.v[0].clone();
    let qb = vars.v[1].clone();
    let coll0: LT = LT::from_vec(vec![lterm!(2), lterm!([]), lterm!([[], 1])]);
    proto_vulcan!([true, for e in &coll0 { qb == [], [[qa], e, [qa]] != qa }])
}
pub fn case_68(vars: &Vars) -> InferredGoal<DU, DE, Goal<DU, DE>> {
    let qa = vars.v[0].clone();
    let qb = vars.v[1].clone();
    let coll0: Vec<LT> = vec![lterm!(1), qa.clone(), lterm!(2), lterm!(2)];
    proto_vulcan!([qb == [2, 'b'], for e in &coll0 { conde { e == 3, true }, P3(2, qb, [e]) == e, [member(e, [3, 2, 2]), member(e, []), append(qb, qb, [3, 2])] }])
}
pub fn case_69(vars: &Vars) -> InferredGoal<DU, DE, Goal<DU, DE>> {
    let qa = vars.v[0].clone();
    let qb = vars.v[1].clone();
    let coll0: LT = LT::from_vec(vec![qa.clone(), qa.clone(), lterm!([[], 1])]);
    proto_vulcan!([true, for e in &coll0 { conde { e == 2, true }, |t| { qa == [2, true, 1 | e], e == [['a', 2, qa], [], [true | qa]] }, [[]] == e }])
}
pub fn case_70(vars: &Vars) -> InferredGoal<DU, DE, Goal<DU, DE>> {
    let qa = vars.v[0].clone();
    let qb = vars.v[1].clone();
    let coll0: LT = LT::from_vec(vec![lterm!([[], 2])]);
    proto_vulcan!([for e in &coll0 { |x, z| {  }, e == e }])
}
pub fn case_71(vars: &Vars) -> InferredGoal<DU, DE, Goal<DU, DE>> {
    let qa = vars.v[0].clone();
    let qb = vars.v[1].clone();
    let coll0: LT = LT::from_vec(vec![lterm!([2])]);
    proto_vulcan!([_ == qb, for e in &coll0 { qb != ['a', _, _ | qa], qb == [[2, e, [] | qb] | [1, _]] }])
}
pub fn case_72(vars: &Vars) -> InferredGoal<DU, DE, Goal<DU, DE>> {
    let qa = vars.v[0].clone();
    let qb = vars.v[1].clone();
    let coll0: LT = LT::from_vec(vec![lterm!([])]);
    proto_vulcan!([for e in &coll0 { [e == [], member(qa, [3, 2, 2]), qa != [e, [_, qb, qa]]] }])
}
pub fn case_73(vars: &Vars) -> InferredGoal<DU, DE, Goal<DU, DE>> {
    let qa = vars.v[0].clone();
    let qb = vars.v[1].clone();
    let coll0: LT = LT::from_vec(vec![lterm!([[], 1]), lterm!([[], 1]), qb.clone()]);
    proto_vulcan!([qa == qb, for e in &coll0 { conde { e == 2, true }, |y| { y == 'b', "a" != qa } }])
}
pub fn case_74(vars: &Vars) -> InferredGoal<DU, DE, Goal<DU, DE>> {
    let qa = vars.v[0].clone();
    let qb = vars.v[1].clone();
    let coll0: Vec<LT> = vec![qa.clone(), qa.clone()];
    proto_vulcan!([for e in &coll0 { conde { e == 3, true }, qb == [e] }])
}
pub fn case_75(vars: &Vars) -> InferredGoal<DU, DE, Goal<DU, DE>> {
    let qa = vars.v[0].clone();
    let qb = vars.v[1].clone();
    let coll0: Vec<LT> = vec![qb.clone(), qb.clone()];
    proto_vulcan!([for e in &coll0 { conde { e == 3, true }, conde { [append(qa, qb, [2, 2]), true], [1 == e, [_] == qb], ([3], [1, 1]) == e } }])
}
pub fn case_76(vars: &Vars) -> InferredGoal<DU, DE, Goal<DU, DE>> {
    let qa = vars.v[0].clone();
    let qb = vars.v[1].clone();
    let coll0: LT = LT::from_vec(vec![lterm!([2]), lterm!([1]), lterm!([1])]);
    proto_vulcan!([for e in &coll0 { conde { e == 3, true }, qa != (1, qa) }])
}
pub fn case_77(vars: &Vars) -> InferredGoal<DU, DE, Goal<DU, DE>> {
    let qa = vars.v[0].clone();
    let qb = vars.v[1].clone();
    let coll0: LT = LT::from_vec(vec![lterm!([2])]);
    proto_vulcan!([|x, t| { x != _ }, for e in &coll0 { |z| { false, z == P3(3, 3, qa), false }, (1, qb) == qb }])
}
pub fn case_78(vars: &Vars) -> InferredGoal<DU, DE, Goal<DU, DE>> {
    let qa = vars.v[0].clone();
    let qb = vars.v[1].clone();
    let coll0: Vec<LT> = vec![lterm!([]), lterm!(1)];
    proto_vulcan!([append(qb, qb, [1, 3]), for e in &coll0 { [qb, 2] != e }])
}
pub fn case_79(vars: &Vars) -> InferredGoal<DU, DE, Goal<DU, DE>> {
    let qa = vars.v[0].clone();
    let qb = vars.v[1].clone();
    let coll0: LT = LT::from_vec(vec![lterm!(2)]);
    proto_vulcan!([P3(qb, qb, 3) == qb, for e in &coll0 { conde { e == 3, true }, [] == e, qa != [e, qb, 2] }])
}
pub fn case_80(vars: &Vars) -> InferredGoal<DU, DE, Goal<DU, DE>> {
    let qa = vars.v[0].clone();
    let qb = vars.v[1].clone();
    let coll0: Vec<LT> = vec![];
    proto_vulcan!([(1, [[]]) == P3(3, [[], _], [3, []]), for e in &coll0 { qb == qb }])
}
pub fn case_81(vars: &Vars) -> InferredGoal<DU, DE, Goal<DU, DE>> {
    let qa = vars.v[0].clone();
    let qb = vars.v[1].clone();
    let coll0: Vec<LT> = vec![lterm!([[], 2]), lterm!([[], 2])];
    proto_vulcan!([for e in &coll0 { conde { e == 1, true }, |tz| { [2 | tz] != [2, 1, 3], tz == [1, 3] }, qb != 2 }])
}
pub fn case_82(vars: &Vars) -> InferredGoal<DU, DE, Goal<DU, DE>> {
    let qa = vars.v[0].clone();
    let qb = vars.v[1].clone();
    let coll0: Vec<LT> = vec![];
    proto_vulcan!([for e in &coll0 { |z| { P3([], _, [2, qa]) == z, e == qb, z == [[_, qb, "a"], [2, qb], _ | e] } }])
}
pub fn case_83(vars: &Vars) -> InferredGoal<DU, DE, Goal<DU, DE>> {
    let qa = vars.v[0].clone();
    let qb = vars.v[1].clone();
    let coll0: LT = LT::from_vec(vec![qb.clone(), qb.clone(), qb.clone()]);
    proto_vulcan!([2 == qb, for e in &coll0 { conde { e == 2, true }, |x| { qa == _, qb == [e, _, _], true } }])
}
pub fn case_84(vars: &Vars) -> InferredGoal<DU, DE, Goal<DU, DE>> {
    let qa = vars.v[0].clone();
    let qb = vars.v[1].clone();
    let coll0: Vec<LT> = vec![];
    proto_vulcan!([for e in &coll0 { (qa, [qa, 3]) == P3([2], qb, 3) }])
}
pub fn case_85(vars: &Vars) -> InferredGoal<DU, DE, Goal<DU, DE>> {
    let qa = vars.v[0].clone();
    let qb = vars.v[1].clone();
    let coll0: LT = LT::from_vec(vec![lterm!([[], 2]), qa.clone(), qa.clone()]);
    proto_vulcan!([for e in &coll0 { conde { e == 3, true }, P3(qa, [3], [3, []]) != qb }])
}
pub fn case_86(vars: &Vars) -> InferredGoal<DU, DE, Goal<DU, DE>> {
    let qa = vars.v[0].clone();
    let qb = vars.v[1].clone();
    let coll0: LT = LT::from_vec(vec![lterm!([[], 1])]);
    proto_vulcan!([for e in &coll0 { [[1, _, 'a' | e], [1], 2] != qb, conde { member(e, [1, 1]), [], 1 != e } }])
}
pub fn case_87(vars: &Vars) -> InferredGoal<DU, DE, Goal<DU, DE>> {
    let qa = vars.v[0].clone();
    let qb = vars.v[1].clone();
    let coll0: Vec<LT> = vec![];
    proto_vulcan!([for e in &coll0 { conde { e == 1, true }, e == qa, |h| {  } }])
}
pub fn case_88(vars: &Vars) -> InferredGoal<DU, DE, Goal<DU, DE>> {
    let qa = vars.v[0].clone();
    let qb = vars.v[1].clone();
    let coll0: Vec<LT> = vec![];
    proto_vulcan!([for e in &coll0 { conde { e == 2, true }, [2, 'b', qb | qb] == qa }])
}
pub fn case_89(vars: &Vars) -> InferredGoal<DU, DE, Goal<DU, DE>> {
    let qa = vars.v[0].clone();
    let qb = vars.v[1].clone();
    let coll0: Vec<LT> = vec![];
    proto_vulcan!([conde { [member(qa, [1, 3, 3]), 2 == qb], [] }, for e in &coll0 { conde { e == 2, true }, qa == qa }])
}
pub fn case_90(vars: &Vars) -> InferredGoal<DU, DE, Goal<DU, DE>> {
    let qa = vars.v[0].clone();
    let qb = vars.v[1].clone();
    let coll0: LT = LT::from_vec(vec![lterm!(2)]);
    proto_vulcan!([true, for e in &coll0 { qa == [qb] }])
}
pub fn case_91(vars: &Vars) -> InferredGoal<DU, DE, Goal<DU, DE>> {
    let qa = vars.v[0].clone();
    let qb = vars.v[1].clone();
    let coll0: Vec<LT> = vec![lterm!([]), lterm!([2]), lterm!([2]), lterm!(2)];
    proto_vulcan!([for e in &coll0 { conde { e == 3, true }, |tz| { [2 | tz] != [2, 2, 2], tz == [2, 2] } }])
}
pub fn case_92(vars: &Vars) -> InferredGoal<DU, DE, Goal<DU, DE>> {
    let qa = vars.v[0].clone();
    let qb = vars.v[1].clone();
    let coll0: Vec<LT> = vec![];
    proto_vulcan!([P3([], 2, []) != qb, for e in &coll0 { conde { e == 1, true }, qb == qb, [qa != [e, _, _ | qa], [[qb, 3]] == qa] }])
}
pub fn case_93(vars: &Vars) -> InferredGoal<DU, DE, Goal<DU, DE>> {
    let qa = vars.v[0].clone();
    let qb = vars.v[1].clone();
    let coll0: Vec<LT> = vec![lterm!([]), lterm!(2)];
    proto_vulcan!([for e in &coll0 { qa == [] }])
}
pub fn case_94(vars: &Vars) -> InferredGoal<DU, DE, Goal<DU, DE>> {
    let qa = vars.v[0].clone();
    let qb = vars.v[1].clone();
    let coll0: Vec<LT> = vec![lterm!([]), lterm!([])];
    proto_vulcan!([qa == 1, for e in &coll0 { conde { e == 2, true }, conde { [], [[e] == qa, _ != qa] } }])
}
pub fn case_95(vars: &Vars) -> InferredGoal<DU, DE, Goal<DU, DE>> {
    let qa = vars.v[0].clone();
    let qb = vars.v[1].clone();
    let coll0: LT = LT::from_vec(vec![lterm!([[], 1])]);
    proto_vulcan!([for e in &coll0 { P3(e, [e, 3], [2]) == qb }])
}
pub fn case_96(vars: &Vars) -> InferredGoal<DU, DE, Goal<DU, DE>> {
    let qa = vars.v[0].clone();
    let qb = vars.v[1].clone();
    let coll0: Vec<LT> = vec![lterm!(3), lterm!(3)];
    proto_vulcan!([for e in &coll0 { conde { e == 1, true }, false, qa == 2 }])
}
pub fn case_97(vars: &Vars) -> InferredGoal<DU, DE, Goal<DU, DE>> {
    let qa = vars.v[0].clone();
    let qb = vars.v[1].clone();
    let coll0: LT = LT::from_vec(vec![lterm!(2), lterm!(1), lterm!([2])]);
    proto_vulcan!([qa == 2, for e in &coll0 { qa != [qb, e, e | e], |h| {  } }])
}
pub fn case_98(vars: &Vars) -> InferredGoal<DU, DE, Goal<DU, DE>> {
    let qa = vars.v[0].clone();
    let qb = vars.v[1].clone();
    let coll0: Vec<LT> = vec![];
    proto_vulcan!([[true, [], qa] != qb, for e in &coll0 { true, qb == ([e, 1], 2) }])
}
pub fn case_99(vars: &Vars) -> InferredGoal<DU, DE, Goal<DU, DE>> {
    let qa = vars.v[0].clone();
    let qb = vars.v[1].clone();
    let coll0: LT = LT::from_vec(vec![lterm!(2)]);
    proto_vulcan!([P3(qa, 1, 1) == qb, for e in &coll0 { conde { ["bc" == e, qb == 1], qa == [[], qa | e] }, qb == [2, qa, []] }])
}
pub fn case_100(vars: &Vars) -> InferredGoal<DU, DE, Goal<DU, DE>> {
    let qa = vars.v[0].clone();
    let qb = vars.v[1].clone();
    let coll0: Vec<LT> = vec![];
    proto_vulcan!([for e in &coll0 { e == [1, [1]] }])
}
pub fn case_101(vars: &Vars) -> InferredGoal<DU, DE, Goal<DU, DE>> {
    let qa = vars.v[0].clone();
    let qb = vars.v[1].clone();
    let coll0: Vec<LT> = vec![];
    proto_vulcan!([for e in &coll0 { conde { e == 1, true }, [[_, _]] == [qb | [e]], |tz| { [1, 1] != [1 | tz], tz == [1] } }])
}
pub fn case_102(vars: &Vars) -> InferredGoal<DU, DE, Goal<DU, DE>> {
    let qa = vars.v[0].clone();
    let qb = vars.v[1].clone();
    let coll0: Vec<LT> = vec![];
    proto_vulcan!([[3, qb | qa] == qb, for e in &coll0 { |t, y| { false, e != 2 }, _ == [2, [qa, qa, e]] }])
}
pub fn case_103(vars: &Vars) -> InferredGoal<DU, DE, Goal<DU, DE>> {
    let qa = vars.v[0].clone();
    let qb = vars.v[1].clone();
    let coll0: Vec<LT> = vec![];
    proto_vulcan!([for e in &coll0 { conde { e == 2, true }, |h| { e == ["a"], [false, qb, e] == e }, |x| { qa == ['b', 3, 3] } }])
}
pub fn case_104(vars: &Vars) -> InferredGoal<DU, DE, Goal<DU, DE>> {
    let qa = vars.v[0].clone();
    let qb = vars.v[1].clone();
    let coll0: LT = LT::from_vec(vec![lterm!(2), lterm!(3), lterm!(1)]);
    proto_vulcan!([for e in &coll0 { true, ["bc", 2, "bc"] != qb }])
}
pub fn case_105(vars: &Vars) -> InferredGoal<DU, DE, Goal<DU, DE>> {
    let qa = vars.v[0].clone();
    let qb = vars.v[1].clone();
    let coll0: LT = LT::from_vec(vec![qb.clone()]);
    proto_vulcan!([member(qa, []), for e in &coll0 { P3([[]], [3, qa], 3) != qb }])
}
pub fn case_106(vars: &Vars) -> InferredGoal<DU, DE, Goal<DU, DE>> {
    let qa = vars.v[0].clone();
    let qb = vars.v[1].clone();
    let coll0: Vec<LT> = vec![];
    proto_vulcan!([|y, h| { qb == 1, false }, for e in &coll0 { [[2 | qa], e | qa] == qa, qb == P3(1, 1, [e]) }])
}
pub fn case_107(vars: &Vars) -> InferredGoal<DU, DE, Goal<DU, DE>> {
    let qa = vars.v[0].clone();
    let qb = vars.v[1].clone();
    let coll0: LT = LT::from_vec(vec![lterm!([1])]);
    proto_vulcan!([[], for e in &coll0 { conde { e == 3, true }, [[]] == qa }])
}
pub fn case_108(vars: &Vars) -> InferredGoal<DU, DE, Goal<DU, DE>> {
    let qa = vars.v[0].clone();
    let qb = vars.v[1].clone();
    let coll0: LT = LT::from_vec(vec![lterm!(3), lterm!(2), lterm!([])]);
    proto_vulcan!([for e in &coll0 { conde { e == 3, true }, e == P3(1, [e], e), |h| { e == [h, 2, qa], [qb] == [[1, qb] | e] } }])
}
pub fn case_109(vars: &Vars) -> InferredGoal<DU, DE, Goal<DU, DE>> {
    let qa = vars.v[0].clone();
    let qb = vars.v[1].clone();
    let coll0: Vec<LT> = vec![];
    proto_vulcan!([|z| {  }, for e in &coll0 { |t| { qa == [t, t, _ | 1], (1, qb) != qb } }])
}
pub fn case_110(vars: &Vars) -> InferredGoal<DU, DE, Goal<DU, DE>> {
    let qa = vars.v[0].clone();
    let qb = vars.v[1].clone();
    let coll0: LT = LT::from_vec(vec![qb.clone(), lterm!(1), lterm!([])]);
    proto_vulcan!([[|tz| { [1 | tz] != [1, 2, 3], tz == [2, 3] }, member(qa, [3, 3, 2])], for e in &coll0 { [] == qa }])
}
pub fn case_111(vars: &Vars) -> InferredGoal<DU, DE, Goal<DU, DE>> {
    let qa = vars.v[0].clone();
    let qb = vars.v[1].clone();
    let coll0: Vec<LT> = vec![lterm!([1]), lterm!([1])];
    proto_vulcan!([|tz| { [1 | tz] != [1, 2, 1], tz == [2, 1] }, for e in &coll0 { qb == [qa], e != P3([_, []], [e], _) }])
}
pub fn case_112(vars: &Vars) -> InferredGoal<DU, DE, Goal<DU, DE>> {
    let qa = vars.v[0].clone();
    let qb = vars.v[1].clone();
    let coll0: LT = LT::from_vec(vec![qa.clone(), lterm!([1]), lterm!([])]);
    proto_vulcan!([for e in &coll0 { qa == qa, conde { [|tz| { [2, 2, 1] != [2 | tz], tz == [2, 1] }, (qb, [_, e]) == qb] } }])
}
pub fn case_113(vars: &Vars) -> InferredGoal<DU, DE, Goal<DU, DE>> {
    let qa = vars.v[0].clone();
    let qb = vars.v[1].clone();
    let coll0: Vec<LT> = vec![lterm!([2]), lterm!([2]), lterm!(1), lterm!([[], 2])];
    proto_vulcan!([for e in &coll0 { conde { e == 2, true }, [], qa == ['a', qb] }])
}
pub fn case_114(vars: &Vars) -> InferredGoal<DU, DE, Goal<DU, DE>> {
    let qa = vars.v[0].clone();
    let qb = vars.v[1].clone();
    let coll0: LT = LT::from_vec(vec![lterm!(2)]);
    proto_vulcan!([3 == qa, for e in &coll0 { conde { e == 1, true }, [[], qa, 2] == qa, ["a", [] | e] == qb }])
}
pub fn case_115(vars: &Vars) -> InferredGoal<DU, DE, Goal<DU, DE>> {
    let qa = vars.v[0].clone();
    let qb = vars.v[1].clone();
    let coll0: Vec<LT> = vec![];
    proto_vulcan!([for e in &coll0 { conde { e == 3, true }, [] == qb, |z, h| {  } }])
}
pub fn case_116(vars: &Vars) -> InferredGoal<DU, DE, Goal<DU, DE>> {
    let qa = vars.v[0].clone();
    let qb = vars.v[1].clone();
    let coll0: Vec<LT> = vec![];
    proto_vulcan!([[false, qa == 2], for e in &coll0 { conde { e == 1, true }, [append(e, e, [3, 3]), |tz| { tz == [1], [2, 3, 1] != [2, 3 | tz] }], conde { [member(qa, [2, 2]), e == qa] } }])
}
pub fn case_117(vars: &Vars) -> InferredGoal<DU, DE, Goal<DU, DE>> {
    let qa = vars.v[0].clone();
    let qb = vars.v[1].clone();
    let coll0: Vec<LT> = vec![];
    proto_vulcan!([for e in &coll0 { append(qb, qb, []), |x, z| { qa != P3(1, x, [_]) } }])
}
pub fn case_118(vars: &Vars) -> InferredGoal<DU, DE, Goal<DU, DE>> {
    let qa = vars.v[0].clone();
    let qb = vars.v[1].clone();
    let coll0: Vec<LT> = vec![lterm!([]), lterm!([])];
    proto_vulcan!([for e in &coll0 { |z, x| { qa == z, e == e, [1] == (3, []) } }])
}
pub fn case_119(vars: &Vars) -> InferredGoal<DU, DE, Goal<DU, DE>> {
    let qa = vars.v[0].clone();
    let qb = vars.v[1].clone();
    let coll0: Vec<LT> = vec![lterm!(1), qb.clone()];
    proto_vulcan!([for e in &coll0 { qa != [qb] }])
}
pub fn case_120(vars: &Vars) -> InferredGoal<DU, DE, Goal<DU, DE>> {
    let qa = vars.v[0].clone();
    let qb = vars.v[1].clone();
    let coll0: LT = LT::from_vec(vec![qa.clone()]);
    proto_vulcan!([qa == qb, for e in &coll0 { conde { e == 2, true }, [[[]]] == e, |z| { P3(e, [[]], [1, 2]) == qb, e != [e, 1, qb | qa], P3(_, _, []) == qb } }])
}
pub fn case_121(vars: &Vars) -> InferredGoal<DU, DE, Goal<DU, DE>> {
    let qa = vars.v[0].clone();
    let qb = vars.v[1].clone();
    let coll0: Vec<LT> = vec![lterm!([[], 1]), lterm!([[], 1])];
    proto_vulcan!([|y| { [] == qb, qa == P3([3], [[], 2], qa) }, for e in &coll0 { conde { e == 3, true }, qa == [2, [qa, [], e], _] }])
}
pub fn case_122(vars: &Vars) -> InferredGoal<DU, DE, Goal<DU, DE>> {
    let qa = vars.v[0].clone();
    let qb = vars.v[1].clone();
    let coll0: Vec<LT> = vec![lterm!([1]), lterm!([1])];
    proto_vulcan!([for e in &coll0 { conde { e == 1, true }, ([_], [qa, []]) == qa }])
}
pub fn case_123(vars: &Vars) -> InferredGoal<DU, DE, Goal<DU, DE>> {
    let qa = vars.v[0].clone();
    let qb = vars.v[1].clone();
    let coll0: Vec<LT> = vec![];
    proto_vulcan!([|x| { [1, qb, []] == x, qa == _ }, for e in &coll0 { [P3([qa], _, _) == 2, true], (e, []) == [] }])
}
pub fn case_124(vars: &Vars) -> InferredGoal<DU, DE, Goal<DU, DE>> {
    let qa = vars.v[0].clone();
    let qb = vars.v[1].clone();
    let coll0: Vec<LT> = vec![];
    proto_vulcan!([qa != [2, 1], for e in &coll0 { conde { e == 3, true }, [2, qb, e] == qa, 2 == P3(_, [], [2]) }])
}
pub fn case_125(vars: &Vars) -> InferredGoal<DU, DE, Goal<DU, DE>> {
    let qa = vars.v[0].clone();
    let qb = vars.v[1].clone();
    let coll0: Vec<LT> = vec![];
    proto_vulcan!([[_, 1] != qa, for e in &coll0 { conde { e == 2, true }, [qb] == e }])
}
pub fn case_126(vars: &Vars) -> InferredGoal<DU, DE, Goal<DU, DE>> {
    let qa = vars.v[0].clone();
    let qb = vars.v[1].clone();
    let coll0: LT = LT::from_vec(vec![lterm!([1])]);
    proto_vulcan!([2 == qa, for e in &coll0 { |y, t| { P3(e, y, t) == qb } }])
}
pub fn case_127(vars: &Vars) -> InferredGoal<DU, DE, Goal<DU, DE>> {
    let qa = vars.v[0].clone();
    let qb = vars.v[1].clone();
    let coll0: Vec<LT> = vec![lterm!([[], 1]), lterm!([[], 1])];
    proto_vulcan!([qb != P3([1], [], [qa, qa]), for e in &coll0 { conde { e == 3, true }, P3(2, [e, _], [[], []]) == 2 }])
}
pub fn case_128(vars: &Vars) -> InferredGoal<DU, DE, Goal<DU, DE>> {
    let qa = vars.v[0].clone();
    let qb = vars.v[1].clone();
    let coll0: LT = LT::from_vec(vec![lterm!([])]);
    proto_vulcan!([for e in &coll0 { [qa, [qa] | qa] == [2, 3] }])
}
pub fn case_129(vars: &Vars) -> InferredGoal<DU, DE, Goal<DU, DE>> {
    let qa = vars.v[0].clone();
    let qb = vars.v[1].clone();
    let coll0: LT = LT::from_vec(vec![lterm!(2)]);
    proto_vulcan!([for e in &coll0 { |tz| { tz == [3, 3], [3, 2, 3, 3] != [3, 2 | tz] } }])
}
pub fn case_130(vars: &Vars) -> InferredGoal<DU, DE, Goal<DU, DE>> {
    let qa = vars.v[0].clone();
    let qb = vars.v[1].clone();
    let coll0: Vec<LT> = vec![lterm!(2), lterm!(2)];
    proto_vulcan!([conde { false, [member(qa, [2, 1, 3]), [2, [] | qa] == [[3, qa]]] }, for e in &coll0 { conde { e == 2, true }, P3(2, qb, 3) != qa }])
}
pub fn case_131(vars: &Vars) -> InferredGoal<DU, DE, Goal<DU, DE>> {
    let qa = vars.v[0].clone();
    let qb = vars.v[1].clone();
    let coll0: Vec<LT> = vec![qb.clone(), lterm!([2])];
    proto_vulcan!([for e in &coll0 { conde { [qb == qb, e == e], ['a' == qa, append(qa, qb, [])] }, [[2] == 2] }])
}
pub fn case_132(vars: &Vars) -> InferredGoal<DU, DE, Goal<DU, DE>> {
    let qa = vars.v[0].clone();
    let qb = vars.v[1].clone();
    let coll0: LT = LT::from_vec(vec![qa.clone(), qb.clone(), qb.clone()]);
    proto_vulcan!([for e in &coll0 { conde { e == 3, true }, conde { e == [[2 | e]], [qb == e, e != P3([qb], qb, [qa, e])] } }])
}
pub fn case_133(vars: &Vars) -> InferredGoal<DU, DE, Goal<DU, DE>> {
    let qa = vars.v[0].clone();
    let qb = vars.v[1].clone();
    let coll0: LT = LT::from_vec(vec![lterm!(2)]);
    proto_vulcan!([for e in &coll0 { |tz| { [1, 1, 2, 2] != [1, 1 | tz], tz == [2, 2] } }])
}
pub fn case_134(vars: &Vars) -> InferredGoal<DU, DE, Goal<DU, DE>> {
    let qa = vars.v[0].clone();
    let qb = vars.v[1].clone();
    let coll0: Vec<LT> = vec![lterm!([]), lterm!([]), lterm!(1), lterm!(1)];
    proto_vulcan!([qa == qa, for e in &coll0 { conde { e == 3, true }, conde { [append(e, qb, []), false] } }])
}
pub fn case_135(vars: &Vars) -> InferredGoal<DU, DE, Goal<DU, DE>> {
    let qa = vars.v[0].clone();
    let qb = vars.v[1].clone();
    let coll0: Vec<LT> = vec![];
    proto_vulcan!([conde { [false, ([], [3, []]) == [[qa, qb], [1]]], false, append(qa, qb, [1]) }, for e in &coll0 { _ == e }])
}
pub fn case_136(vars: &Vars) -> InferredGoal<DU, DE, Goal<DU, DE>> {
    let qa = vars.v[0].clone();
    let qb = vars.v[1].clone();
    let coll0: Vec<LT> = vec![];
    proto_vulcan!([|z| { [qb] == qb, append(qb, qb, []) }, for e in &coll0 { conde { e == 2, true }, [[_, "bc", false] == qa, |tz| { tz == [2, 2], [1, 2, 2, 2] != [1, 2 | tz] }, qb == [e]] }])
}
pub fn case_137(vars: &Vars) -> InferredGoal<DU, DE, Goal<DU, DE>> {
    let qa = vars.v[0].clone();
    let qb = vars.v[1].clone();
    let coll0: LT = LT::from_vec(vec![lterm!([[], 1]), lterm!([2]), qa.clone()]);
    proto_vulcan!([[], for e in &coll0 { e == qa }])
}
pub fn case_138(vars: &Vars) -> InferredGoal<DU, DE, Goal<DU, DE>> {
    let qa = vars.v[0].clone();
    let qb = vars.v[1].clone();
    let coll0: LT = LT::from_vec(vec![qb.clone(), qb.clone(), lterm!(3)]);
    proto_vulcan!([[([], qb) == qa, |tz| { tz == [1], [1, 1 | tz] != [1, 1, 1] }], for e in &coll0 { conde { e == 3, true }, [qb == [e], qb == P3(3, [3, 3], 1), e == [qb]] }])
}
pub fn case_139(vars: &Vars) -> InferredGoal<DU, DE, Goal<DU, DE>> {
    let qa = vars.v[0].clone();
    let qb = vars.v[1].clone();
    let coll0: Vec<LT> = vec![];
    proto_vulcan!([for e in &coll0 { conde { e == 1, true }, [e != (2, _)] }])
}
pub fn case_140(vars: &Vars) -> InferredGoal<DU, DE, Goal<DU, DE>> {
    let qa = vars.v[0].clone();
    let qb = vars.v[1].clone();
    let coll0: LT = LT::from_vec(vec![lterm!(3), lterm!([[], 1]), lterm!(3)]);
    proto_vulcan!([for e in &coll0 { [] }])
}
pub fn case_141(vars: &Vars) -> InferredGoal<DU, DE, Goal<DU, DE>> {
    let qa = vars.v[0].clone();
    let qb = vars.v[1].clone();
    let coll0: Vec<LT> = vec![];
    proto_vulcan!([false, for e in &coll0 { conde { e == 3, true }, qb == [] }])
}
pub fn case_142(vars: &Vars) -> InferredGoal<DU, DE, Goal<DU, DE>> {
    let qa = vars.v[0].clone();
    let qb = vars.v[1].clone();
    let coll0: LT = LT::from_vec(vec![lterm!([[], 1])]);
    proto_vulcan!([for e in &coll0 { [2, e] == qa }])
}
pub fn case_143(vars: &Vars) -> InferredGoal<DU, DE, Goal<DU, DE>> {
    let qa = vars.v[0].clone();
    let qb = vars.v[1].clone();
    let coll0: LT = LT::from_vec(vec![lterm!(3), lterm!([[], 2]), lterm!([[], 1])]);
    proto_vulcan!([|tz| { tz == [3], [1, 2, 3] != [1, 2 | tz] }, for e in &coll0 { |z| { e == [_, [qa], [3, qb, e | qa] | z] }, P3([_, 3], qa, _) == 1 }])
}
pub fn case_144(vars: &Vars) -> InferredGoal<DU, DE, Goal<DU, DE>> {
    let qa = vars.v[0].clone();
    let qb = vars.v[1].clone();
    let coll0: LT = LT::from_vec(vec![lterm!(2), qa.clone(), lterm!(3)]);
    proto_vulcan!([qa == [qb, qa, true], for e in &coll0 { conde { e == 2, true }, e == [2, ['a'], 2 | qa], [[qb], 2, qa] != [[e] | qb] }])
}
pub fn case_145(vars: &Vars) -> InferredGoal<DU, DE, Goal<DU, DE>> {
    let qa = vars.v[0].clone();
    let qb = vars.v[1].clone();
    let coll0: LT = LT::from_vec(vec![lterm!([1])]);
    proto_vulcan!([for e in &coll0 { |tz| { [1, 1, 2, 3] != [1, 1 | tz], tz == [2, 3] }, e == e }])
}
pub fn case_146(vars: &Vars) -> InferredGoal<DU, DE, Goal<DU, DE>> {
    let qa = vars.v[0].clone();
    let qb = vars.v[1].clone();
    let coll0: LT = LT::from_vec(vec![lterm!(1)]);
    proto_vulcan!([for e in &coll0 { 3 == e }])
}
pub fn case_147(vars: &Vars) -> InferredGoal<DU, DE, Goal<DU, DE>> {
    let x = vars.v[0].clone();
    proto_vulcan!([match x { [x | _] => x == 1, }])
}
pub fn case_148(vars: &Vars) -> InferredGoal<DU, DE, Goal<DU, DE>> {
    let x = vars.v[0].clone();
    let y = vars.v[1].clone();
    proto_vulcan!([match x { [h, h] => h == y, }])
}
pub fn case_149(vars: &Vars) -> InferredGoal<DU, DE, Goal<DU, DE>> {
    let x = vars.v[0].clone();
    proto_vulcan!([match x { [] | [_] => , [_, _ | t] => t == [], }])
}
pub fn case_150(vars: &Vars) -> InferredGoal<DU, DE, Goal<DU, DE>> {
    let x = vars.v[0].clone();
    let y = vars.v[1].clone();
    proto_vulcan!([member(x, [1, 2]), matcha x { 1 => y == 10, _ => y == 20, }])
}
pub fn case_151(vars: &Vars) -> InferredGoal<DU, DE, Goal<DU, DE>> {
    let x = vars.v[0].clone();
    let y = vars.v[1].clone();
    proto_vulcan!([matchu [x, y] { [h, _] => member(h, [1, 2]), _ => , }])
}
pub fn case_152(vars: &Vars) -> InferredGoal<DU, DE, Goal<DU, DE>> {
    let q = vars.v[0].clone();
    let b = vars.v[1].clone();
    proto_vulcan!([b == 5, match q { [a | [b]] => [a == 1, b == 7], }])
}
pub fn case_153(vars: &Vars) -> InferredGoal<DU, DE, Goal<DU, DE>> {
    let q = vars.v[0].clone();
    let x = vars.v[1].clone();
    proto_vulcan!([x == 9, matche q { [y | [x | _]] => [y == x, x == 2], }])
}
pub fn case_154(vars: &Vars) -> InferredGoal<DU, DE, Goal<DU, DE>> {
    let x = vars.v[0].clone();
    let y = vars.v[1].clone();
    proto_vulcan!([x == P3(1, 2, 3), match x { P3(_, b, _) => y == [2, b], P3(a, _, _) => y == [1, a], }])
}
pub fn case_155(vars: &Vars) -> InferredGoal<DU, DE, Goal<DU, DE>> {
    let x = vars.v[0].clone();
    let y = vars.v[1].clone();
    proto_vulcan!([x == P3(1, [2], 3), matche x { P3(_, _, c) => y == c, P3(a, _, _) => y == a, }])
}
pub fn case_156(vars: &Vars) -> InferredGoal<DU, DE, Goal<DU, DE>> {
    let x = vars.v[0].clone();
    let y = vars.v[1].clone();
    proto_vulcan!([match x { P3(_, b, _) => [b == 5, y == x], }])
}
pub fn case_157(vars: &Vars) -> InferredGoal<DU, DE, Goal<DU, DE>> {
    let x = vars.v[0].clone();
    proto_vulcan!([matche x { _ | z => { [member(x, [3, 2, 1]), x == [x, x]], [x | x] == x }, }])
}
pub fn case_158(vars: &Vars) -> InferredGoal<DU, DE, Goal<DU, DE>> {
    let q = vars.v[0].clone();
    let x = vars.v[1].clone();
    proto_vulcan!([[[2, "a"] == x], match [2 | x] { [_, [], t] => { |z| {  }, [[q] | q] == x }, 1 => [matchu q { _ | _ => { 2 == P3(x, q, 1), true }, }, member(q, [2, 3, 1])], }])
}
pub fn case_159(vars: &Vars) -> InferredGoal<DU, DE, Goal<DU, DE>> {
    let x = vars.v[0].clone();
    let y = vars.v[1].clone();
    proto_vulcan!([matchu x { "bc" | 1 => , Named { a: [3], b: t } => { member(x, [1, 1, 3]) }, }])
}
pub fn case_160(vars: &Vars) -> InferredGoal<DU, DE, Goal<DU, DE>> {
    let x = vars.v[0].clone();
    proto_vulcan!([matcha x { [t] => , P3(_, 1, [[]]) => , }])
}
pub fn case_161(vars: &Vars) -> InferredGoal<DU, DE, Goal<DU, DE>> {
    let x = vars.v[0].clone();
    let y = vars.v[1].clone();
    proto_vulcan!([[y == (3, [_, 3])], match y { [[[], []], 'b', [t]] => { x == P3(x, [], t), x == [[1, y, _], [1, 2] | t] }, [[2]] => { true }, Named { a: h, b: [1] } => [append(x, y, [1]), onceo { x == ['a', 1 | x] }], }])
}
pub fn case_162(vars: &Vars) -> InferredGoal<DU, DE, Goal<DU, DE>> {
    let q = vars.v[0].clone();
    let x = vars.v[1].clone();
    proto_vulcan!([match 3 { P3(1, [], [2]) => , }])
}
pub fn case_163(vars: &Vars) -> InferredGoal<DU, DE, Goal<DU, DE>> {
    let x = vars.v[0].clone();
    proto_vulcan!([match x { 2 | [[1], [x, _], []] => , [[[], z, _ | z], [], [[]] | _] => [matchu x { Named { a: t, b: y } => { ([x, 2], [[], _]) != [1, [z], z] }, [[_, 2, 2 | 2] | _] => { [[2, 1, 2 | z], 1, [3]] == x, 1 != P3(z, [_, z], x) }, }, |x| { (_, [_, 3]) == x, |tz| { [1, 1 | tz] != [1, 1, 1], tz == [1] }, true }], [x] => x == 1, }])
}
pub fn case_164(vars: &Vars) -> InferredGoal<DU, DE, Goal<DU, DE>> {
    let x = vars.v[0].clone();
    let y = vars.v[1].clone();
    proto_vulcan!([|t, h| { 1 == t, y == t }, matcha x { [[1], ["bc", 'a'], [[]] | _] => { [y, _, y] == y, ([], _) == x }, [[1 | x], [_, _], [1, _]] | [[x, 1], 2] => { onceo { [3, 2, x | x] == x }, x == [[x, 'b', false], [true, 3, x | x]] }, Named { a: _, b: t } => { x == [_, y], [] }, }])
}
pub fn case_165(vars: &Vars) -> InferredGoal<DU, DE, Goal<DU, DE>> {
    let x = vars.v[0].clone();
    let y = vars.v[1].clone();
    proto_vulcan!([y != P3([_], _, y), matchu x { Named { a: _, b: [1, z] } => condu { [([], y) == y, [_ | x] != y], true }, t => , _ => , }])
}
pub fn case_166(vars: &Vars) -> InferredGoal<DU, DE, Goal<DU, DE>> {
    let x = vars.v[0].clone();
    let y = vars.v[1].clone();
    proto_vulcan!([matcha y { _ => [x == ['b', 2, [y | y] | x], matcha y { Named { a: h, b: 3 } | [[[]], 2 | h] => { x == [2, y] }, P3(h, [_, y], [2, x]) => { x != 1, x != [_, x | x] }, [[y, false, _ | _], ['b', 'a', 2], false] => { x == P3(x, 1, 2) }, }], Named { a: y, b: [_, _] } => , }])
}
pub fn case_167(vars: &Vars) -> InferredGoal<DU, DE, Goal<DU, DE>> {
    let x = vars.v[0].clone();
    proto_vulcan!([|tz| { tz == [3], [1 | tz] != [1, 3] }, matcha [2, _, x] { _ | Named { a: 3, b: 3 } => , 1 => { false, [x, x] == x }, }])
}
pub fn case_168(vars: &Vars) -> InferredGoal<DU, DE, Goal<DU, DE>> {
    let x = vars.v[0].clone();
    proto_vulcan!([condu { [x != [_, x], [3] == x], [x == _, x == [3]], x != [[x], [[], 2]] }, matche x { 3 | 1 => { condu { member(x, [1, 1]), [x] == x, x == [1] }, [2, _] == _ }, 2 => , }])
}
pub fn case_169(vars: &Vars) -> InferredGoal<DU, DE, Goal<DU, DE>> {
    let x = vars.v[0].clone();
    proto_vulcan!([matchu x { h => { [] }, h => { |t| { append(h, t, [2, 3]), [1, 1, true] != h, member(x, []) } }, }])
}
pub fn case_170(vars: &Vars) -> InferredGoal<DU, DE, Goal<DU, DE>> {
    let q = vars.v[0].clone();
    let x = vars.v[1].clone();
    proto_vulcan!([|t| { P3(t, 1, [_, 3]) == t, false, true }, matchu q { _ => [2] == q, }])
}
pub fn case_171(vars: &Vars) -> InferredGoal<DU, DE, Goal<DU, DE>> {
    let x = vars.v[0].clone();
    proto_vulcan!([match x { [3, y | h] => { P3(_, [y], [x]) == y, [3, x, x] == y }, _ | [[3, h, h]] => , _ => { true, ['a' != x] }, }])
}
pub fn case_172(vars: &Vars) -> InferredGoal<DU, DE, Goal<DU, DE>> {
    let q = vars.v[0].clone();
    let x = vars.v[1].clone();
    proto_vulcan!([matcha q { _ => { x == 7, x == 8 }, [[t, [], t], h, y] => , }])
}
pub fn case_173(vars: &Vars) -> InferredGoal<DU, DE, Goal<DU, DE>> {
    let x = vars.v[0].clone();
    let y = vars.v[1].clone();
    proto_vulcan!([matcha x { _ => member(y, [1, 2, 3]), _ => , }])
}
pub fn case_174(vars: &Vars) -> InferredGoal<DU, DE, Goal<DU, DE>> {
    let q = vars.v[0].clone();
    let x = vars.v[1].clone();
    proto_vulcan!([matcha q { _ => { q == 7, q == 8 }, Named { a: z, b: [1] } | 2 => , 2 => { [] == x, conde { append(q, q, []) } }, }])
}
pub fn case_175(vars: &Vars) -> InferredGoal<DU, DE, Goal<DU, DE>> {
    let x = vars.v[0].clone();
    let y = vars.v[1].clone();
    proto_vulcan!([conde { [[[], x | ["a", 'a']] != x, x == [_, y]], [[[[], 3, 3], 2] != y, [x, 2, 2 | x] == y] }, matchu x { [[t, _, 1 | y]] => { |y| { append(x, y, [3]), y == (2, [_]) } }, }])
}
pub fn case_176(vars: &Vars) -> InferredGoal<DU, DE, Goal<DU, DE>> {
    let q = vars.v[0].clone();
    let x = vars.v[1].clone();
    proto_vulcan!([match [q, 3] { false | y => , x => { matche x { [[x, 1, 1 | 'a'], [t, y, _]] | Named { a: [], b: 1 } => { ([], [_]) == q, q != ([], [[], 1]) }, } }, P3(y, z, h) => { h == P3([], 3, _) }, }])
}
pub fn case_177(vars: &Vars) -> InferredGoal<DU, DE, Goal<DU, DE>> {
    let q = vars.v[0].clone();
    let x = vars.v[1].clone();
    proto_vulcan!([[[q] != x, q == []], matcha x { 1 => |h| { x != P3([], h, [3, []]), member(q, [1]) }, _ => member(x, [1, 2, 3]), }])
}
pub fn case_178(vars: &Vars) -> InferredGoal<DU, DE, Goal<DU, DE>> {
    let q = vars.v[0].clone();
    let x = vars.v[1].clone();
    proto_vulcan!([matche x { [z | [t]] => { [t, 1] == q }, 'a' => , _ => { q == 7, q == 8 }, }])
}
pub fn case_179(vars: &Vars) -> InferredGoal<DU, DE, Goal<DU, DE>> {
    let x = vars.v[0].clone();
    proto_vulcan!([x != x, matche [3, 2, 3 | [x, x]] { P3(y, _, x) => [|tz| { tz == [1], [1, 2, 1] != [1, 2 | tz] }, true], }])
}
pub fn case_180(vars: &Vars) -> InferredGoal<DU, DE, Goal<DU, DE>> {
    let q = vars.v[0].clone();
    let x = vars.v[1].clone();
    proto_vulcan!([matchu x { 2 | [[2 | _], [z, h] | [y]] => [|t| { append(q, x, []) }, match x { [[2, [], 2], h] => , _ => x == x, [1, true, h] | 3 => [append(x, x, [1, 1]), [x, 3, q] == q], }], y => [[[x, x] == y, y != P3([y], [], q)], (1, [x]) == x], }])
}
pub fn case_181(vars: &Vars) -> InferredGoal<DU, DE, Goal<DU, DE>> {
    let x = vars.v[0].clone();
    let y = vars.v[1].clone();
    proto_vulcan!([matche x { Named { a: [1], b: [] } => { [x == y], matchu y { [1, [3, 1 | [z]], h] => { member(y, []) }, 2 => { y == [_, 3 | x], [[]] == x }, } }, 3 => [onceo { P3([y, 3], [], 3) == y }, |x, h| { [h, ["a", []]] != y, member(h, [3, 3, 3]) }], }])
}
pub fn case_182(vars: &Vars) -> InferredGoal<DU, DE, Goal<DU, DE>> {
    let x = vars.v[0].clone();
    let y = vars.v[1].clone();
    proto_vulcan!([conde { x != x, [(2, y) != y, member(y, [])] }, matche [_, true, _] { [[z, y, 1] | t] => conde { ['a' == t, y != t], [], [] }, y => { [2, _, x] == [2, [y, y]] }, 3 => conda { [true, y != [1, x, x | y]] }, }])
}
pub fn case_183(vars: &Vars) -> InferredGoal<DU, DE, Goal<DU, DE>> {
    let x = vars.v[0].clone();
    proto_vulcan!([onceo { x == [x, _, true] }, matchu x { _ => { x == 7, x == 8 }, }])
}
pub fn case_184(vars: &Vars) -> InferredGoal<DU, DE, Goal<DU, DE>> {
    let x = vars.v[0].clone();
    let y = vars.v[1].clone();
    proto_vulcan!([matchu [2] { [[[]], y, [false | [2]]] => , }])
}
pub fn case_185(vars: &Vars) -> InferredGoal<DU, DE, Goal<DU, DE>> {
    let q = vars.v[0].clone();
    let x = vars.v[1].clone();
    proto_vulcan!([matcha q { _ => member(x, [1, 2, 3]), }])
}
pub fn case_186(vars: &Vars) -> InferredGoal<DU, DE, Goal<DU, DE>> {
    let x = vars.v[0].clone();
    proto_vulcan!([conde { true, [x != 1, |tz| { tz == [3], [3 | tz] != [3, 3] }] }, matcha 3 { _ => member(x, [1, 2, 3]), }])
}
pub fn case_187(vars: &Vars) -> InferredGoal<DU, DE, Goal<DU, DE>> {
    let q = vars.v[0].clone();
    let x = vars.v[1].clone();
    proto_vulcan!([match q { [[z]] => , _ => { q == 7, q == 8 }, }])
}
pub fn case_188(vars: &Vars) -> InferredGoal<DU, DE, Goal<DU, DE>> {
    let q = vars.v[0].clone();
    let x = vars.v[1].clone();
    proto_vulcan!([|z| { P3([q, z], [q], [z, _]) == z, [] == x }, match q { Named { a: _, b: _ } | [2] => { [false, 3 == x], x == [q, [q, q, []]] }, _ => [q == 7, q == 8], }])
}
pub fn case_189(vars: &Vars) -> InferredGoal<DU, DE, Goal<DU, DE>> {
    let q = vars.v[0].clone();
    let x = vars.v[1].clone();
    proto_vulcan!([q != q, matche x { x => onceo { true }, }])
}
pub fn case_190(vars: &Vars) -> InferredGoal<DU, DE, Goal<DU, DE>> {
    let q = vars.v[0].clone();
    let x = vars.v[1].clone();
    proto_vulcan!([matcha q { [[y], [2 | t], [x, 2, 1]] => conde { [], [[] == t, x == [x, x | x]], [] }, }])
}
pub fn case_191(vars: &Vars) -> InferredGoal<DU, DE, Goal<DU, DE>> {
    let x = vars.v[0].clone();
    let y = vars.v[1].clone();
    proto_vulcan!([matchu [2, []] { _ => , [_, [1 | 3], [1 | x]] => matche x { [[true, 2, 'b']] => { y == P3([], y, []) }, 2 | [[1, 1]] => member(x, [1, 2]), 3 => , }, }])
}
pub fn case_192(vars: &Vars) -> InferredGoal<DU, DE, Goal<DU, DE>> {
    let x = vars.v[0].clone();
    let y = vars.v[1].clone();
    proto_vulcan!([[x == [[], x, y]], matcha x { [] | _ => [true, y == x], }])
}
pub fn case_193(vars: &Vars) -> InferredGoal<DU, DE, Goal<DU, DE>> {
    let x = vars.v[0].clone();
    let y = vars.v[1].clone();
    proto_vulcan!([matche x { P3(z, t, h) => { matchu [h] { [[t, z, 1], [1, h] | x] | [2, x, ['b', 2 | ["a"]]] => member(x, [1, 3, 1]), }, y != 3 }, Named { a: [1], b: x } => [[[_, x, 1 | 2]] == x, x == [x, y, y]], [['a'] | _] => , }])
}
pub fn case_194(vars: &Vars) -> InferredGoal<DU, DE, Goal<DU, DE>> {
    let q = vars.v[0].clone();
    let x = vars.v[1].clone();
    proto_vulcan!([(3, [2, x]) != q, matchu x { h => |y| { y == _, (3, [h]) == x }, y => { [false, "bc" | x] == y }, [[_, 1 | _], [h, 1 | z], x | _] => matchu x { [['b', [], []], z, [2, _]] => , P3([], [x], 2) | [3, [2 | z] | t] => true, z => , }, }])
}
pub fn case_195(vars: &Vars) -> InferredGoal<DU, DE, Goal<DU, DE>> {
    let x = vars.v[0].clone();
    proto_vulcan!([x == 1, matchu x { _ | [[x, 1], [h, 2], [t] | [y, y]] => , [z, [z, h, []]] => matcha 3 { P3(_, 2, z) => x == h, }, }])
}
pub fn case_196(vars: &Vars) -> InferredGoal<DU, DE, Goal<DU, DE>> {
    let x = vars.v[0].clone();
    let y = vars.v[1].clone();
    proto_vulcan!([matcha y { [h] => conde { append(y, h, [1]), true }, }])
}
pub fn case_197(vars: &Vars) -> InferredGoal<DU, DE, Goal<DU, DE>> {
    let x = vars.v[0].clone();
    let y = vars.v[1].clone();
    proto_vulcan!([matche x { [[h | z] | t] => [[2] != ([z, 2], 2), matchu z { 1 => false, [[_, t], [x, 3 | y], _ | [true, y]] => { [t, _, [y]] == [['a', y, 3], h], append(x, x, []) }, [[x] | _] => , }], t => , }])
}
pub fn case_198(vars: &Vars) -> InferredGoal<DU, DE, Goal<DU, DE>> {
    let x = vars.v[0].clone();
    let y = vars.v[1].clone();
    proto_vulcan!([match y { [[1], [2, _], [z]] => [[], conde { [append(z, y, [1, 3]), [[x, _], [3, 2, 'b'] | x] == y], true, [x == z, [] == y] }], }])
}
pub fn case_199(vars: &Vars) -> InferredGoal<DU, DE, Goal<DU, DE>> {
    let x = vars.v[0].clone();
    let y = vars.v[1].clone();
    proto_vulcan!([condu { [y == [2, 2 | x], P3(2, x, [y]) == y] }, matchu x { 2 => x == x, }])
}
pub fn case_200(vars: &Vars) -> InferredGoal<DU, DE, Goal<DU, DE>> {
    let x = vars.v[0].clone();
    proto_vulcan!([[x == [], x != [x, 2, x]], matcha x { [[[], h], [_ | x], true] => { append(x, h, []) }, _ => { x == 7, x == 8 }, _ | [[x, false | y], z, [t | x] | _] => , }])
}
pub fn case_201(vars: &Vars) -> InferredGoal<DU, DE, Goal<DU, DE>> {
    let x = vars.v[0].clone();
    proto_vulcan!([|h| { [1] == x, x == [x, h] }, matcha x { P3(y, 1, []) => { [y == [[_], [x | y]], y == [[], y], false], x == 1 }, }])
}
pub fn case_202(vars: &Vars) -> InferredGoal<DU, DE, Goal<DU, DE>> {
    let x = vars.v[0].clone();
    let y = vars.v[1].clone();
    proto_vulcan!([matchu y { "a" => { |y, x| {  }, false }, _ => { member(x, [1, 2, 3]) }, t => { matche t { y => , [[t, z, []], ["a", y] | [h]] => [[2] == y, 1 == y], [[], [x, t], [] | _] => , } }, }])
}
pub fn case_203(vars: &Vars) -> InferredGoal<DU, DE, Goal<DU, DE>> {
    let x = vars.v[0].clone();
    let y = vars.v[1].clone();
    proto_vulcan!([matchu y { 2 => { x == ([y, []], y), |y| { y != y, [_] != y, |tz| { tz == [1], [1, 1] != [1 | tz] } } }, [[h, 1], [[], h], [2, 3, []]] | [z, [t]] => [conde { x == [y, true, x] }, |tz| { [1, 1 | tz] != [1, 1, 2], tz == [2] }], [["bc", h, 3], [t, 2, t | _], 'b' | ["bc", 1]] => [x == 2, [y, _] != h], }])
}
pub fn case_204(vars: &Vars) -> InferredGoal<DU, DE, Goal<DU, DE>> {
    let x = vars.v[0].clone();
    proto_vulcan!([matche [x] { P3(_, x, _) => , _ => matchu x { [x, [1, y, []]] => [(2, x) == x, [1, x, [] | x] == x], }, _ | [[1, t]] => { conde { member(x, [3]), x != ([[], x], 2), [append(x, x, [1]), x == [x, x, x]] }, 3 == x }, }])
}
pub fn case_205(vars: &Vars) -> InferredGoal<DU, DE, Goal<DU, DE>> {
    let x = vars.v[0].clone();
    proto_vulcan!([onceo { |tz| { [3, 3 | tz] != [3, 3, 1], tz == [1] } }, match [[]] { 2 => { matchu x { [h, [y, _], 1] => [[x] == y, |tz| { [2, 2, 2] != [2 | tz], tz == [2, 2] }], _ | _ => [true, 2 != x], }, x == x }, }])
}
pub fn case_206(vars: &Vars) -> InferredGoal<DU, DE, Goal<DU, DE>> {
    let q = vars.v[0].clone();
    let x = vars.v[1].clone();
    proto_vulcan!([matcha x { [x, [], x | x] => |t, y| { x == y, x == ['b'], q == 1 }, }])
}
pub fn case_207(vars: &Vars) -> InferredGoal<DU, DE, Goal<DU, DE>> {
    let x = vars.v[0].clone();
    proto_vulcan!([match x { 2 | ['b'] => [[([x, x], []) != x, P3([], [], x) == [x, ["a"]]]], _ => { member(x, [1, 2, 3]) }, }])
}
pub fn case_208(vars: &Vars) -> InferredGoal<DU, DE, Goal<DU, DE>> {
    let x = vars.v[0].clone();
    proto_vulcan!([matche x { [["a"]] => , }])
}
pub fn case_209(vars: &Vars) -> InferredGoal<DU, DE, Goal<DU, DE>> {
    let q = vars.v[0].clone();
    let x = vars.v[1].clone();
    proto_vulcan!([|x, t| {  }, matche [2, q] { [x] => [[[['a'] | x] == x], |t, y| { t != [[y, 3] | x] }], }])
}
pub fn case_210(vars: &Vars) -> InferredGoal<DU, DE, Goal<DU, DE>> {
    let x = vars.v[0].clone();
    let y = vars.v[1].clone();
    proto_vulcan!([(1, [2]) == y, matche x { x => [[], matcha x { [[y, [] | x]] => , [[x, h, false | _], [z], [h, 3, 'b']] => , }], [[z | [_]], [], [z, true, 2 | t] | y] | h => { conda { _ == x, 1 != [[x, 2, "bc"], [3, x] | x], [append(x, x, [3]), false] }, matchu x { [t, [1 | _], h | _] => { t == (_, 1), x == [t, 3] }, } }, 3 => { true, x == [y, _, 1] }, }])
}
pub fn case_211(vars: &Vars) -> InferredGoal<DU, DE, Goal<DU, DE>> {
    let q = vars.v[0].clone();
    let x = vars.v[1].clone();
    proto_vulcan!([matchu q { P3([], 2, []) | [["bc"], [z, 2, false | [t, 1]], [z, h]] => q != _, [t] => { t != [x, 2 | t], true }, }])
}
pub fn case_212(vars: &Vars) -> InferredGoal<DU, DE, Goal<DU, DE>> {
    let q = vars.v[0].clone();
    let x = vars.v[1].clone();
    proto_vulcan!([[q] == q, matcha q { [1, _] => [1, q, [] | q] == 3, [[2, [] | ["a"]]] | _ => , [[2, z, t]] | P3([y, _], [z], h) => { |h, t| { true } }, }])
}
pub fn case_213(vars: &Vars) -> InferredGoal<DU, DE, Goal<DU, DE>> {
    let x = vars.v[0].clone();
    proto_vulcan!([matchu x { [t | _] => { [] }, }])
}
pub fn case_214(vars: &Vars) -> InferredGoal<DU, DE, Goal<DU, DE>> {
    let x = vars.v[0].clone();
    let y = vars.v[1].clone();
    proto_vulcan!([[_, [], []] == x, matchu y { Named { a: 3, b: [] } => [|z| { z == z, z == [_, 1, x] }, |y, t| { [_] == y }], }])
}
pub fn case_215(vars: &Vars) -> InferredGoal<DU, DE, Goal<DU, DE>> {
    let x = vars.v[0].clone();
    let y = vars.v[1].clone();
    proto_vulcan!([matchu x { [[x], y, [] | t] | _ => , z | t => [conda { [false, y == P3([], _, [[]])] }, [x != (x, [[]]), 3 != y, [3, y] == y]], [[3 | x] | _] => [[[false, x] != x, y == [x]], |tz| { [1 | tz] != [1, 2], tz == [2] }], }])
}
pub fn case_216(vars: &Vars) -> InferredGoal<DU, DE, Goal<DU, DE>> {
    let q = vars.v[0].clone();
    let x = vars.v[1].clone();
    proto_vulcan!([|h| { [] == h, q != [[3, _, x]], P3(h, [x], [h, []]) != ([3, _], _) }, matcha q { _ => member(q, [1, 2, 3]), }])
}
pub fn case_217(vars: &Vars) -> InferredGoal<DU, DE, Goal<DU, DE>> {
    let q = vars.v[0].clone();
    let x = vars.v[1].clone();
    proto_vulcan!([matchu [true, 'b' | []] { [[], y, ['b' | z]] => { |y| { member(q, [1, 3]) } }, }])
}
pub fn case_218(vars: &Vars) -> InferredGoal<DU, DE, Goal<DU, DE>> {
    let x = vars.v[0].clone();
    proto_vulcan!([onceo { x == [x | x] }, matcha x { [1, [h, false], 1 | x] => , }])
}
pub fn case_219(vars: &Vars) -> InferredGoal<DU, DE, Goal<DU, DE>> {
    let q = vars.v[0].clone();
    let x = vars.v[1].clone();
    proto_vulcan!([matchu q { x => , "bc" => , }])
}
pub fn case_220(vars: &Vars) -> InferredGoal<DU, DE, Goal<DU, DE>> {
    let x = vars.v[0].clone();
    proto_vulcan!([false, matchu x { [3, [2, 2, t], [1, "a", 3 | [2, y]]] => , Named { a: y, b: 1 } => { P3(x, [y, 1], [y]) == x }, }])
}
pub fn case_221(vars: &Vars) -> InferredGoal<DU, DE, Goal<DU, DE>> {
    let q = vars.v[0].clone();
    let x = vars.v[1].clone();
    proto_vulcan!([|y, t| {  }, match [3, x | q] { _ => , [[h, 1, 2], 3, [2, 2 | 2] | "a"] => [[[[]] == q], x == 1], P3(2, _, 2) => { onceo { q == q }, [1, 2, x] != 3 }, }])
}
pub fn case_222(vars: &Vars) -> InferredGoal<DU, DE, Goal<DU, DE>> {
    let q = vars.v[0].clone();
    let x = vars.v[1].clone();
    proto_vulcan!([|y| { q != [q, 3, x | y], y == [x, _ | y] }, matchu x { _ | P3([[]], _, [2]) => , 3 | t => , [[z, 1 | 3], 1, [x, 2, _] | t] => , }])
}
pub fn case_223(vars: &Vars) -> InferredGoal<DU, DE, Goal<DU, DE>> {
    let q = vars.v[0].clone();
    let x = vars.v[1].clone();
    proto_vulcan!([[[q, 1 | x] == x, member(x, [2, 2]), member(q, [3, 2, 1])], matcha x { _ => , }])
}
pub fn case_224(vars: &Vars) -> InferredGoal<DU, DE, Goal<DU, DE>> {
    let x = vars.v[0].clone();
    let y = vars.v[1].clone();
    proto_vulcan!([[2, x] != x, matchu y { _ => , }])
}
pub fn case_225(vars: &Vars) -> InferredGoal<DU, DE, Goal<DU, DE>> {
    let x = vars.v[0].clone();
    let y = vars.v[1].clone();
    proto_vulcan!([[y != y, member(y, [])], matchu y { [["bc", 2, z] | t] | h => [y != x, conde { [false, x == y] }], }])
}
pub fn case_226(vars: &Vars) -> InferredGoal<DU, DE, Goal<DU, DE>> {
    let x = vars.v[0].clone();
    proto_vulcan!([matcha x { [[3 | y]] => , P3(z, 1, 3) => [conde { [x == P3([_, x], [[], 3], []), append(z, x, [3, 1])] }, x == [x]], }])
}
pub fn case_227(vars: &Vars) -> InferredGoal<DU, DE, Goal<DU, DE>> {
    let q = vars.v[0].clone();
    let x = vars.v[1].clone();
    proto_vulcan!([matche x { [[], [2, 3]] => , }])
}
pub fn case_228(vars: &Vars) -> InferredGoal<DU, DE, Goal<DU, DE>> {
    let x = vars.v[0].clone();
    proto_vulcan!([matche x { _ => [x == 7, x == 8], _ | ["a", h, 1 | _] => { condu { [member(x, []), member(x, [1])], [append(x, x, [2]), [1, [], [1, _, 1 | x] | [3, x]] == [x, x | x]] } }, [[y | _], _, [_ | _] | x] => { [false, append(x, x, [2])], conde { P3(y, [_, y], x) != y } }, }])
}
pub fn case_229(vars: &Vars) -> InferredGoal<DU, DE, Goal<DU, DE>> {
    let x = vars.v[0].clone();
    let y = vars.v[1].clone();
    proto_vulcan!([matcha y { [[[], [], z | h], z, ['a', 2]] | Named { a: 3, b: 1 } => { [P3([], [_], 3) != x, [[y, _]] == x, false] }, }])
}
pub fn case_230(vars: &Vars) -> InferredGoal<DU, DE, Goal<DU, DE>> {
    let q = vars.v[0].clone();
    let x = vars.v[1].clone();
    proto_vulcan!([true, match x { _ => [append(q, q, [3]), matchu q { [3, [_, x | y]] => , }], Named { a: y, b: [] } => [true, x == [_, "a", y | x]], _ => x == [x, q], }])
}
pub fn case_231(vars: &Vars) -> InferredGoal<DU, DE, Goal<DU, DE>> {
    let q = vars.v[0].clone();
    let x = vars.v[1].clone();
    proto_vulcan!([matche x { z => , _ | P3(x, [h, t], _) => [q == q, conda { [q != q, q != P3([q, []], q, [2, q])], [(3, q) == q, [[2]] != "bc"], [q != [q, 2, 2], q == 1] }], h => { [[h | x] == x, _ == q] }, }])
}
pub fn case_232(vars: &Vars) -> InferredGoal<DU, DE, Goal<DU, DE>> {
    let x = vars.v[0].clone();
    let y = vars.v[1].clone();
    proto_vulcan!([matche x { 2 | t => matche y { y => , [[x, 1], [1]] | h => , _ | [y, [t], 1] => , }, }])
}
pub fn case_233(vars: &Vars) -> InferredGoal<DU, DE, Goal<DU, DE>> {
    let q = vars.v[0].clone();
    let x = vars.v[1].clone();
    proto_vulcan!([x == [2, 3, q], matcha q { P3([], [_], [y, 3]) | [false | x] => [matchu q { _ | [[], 2, [t | _]] => { [[q], [q, "a"], [q, [], _]] != P3([2], q, []) }, }, condu { [q] == q }], [[z], [], [h, false]] => onceo { x != [['b', 1, []], [], false] }, }])
}
pub fn case_234(vars: &Vars) -> InferredGoal<DU, DE, Goal<DU, DE>> {
    let q = vars.v[0].clone();
    let x = vars.v[1].clone();
    proto_vulcan!([x == q, matchu x { [_, [z, _] | _] => , }])
}
pub fn case_235(vars: &Vars) -> InferredGoal<DU, DE, Goal<DU, DE>> {
    let x = vars.v[0].clone();
    proto_vulcan!([matchu x { P3([], 2, 3) => { matcha x { _ | [['b', 'a', []], _] => { x == [1, x | x] }, P3(h, 3, 3) => |tz| { [2, 1, 3, 3] != [2, 1 | tz], tz == [3, 3] }, [[t, h]] | [h] => h != 2, }, x == 1 }, }])
}
pub fn case_236(vars: &Vars) -> InferredGoal<DU, DE, Goal<DU, DE>> {
    let q = vars.v[0].clone();
    let x = vars.v[1].clone();
    proto_vulcan!([|y, z| { false, x != x }, matche q { 'a' => [[[[q], 3, q] == x]], [[z, []], [1, 'a', y] | _] => x == _, [[_, true]] => , }])
}
pub fn case_237(vars: &Vars) -> InferredGoal<DU, DE, Goal<DU, DE>> {
    let x = vars.v[0].clone();
    proto_vulcan!([matche [2, 'a', _ | x] { ["bc", [], [y | t]] | [[y], [t, x, 1]] => , }])
}
pub fn case_238(vars: &Vars) -> InferredGoal<DU, DE, Goal<DU, DE>> {
    let x = vars.v[0].clone();
    proto_vulcan!([2 != x, matche x { _ => member(x, [1, 2, 3]), }])
}
pub fn case_239(vars: &Vars) -> InferredGoal<DU, DE, Goal<DU, DE>> {
    let x = vars.v[0].clone();
    proto_vulcan!([|x| { x != (_, [x]), [_ | ['a']] == [['a', "a", x] | x], x == ([x, 1], _) }, matche x { 2 | [[_, z], false, [h | []] | _] => [|y| { false, false, [x | x] != y }, |z| { member(x, [2]), z != [x | x], x == [] }], [[y, 3, z] | z] => , }])
}
pub fn case_240(vars: &Vars) -> InferredGoal<DU, DE, Goal<DU, DE>> {
    let x = vars.v[0].clone();
    proto_vulcan!([match x { P3([t, 2], [[], _], h) | Named { a: t, b: t } => { conde { false, t != [t, 1, x | x], [1, 1] == t } }, [[t | x], [1, 3], [1, 1]] => matchu x { _ => { t == 7, t == 8 }, }, [3, [x, x], 'a'] => , }])
}
pub fn case_241(vars: &Vars) -> InferredGoal<DU, DE, Goal<DU, DE>> {
    let x = vars.v[0].clone();
    let y = vars.v[1].clone();
    proto_vulcan!([[], matchu y { [[t, _, 1], ["bc"]] => { match y { [[h, x], t, [2]] | _ => , _ => { member(y, [1, 2, 3]) }, } }, [[t | _], t] => , }])
}
pub fn case_242(vars: &Vars) -> InferredGoal<DU, DE, Goal<DU, DE>> {
    let q = vars.v[0].clone();
    let x = vars.v[1].clone();
    proto_vulcan!([|x| { ([], x) == [1], x == x, q == [2, _, 3] }, matchu true { _ => { member(q, [1, 2, 3]) }, [] => { [["bc", [], 1] | [x, x]] == 2, matchu q { 'b' => { [_, x | q] != x }, _ => [q == 7, q == 8], } }, }])
}
pub fn case_243(vars: &Vars) -> InferredGoal<DU, DE, Goal<DU, DE>> {
    let x = vars.v[0].clone();
    let y = vars.v[1].clone();
    proto_vulcan!([append(y, x, []), matche 2 { 1 => { matcha x { [[z | t], y, [z, [], 3]] => z == [1, z], _ => , [[_]] | [[[], z, z | h]] => , } }, 1 => , }])
}
pub fn case_244(vars: &Vars) -> InferredGoal<DU, DE, Goal<DU, DE>> {
    let x = vars.v[0].clone();
    let y = vars.v[1].clone();
    proto_vulcan!([matche x { _ => { member(x, [1, 2, 3]) }, _ => [y == 7, y == 8], }])
}
pub fn case_245(vars: &Vars) -> InferredGoal<DU, DE, Goal<DU, DE>> {
    let x = vars.v[0].clone();
    let y = vars.v[1].clone();
    proto_vulcan!([matchu x { [[3, z, 2], [2, y, y | h], h] => { [h, 2] == y, |h| { [[_, [], _ | y]] != _, x == [x, y, h] } }, }])
}
pub fn case_246(vars: &Vars) -> InferredGoal<DU, DE, Goal<DU, DE>> {
    let x = vars.v[0].clone();
    proto_vulcan!([[false, 2, [] | x] == x, matcha x { [true, [z, "bc", y] | _] => [y == z, matcha z { _ | Named { a: [y, 3], b: [_, []] } => { false }, _ => { z == 7, z == 8 }, Named { a: 1, b: [] } => append(x, y, [1]), }], t => , 3 => { matcha x { _ => [x == 7, x == 8], } }, }])
}
pub fn case_247(vars: &Vars) -> InferredGoal<DU, DE, Goal<DU, DE>> {
    let x = vars.v[0].clone();
    let y = vars.v[1].clone();
    proto_vulcan!([[true, true | _] == y, match x { x | P3(_, 1, y) => , [[1, z], [t, h, z] | x] => { match [z, 1, _ | z] { [[z | _], h] => , _ => [h != ["a", 2], |tz| { tz == [1, 3], [3, 1, 3] != [3 | tz] }], _ | _ => [x == 7, x == 8], } }, [[1]] => { [[3 | y] != P3(x, [], y), [] == y], [[_ | 'b'], [2, y], [x, "a", 2] | x] == [3, 2, x | y] }, }])
}
pub fn case_248(vars: &Vars) -> InferredGoal<DU, DE, Goal<DU, DE>> {
    let x = vars.v[0].clone();
    let y = vars.v[1].clone();
    proto_vulcan!([matchu [y | x] { P3([], [], h) | _ => { P3([], 2, y) == [true, y | y] }, }])
}
pub fn case_249(vars: &Vars) -> InferredGoal<DU, DE, Goal<DU, DE>> {
    let x = vars.v[0].clone();
    let y = vars.v[1].clone();
    proto_vulcan!([matchu x { Named { a: _, b: [] } => [[_, 1, x], x, x] == [y], [[h, 2], 2 | t] => , [[_ | z], [[], 2, 2], x] => , }])
}
pub fn case_250(vars: &Vars) -> InferredGoal<DU, DE, Goal<DU, DE>> {
    let x = vars.v[0].clone();
    proto_vulcan!([member(x, [3, 2, 3]), match x { _ | [[1, []], [[] | z]] => { ([2], _) == x }, [z, []] => { conde { x != z, [[[2, [], x], [1, _ | z], 'b'] == z, append(x, x, [])] } }, _ | [[], 1, _ | t] => [[x == [[], 2, 3], P3(x, 2, []) == x]], }])
}
pub fn case_251(vars: &Vars) -> InferredGoal<DU, DE, Goal<DU, DE>> {
    let q = vars.v[0].clone();
    let x = vars.v[1].clone();
    proto_vulcan!([match x { [[z, _, _], [y], [x, z, _]] | [[x, x, y]] => [x == [_], condu { (_, []) != x, [x == _, false] }], _ => { onceo { [x, 1] == q } }, [3, [1] | _] => { [2, 1 | [[], q]] != q }, }])
}
pub fn case_252(vars: &Vars) -> InferredGoal<DU, DE, Goal<DU, DE>> {
    let q = vars.v[0].clone();
    let x = vars.v[1].clone();
    proto_vulcan!([matchu x { P3([1, y], [_, []], 2) | [[z], [1, t, []], h | h] => , _ => [conda { _ != q, |tz| { tz == [3, 2], [3, 3, 2] != [3 | tz] } }, |t, y| { [[3, q]] == q }], _ => [q == 7, q == 8], }])
}
pub fn case_253(vars: &Vars) -> InferredGoal<DU, DE, Goal<DU, DE>> {
    let q = vars.v[0].clone();
    let x = vars.v[1].clone();
    proto_vulcan!([matcha x { _ => [q == 7, q == 8], [[3, y]] => [[q, "a"], [3, "a", [] | y], y | q] != x, _ => member(x, [1, 2, 3]), }])
}
pub fn case_254(vars: &Vars) -> InferredGoal<DU, DE, Goal<DU, DE>> {
    let x = vars.v[0].clone();
    let y = vars.v[1].clone();
    proto_vulcan!([y != y, matcha y { [h, [[], h, false | _], [_]] => , 3 => [[[x]] == 2, (3, [x]) == y], ['a', [[] | [x, false]]] | true => |y| {  }, }])
}
pub fn case_255(vars: &Vars) -> InferredGoal<DU, DE, Goal<DU, DE>> {
    let x = vars.v[0].clone();
    let y = vars.v[1].clone();
    proto_vulcan!([|z| { true }, matcha [1, _] { Named { a: 3, b: z } => , 'a' => , }])
}
pub fn case_256(vars: &Vars) -> InferredGoal<DU, DE, Goal<DU, DE>> {
    let q = vars.v[0].clone();
    let x = vars.v[1].clone();
    proto_vulcan!([matchu x { [[t, x]] | _ => false == q, }])
}
pub fn case_257(vars: &Vars) -> InferredGoal<DU, DE, Goal<DU, DE>> {
    let x = vars.v[0].clone();
    let y = vars.v[1].clone();
    proto_vulcan!([matcha x { [2, [[], 2]] => [2, x] == y, _ => [y == 7, y == 8], }])
}
pub fn case_258(vars: &Vars) -> InferredGoal<DU, DE, Goal<DU, DE>> {
    let x = vars.v[0].clone();
    let y = vars.v[1].clone();
    proto_vulcan!([x == [1, 2, 1], matcha y { [[x, []], [y, 3], [t] | h] => [conde { [x == x, x == P3(_, x, [])], ([t], []) == t }, y == ([x], y)], }])
}
pub fn case_259(vars: &Vars) -> InferredGoal<DU, DE, Goal<DU, DE>> {
    let x = vars.v[0].clone();
    let y = vars.v[1].clone();
    proto_vulcan!([matche y { 'a' => { [([_, x], []) != x, true, ([y, x], _) != [2, y, 2]] }, [[[]], 2] | [[x, false], x] => [match y { _ | _ => [member(y, []), member(y, [3])], h => , }, y != [2 | y]], [y] => [[y] != y, conde { [(1, [y]) != x, false != x], [y != [1, 3, x | []], (2, [_, y]) == y], [] }], }])
}
pub fn case_260(vars: &Vars) -> InferredGoal<DU, DE, Goal<DU, DE>> {
    let x = vars.v[0].clone();
    let y = vars.v[1].clone();
    proto_vulcan!([matcha x { P3(3, 2, t) => append(x, t, []), }])
}
pub fn case_261(vars: &Vars) -> InferredGoal<DU, DE, Goal<DU, DE>> {
    let x = vars.v[0].clone();
    let y = vars.v[1].clone();
    proto_vulcan!([match [x] { Named { a: 2, b: _ } => { y == [[], [1, 2, x] | x] }, [2, t] => , }])
}
pub fn case_262(vars: &Vars) -> InferredGoal<DU, DE, Goal<DU, DE>> {
    let x = vars.v[0].clone();
    proto_vulcan!([matcha x { [[y, []], _ | _] | _ => member(x, [1]), }])
}
pub fn case_263(vars: &Vars) -> InferredGoal<DU, DE, Goal<DU, DE>> {
    let x = vars.v[0].clone();
    proto_vulcan!([[3, x] == x, matchu x { y | 2 => { matchu x { 2 => , } }, [[[] | [t, z]] | _] => [[_, [] | z] == z, |tz| { [1 | tz] != [1, 2, 3], tz == [2, 3] }], Named { a: 1, b: t } => { conde { |tz| { [1, 3] != [1 | tz], tz == [3] } } }, }])
}
pub fn case_264(vars: &Vars) -> InferredGoal<DU, DE, Goal<DU, DE>> {
    let x = vars.v[0].clone();
    let y = vars.v[1].clone();
    proto_vulcan!([conde { [x == P3([_, 1], 2, [2, 2]), |tz| { tz == [1, 2], [3 | tz] != [3, 1, 2] }] }, matcha y { [[t, 1 | [t, []]], 1] | _ => , }])
}
pub fn case_265(vars: &Vars) -> InferredGoal<DU, DE, Goal<DU, DE>> {
    let x = vars.v[0].clone();
    proto_vulcan!([matcha x { P3([_, []], 3, 2) | x => , [[y, z, h], [_, z, "a"], [1, y, 2]] | [2, [2, _], [true] | ['a', _]] => , [['b', h], h, [h | y]] => true, }])
}
pub fn case_266(vars: &Vars) -> InferredGoal<DU, DE, Goal<DU, DE>> {
    let q = vars.v[0].clone();
    let x = vars.v[1].clone();
    proto_vulcan!([conde { true, [[[x, "a", 1]] == q, [_] == false] }, match q { t => , _ => { x == 7, x == 8 }, }])
}
pub fn case_267(vars: &Vars) -> InferredGoal<DU, DE, Goal<DU, DE>> {
    let x = vars.v[0].clone();
    proto_vulcan!([matcha _ { "a" => { [member(x, [2]), x != x, false] }, }])
}
pub fn case_268(vars: &Vars) -> InferredGoal<DU, DE, Goal<DU, DE>> {
    let x = vars.v[0].clone();
    let y = vars.v[1].clone();
    proto_vulcan!([match x { P3([], [3, []], _) => , }])
}
pub fn case_269(vars: &Vars) -> InferredGoal<DU, DE, Goal<DU, DE>> {
    let x = vars.v[0].clone();
    proto_vulcan!([[member(x, [3, 1, 1]), x == x], match [] { [[1, z], [x, []], z | h] => { z == ["bc", h], [[_, [x, h, z | h], 3 | x] == x, z == ["a" | z], [x, z] == x] }, [[1, [], z]] => { matcha z { z | [[t | z], x, [t]] => [1 != (z, _), z == z], }, conde { [x != [_ | [_, z]], x != [[], x]], append(z, z, [3, 3]), x == ([], _) } }, _ => { member(x, [1, 2, 3]) }, }])
}
pub fn case_270(vars: &Vars) -> InferredGoal<DU, DE, Goal<DU, DE>> {
    let x = vars.v[0].clone();
    let y = vars.v[1].clone();
    proto_vulcan!([|tz| { tz == [3, 2], [2, 1, 3, 2] != [2, 1 | tz] }, matche y { [[x, _, z | t]] => , }])
}
pub fn case_271(vars: &Vars) -> InferredGoal<DU, DE, Goal<DU, DE>> {
    let q = vars.v[0].clone();
    let x = vars.v[1].clone();
    proto_vulcan!([matchu x { [[y | 2]] => { onceo { y == (_, []) }, ["a", 2, y] == q }, }])
}
pub fn case_272(vars: &Vars) -> InferredGoal<DU, DE, Goal<DU, DE>> {
    let q = vars.v[0].clone();
    let x = vars.v[1].clone();
    proto_vulcan!([matche x { [[z, z], [y, 'b'], [[]]] => matcha x { 3 | [[z, t | h] | _] => , h => { append(z, z, [3]) }, _ => { false }, }, 3 | x => { [], [q, q, q] == ([q], [3, q]) }, _ => member(x, [1, 2, 3]), }])
}
pub fn case_273(vars: &Vars) -> InferredGoal<DU, DE, Goal<DU, DE>> {
    let x = vars.v[0].clone();
    let y = vars.v[1].clone();
    proto_vulcan!([_ == x, matchu y { 3 => [|t, h| {  }, x == 'b'], }])
}
pub fn case_274(vars: &Vars) -> InferredGoal<DU, DE, Goal<DU, DE>> {
    let x = vars.v[0].clone();
    let y = vars.v[1].clone();
    proto_vulcan!([matche y { Named { a: [], b: t } => matcha x { P3(y, 3, 1) => [y == ([x, t], t), member(y, [2])], }, Named { a: [3], b: z } => matche 1 { Named { a: [3], b: [h, _] } => , ['b', y, [2]] => member(x, [2, 2, 3]), [[_, [], 1], [2], [z, 1] | 1] => { append(z, z, [3]), 'b' != y }, }, P3(3, x, h) => [[h == [2, h, _], _ == h]], }])
}
pub fn case_275(vars: &Vars) -> InferredGoal<DU, DE, Goal<DU, DE>> {
    let q = vars.v[0].clone();
    let x = vars.v[1].clone();
    proto_vulcan!([|x, z| { |tz| { tz == [3], [1 | tz] != [1, 3] }, true }, matchu q { _ => { matchu [1, "a" | q] { [false, [x | y]] | _ => P3(3, [], 3) == q, [_, [z] | _] => ['b', []] == q, _ => [q == 7, q == 8], } }, }])
}
pub fn case_276(vars: &Vars) -> InferredGoal<DU, DE, Goal<DU, DE>> {
    let q = vars.v[0].clone();
    let x = vars.v[1].clone();
    proto_vulcan!([q == [3, 2], matche q { h => h == P3([q, q], x, q), }])
}
pub fn case_277(vars: &Vars) -> InferredGoal<DU, DE, Goal<DU, DE>> {
    let x = vars.v[0].clone();
    proto_vulcan!([matcha x { 1 => , }])
}
pub fn case_278(vars: &Vars) -> InferredGoal<DU, DE, Goal<DU, DE>> {
    let x = vars.v[0].clone();
    proto_vulcan!([true, matcha x { [[]] => , [[[], t], [[], h], [1, z]] => { P3(x, _, 1) == ([2, h], [[], []]), match t { [[1, x]] | [[1]] => , y => , } }, [[t, [] | x], [y, []], z] => , }])
}
pub fn case_279(vars: &Vars) -> InferredGoal<DU, DE, Goal<DU, DE>> {
    let q = vars.v[0].clone();
    let x = vars.v[1].clone();
    proto_vulcan!([q == P3(_, [1, x], x), matche [q] { [[1, 1, h]] => [conde { [], [|tz| { [1, 1, 3] != [1 | tz], tz == [1, 3] }, member(x, [3, 3, 2])], x == (1, 1) }, conde { [member(x, [1, 3]), 1 == x], [] }], }])
}
pub fn case_280(vars: &Vars) -> InferredGoal<DU, DE, Goal<DU, DE>> {
    let x = vars.v[0].clone();
    let y = vars.v[1].clone();
    proto_vulcan!([|tz| { tz == [3, 2], [2, 3, 2] != [2 | tz] }, match y { [[_ | x], [h] | h] | [[z, 2], [2, 2, t] | h] => , Named { a: 1, b: 3 } | P3(x, 1, 2) => , [3, [z, _, y | x]] => { x == z }, }])
}
pub fn case_281(vars: &Vars) -> InferredGoal<DU, DE, Goal<DU, DE>> {
    let x = vars.v[0].clone();
    proto_vulcan!([matchu x { P3(3, 1, _) => |z| { x == [[]], true }, }])
}
pub fn case_282(vars: &Vars) -> InferredGoal<DU, DE, Goal<DU, DE>> {
    let x = vars.v[0].clone();
    let y = vars.v[1].clone();
    proto_vulcan!([match x { t => , }])
}
pub fn case_283(vars: &Vars) -> InferredGoal<DU, DE, Goal<DU, DE>> {
    let q = vars.v[0].clone();
    let x = vars.v[1].clone();
    proto_vulcan!([matchu x { Named { a: [h, _], b: 3 } | _ => conde { x == [], q != P3([], 1, 1), [|tz| { tz == [3, 2], [2, 1 | tz] != [2, 1, 3, 2] }, member(q, [2])] }, true => conde { [] == q, 2 == q, [false, [3, q] != q] }, }])
}
pub fn case_284(vars: &Vars) -> InferredGoal<DU, DE, Goal<DU, DE>> {
    let x = vars.v[0].clone();
    let y = vars.v[1].clone();
    proto_vulcan!([matche x { P3([], 2, t) | 1 => matchu x { [_, [], false] => , }, [[2, 1], y, [1, 1, 3] | _] => matche [x] { _ => [y == 7, y == 8], _ | [t, [] | x] => , }, _ => { _ == y, matche y { [false] => y == [x, y | y], z | [1, [x, [], h], [y]] => , } }, }])
}
pub fn case_285(vars: &Vars) -> InferredGoal<DU, DE, Goal<DU, DE>> {
    let x = vars.v[0].clone();
    proto_vulcan!([|t, z| { [t] != x }, matche x { P3(1, t, 3) => , }])
}
pub fn case_286(vars: &Vars) -> InferredGoal<DU, DE, Goal<DU, DE>> {
    let x = vars.v[0].clone();
    proto_vulcan!([x != [x], match 2 { [[_, z], [[], 1, 1]] | [[2, 1, 3]] => { 2 == x }, _ => { |y| { |tz| { tz == [2, 2], [1, 2, 2] != [1 | tz] }, _ == x, y == (2, []) } }, }])
}
pub fn case_287(vars: &Vars) -> InferredGoal<DU, DE, Goal<DU, DE>> {
    let x = vars.v[0].clone();
    let y = vars.v[1].clone();
    proto_vulcan!([|t| { t != [1, x, 1], [[t, 1, [] | y], [x], _ | t] == t }, matcha x { P3(y, [t, x], [3, h]) => [|y| {  }, |z, x| { |tz| { [3, 3, 1] != [3 | tz], tz == [3, 1] } }], }])
}
pub fn case_288(vars: &Vars) -> InferredGoal<DU, DE, Goal<DU, DE>> {
    let q = vars.v[0].clone();
    let x = vars.v[1].clone();
    proto_vulcan!([P3([1, []], [1], []) == x, matche x { 1 => { condu { [false, 2 == q], 1 == q, |tz| { tz == [1, 3], [3, 3, 1, 3] != [3, 3 | tz] } } }, }])
}
pub fn case_289(vars: &Vars) -> InferredGoal<DU, DE, Goal<DU, DE>> {
    let x = vars.v[0].clone();
    proto_vulcan!([x == x, match x { z => { condu { [z] == x }, |y, z| { [] == z, z != [[]], P3(z, 3, [y]) == z } }, _ => { member(x, [1, 2, 3]) }, }])
}
pub fn case_290(vars: &Vars) -> InferredGoal<DU, DE, Goal<DU, DE>> {
    let q = vars.v[0].clone();
    let x = vars.v[1].clone();
    proto_vulcan!([match 1 { h => [[h != [x, q, h]], q == [[2, q | x], [2 | h], ["a", 'a', 3]]], [[z, []], [[]], [t, t, _] | t] => [[q == q, [["bc"], [_, x, x] | t] == x, z == P3(x, _, 3)]], }])
}
pub fn case_291(vars: &Vars) -> InferredGoal<DU, DE, Goal<DU, DE>> {
    let x = vars.v[0].clone();
    proto_vulcan!([matche x { [3, ['a'], _] => , }])
}
pub fn case_292(vars: &Vars) -> InferredGoal<DU, DE, Goal<DU, DE>> {
    let q = vars.v[0].clone();
    let x = vars.v[1].clone();
    proto_vulcan!([false, match [2, 1, 2] { _ | [2, [[], 1 | t] | h] => , }])
}
pub fn case_293(vars: &Vars) -> InferredGoal<DU, DE, Goal<DU, DE>> {
    let x = vars.v[0].clone();
    proto_vulcan!([|tz| { [1, 2, 2] != [1 | tz], tz == [2, 2] }, matchu [x, 2, 2] { [[y, y, 2], t, 1 | [x]] | [[z, t | h] | x] => [conde { P3([x], _, 3) == P3([], x, []), [1] == x }, (1, 3) == t], _ => conde { [], [x == P3(2, [2, _], 2), true], P3([3], [x, 3], [[]]) == 3 }, [[t, "a"], 'a' | x] => [true, t != P3(2, x, 1)], }])
}
pub fn case_294(vars: &Vars) -> InferredGoal<DU, DE, Goal<DU, DE>> {
    let x = vars.v[0].clone();
    proto_vulcan!([x == [], matcha x { t => { true }, }])
}
pub fn case_295(vars: &Vars) -> InferredGoal<DU, DE, Goal<DU, DE>> {
    let x = vars.v[0].clone();
    proto_vulcan!([true, match x { [[y, 'b']] => matchu x { Named { a: 3, b: h } | P3(_, [1, x], 2) => , [] => P3(x, [y, 3], [1]) == x, [[2, 2, _ | z], [2, [] | [_]]] => , }, }])
}
pub fn case_296(vars: &Vars) -> InferredGoal<DU, DE, Goal<DU, DE>> {
    let x = vars.v[0].clone();
    proto_vulcan!([([], x) == x, matcha x { [['a', [] | 3], [[], t | _], x | h] | [t, false] => , 2 => { [[2, []] != x], member(x, [1, 2]) }, }])
}
pub fn case_297(vars: &Vars) -> InferredGoal<DU, DE, Goal<DU, DE>> {
    let x = vars.v[0].clone();
    let y = vars.v[1].clone();
    proto_vulcan!([x == [1, [2, _] | y], y != []])
}
pub fn case_298(vars: &Vars) -> InferredGoal<DU, DE, Goal<DU, DE>> {
    let x = vars.v[0].clone();
    proto_vulcan!([conde { x == 'a', [x == "bc", true], false }])
}
pub fn case_299(vars: &Vars) -> InferredGoal<DU, DE, Goal<DU, DE>> {
    let x = vars.v[0].clone();
    proto_vulcan!([conde { x == 1, true, x == 2 }])
}
pub fn case_300(vars: &Vars) -> InferredGoal<DU, DE, Goal<DU, DE>> {
    let x = vars.v[0].clone();
    let y = vars.v[1].clone();
    proto_vulcan!([conde { x == 1, [true, true], y == 2, [x == 3, y == 3] }])
}
pub fn case_301(vars: &Vars) -> InferredGoal<DU, DE, Goal<DU, DE>> {
    let x = vars.v[0].clone();
    proto_vulcan!([conde { true, true }])
}
pub fn case_302(vars: &Vars) -> InferredGoal<DU, DE, Goal<DU, DE>> {
    let q = vars.v[0].clone();
    let x = vars.v[1].clone();
    proto_vulcan!([|x| { x == 1, q == [x, true] }])
}
pub fn case_303(vars: &Vars) -> InferredGoal<DU, DE, Goal<DU, DE>> {
    let x = vars.v[0].clone();
    proto_vulcan!([closure { [x == 1, conde { true, true }] }])
}
pub fn case_304(vars: &Vars) -> InferredGoal<DU, DE, Goal<DU, DE>> {
    let x = vars.v[0].clone();
    let y = vars.v[1].clone();
    proto_vulcan!([[] == x, y == [[]]])
}
pub fn case_305(vars: &Vars) -> InferredGoal<DU, DE, Goal<DU, DE>> {
    let x = vars.v[0].clone();
    let y = vars.v[1].clone();
    proto_vulcan!([x == [1, 2 | []], y == [x | [3]]])
}
pub fn case_306(vars: &Vars) -> InferredGoal<DU, DE, Goal<DU, DE>> {
    let x = vars.v[0].clone();
    proto_vulcan!([x != [1 | []], conde { x == [1], x == [1, []] }])
}
pub fn case_307(vars: &Vars) -> InferredGoal<DU, DE, Goal<DU, DE>> {
    let q = vars.v[0].clone();
    let x = vars.v[1].clone();
    proto_vulcan!([member(x, []), [([[]], [x]) == q, |t, z| { |h| { 1 == x }, t != x }], { let c__: InferredGoal<DU, DE, Goal<DU, DE>> = proto_vulcan_closure!(|yy| { conde { [q == [yy | _], yy == 1], [q == [_, yy | _], yy == 2] } }); let g__: Goal<DU, DE> = ::proto_vulcan::GoalCast::cast_into(c__); let r__: InferredGoal<DU, DE, Goal<DU, DE>> = proto_vulcan!([g__.clone(), g__]); r__ }])
}
pub fn case_308(vars: &Vars) -> InferredGoal<DU, DE, Goal<DU, DE>> {
    let q = vars.v[0].clone();
    let x = vars.v[1].clone();
    proto_vulcan!([|y| { y != 2, |z| { append(z, y, [2, 2]), q == _ }, x == [x, 2 | q] }, |tz| { tz == [1, 2], [3, 1, 1, 2] != [3, 1 | tz] }])
}
pub fn case_309(vars: &Vars) -> InferredGoal<DU, DE, Goal<DU, DE>> {
    let q = vars.v[0].clone();
    let x = vars.v[1].clone();
    proto_vulcan!([conde { [[[], q | q] != x, 3 == q], |t, h| { conde { [[2], [[], 1, 1], [t, 3]] == [1], q != [_, [t, h], [false]], _ == x }, conde { t == [_], false, h == 1 } } }, P3([], 3, q) == q, |tz| { tz == [2], [3 | tz] != [3, 2] }])
}
pub fn case_310(vars: &Vars) -> InferredGoal<DU, DE, Goal<DU, DE>> {
    let x = vars.v[0].clone();
    let y = vars.v[1].clone();
    proto_vulcan!([conda { [P3([2, x], x, 2) == [[], y, []], P3(1, [], 2) == y], |tz| { tz == [1, 3], [2, 2, 1, 3] != [2, 2 | tz] } }])
}
pub fn case_311(vars: &Vars) -> InferredGoal<DU, DE, Goal<DU, DE>> {
    let x = vars.v[0].clone();
    let y = vars.v[1].clone();
    proto_vulcan!([condu { 2 == [x] }, |h, t| { [x, y] == P3(t, [t], [t]), |z, t| { [x] == x, member(t, []) }, [] }, condu { [[[3, y, 1], x | x] == y, [[]] == [x | y]], [append(x, y, [3]), [[1, y, x | [2]], y | x] == x] }])
}
pub fn case_312(vars: &Vars) -> InferredGoal<DU, DE, Goal<DU, DE>> {
    let x = vars.v[0].clone();
    let y = vars.v[1].clone();
    proto_vulcan!([[[1], [_, _, _], 1] == [1, 2, y | 1], |h| { conde { [[2, 1], 'b'] == P3([_, 2], [3, []], _), [conde { [2 != [y], x != [y]], [] }, y == [[2, "a", []], [h | x]]], |t, y| { x == [t, _], x != [3, 1, h | x] } } }])
}
pub fn case_313(vars: &Vars) -> InferredGoal<DU, DE, Goal<DU, DE>> {
    let q = vars.v[0].clone();
    let x = vars.v[1].clone();
    proto_vulcan!([[[2], [q]] != ["a"], closure { q == q }])
}
pub fn case_314(vars: &Vars) -> InferredGoal<DU, DE, Goal<DU, DE>> {
    let x = vars.v[0].clone();
    let y = vars.v[1].clone();
    proto_vulcan!([|y| { |h| {  } }, closure { x == 2 }])
}
pub fn case_315(vars: &Vars) -> InferredGoal<DU, DE, Goal<DU, DE>> {
    let x = vars.v[0].clone();
    proto_vulcan!([conda { [append(x, x, [1]), []], [conda { [|tz| { [2, 1 | tz] != [2, 1, 1, 3], tz == [1, 3] }, |tz| { [3 | tz] != [3, 2], tz == [2] }], [conde { [P3([x, []], x, 2) == x, [3] != x], [true, (x, x) == x] }, x != P3(_, 2, 3)] }, true], [conde { [], [], [P3(x, x, _) != x, conde { [1, x, x] == x, true }] }, 2 == [x]] }, conde { [[]], x != [[], x, "bc"], [_ == x, [x] == x] }])
}
pub fn case_316(vars: &Vars) -> InferredGoal<DU, DE, Goal<DU, DE>> {
    let x = vars.v[0].clone();
    proto_vulcan!([[_, [], [x, _]] == 2, |t| {  }, conda { |x, h| { conde { h == P3(x, [x, x], _) }, x == h, [h == [x | x], member(x, []), [[] | h] == [[h], [3], [x | x] | h]] } }])
}
pub fn case_317(vars: &Vars) -> InferredGoal<DU, DE, Goal<DU, DE>> {
    let q = vars.v[0].clone();
    let x = vars.v[1].clone();
    proto_vulcan!([[1, q, [q, 3, []]] == q, append(x, x, [2]), |y, h| { [], |y, x| {  }, |h| { (3, q) == [[[], h, false], [h]], false } }])
}
pub fn case_318(vars: &Vars) -> InferredGoal<DU, DE, Goal<DU, DE>> {
    let x = vars.v[0].clone();
    proto_vulcan!([|y| {  }, x == x])
}
pub fn case_319(vars: &Vars) -> InferredGoal<DU, DE, Goal<DU, DE>> {
    let x = vars.v[0].clone();
    let y = vars.v[1].clone();
    proto_vulcan!([[[x, y]] == [[1, [] | y], [], ['a', 1, _]], ([], [x]) == x, conda { |t, y| { conde { [], y != y }, onceo { [_, _] == t }, [1, 1, _ | 1] == y }, (3, [x, x]) == y }])
}
pub fn case_320(vars: &Vars) -> InferredGoal<DU, DE, Goal<DU, DE>> {
    let x = vars.v[0].clone();
    let y = vars.v[1].clone();
    proto_vulcan!([(3, x) == x, [x, _] == x, { let c__: InferredGoal<DU, DE, Goal<DU, DE>> = proto_vulcan_closure!(|yy| { conde { [x == [yy | _], yy == 1], [x == [_, yy | _], yy == 2] } }); let g__: Goal<DU, DE> = ::proto_vulcan::GoalCast::cast_into(c__); let r__: InferredGoal<DU, DE, Goal<DU, DE>> = proto_vulcan!([g__.clone(), g__]); r__ }])
}
pub fn case_321(vars: &Vars) -> InferredGoal<DU, DE, Goal<DU, DE>> {
    let x = vars.v[0].clone();
    let y = vars.v[1].clone();
    proto_vulcan!([x != [y, x, x], [[], [], [[y], x, [x]] != y]])
}
pub fn case_322(vars: &Vars) -> InferredGoal<DU, DE, Goal<DU, DE>> {
    let x = vars.v[0].clone();
    let y = vars.v[1].clone();
    proto_vulcan!([[_, y, "a"] == y, y == (x, x), { let c__: InferredGoal<DU, DE, Goal<DU, DE>> = proto_vulcan_closure!([|yy| { conde { [y == [yy | _], yy == 1], [y == [_, yy | _], yy == 2] } }, onceo { true }]); let g__: Goal<DU, DE> = ::proto_vulcan::GoalCast::cast_into(c__); let r__: InferredGoal<DU, DE, Goal<DU, DE>> = proto_vulcan!([g__.clone(), g__]); r__ }])
}
pub fn case_323(vars: &Vars) -> InferredGoal<DU, DE, Goal<DU, DE>> {
    let q = vars.v[0].clone();
    let x = vars.v[1].clone();
    proto_vulcan!([conda { x != 2 }, |x| { [q, x] == q, q == [1, x, false | x], conde { [[q, _, x] != q, |h| { h != [q] }], [false, x == [_, "bc", q]], [condu { false, [q != _, q == x], [true == [], x == [_, x, x | x]] }, true] } }, false])
}
pub fn case_324(vars: &Vars) -> InferredGoal<DU, DE, Goal<DU, DE>> {
    let x = vars.v[0].clone();
    proto_vulcan!([true, |y, t| { [] == [1, 3, 1] }, |x| { [], x == P3(x, [[], 3], [x]), [x] != x }])
}
pub fn case_325(vars: &Vars) -> InferredGoal<DU, DE, Goal<DU, DE>> {
    let x = vars.v[0].clone();
    let y = vars.v[1].clone();
    proto_vulcan!([|tz| { tz == [3, 1], [3 | tz] != [3, 3, 1] }, y == [y, 2]])
}
pub fn case_326(vars: &Vars) -> InferredGoal<DU, DE, Goal<DU, DE>> {
    let x = vars.v[0].clone();
    proto_vulcan!([x == 2, { let c__: InferredGoal<DU, DE, Goal<DU, DE>> = proto_vulcan_closure!([|yy| { conde { [x == [yy | _], yy == 1], [x == [_, yy | _], yy == 2] } }, false]); let g__: Goal<DU, DE> = ::proto_vulcan::GoalCast::cast_into(c__); let r__: InferredGoal<DU, DE, Goal<DU, DE>> = proto_vulcan!([g__.clone(), g__]); r__ }])
}
pub fn case_327(vars: &Vars) -> InferredGoal<DU, DE, Goal<DU, DE>> {
    let q = vars.v[0].clone();
    let x = vars.v[1].clone();
    proto_vulcan!([[x != [[q, [], q], 1 | q], |y| { true, q == [[x, q]] }, [|x, h| { (3, x) == q }]], |z, t| { t == _ }, |h| { q == [[], q], conde { [[member(h, []), false, q == (2, 2)], true], [|t, y| { y == [_, 1, x | q], q == [[3], [q, 1], [t, 1] | q], t == [x | 2] }, |t, h| { h == h, h == [1], ([], [3, []]) == x }], [] }, [[q | q] | q] == [2] }])
}
pub fn case_328(vars: &Vars) -> InferredGoal<DU, DE, Goal<DU, DE>> {
    let x = vars.v[0].clone();
    let y = vars.v[1].clone();
    proto_vulcan!([(2, [y, 2]) == []])
}
pub fn case_329(vars: &Vars) -> InferredGoal<DU, DE, Goal<DU, DE>> {
    let q = vars.v[0].clone();
    let x = vars.v[1].clone();
    proto_vulcan!([conde { [], [[[x, [] | q], [q, 3 | 1] | q] == x, |tz| { tz == [2], [1 | tz] != [1, 2] }], false }, [1, [q, x, 1] | q] == _])
}
pub fn case_330(vars: &Vars) -> InferredGoal<DU, DE, Goal<DU, DE>> {
    let q = vars.v[0].clone();
    let x = vars.v[1].clone();
    proto_vulcan!([true, conde { conde { [q, 2 | x] != q, [false, conde { [x != 3, x == x], [q == [x, x], q == 2] }], [[[q | q] != q, P3([x, _], [q, 2], [q]) != [x], q == q]] }, [P3(_, x, 1) == x, []], |x| { |z| { false }, [|tz| { [1 | tz] != [1, 1, 3], tz == [1, 3] }] } }])
}
pub fn case_331(vars: &Vars) -> InferredGoal<DU, DE, Goal<DU, DE>> {
    let q = vars.v[0].clone();
    let x = vars.v[1].clone();
    proto_vulcan!([conde { [[member(x, [1]), [|tz| { tz == [3], [1, 1 | tz] != [1, 1, 3] }, x != 1], ([_], q) == x]], [[[x, q], [2, [], q]] == [_], |h| { P3([h], [], [2, 2]) == q, |tz| { [2 | tz] != [2, 1, 2], tz == [1, 2] }, onceo { q == [1] } }], [q == "a", 1 == P3(q, _, [[], x])] }, q == [2, []], { let c__: InferredGoal<DU, DE, Goal<DU, DE>> = proto_vulcan_closure!([|yy| { conde { [q == [yy | _], yy == 1], [q == [_, yy | _], yy == 2] } }, |x, t| { 2 == t, _ == x, false }]); let g__: Goal<DU, DE> = ::proto_vulcan::GoalCast::cast_into(c__); let r__: InferredGoal<DU, DE, Goal<DU, DE>> = proto_vulcan!([g__.clone(), g__]); r__ }])
}
pub fn case_332(vars: &Vars) -> InferredGoal<DU, DE, Goal<DU, DE>> {
    let x = vars.v[0].clone();
    let y = vars.v[1].clone();
    proto_vulcan!([append(x, y, [2]), |z| { append(x, x, []), ([_, 2], y) != x, |x| {  } }, P3(2, _, []) == _])
}
pub fn case_333(vars: &Vars) -> InferredGoal<DU, DE, Goal<DU, DE>> {
    let q = vars.v[0].clone();
    let x = vars.v[1].clone();
    proto_vulcan!([|x| { [x == 3, conde { [x == P3(_, 1, 2), q != x], [|tz| { tz == [3, 3], [1 | tz] != [1, 3, 3] }, P3(x, [], x) != x], [q != [2 | _], [q] == [[x, 2, "bc"]]] }, x == [1, q]], 3 == q, conde { [], [true, x] == x } }, |z| { z == [1, "a" | true], z == P3([z], 1, 2), z == 2 }])
}
pub fn case_334(vars: &Vars) -> InferredGoal<DU, DE, Goal<DU, DE>> {
    let x = vars.v[0].clone();
    proto_vulcan!([|h| { [|y, z| { [h | 1] != y, (h, 3) == y, [_, 1, "bc"] == [2, [y, 2, []], _] }, |x, y| { |tz| { [1 | tz] != [1, 3], tz == [3] }, member(y, [3, 2]) }], [[[x, h], 1] != x, |z| { member(x, []), [[false, 1, h]] == h, |tz| { [3, 3 | tz] != [3, 3, 1, 1], tz == [1, 1] } }] }, closure { |t, z| { (1, []) == t, [1, _, 1] == z } }])
}
pub fn case_335(vars: &Vars) -> InferredGoal<DU, DE, Goal<DU, DE>> {
    let x = vars.v[0].clone();
    let y = vars.v[1].clone();
    proto_vulcan!([|tz| { [1, 1, 3] != [1 | tz], tz == [1, 3] }])
}
pub fn case_336(vars: &Vars) -> InferredGoal<DU, DE, Goal<DU, DE>> {
    let q = vars.v[0].clone();
    let x = vars.v[1].clone();
    proto_vulcan!([conde { |t| { append(q, q, [2, 2]) }, [member(q, []), conde { |tz| { [2, 1, 3, 3] != [2, 1 | tz], tz == [3, 3] }, [condu { x == [[]] }, member(q, [1])] }] }, q == (1, x), [|x| { x == x, [x == [false, x], x == ([3], [q])], (3, [1, 3]) == q }, conde { conde { 2 == q, [x == [q, q], P3([[], 1], [q, x], [q]) == x], member(q, []) }, true }, conde { [q == q, [[[], 2, 1] | x] == [3 | q]], |z| {  }, [[3 | x], [x, 2]] == x }], closure { x != 2 }])
}
pub fn case_337(vars: &Vars) -> InferredGoal<DU, DE, Goal<DU, DE>> {
    let x = vars.v[0].clone();
    let y = vars.v[1].clone();
    proto_vulcan!([x != ([_], [3]), x == [y, y], x == ([[], y], []), closure { (y, []) == x }])
}
pub fn case_338(vars: &Vars) -> InferredGoal<DU, DE, Goal<DU, DE>> {
    let x = vars.v[0].clone();
    let y = vars.v[1].clone();
    proto_vulcan!([true, conde { |z, t| { t == [_ | z], P3([], _, t) == t }, |t| { t == [[1], [y, 2, t | y], [2, "a"]], |x| { y == x, |tz| { tz == [3, 1], [2, 2 | tz] != [2, 2, 3, 1] } }, [x != y, true != [2, []]] } }, conde { [[false, 1] == P3([], _, [[], 1]), [3] == x], [] }])
}
pub fn case_339(vars: &Vars) -> InferredGoal<DU, DE, Goal<DU, DE>> {
    let q = vars.v[0].clone();
    let x = vars.v[1].clone();
    proto_vulcan!([conde { |t, z| { z == 1, [t, t] == t }, _ == x }, { let c__: InferredGoal<DU, DE, Goal<DU, DE>> = proto_vulcan_closure!([|yy| { conde { [q == [yy | _], yy == 1], [q == [_, yy | _], yy == 2] } }, q == 1]); let g__: Goal<DU, DE> = ::proto_vulcan::GoalCast::cast_into(c__); let r__: InferredGoal<DU, DE, Goal<DU, DE>> = proto_vulcan!([g__.clone(), g__]); r__ }])
}
pub fn case_340(vars: &Vars) -> InferredGoal<DU, DE, Goal<DU, DE>> {
    let x = vars.v[0].clone();
    let y = vars.v[1].clone();
    proto_vulcan!([[|tz| { tz == [1, 1], [1, 2, 1, 1] != [1, 2 | tz] }, conde { |tz| { [1 | tz] != [1, 3, 3], tz == [3, 3] }, [|tz| { [2 | tz] != [2, 2, 1], tz == [2, 1] }, x == y] }, [x == (_, 2), ([], 3) != y]], onceo { |z| { [2, x | x] == z, x != 3 } }, closure { y == [y | x] }])
}
pub fn case_341(vars: &Vars) -> InferredGoal<DU, DE, Goal<DU, DE>> {
    let x = vars.v[0].clone();
    proto_vulcan!([conde { [false, x == [3, false]], [x != [_ | 3], x == 2], [onceo { 2 != x }, x == [3]] }, onceo { x == x }])
}
pub fn case_342(vars: &Vars) -> InferredGoal<DU, DE, Goal<DU, DE>> {
    let q = vars.v[0].clone();
    let x = vars.v[1].clone();
    proto_vulcan!([q == P3(_, [3, x], _), condu { [|t, h| {  }, x != q], [false, |h| {  }], [|y| { P3([1], x, [q]) == x, |tz| { [2, 1, 1] != [2, 1 | tz], tz == [1] } }, x == 1] }])
}
pub fn case_343(vars: &Vars) -> InferredGoal<DU, DE, Goal<DU, DE>> {
    let x = vars.v[0].clone();
    proto_vulcan!([_ != P3(x, [], _), 1 == x, [[3, 1, 2], [1, _, 1 | 3]] == x, closure { [[_] == x, |t| { t == t }] }])
}
pub fn case_344(vars: &Vars) -> InferredGoal<DU, DE, Goal<DU, DE>> {
    let x = vars.v[0].clone();
    let y = vars.v[1].clone();
    proto_vulcan!([|h| { append(y, h, []) }, [] == [[_, x, 3 | [y, x]]]])
}
pub fn case_345(vars: &Vars) -> InferredGoal<DU, DE, Goal<DU, DE>> {
    let x = vars.v[0].clone();
    proto_vulcan!([[_] != x, |y| { [member(x, [1, 1])], conde { [[y == y, y != [[y, _, 2]], ["bc", 2, y] == x]], true }, (x, _) == x }, x == P3([1], _, 2), closure { [x == [true, x], [_ | x] == x] }])
}
pub fn case_346(vars: &Vars) -> InferredGoal<DU, DE, Goal<DU, DE>> {
    let q = vars.v[0].clone();
    let x = vars.v[1].clone();
    proto_vulcan!([[[[q == [x, 1, true]], P3([x, _], 1, [x, 1]) != x], true, |t| {  }], 2 == x, |t| {  }])
}
pub fn case_347(vars: &Vars) -> InferredGoal<DU, DE, Goal<DU, DE>> {
    let x = vars.v[0].clone();
    proto_vulcan!([[2, 1] == x])
}
pub fn case_348(vars: &Vars) -> InferredGoal<DU, DE, Goal<DU, DE>> {
    let q = vars.v[0].clone();
    let x = vars.v[1].clone();
    proto_vulcan!([conda { |tz| { tz == [1], [3, 3 | tz] != [3, 3, 1] }, [[['a', _ | q] == x, x == [q], conde { [[q, []] == x, append(x, q, [2, 1])], [member(x, [2, 3, 2]), q == [[q, 1, q], [3, [], x], [1, x, 2]]] }], conde { x == P3(q, [_, q], []) }] }, false, [[], x, 1 | x] == q])
}
pub fn case_349(vars: &Vars) -> InferredGoal<DU, DE, Goal<DU, DE>> {
    let q = vars.v[0].clone();
    let x = vars.v[1].clone();
    proto_vulcan!([|h| { [], q == [1 | []], |h| { h == 3, |tz| { [3, 3, 3] != [3 | tz], tz == [3, 3] } } }, closure { [conde { conde { [x == (3, q), x == (q, x)], [3] == x, true } }, x != [[], q, 2 | x]] }])
}
pub fn case_350(vars: &Vars) -> InferredGoal<DU, DE, Goal<DU, DE>> {
    let x = vars.v[0].clone();
    proto_vulcan!([conde { conde { (x, x) == [x, [], []], [true, x == "a"], |z| { x == P3(_, x, _), x == [[z, "bc", _ | x]] } } }, (_, [[], []]) == x, conde { [[["bc", x], [x | x] | x] == x, member(x, [3])], [false, x | x] != x }])
}
pub fn case_351(vars: &Vars) -> InferredGoal<DU, DE, Goal<DU, DE>> {
    let x = vars.v[0].clone();
    let y = vars.v[1].clone();
    proto_vulcan!([conde { [conde { [], [x == ([2, 2], x), y != [x, x, true]] }, y == y] }])
}
pub fn case_352(vars: &Vars) -> InferredGoal<DU, DE, Goal<DU, DE>> {
    let q = vars.v[0].clone();
    let x = vars.v[1].clone();
    proto_vulcan!([|tz| { tz == [3, 3], [3, 1 | tz] != [3, 1, 3, 3] }, conde { [x == [_], |y, h| { y == x }], [] }, true, closure { conda { onceo { x != [x, q] }, [|y| { true, x == 1 }, 2 == x], [[true, "bc", 1] == x, |h| { x == h, (_, h) == q, false == q }] } }])
}
pub fn case_353(vars: &Vars) -> InferredGoal<DU, DE, Goal<DU, DE>> {
    let x = vars.v[0].clone();
    let y = vars.v[1].clone();
    proto_vulcan!([|h, t| { h == "a", h != ([h], []) }])
}
pub fn case_354(vars: &Vars) -> InferredGoal<DU, DE, Goal<DU, DE>> {
    let q = vars.v[0].clone();
    let x = vars.v[1].clone();
    proto_vulcan!([x == 1, condu { [onceo { [true | x] != q }, [[], [], _ | x] == q], [(_, x) != x, conde { [conde { [] }, [[], "bc" | q] == x], conde { false, member(q, [1]) } }], [q == q, x == q] }])
}
pub fn case_355(vars: &Vars) -> InferredGoal<DU, DE, Goal<DU, DE>> {
    let x = vars.v[0].clone();
    proto_vulcan!([|z| { [] }, { let c__: InferredGoal<DU, DE, Goal<DU, DE>> = proto_vulcan_closure!(|yy| { conde { [x == [yy | _], yy == 1], [x == [_, yy | _], yy == 2] } }); let g__: Goal<DU, DE> = ::proto_vulcan::GoalCast::cast_into(c__); let r__: InferredGoal<DU, DE, Goal<DU, DE>> = proto_vulcan!([g__.clone(), g__]); r__ }])
}
pub fn case_356(vars: &Vars) -> InferredGoal<DU, DE, Goal<DU, DE>> {
    let x = vars.v[0].clone();
    let y = vars.v[1].clone();
    proto_vulcan!([|y| { ["bc"] == y, [|y| {  }, conda { P3(y, [3], [x, 1]) == y, (y, _) == y }, condu { P3(1, y, y) == x, [y, [], y | y] == y, [x != y, x == x] }] }, x == [[], false], false, { let c__: InferredGoal<DU, DE, Goal<DU, DE>> = proto_vulcan_closure!([|yy| { conde { [x == [yy | _], yy == 1], [x == [_, yy | _], yy == 2] } }, conda { false, [(1, [[], y]) != x, y == [2]], x != y }]); let g__: Goal<DU, DE> = ::proto_vulcan::GoalCast::cast_into(c__); let r__: InferredGoal<DU, DE, Goal<DU, DE>> = proto_vulcan!([g__.clone(), g__]); r__ }])
}
pub fn case_357(vars: &Vars) -> InferredGoal<DU, DE, Goal<DU, DE>> {
    let q = vars.v[0].clone();
    let x = vars.v[1].clone();
    proto_vulcan!([|tz| { tz == [2], [3, 2, 2] != [3, 2 | tz] }])
}
pub fn case_358(vars: &Vars) -> InferredGoal<DU, DE, Goal<DU, DE>> {
    let q = vars.v[0].clone();
    let x = vars.v[1].clone();
    proto_vulcan!([q == P3(1, [x], 2)])
}
pub fn case_359(vars: &Vars) -> InferredGoal<DU, DE, Goal<DU, DE>> {
    let q = vars.v[0].clone();
    let x = vars.v[1].clone();
    proto_vulcan!([[1, x, 'a'] == x, conda { q == P3(x, [1], []) }, |h| { |tz| { [2, 2 | tz] != [2, 2, 3], tz == [3] } }, { let c__: InferredGoal<DU, DE, Goal<DU, DE>> = proto_vulcan_closure!(|yy| { conde { [q == [yy | _], yy == 1], [q == [_, yy | _], yy == 2] } }); let g__: Goal<DU, DE> = ::proto_vulcan::GoalCast::cast_into(c__); let r__: InferredGoal<DU, DE, Goal<DU, DE>> = proto_vulcan!([g__.clone(), g__]); r__ }])
}
pub fn case_360(vars: &Vars) -> InferredGoal<DU, DE, Goal<DU, DE>> {
    let x = vars.v[0].clone();
    let y = vars.v[1].clone();
    proto_vulcan!([y == [[3, x, 1 | [1, x]], [y, 3]], |tz| { [3, 2, 1, 2] != [3, 2 | tz], tz == [1, 2] }, [[1, 2], [x, 'a'] | x] != x])
}
pub fn case_361(vars: &Vars) -> InferredGoal<DU, DE, Goal<DU, DE>> {
    let x = vars.v[0].clone();
    let y = vars.v[1].clone();
    proto_vulcan!([x == y, y != x, y != P3([x, y], 2, [])])
}
pub fn case_362(vars: &Vars) -> InferredGoal<DU, DE, Goal<DU, DE>> {
    let x = vars.v[0].clone();
    proto_vulcan!([true])
}
pub fn case_363(vars: &Vars) -> InferredGoal<DU, DE, Goal<DU, DE>> {
    let x = vars.v[0].clone();
    proto_vulcan!([[] == x, closure { conda { [_ == P3(x, 3, []), |y| { |tz| { [3, 3] != [3 | tz], tz == [3] } }], [[false], P3([x], x, x) == x], [append(x, x, [3, 2]), member(x, [3, 2])] } }])
}
pub fn case_364(vars: &Vars) -> InferredGoal<DU, DE, Goal<DU, DE>> {
    let x = vars.v[0].clone();
    let y = vars.v[1].clone();
    proto_vulcan!([y == y, conde { y == [1], condu { [[y, 2 | 1], y, _] == 3 } }])
}
pub fn case_365(vars: &Vars) -> InferredGoal<DU, DE, Goal<DU, DE>> {
    let q = vars.v[0].clone();
    let x = vars.v[1].clone();
    proto_vulcan!([|x, z| { z == [], conde { [conde { [[_, x | [2]] == x, P3(3, [x, x], [3]) == x], [true, q != [1, 2, q]] }, 2 != 3], x == x, |tz| { tz == [3, 1], [3 | tz] != [3, 3, 1] } } }, append(x, x, [2])])
}
pub fn case_366(vars: &Vars) -> InferredGoal<DU, DE, Goal<DU, DE>> {
    let q = vars.v[0].clone();
    let x = vars.v[1].clone();
    proto_vulcan!([x != [q, [_, [], q]], member(q, [3]), { let c__: InferredGoal<DU, DE, Goal<DU, DE>> = proto_vulcan_closure!([|yy| { conde { [q == [yy | _], yy == 1], [q == [_, yy | _], yy == 2] } }, [1, [1, 2, []], [_, q, x] | [_]] == x]); let g__: Goal<DU, DE> = ::proto_vulcan::GoalCast::cast_into(c__); let r__: InferredGoal<DU, DE, Goal<DU, DE>> = proto_vulcan!([g__.clone(), g__]); r__ }])
}
pub fn case_367(vars: &Vars) -> InferredGoal<DU, DE, Goal<DU, DE>> {
    let x = vars.v[0].clone();
    proto_vulcan!([x == P3([[]], 2, _), conde { x == [1], |y| { conde { [[x, 2] == x, [true, 'b' | x] == x], [y | y] == y }, |z, h| { [_, 1] == y, P3([], y, 1) == z }, |y, x| { x == [_], |tz| { [2, 1] != [2 | tz], tz == [1] }, _ != x } }, [[x, 2] == x, x == []] }, closure { ["bc" == x, [x | true] != x] }])
}
pub fn case_368(vars: &Vars) -> InferredGoal<DU, DE, Goal<DU, DE>> {
    let x = vars.v[0].clone();
    proto_vulcan!([(_, x) != x, |tz| { [1, 1, 1] != [1, 1 | tz], tz == [1] }, true, { let c__: InferredGoal<DU, DE, Goal<DU, DE>> = proto_vulcan_closure!(|yy| { conde { [x == [yy | _], yy == 1], [x == [_, yy | _], yy == 2] } }); let g__: Goal<DU, DE> = ::proto_vulcan::GoalCast::cast_into(c__); let r__: InferredGoal<DU, DE, Goal<DU, DE>> = proto_vulcan!([g__.clone(), g__]); r__ }])
}
pub fn case_369(vars: &Vars) -> InferredGoal<DU, DE, Goal<DU, DE>> {
    let q = vars.v[0].clone();
    let x = vars.v[1].clone();
    proto_vulcan!([|tz| { [3 | tz] != [3, 1, 1], tz == [1, 1] }, x == 3])
}
pub fn case_370(vars: &Vars) -> InferredGoal<DU, DE, Goal<DU, DE>> {
    let x = vars.v[0].clone();
    proto_vulcan!([|x| { |t| { false == [[x], [2, 1, 1]], x == P3(x, 1, _) }, P3(2, [1, []], _) == [x, ['b', x, []]] }, onceo { 2 == 3 }, conda { x != (_, 3) }])
}
pub fn case_371(vars: &Vars) -> InferredGoal<DU, DE, Goal<DU, DE>> {
    let x = vars.v[0].clone();
    proto_vulcan!([x == [['b', x, true]], x == x])
}
pub fn case_372(vars: &Vars) -> InferredGoal<DU, DE, Goal<DU, DE>> {
    let x = vars.v[0].clone();
    proto_vulcan!([P3(x, 3, 2) == x, |x| { [1, x, 1 | x] == x, x == [_] }, closure { [[|h| {  }, [[x], [x, 2], x] == x], onceo { conda { x != [_, [] | 3] } }] }])
}
pub fn case_373(vars: &Vars) -> InferredGoal<DU, DE, Goal<DU, DE>> {
    let x = vars.v[0].clone();
    let y = vars.v[1].clone();
    proto_vulcan!([[false, 1, y | x] != y, member(x, [2]), y == 'b'])
}
pub fn case_374(vars: &Vars) -> InferredGoal<DU, DE, Goal<DU, DE>> {
    let x = vars.v[0].clone();
    proto_vulcan!([conde { _ == x, [[[["bc", _], x] != x, member(x, [1, 3, 1]), onceo { x != 2 }]], x != [x, 1, 2] }, |y, z| { |h, y| { h == _ } }])
}
pub fn case_375(vars: &Vars) -> InferredGoal<DU, DE, Goal<DU, DE>> {
    let x = vars.v[0].clone();
    let y = vars.v[1].clone();
    proto_vulcan!([y == 2, member(x, []), false])
}
pub fn case_376(vars: &Vars) -> InferredGoal<DU, DE, Goal<DU, DE>> {
    let x = vars.v[0].clone();
    proto_vulcan!([3 == x, member(x, [1])])
}
pub fn case_377(vars: &Vars) -> InferredGoal<DU, DE, Goal<DU, DE>> {
    let x = vars.v[0].clone();
    proto_vulcan!([x == [x], { let c__: InferredGoal<DU, DE, Goal<DU, DE>> = proto_vulcan_closure!(|yy| { conde { [x == [yy | _], yy == 1], [x == [_, yy | _], yy == 2] } }); let g__: Goal<DU, DE> = ::proto_vulcan::GoalCast::cast_into(c__); let r__: InferredGoal<DU, DE, Goal<DU, DE>> = proto_vulcan!([g__.clone(), g__]); r__ }])
}
pub fn case_378(vars: &Vars) -> InferredGoal<DU, DE, Goal<DU, DE>> {
    let x = vars.v[0].clone();
    proto_vulcan!([|tz| { tz == [3], [1, 3, 3] != [1, 3 | tz] }, [[], |t| { |z| { true }, t == t }, x != x]])
}
pub fn case_379(vars: &Vars) -> InferredGoal<DU, DE, Goal<DU, DE>> {
    let x = vars.v[0].clone();
    let y = vars.v[1].clone();
    proto_vulcan!([|t| { |x| { (x, 1) == y, false, onceo { member(y, [1, 3]) } }, [|z| { t == [z, t, x], x == [_, _, [_, 1, x]], member(z, [1, 3, 3]) }, conda { [x != (y, []), false], [[1 | x] == t, |tz| { [3, 3 | tz] != [3, 3, 2], tz == [2] }] }, P3([2], 3, x) == x] }])
}
pub fn case_380(vars: &Vars) -> InferredGoal<DU, DE, Goal<DU, DE>> {
    let q = vars.v[0].clone();
    let x = vars.v[1].clone();
    proto_vulcan!([|h| { conde { [conda { [[1, 2, 3 | x] == h, [false, [], x | q] == h], [[[_, h], [_, h] | [q]] == h, member(q, [3])], [append(h, x, [1, 2]), false == h] }, onceo { append(h, x, []) }], conda { P3(3, _, [x, 1]) == 2, [] == x, [(x, q) == q, _ == q] }, [x == [2, x | q], false] } }, q == x, x == [x | q]])
}
pub fn case_381(vars: &Vars) -> InferredGoal<DU, DE, Goal<DU, DE>> {
    let q = vars.v[0].clone();
    let x = vars.v[1].clone();
    proto_vulcan!([|t| { [(t, _) != x, conde { [append(q, q, [2]), [t | x] != q], x == ([q, x], []) }], |y| { P3([], 1, [y, 1]) == q }, conde { [[(t, [_]) != t, member(t, [3, 2, 2]), [x, q] == q]], [|h| { (3, q) == [[1 | [x]], [t], q], true == x }, |h| { [1, 2] == x, h != [_, x], P3(x, [], [2, _]) != x }], [q, x, false] != x } }, true, q == x, closure { [3, ['b' | x], [3, "bc" | q] | x] != [[x, _, 2 | x], [_, q, 1], [_, q, _ | x]] }])
}
pub fn case_382(vars: &Vars) -> InferredGoal<DU, DE, Goal<DU, DE>> {
    let q = vars.v[0].clone();
    let x = vars.v[1].clone();
    proto_vulcan!([conde { [x == (1, _), [2, _, q] == x], [[P3(x, 2, [_, 2]) != x, conde { [member(q, []), [[], 2 | 3] == x], [|tz| { [2 | tz] != [2, 1, 2], tz == [1, 2] }, true], [[2, q, q], [], q] == q }, [[[[], 2, _ | x], [3, 2, q], [2]] != q]]], [] }])
}
pub fn case_383(vars: &Vars) -> InferredGoal<DU, DE, Goal<DU, DE>> {
    let x = vars.v[0].clone();
    let y = vars.v[1].clone();
    proto_vulcan!([[[_, 1, 1 | y], 1] == x, y == 1, closure { [[P3([1], x, y) != x]] }])
}
pub fn case_384(vars: &Vars) -> InferredGoal<DU, DE, Goal<DU, DE>> {
    let q = vars.v[0].clone();
    let x = vars.v[1].clone();
    proto_vulcan!([[[condu { [1] == q, [[x, 2 | x] == x, [2] == q], q == P3(1, [1], x) }], [conde { 1 != [3, 1, q] }], [[], x] == q], [] == q, closure { |t, y| { [true], ['a' | y] == t } }])
}
pub fn case_385(vars: &Vars) -> InferredGoal<DU, DE, Goal<DU, DE>> {
    let x = vars.v[0].clone();
    proto_vulcan!([P3(x, _, _) == x, [x == [2, x, 1]], false])
}
pub fn case_386(vars: &Vars) -> InferredGoal<DU, DE, Goal<DU, DE>> {
    let x = vars.v[0].clone();
    proto_vulcan!([([1], [1]) == x, closure { [conda { |z, h| { append(x, h, []), x == [2, 'b' | 'a'], h == h } }, |h| { x == (3, h), onceo { ["bc", x, x | 1] == h } }] }])
}
pub fn case_387(vars: &Vars) -> InferredGoal<DU, DE, Goal<DU, DE>> {
    let x = vars.v[0].clone();
    proto_vulcan!([false, [conda { [] != [3, [2, []]], [[x, x] == x, conde { [x, 2] == x, [[x, false, false], [[], 1], x] == x }] }]])
}
pub fn case_388(vars: &Vars) -> InferredGoal<DU, DE, Goal<DU, DE>> {
    let q = vars.v[0].clone();
    let x = vars.v[1].clone();
    proto_vulcan!([[x == 3, conde { q == 1, onceo { _ != [q | x] } }]])
}
pub fn case_389(vars: &Vars) -> InferredGoal<DU, DE, Goal<DU, DE>> {
    let x = vars.v[0].clone();
    let y = vars.v[1].clone();
    proto_vulcan!([[y == x, |z| { |x, y| { y == (_, []), z != [[y, 1, [] | z], _, z] } }]])
}
pub fn case_390(vars: &Vars) -> InferredGoal<DU, DE, Goal<DU, DE>> {
    let x = vars.v[0].clone();
    let y = vars.v[1].clone();
    proto_vulcan!([x == _, ["a", y, y | y] == x, y == [2]])
}
pub fn case_391(vars: &Vars) -> InferredGoal<DU, DE, Goal<DU, DE>> {
    let q = vars.v[0].clone();
    let x = vars.v[1].clone();
    proto_vulcan!([conda { append(x, x, [2]), [q == 1, |z, x| { onceo { member(q, []) }, false }], q == [[], 1, 2 | x] }, true, |y| { conde { [conde { y == y }, [false, q == [y, [q], y]]], [false, member(x, [2, 1])], append(x, y, [1]) }, [[_, q, y | q], [_], q] == q }])
}
pub fn case_392(vars: &Vars) -> InferredGoal<DU, DE, Goal<DU, DE>> {
    let q = vars.v[0].clone();
    let x = vars.v[1].clone();
    proto_vulcan!([true, |h, x| { x == P3(1, h, 3), [[x], [1] | x] == [2, [[], []]] }, q != [2, "a"]])
}
pub fn case_393(vars: &Vars) -> InferredGoal<DU, DE, Goal<DU, DE>> {
    let x = vars.v[0].clone();
    let y = vars.v[1].clone();
    proto_vulcan!([y == [y]])
}
pub fn case_394(vars: &Vars) -> InferredGoal<DU, DE, Goal<DU, DE>> {
    let x = vars.v[0].clone();
    proto_vulcan!([[x != x, x == [["bc"], [1, 3, 1 | x]], |y| { conda { _ == y }, [x != [y], P3(_, 1, [3]) == x, y != 1] }], [[], x, "bc"] == x, closure { conde { [|z| { [1] != x }, [[x, x, x | [_]] == x]], (_, [1, x]) == x, |t, x| { t == ([], 2), [[]] == [3, t], append(x, x, [3]) } } }])
}
pub fn case_395(vars: &Vars) -> InferredGoal<DU, DE, Goal<DU, DE>> {
    let q = vars.v[0].clone();
    let x = vars.v[1].clone();
    proto_vulcan!([[x | q] == x, q == q, conde { [|tz| { tz == [1], [1, 3 | tz] != [1, 3, 1] }, q != 2], [[3] == q, [([], _) == q]], 3 != x }])
}
pub fn case_396(vars: &Vars) -> InferredGoal<DU, DE, Goal<DU, DE>> {
    let x = vars.v[0].clone();
    let y = vars.v[1].clone();
    proto_vulcan!([onceo { append(x, y, [3, 3]) }, [y == P3(3, [y], [[]]), P3([_], _, []) == x, |x, t| { x != 2, [y, y, y | x] == [y, y], member(x, [1, 1]) }]])
}
pub fn case_397(vars: &Vars) -> InferredGoal<DU, DE, Goal<DU, DE>> {
    let x = vars.v[0].clone();
    proto_vulcan!([|h, y| { h != [_], conde { [x == x, conde { [x == [[x, 2, 3], [x], 2], 1 == h], [h == P3([[]], [[], []], 3), 1 != x], false }] } }, [condu { x == true, [conda { [append(x, x, [1]), member(x, [1])] }, [_, 2] == [x]] }], closure { [false, [|tz| { [1, 3, 2] != [1 | tz], tz == [3, 2] }]] }])
}
pub fn case_398(vars: &Vars) -> InferredGoal<DU, DE, Goal<DU, DE>> {
    let x = vars.v[0].clone();
    proto_vulcan!([x != [2], conde { [[_, 1 | x] == x, x == [3, x, 2]], [P3(3, 1, [1, _]) == x, conde { true }], onceo { P3([_], [x], x) == x } }])
}
pub fn case_399(vars: &Vars) -> InferredGoal<DU, DE, Goal<DU, DE>> {
    let x = vars.v[0].clone();
    let y = vars.v[1].clone();
    proto_vulcan!([append(y, x, [2, 3]), y == x, P3(y, [], 1) == y])
}
pub fn case_400(vars: &Vars) -> InferredGoal<DU, DE, Goal<DU, DE>> {
    let x = vars.v[0].clone();
    let y = vars.v[1].clone();
    proto_vulcan!([false, |t, z| { onceo { conde { |tz| { tz == [1], [2, 1] != [2 | tz] }, [P3(_, 3, 1) == x, z == [t, x, _]], t == P3([], [_, _], [1, 3]) } }, conda { [[y == y, append(t, t, [1])], conda { true, [[]] == x, y == x }], [z | t] == z, y == [[z, 2 | y], [z, "bc", []]] }, append(t, x, []) }, |z, y| { |z, h| { [|tz| { [3, 1, 2, 2] != [3, 1 | tz], tz == [2, 2] }, y == h] }, |tz| { [1, 1, 3, 1] != [1, 1 | tz], tz == [3, 1] }, [2, z | z] != y }])
}
pub fn case_401(vars: &Vars) -> InferredGoal<DU, DE, Goal<DU, DE>> {
    let x = vars.v[0].clone();
    proto_vulcan!([x == P3(_, _, 2)])
}
pub fn case_402(vars: &Vars) -> InferredGoal<DU, DE, Goal<DU, DE>> {
    let x = vars.v[0].clone();
    proto_vulcan!([conda { [[["bc", x] | x] == x, [x == [x, 3], P3(x, [], x) == x, ([1], [2]) == [x, true, 2 | 2]]], [x == false, conde { [[[x, x, x]] != [1, 1, x | x], append(x, x, [])], [x == [], x != [[], x]], conda { x == [[], x, 2], x == P3([_], 1, [[]]), false } }] }, { let c__: InferredGoal<DU, DE, Goal<DU, DE>> = proto_vulcan_closure!([|yy| { conde { [x == [yy | _], yy == 1], [x == [_, yy | _], yy == 2] } }, true]); let g__: Goal<DU, DE> = ::proto_vulcan::GoalCast::cast_into(c__); let r__: InferredGoal<DU, DE, Goal<DU, DE>> = proto_vulcan!([g__.clone(), g__]); r__ }])
}
pub fn case_403(vars: &Vars) -> InferredGoal<DU, DE, Goal<DU, DE>> {
    let q = vars.v[0].clone();
    let x = vars.v[1].clone();
    proto_vulcan!([x != 2, [[], q] == x, |tz| { [2, 1, 1, 1] != [2, 1 | tz], tz == [1, 1] }])
}
pub fn case_404(vars: &Vars) -> InferredGoal<DU, DE, Goal<DU, DE>> {
    let x = vars.v[0].clone();
    proto_vulcan!([member(x, [3, 1]), |tz| { [1, 2 | tz] != [1, 2, 3, 2], tz == [3, 2] }, onceo { conde { conde { [member(x, [3, 2, 1]), |tz| { tz == [1], [3, 1] != [3 | tz] }], [x == [2, x, x | x], P3([], [_, 3], 2) != x], append(x, x, [2, 3]) }, [] == x } }])
}
pub fn case_405(vars: &Vars) -> InferredGoal<DU, DE, Goal<DU, DE>> {
    let q = vars.v[0].clone();
    let x = vars.v[1].clone();
    proto_vulcan!([q == [1, [], 1], |z| { x == x, |t| { |y| { false }, 1 != x, |z| { |tz| { [3 | tz] != [3, 1, 1], tz == [1, 1] } } } }, [[_, q, 3], [3, []], q] == q])
}
pub fn case_406(vars: &Vars) -> InferredGoal<DU, DE, Goal<DU, DE>> {
    let q = vars.v[0].clone();
    let x = vars.v[1].clone();
    proto_vulcan!([q == [x], |y, t| { |tz| { [3, 2] != [3 | tz], tz == [2] }, |y, z| { t != [1, x | x] } }, [q == q, append(x, q, [])], { let c__: InferredGoal<DU, DE, Goal<DU, DE>> = proto_vulcan_closure!([|yy| { conde { [x == [yy | _], yy == 1], [x == [_, yy | _], yy == 2] } }, [member(x, [3, 3])]]); let g__: Goal<DU, DE> = ::proto_vulcan::GoalCast::cast_into(c__); let r__: InferredGoal<DU, DE, Goal<DU, DE>> = proto_vulcan!([g__.clone(), g__]); r__ }])
}
pub fn case_407(vars: &Vars) -> InferredGoal<DU, DE, Goal<DU, DE>> {
    let q = vars.v[0].clone();
    let x = vars.v[1].clone();
    proto_vulcan!([x == [3, q, 1], conde { |x, z| { z == [[], [] | q] }, condu { [P3([q], [], [q, q]) == x, conde { q != P3(_, 2, []), [] }], x == (x, x), [|x| { x == q, x == 2 }, q == [["a", x, true | q]]] }, [x != [3, 'b'], |y| { ([1, q], [x, 3]) == y, x == [q, 3, 1] }] }, |z| { 2 == q, |x, h| { [h, h, [] | z] == x, [true] == x } }])
}
pub fn case_408(vars: &Vars) -> InferredGoal<DU, DE, Goal<DU, DE>> {
    let x = vars.v[0].clone();
    proto_vulcan!([x == (1, x), P3(x, x, 1) == x, onceo { [x, x | x] == x }])
}
pub fn case_409(vars: &Vars) -> InferredGoal<DU, DE, Goal<DU, DE>> {
    let x = vars.v[0].clone();
    proto_vulcan!([|y| { conde { [[x != (x, 3), ["a" | x] == y, y != [2, y, _]]] }, ([], _) == P3([], x, [3]) }, [], 1 == x])
}
pub fn case_410(vars: &Vars) -> InferredGoal<DU, DE, Goal<DU, DE>> {
    let q = vars.v[0].clone();
    let x = vars.v[1].clone();
    proto_vulcan!([false, { let c__: InferredGoal<DU, DE, Goal<DU, DE>> = proto_vulcan_closure!([|yy| { conde { [q == [yy | _], yy == 1], [q == [_, yy | _], yy == 2] } }, [member(q, [2, 1])]]); let g__: Goal<DU, DE> = ::proto_vulcan::GoalCast::cast_into(c__); let r__: InferredGoal<DU, DE, Goal<DU, DE>> = proto_vulcan!([g__.clone(), g__]); r__ }])
}
pub fn case_411(vars: &Vars) -> InferredGoal<DU, DE, Goal<DU, DE>> {
    let q = vars.v[0].clone();
    let x = vars.v[1].clone();
    proto_vulcan!([append(x, x, [2]), { let c__: InferredGoal<DU, DE, Goal<DU, DE>> = proto_vulcan_closure!(|yy| { conde { [q == [yy | _], yy == 1], [q == [_, yy | _], yy == 2] } }); let g__: Goal<DU, DE> = ::proto_vulcan::GoalCast::cast_into(c__); let r__: InferredGoal<DU, DE, Goal<DU, DE>> = proto_vulcan!([g__.clone(), g__]); r__ }])
}
pub fn case_412(vars: &Vars) -> InferredGoal<DU, DE, Goal<DU, DE>> {
    let x = vars.v[0].clone();
    let y = vars.v[1].clone();
    proto_vulcan!([|tz| { [2, 2, 1] != [2, 2 | tz], tz == [1] }, closure { [x == [[2, 2, 2], [], [[], 1, x | y] | y], [[x]] != y] }])
}
pub fn case_413(vars: &Vars) -> InferredGoal<DU, DE, Goal<DU, DE>> {
    let q = vars.v[0].clone();
    let x = vars.v[1].clone();
    proto_vulcan!([conde { |x, t| { |z, h| { [2, t, h] == t, z == [true | t], [x] == x }, false, [] != [1, [2, 'a', x], 1 | t] }, [|y| { |tz| { tz == [1, 3], [3, 1, 1, 3] != [3, 1 | tz] } }, false], P3([], 2, x) == x }, |y, z| { [[y, y], z | q] == (1, _), |h, x| { x == z, 3 == h }, true }, { let c__: InferredGoal<DU, DE, Goal<DU, DE>> = proto_vulcan_closure!(|yy| { conde { [x == [yy | _], yy == 1], [x == [_, yy | _], yy == 2] } }); let g__: Goal<DU, DE> = ::proto_vulcan::GoalCast::cast_into(c__); let r__: InferredGoal<DU, DE, Goal<DU, DE>> = proto_vulcan!([g__.clone(), g__]); r__ }])
}
pub fn case_414(vars: &Vars) -> InferredGoal<DU, DE, Goal<DU, DE>> {
    let x = vars.v[0].clone();
    proto_vulcan!([x != [1, x | x], true])
}
pub fn case_415(vars: &Vars) -> InferredGoal<DU, DE, Goal<DU, DE>> {
    let x = vars.v[0].clone();
    let y = vars.v[1].clone();
    proto_vulcan!([y != P3(_, 3, [3, 1]), onceo { ["a"] != x }, y == 2])
}
pub fn case_416(vars: &Vars) -> InferredGoal<DU, DE, Goal<DU, DE>> {
    let q = vars.v[0].clone();
    let x = vars.v[1].clone();
    proto_vulcan!([q == [x, 2], x == [q, q, []], x != 3])
}
pub fn case_417(vars: &Vars) -> InferredGoal<DU, DE, Goal<DU, DE>> {
    let x = vars.v[0].clone();
    let y = vars.v[1].clone();
    proto_vulcan!([x == [], |h, z| { h != [1, z, _] }, closure { (1, y) == [] }])
}
pub fn case_418(vars: &Vars) -> InferredGoal<DU, DE, Goal<DU, DE>> {
    let x = vars.v[0].clone();
    proto_vulcan!([[[x, x]] == x])
}
pub fn case_419(vars: &Vars) -> InferredGoal<DU, DE, Goal<DU, DE>> {
    let q = vars.v[0].clone();
    let x = vars.v[1].clone();
    proto_vulcan!([[x, 3, 2 | x] != [[q, 2, 'b'], [_, 1, x | x] | [q]], P3(x, q, 1) == q, [[3, x], 1] == [2]])
}
pub fn case_420(vars: &Vars) -> InferredGoal<DU, DE, Goal<DU, DE>> {
    let x = vars.v[0].clone();
    proto_vulcan!([([], []) == x, condu { [[x | x], [3], 2] == x, [false, [], x] == x, [true, 2] == 1 }, |z| { [x != [x, x | z], [2, x] == x, 2 == x], [([x], x) != (x, z), conde { [member(x, [2, 1, 1]), x == true], [true, "a" == [[_], z]] }], onceo { |t| { ([[], 1], 1) == [[t]] } } }, { let c__: InferredGoal<DU, DE, Goal<DU, DE>> = proto_vulcan_closure!(|yy| { conde { [x == [yy | _], yy == 1], [x == [_, yy | _], yy == 2] } }); let g__: Goal<DU, DE> = ::proto_vulcan::GoalCast::cast_into(c__); let r__: InferredGoal<DU, DE, Goal<DU, DE>> = proto_vulcan!([g__.clone(), g__]); r__ }])
}
pub fn case_421(vars: &Vars) -> InferredGoal<DU, DE, Goal<DU, DE>> {
    let x = vars.v[0].clone();
    proto_vulcan!([[[x], [x, _, 2]] == x, [2, _, x] == 2, [["bc" | x], false | []] == [[x | [1, 3]] | x]])
}
pub fn case_422(vars: &Vars) -> InferredGoal<DU, DE, Goal<DU, DE>> {
    let x = vars.v[0].clone();
    let y = vars.v[1].clone();
    proto_vulcan!([x == (x, 2), x == false, { let c__: InferredGoal<DU, DE, Goal<DU, DE>> = proto_vulcan_closure!(|yy| { conde { [x == [yy | _], yy == 1], [x == [_, yy | _], yy == 2] } }); let g__: Goal<DU, DE> = ::proto_vulcan::GoalCast::cast_into(c__); let r__: InferredGoal<DU, DE, Goal<DU, DE>> = proto_vulcan!([g__.clone(), g__]); r__ }])
}
pub fn case_423(vars: &Vars) -> InferredGoal<DU, DE, Goal<DU, DE>> {
    let x = vars.v[0].clone();
    proto_vulcan!([conde { [[], append(x, x, [2])], [x == (2, 3), x != P3([[], 1], [x], _)], [|h| { h == h, [[_, h | h], 2] == x, h == [_] }, conde { [|x, h| { [[_], [[], x, _ | x] | x] == [[_, 'a'], [], [h, 2] | x] }, [x, [], _] == x], [[|tz| { [1 | tz] != [1, 2, 3], tz == [2, 3] }, [x] == [2, _ | x], P3(3, 1, x) == ([], [_])], P3([x], x, []) == x], x == "bc" }] }, false, false])
}
pub fn case_424(vars: &Vars) -> InferredGoal<DU, DE, Goal<DU, DE>> {
    let q = vars.v[0].clone();
    let x = vars.v[1].clone();
    proto_vulcan!([conde { [P3(_, _, q) == q, [1 == [[x, 3 | "bc"]]]], [x == P3(x, 2, []), P3([q, 3], 2, x) == 2] }, onceo { |t| { _ == q } }, x == [2, false]])
}
pub fn case_425(vars: &Vars) -> InferredGoal<DU, DE, Goal<DU, DE>> {
    let x = vars.v[0].clone();
    let y = vars.v[1].clone();
    proto_vulcan!([[false, 1 | y] != y])
}
pub fn case_426(vars: &Vars) -> InferredGoal<DU, DE, Goal<DU, DE>> {
    let x = vars.v[0].clone();
    proto_vulcan!([x != [[x], [x, _ | x], x | x], x == [["a", 'a', []], [x, x, x], [[]]], [x != x], { let c__: InferredGoal<DU, DE, Goal<DU, DE>> = proto_vulcan_closure!(|yy| { conde { [x == [yy | _], yy == 1], [x == [_, yy | _], yy == 2] } }); let g__: Goal<DU, DE> = ::proto_vulcan::GoalCast::cast_into(c__); let r__: InferredGoal<DU, DE, Goal<DU, DE>> = proto_vulcan!([g__.clone(), g__]); r__ }])
}
pub fn case_427(vars: &Vars) -> InferredGoal<DU, DE, Goal<DU, DE>> {
    let q = vars.v[0].clone();
    let x = vars.v[1].clone();
    proto_vulcan!([[[q, _] == x, |tz| { tz == [3], [3, 3] != [3 | tz] }], P3(3, _, 2) != q, { let c__: InferredGoal<DU, DE, Goal<DU, DE>> = proto_vulcan_closure!(|yy| { conde { [q == [yy | _], yy == 1], [q == [_, yy | _], yy == 2] } }); let g__: Goal<DU, DE> = ::proto_vulcan::GoalCast::cast_into(c__); let r__: InferredGoal<DU, DE, Goal<DU, DE>> = proto_vulcan!([g__.clone(), g__]); r__ }])
}
pub fn case_428(vars: &Vars) -> InferredGoal<DU, DE, Goal<DU, DE>> {
    let q = vars.v[0].clone();
    let x = vars.v[1].clone();
    proto_vulcan!([member(q, [])])
}
pub fn case_429(vars: &Vars) -> InferredGoal<DU, DE, Goal<DU, DE>> {
    let x = vars.v[0].clone();
    proto_vulcan!([x == (_, [_]), [[]] != x, x == [2 | x]])
}
pub fn case_430(vars: &Vars) -> InferredGoal<DU, DE, Goal<DU, DE>> {
    let x = vars.v[0].clone();
    let y = vars.v[1].clone();
    proto_vulcan!([conde { conde { [], [1] == x, [] }, [member(x, [2, 1]), conda { [[]], [condu { false }, [_, 3] != y], [y == [y], |h| { y == h, [3] != [[1, h, 2], 1 | h] }] }] }, |z| { (3, y) == P3(x, 1, [z, y]) }])
}
pub fn case_431(vars: &Vars) -> InferredGoal<DU, DE, Goal<DU, DE>> {
    let x = vars.v[0].clone();
    proto_vulcan!([conde { [[x, true]] != [[], 'b' | x] }])
}
pub fn case_432(vars: &Vars) -> InferredGoal<DU, DE, Goal<DU, DE>> {
    let x = vars.v[0].clone();
    let y = vars.v[1].clone();
    proto_vulcan!([false, ([], y) == x])
}
pub fn case_433(vars: &Vars) -> InferredGoal<DU, DE, Goal<DU, DE>> {
    let x = vars.v[0].clone();
    proto_vulcan!([[[_, [], true | x], [x, []], _] != x, |tz| { [1 | tz] != [1, 3, 2], tz == [3, 2] }])
}
pub fn case_434(vars: &Vars) -> InferredGoal<DU, DE, Goal<DU, DE>> {
    let q = vars.v[0].clone();
    let x = vars.v[1].clone();
    proto_vulcan!([|tz| { [1, 3 | tz] != [1, 3, 1], tz == [1] }, onceo { true }, conda { [|h, t| {  }, [q, 1 | x] == x], q == _, [true, conde { conde { q != q, (_, []) == 3 } }] }])
}
pub fn case_435(vars: &Vars) -> InferredGoal<DU, DE, Goal<DU, DE>> {
    let x = vars.v[0].clone();
    let y = vars.v[1].clone();
    proto_vulcan!([|h, x| {  }])
}
pub fn case_436(vars: &Vars) -> InferredGoal<DU, DE, Goal<DU, DE>> {
    let x = vars.v[0].clone();
    proto_vulcan!([|tz| { tz == [1], [2, 3, 1] != [2, 3 | tz] }, [|t| { |y| { [t, t, 2] == t }, |t| { P3(2, [], 2) == x, ["a", x] != x, member(t, []) } }, |y| {  }]])
}
pub fn case_437(vars: &Vars) -> InferredGoal<DU, DE, Goal<DU, DE>> {
    let x = vars.v[0].clone();
    let y = vars.v[1].clone();
    proto_vulcan!([[[x, [] | 1]] != [true, 2, x], [[]], [] == [_, [1, y, y | x]], closure { [[[], 1, y] == x, []] }])
}
pub fn case_438(vars: &Vars) -> InferredGoal<DU, DE, Goal<DU, DE>> {
    let x = vars.v[0].clone();
    let y = vars.v[1].clone();
    proto_vulcan!([conde { [[1, 2 | x] == x, member(y, [2])], [2 == [[2, 1, [] | y]], y != [x, 1]] }, { let c__: InferredGoal<DU, DE, Goal<DU, DE>> = proto_vulcan_closure!([|yy| { conde { [y == [yy | _], yy == 1], [y == [_, yy | _], yy == 2] } }, y != x]); let g__: Goal<DU, DE> = ::proto_vulcan::GoalCast::cast_into(c__); let r__: InferredGoal<DU, DE, Goal<DU, DE>> = proto_vulcan!([g__.clone(), g__]); r__ }])
}
pub fn case_439(vars: &Vars) -> InferredGoal<DU, DE, Goal<DU, DE>> {
    let x = vars.v[0].clone();
    proto_vulcan!([|y| { true }, 1 != [x, 2], closure { |tz| { [2, 3, 1] != [2 | tz], tz == [3, 1] } }])
}
pub fn case_440(vars: &Vars) -> InferredGoal<DU, DE, Goal<DU, DE>> {
    let x = vars.v[0].clone();
    proto_vulcan!([[x == x]])
}
pub fn case_441(vars: &Vars) -> InferredGoal<DU, DE, Goal<DU, DE>> {
    let x = vars.v[0].clone();
    let y = vars.v[1].clone();
    proto_vulcan!([true, [y, [x, false, "a"], [2, y | 1]] != x, conde { [condu { onceo { y == x }, conde { x == [[], [], x | x] } }, append(x, x, [2])], [[|y, t| {  }]], [P3([], y, 1) != x, [|tz| { [2, 3 | tz] != [2, 3, 2], tz == [2] }, |t| { P3(x, [], x) == x }, x == [2, x]]] }])
}
pub fn case_442(vars: &Vars) -> InferredGoal<DU, DE, Goal<DU, DE>> {
    let q = vars.v[0].clone();
    let x = vars.v[1].clone();
    proto_vulcan!([conde { [|tz| { tz == [1], [2, 1, 1] != [2, 1 | tz] }, |tz| { tz == [2], [2, 2 | tz] != [2, 2, 2] }] }, |x, t| { onceo { |x, h| { true, false } }, P3([2], _, _) == 2, |z| { |z, t| { x == t, append(x, t, [3]), |tz| { tz == [1, 2], [2, 3, 1, 2] != [2, 3 | tz] } } } }, q != [[2, q, x]]])
}
pub fn case_443(vars: &Vars) -> InferredGoal<DU, DE, Goal<DU, DE>> {
    let q = vars.v[0].clone();
    let x = vars.v[1].clone();
    proto_vulcan!([conde { [q == [[_, x] | [q, 3]], conde { [q == [x, [q, x, 'b'], q], P3(_, 1, _) == x], [condu { [x == ([[], _], 3), [[_, q], x, [_, x, 1 | q]] == x], x == P3([_], 3, q) }, [x, 3 | x] == q], P3(x, [2], 3) == x }], [conde { conde { [true, q != 3], append(x, x, [3, 3]) }, false }, [1] != q] }, x == q])
}
pub fn case_444(vars: &Vars) -> InferredGoal<DU, DE, Goal<DU, DE>> {
    let x = vars.v[0].clone();
    let y = vars.v[1].clone();
    proto_vulcan!([|z| { x == [1, z | 2] }, y == y, [y != [[_]], [], y == [x]], { let c__: InferredGoal<DU, DE, Goal<DU, DE>> = proto_vulcan_closure!([|yy| { conde { [y == [yy | _], yy == 1], [y == [_, yy | _], yy == 2] } }, conde { P3(_, y, [_, []]) == y, [[[[]], [2 | x], x] == x, x == [3, y]], [y == 1, false] }]); let g__: Goal<DU, DE> = ::proto_vulcan::GoalCast::cast_into(c__); let r__: InferredGoal<DU, DE, Goal<DU, DE>> = proto_vulcan!([g__.clone(), g__]); r__ }])
}
pub fn case_445(vars: &Vars) -> InferredGoal<DU, DE, Goal<DU, DE>> {
    let q = vars.v[0].clone();
    let x = vars.v[1].clone();
    proto_vulcan!([|x| { |tz| { tz == [1, 2], [1, 1, 2] != [1 | tz] }, x == x, q == (3, x) }, conde { [P3([3], 3, [[]]) != q, x == 3] }, onceo { x == [3, q] }])
}
pub fn case_446(vars: &Vars) -> InferredGoal<DU, DE, Goal<DU, DE>> {
    let x = vars.v[0].clone();
    let y = vars.v[1].clone();
    proto_vulcan!([conda { [[] != P3(x, [2], _), x == []], [[]] }, conda { [|z, t| { [1, y, t] == z, [member(x, [1, 3]), t == ["a", []]] }, 1 == x] }])
}
pub fn case_447(vars: &Vars) -> InferredGoal<DU, DE, Goal<DU, DE>> {
    let x = vars.v[0].clone();
    proto_vulcan!([match x { [x | _] => x == 1, }])
}
pub fn case_448(vars: &Vars) -> InferredGoal<DU, DE, Goal<DU, DE>> {
    let x = vars.v[0].clone();
    let y = vars.v[1].clone();
    proto_vulcan!([x == [1, 2], matche x { [x, y] => x == 1, }])
}
pub fn case_449(vars: &Vars) -> InferredGoal<DU, DE, Goal<DU, DE>> {
    let q = vars.v[0].clone();
    proto_vulcan!([|x| { q == [1 | x] }])
}
pub fn case_450(vars: &Vars) -> InferredGoal<DU, DE, Goal<DU, DE>> {
    let q = vars.v[0].clone();
    proto_vulcan!([|x, y| { q == [x, [2] | y], x != 1 }])
}
pub fn case_451(vars: &Vars) -> InferredGoal<DU, DE, Goal<DU, DE>> {
    let q = vars.v[0].clone();
    proto_vulcan!([append([1, 2], q, [1, 2, 0 | _])])
}
pub fn case_452(vars: &Vars) -> InferredGoal<DU, DE, Goal<DU, DE>> {
    let q = vars.v[0].clone();
    proto_vulcan!([|x| { x == 1, |x| { x == 2 }, q == x }])
}
pub fn case_453(vars: &Vars) -> InferredGoal<DU, DE, Goal<DU, DE>> {
    let q = vars.v[0].clone();
    proto_vulcan!([|x, y| { |x| { x == [y] }, y == 7, q == [x, y] }])
}
pub fn case_454(vars: &Vars) -> InferredGoal<DU, DE, Goal<DU, DE>> {
    let q = vars.v[0].clone();
    proto_vulcan!([|y| { y == [q], |q| { q == 0 }, y != [0] }])
}
pub fn case_455(vars: &Vars) -> InferredGoal<DU, DE, Goal<DU, DE>> {
    let x = vars.v[0].clone();
    let y = vars.v[1].clone();
    proto_vulcan!([true, 2 != ['a', [y, x]], conde { [false == [2], |tz| { [1 | tz] != [1, 1], tz == [1] }], [[y != 1, |y, t| {  }, ([[]], x) == [[], 1, []]]], conde { [x != (x, []), |t| { [x | t] == x, append(x, y, []) }], [[true, true, y != y]] } }])
}
pub fn case_456(vars: &Vars) -> InferredGoal<DU, DE, Goal<DU, DE>> {
    let x = vars.v[0].clone();
    let y = vars.v[1].clone();
    proto_vulcan!([true, 2 != ['a', [y, x]], conde { [false == [2], |tz| { [1 | tz] != [1, 1], tz == [1] }], [[y != 1, |y, t| {  }, ([[]], x) == [[], 1, []]]], conde { [x != (x, []), |fresh_name_9| { [x | fresh_name_9] == x, append(x, y, []) }], [[true, true, y != y]] } }])
}
pub fn case_457(vars: &Vars) -> InferredGoal<DU, DE, Goal<DU, DE>> {
    let x = vars.v[0].clone();
    let y = vars.v[1].clone();
    proto_vulcan!([matche [3, "a" | y] { [y] | [[x, _, 1]] => , [3, [3, y, h | y]] => [[[y, h, h], [x | y] | y] == 'b', P3([2, h], y, [_, x]) != y], P3([], z, 3) => , }, |h, x| { ["bc", "a", []] != y, [member(y, []), match [3, _] { [3, 2] | _ => , z | [[2, t, 1], [2, "bc" | _]] => , _ => { h != h, P3(2, 3, 2) == (y, [y]) }, }] }, match y { _ => { x == 1 }, _ | [["a", _, 1 | y]] => , [z, [z, h, "bc"] | t] | [] => { 2 != y }, }])
}
pub fn case_458(vars: &Vars) -> InferredGoal<DU, DE, Goal<DU, DE>> {
    let x = vars.v[0].clone();
    let y = vars.v[1].clone();
    proto_vulcan!([matche [3, "a" | y] { [y] | [[x, _, 1]] => , [3, [3, fresh_name_9, h | fresh_name_9]] => [[[fresh_name_9, h, h], [x | fresh_name_9] | fresh_name_9] == 'b', P3([2, h], fresh_name_9, [_, x]) != fresh_name_9], P3([], z, 3) => , }, |h, x| { ["bc", "a", []] != y, [member(y, []), match [3, _] { [3, 2] | _ => , z | [[2, t, 1], [2, "bc" | _]] => , _ => { h != h, P3(2, 3, 2) == (y, [y]) }, }] }, match y { _ => { x == 1 }, _ | [["a", _, 1 | y]] => , [z, [z, h, "bc"] | t] | [] => { 2 != y }, }])
}
pub fn case_459(vars: &Vars) -> InferredGoal<DU, DE, Goal<DU, DE>> {
    let x = vars.v[0].clone();
    proto_vulcan!([match x { [[true], [t], z] => { conde { [], [[[2, 1, 3] == x], match [2, 1 | 'b'] { [3, ["a", 3, x], [[], 'b'] | _] => , y => { false }, }], [conde { [false, x == ['a', 2]], t == x }, [z | z] == t] }, [conde { [[1, 3, x] == x, [['b'], [3] | t] == (x, 3)] }] }, _ => , }, [match x { Named { a: [], b: _ } => { x == [x | x], [1 | x] == x }, P3(t, [x, []], []) => [matche x { ["bc", [z | [z]], [[], h, []] | x] => , _ | P3([_], _, 3) => member(t, []), }, x != true], y => , }]])
}
pub fn case_460(vars: &Vars) -> InferredGoal<DU, DE, Goal<DU, DE>> {
    let x = vars.v[0].clone();
    proto_vulcan!([match x { [[true], [t], z] => { conde { [], [[[2, 1, 3] == x], match [2, 1 | 'b'] { [3, ["a", 3, fresh_name_9], [[], 'b'] | _] => , y => { false }, }], [conde { [false, x == ['a', 2]], t == x }, [z | z] == t] }, [conde { [[1, 3, x] == x, [['b'], [3] | t] == (x, 3)] }] }, _ => , }, [match x { Named { a: [], b: _ } => { x == [x | x], [1 | x] == x }, P3(t, [x, []], []) => [matche x { ["bc", [z | [z]], [[], h, []] | x] => , _ | P3([_], _, 3) => member(t, []), }, x != true], y => , }]])
}
pub fn case_461(vars: &Vars) -> InferredGoal<DU, DE, Goal<DU, DE>> {
    let q = vars.v[0].clone();
    let x = vars.v[1].clone();
    proto_vulcan!([q != P3([3, x], 3, [1, 2]), [_, 2, 1] == q, |h| { |h, z| { h == [h, 1, 3 | 1], |tz| { [1 | tz] != [1, 1], tz == [1] } } }])
}
pub fn case_462(vars: &Vars) -> InferredGoal<DU, DE, Goal<DU, DE>> {
    let q = vars.v[0].clone();
    let x = vars.v[1].clone();
    proto_vulcan!([q != P3([3, x], 3, [1, 2]), [_, 2, 1] == q, |fresh_name_9| { |h, z| { h == [h, 1, 3 | 1], |tz| { [1 | tz] != [1, 1], tz == [1] } } }])
}
pub fn case_463(vars: &Vars) -> InferredGoal<DU, DE, Goal<DU, DE>> {
    let x = vars.v[0].clone();
    proto_vulcan!([|h| { |t| { ([1], [x, 3]) == t, |tz| { [1, 1] != [1 | tz], tz == [1] } }, [|t| { h == P3([1], 2, 2) }, matche x { [[2, 2, 1 | 3], [x, true, "bc"]] => [x == x, true], }, [[h, _, x]] == [['b', 1, 3], 2, ['b', _, 2] | x]], [_, h] == [2] }, 3 == [1, x | x]])
}
pub fn case_464(vars: &Vars) -> InferredGoal<DU, DE, Goal<DU, DE>> {
    let x = vars.v[0].clone();
    proto_vulcan!([|h| { |t| { ([1], [x, 3]) == t, |fresh_name_9| { [1, 1] != [1 | fresh_name_9], fresh_name_9 == [1] } }, [|t| { h == P3([1], 2, 2) }, matche x { [[2, 2, 1 | 3], [x, true, "bc"]] => [x == x, true], }, [[h, _, x]] == [['b', 1, 3], 2, ['b', _, 2] | x]], [_, h] == [2] }, 3 == [1, x | x]])
}
pub fn case_465(vars: &Vars) -> InferredGoal<DU, DE, Goal<DU, DE>> {
    let x = vars.v[0].clone();
    let y = vars.v[1].clone();
    proto_vulcan!([match x { Named { a: [_, z], b: y } => P3([], x, 1) == y, }, [[]] == y])
}
pub fn case_466(vars: &Vars) -> InferredGoal<DU, DE, Goal<DU, DE>> {
    let x = vars.v[0].clone();
    let y = vars.v[1].clone();
    proto_vulcan!([match x { Named { a: [_, fresh_name_9], b: y } => P3([], x, 1) == y, }, [[]] == y])
}
pub fn case_467(vars: &Vars) -> InferredGoal<DU, DE, Goal<DU, DE>> {
    let q = vars.v[0].clone();
    let x = vars.v[1].clone();
    proto_vulcan!([conde { [|y| { 3 == P3([], _, _) }, match x { [[_, h, h], 3, [h, y | []]] | [[[] | _], [x | x], "bc" | z] => , }], [|tz| { [3 | tz] != [3, 2], tz == [2] }, append(x, x, [2])] }, [x, q, q | x] != x, closure { conde { |h| { member(h, []), x == h }, [[P3(3, 3, [2, 1]) != [true, x, _ | x]]] } }])
}
pub fn case_468(vars: &Vars) -> InferredGoal<DU, DE, Goal<DU, DE>> {
    let q = vars.v[0].clone();
    let x = vars.v[1].clone();
    proto_vulcan!([conde { [|y| { 3 == P3([], _, _) }, match x { [[_, h, h], 3, [h, y | []]] | [[[] | _], [x | x], "bc" | z] => , }], [|fresh_name_9| { [3 | fresh_name_9] != [3, 2], fresh_name_9 == [2] }, append(x, x, [2])] }, [x, q, q | x] != x, closure { conde { |h| { member(h, []), x == h }, [[P3(3, 3, [2, 1]) != [true, x, _ | x]]] } }])
}
pub fn case_469(vars: &Vars) -> InferredGoal<DU, DE, Goal<DU, DE>> {
    let q = vars.v[0].clone();
    let x = vars.v[1].clone();
    proto_vulcan!([[x] == [[true, 'a', [] | [x, 'a']], q, [3]], _ == x, member(q, [1, 1, 2]), { let c__: InferredGoal<DU, DE, Goal<DU, DE>> = proto_vulcan_closure!([|yy| { conde { [q == [yy | _], yy == 1], [q == [_, yy | _], yy == 2] } }, member(q, [])]); let g__: Goal<DU, DE> = ::proto_vulcan::GoalCast::cast_into(c__); let r__: InferredGoal<DU, DE, Goal<DU, DE>> = proto_vulcan!([g__.clone(), g__]); r__ }])
}
pub fn case_470(vars: &Vars) -> InferredGoal<DU, DE, Goal<DU, DE>> {
    let q = vars.v[0].clone();
    let x = vars.v[1].clone();
    proto_vulcan!([[x] == [[true, 'a', [] | [x, 'a']], q, [3]], _ == x, member(q, [1, 1, 2]), { let c__: InferredGoal<DU, DE, Goal<DU, DE>> = proto_vulcan_closure!([|fresh_name_9| { conde { [q == [fresh_name_9 | _], fresh_name_9 == 1], [q == [_, fresh_name_9 | _], fresh_name_9 == 2] } }, member(q, [])]); let g__: Goal<DU, DE> = ::proto_vulcan::GoalCast::cast_into(c__); let r__: InferredGoal<DU, DE, Goal<DU, DE>> = proto_vulcan!([g__.clone(), g__]); r__ }])
}
pub fn case_471(vars: &Vars) -> InferredGoal<DU, DE, Goal<DU, DE>> {
    let x = vars.v[0].clone();
    let y = vars.v[1].clone();
    proto_vulcan!([[x != P3(_, [], _)], [x == [[], 2, x | y]], conde { [_, _ | []] != y, |tz| { tz == [1], [1, 1, 1] != [1, 1 | tz] } }])
}
pub fn case_472(vars: &Vars) -> InferredGoal<DU, DE, Goal<DU, DE>> {
    let x = vars.v[0].clone();
    let y = vars.v[1].clone();
    proto_vulcan!([[x != P3(_, [], _)], [x == [[], 2, x | y]], conde { [_, _ | []] != y, |fresh_name_9| { fresh_name_9 == [1], [1, 1, 1] != [1, 1 | fresh_name_9] } }])
}
pub fn case_473(vars: &Vars) -> InferredGoal<DU, DE, Goal<DU, DE>> {
    let q = vars.v[0].clone();
    let x = vars.v[1].clone();
    proto_vulcan!([matche q { [[_ | y] | _] => , [[_, _, h]] => |t| { false, match h { [z] => q == _, }, |tz| { [2, 1, 2, 2] != [2, 1 | tz], tz == [2, 2] } }, }, conde { [[true, match x { x => [[x, "bc", _] == [[[] | x], [x, 'b'], [x, x, 2] | x], x == [x, 1, _ | x]], h => , _ => , }]] }])
}
pub fn case_474(vars: &Vars) -> InferredGoal<DU, DE, Goal<DU, DE>> {
    let q = vars.v[0].clone();
    let x = vars.v[1].clone();
    proto_vulcan!([matche q { [[_ | y] | _] => , [[_, _, h]] => |t| { false, match h { [z] => q == _, }, |tz| { [2, 1, 2, 2] != [2, 1 | tz], tz == [2, 2] } }, }, conde { [[true, match x { fresh_name_9 => [[fresh_name_9, "bc", _] == [[[] | fresh_name_9], [fresh_name_9, 'b'], [fresh_name_9, fresh_name_9, 2] | fresh_name_9], fresh_name_9 == [fresh_name_9, 1, _ | fresh_name_9]], h => , _ => , }]] }])
}
pub fn case_475(vars: &Vars) -> InferredGoal<DU, DE, Goal<DU, DE>> {
    let x = vars.v[0].clone();
    proto_vulcan!([match [[], 2] { [[2], [[], z | x], z | y] => [x == P3([2], [_], [x]), false], P3([_], [], z) => z != [3 | z], }, { let c__: InferredGoal<DU, DE, Goal<DU, DE>> = proto_vulcan_closure!(|yy| { conde { [x == [yy | _], yy == 1], [x == [_, yy | _], yy == 2] } }); let g__: Goal<DU, DE> = ::proto_vulcan::GoalCast::cast_into(c__); let r__: InferredGoal<DU, DE, Goal<DU, DE>> = proto_vulcan!([g__.clone(), g__]); r__ }])
}
pub fn case_476(vars: &Vars) -> InferredGoal<DU, DE, Goal<DU, DE>> {
    let x = vars.v[0].clone();
    proto_vulcan!([match [[], 2] { [[2], [[], z | x], z | y] => [x == P3([2], [_], [x]), false], P3([_], [], fresh_name_9) => fresh_name_9 != [3 | fresh_name_9], }, { let c__: InferredGoal<DU, DE, Goal<DU, DE>> = proto_vulcan_closure!(|yy| { conde { [x == [yy | _], yy == 1], [x == [_, yy | _], yy == 2] } }); let g__: Goal<DU, DE> = ::proto_vulcan::GoalCast::cast_into(c__); let r__: InferredGoal<DU, DE, Goal<DU, DE>> = proto_vulcan!([g__.clone(), g__]); r__ }])
}
pub fn case_477(vars: &Vars) -> InferredGoal<DU, DE, Goal<DU, DE>> {
    let q = vars.v[0].clone();
    let x = vars.v[1].clone();
    proto_vulcan!([member(x, [2, 1, 2]), |t, z| { [z, [x, true]] == P3(_, _, 1), |h, z| { x == [1 | "bc"] }, x == [2, t | q] }])
}
pub fn case_478(vars: &Vars) -> InferredGoal<DU, DE, Goal<DU, DE>> {
    let q = vars.v[0].clone();
    let x = vars.v[1].clone();
    proto_vulcan!([member(x, [2, 1, 2]), |t, z| { [z, [x, true]] == P3(_, _, 1), |h, fresh_name_9| { x == [1 | "bc"] }, x == [2, t | q] }])
}
pub fn case_479(vars: &Vars) -> InferredGoal<DU, DE, Goal<DU, DE>> {
    let x = vars.v[0].clone();
    proto_vulcan!([conde { [matche x { [[z, x, z], [_, [], t], [[], x | z]] => , x => x == 2, y => [([_], [2]) == x, |h| { y == h, false }], }, [[[], x | x], []] == x], [x != [["a"]], ([], _) == x] }, [conde { [x == ([_], x), [[x, 3, true], [x]] == x], [[true, x] != P3([], x, [1, 1]), x != [x | 2]], [] }, true != x, |t, h| { |t| { append(t, t, []), false }, false }]])
}
pub fn case_480(vars: &Vars) -> InferredGoal<DU, DE, Goal<DU, DE>> {
    let x = vars.v[0].clone();
    proto_vulcan!([conde { [matche x { [[z, x, z], [_, [], fresh_name_9], [[], x | z]] => , x => x == 2, y => [([_], [2]) == x, |h| { y == h, false }], }, [[[], x | x], []] == x], [x != [["a"]], ([], _) == x] }, [conde { [x == ([_], x), [[x, 3, true], [x]] == x], [[true, x] != P3([], x, [1, 1]), x != [x | 2]], [] }, true != x, |t, h| { |t| { append(t, t, []), false }, false }]])
}
pub fn case_481(vars: &Vars) -> InferredGoal<DU, DE, Goal<DU, DE>> {
    let q = vars.v[0].clone();
    let x = vars.v[1].clone();
    proto_vulcan!([q == [], { let c__: InferredGoal<DU, DE, Goal<DU, DE>> = proto_vulcan_closure!(|yy| { conde { [q == [yy | _], yy == 1], [q == [_, yy | _], yy == 2] } }); let g__: Goal<DU, DE> = ::proto_vulcan::GoalCast::cast_into(c__); let r__: InferredGoal<DU, DE, Goal<DU, DE>> = proto_vulcan!([g__.clone(), g__]); r__ }])
}
pub fn case_482(vars: &Vars) -> InferredGoal<DU, DE, Goal<DU, DE>> {
    let q = vars.v[0].clone();
    let x = vars.v[1].clone();
    proto_vulcan!([q == [], { let c__: InferredGoal<DU, DE, Goal<DU, DE>> = proto_vulcan_closure!(|fresh_name_9| { conde { [q == [fresh_name_9 | _], fresh_name_9 == 1], [q == [_, fresh_name_9 | _], fresh_name_9 == 2] } }); let g__: Goal<DU, DE> = ::proto_vulcan::GoalCast::cast_into(c__); let r__: InferredGoal<DU, DE, Goal<DU, DE>> = proto_vulcan!([g__.clone(), g__]); r__ }])
}
pub fn case_483(vars: &Vars) -> InferredGoal<DU, DE, Goal<DU, DE>> {
    let q = vars.v[0].clone();
    let x = vars.v[1].clone();
    proto_vulcan!([|t| { matche x { _ => member(t, [1, 2, 3]), x => [|t| { ([2, 3], 1) != x, [t, []] != [[x, []]], t == [[_], x, [t]] }, conde { [1 == x, [['b', 'b'], [_, [], 3 | x], [t, t, x]] == x], q != "a" }], }, [2, 2 | t] == [x, 'b' | t], q == P3(x, q, []) }, (x, [[], x]) == q, matche x { [[2 | h]] => , 1 => , Named { a: t, b: 3 } | z => , }])
}
pub fn case_484(vars: &Vars) -> InferredGoal<DU, DE, Goal<DU, DE>> {
    let q = vars.v[0].clone();
    let x = vars.v[1].clone();
    proto_vulcan!([|t| { matche x { _ => member(t, [1, 2, 3]), x => [|t| { ([2, 3], 1) != x, [t, []] != [[x, []]], t == [[_], x, [t]] }, conde { [1 == x, [['b', 'b'], [_, [], 3 | x], [t, t, x]] == x], q != "a" }], }, [2, 2 | t] == [x, 'b' | t], q == P3(x, q, []) }, (x, [[], x]) == q, matche x { [[2 | fresh_name_9]] => , 1 => , Named { a: t, b: 3 } | z => , }])
}
pub fn case_485(vars: &Vars) -> InferredGoal<DU, DE, Goal<DU, DE>> {
    let x = vars.v[0].clone();
    proto_vulcan!([[[]] == x, conde { [match x { _ | P3(3, [t], _) => , _ => , [] | _ => matche [3, x | x] { false | _ => { true }, "bc" => { [2] == x }, [[_, []], t, [t, z, 3 | h]] => , }, }, member(x, [])], [[append(x, x, [3, 2]), match [2] { _ | [[y, _, t], [_, 1, 1]] => , [[x], 1] | 'a' => , t | [[h], ['b' | 1]] => { |tz| { tz == [3, 1], [1, 3, 1] != [1 | tz] }, x == [[_, 2]] }, }, x != P3(x, [x, 3], [])]], [P3(1, 2, [3, x]) == _, match [x, 'b'] { 'b' | _ => [matche 1 { [] => { [false, [], 2] == ["a"] }, [[2, _, z]] => , }, |x, h| { P3(1, h, h) != x }], }] }])
}
pub fn case_486(vars: &Vars) -> InferredGoal<DU, DE, Goal<DU, DE>> {
    let x = vars.v[0].clone();
    proto_vulcan!([[[]] == x, conde { [match x { _ | P3(3, [t], _) => , _ => , [] | _ => matche [3, x | x] { false | _ => { true }, "bc" => { [2] == x }, [[_, []], t, [t, z, 3 | h]] => , }, }, member(x, [])], [[append(x, x, [3, 2]), match [2] { _ | [[y, _, t], [_, 1, 1]] => , [[x], 1] | 'a' => , t | [[h], ['b' | 1]] => { |tz| { tz == [3, 1], [1, 3, 1] != [1 | tz] }, x == [[_, 2]] }, }, x != P3(x, [x, 3], [])]], [P3(1, 2, [3, x]) == _, match [x, 'b'] { 'b' | _ => [matche 1 { [] => { [false, [], 2] == ["a"] }, [[2, _, z]] => , }, |fresh_name_9, h| { P3(1, h, h) != fresh_name_9 }], }] }])
}
pub fn case_487(vars: &Vars) -> InferredGoal<DU, DE, Goal<DU, DE>> {
    let q = vars.v[0].clone();
    let x = vars.v[1].clone();
    proto_vulcan!([|t, y| { [matche t { [] => [append(t, q, [2]), t == 3], x => , _ => { t == 7, t == 8 }, }], true, [3, [_, "a", q], [_, x]] == [2, y, 2 | x] }, match q { P3(_, 2, [2, 3]) => { [|h, z| { false, false, |tz| { [2, 1 | tz] != [2, 1, 2, 1], tz == [2, 1] } }, conde { [['b', q] == q, member(x, [2, 2, 2])], [x, x | false] == ([], []) }] }, [[1, z, 1 | t], x, y] | [_, t | _] => [|tz| { [1, 1, 3, 2] != [1, 1 | tz], tz == [3, 2] }, P3(_, t, 3) == t], y => , }, false])
}
pub fn case_488(vars: &Vars) -> InferredGoal<DU, DE, Goal<DU, DE>> {
    let q = vars.v[0].clone();
    let x = vars.v[1].clone();
    proto_vulcan!([|fresh_name_9, y| { [matche fresh_name_9 { [] => [append(fresh_name_9, q, [2]), fresh_name_9 == 3], x => , _ => { fresh_name_9 == 7, fresh_name_9 == 8 }, }], true, [3, [_, "a", q], [_, x]] == [2, y, 2 | x] }, match q { P3(_, 2, [2, 3]) => { [|h, z| { false, false, |tz| { [2, 1 | tz] != [2, 1, 2, 1], tz == [2, 1] } }, conde { [['b', q] == q, member(x, [2, 2, 2])], [x, x | false] == ([], []) }] }, [[1, z, 1 | t], x, y] | [_, t | _] => [|tz| { [1, 1, 3, 2] != [1, 1 | tz], tz == [3, 2] }, P3(_, t, 3) == t], y => , }, false])
}
pub fn case_489(vars: &Vars) -> InferredGoal<DU, DE, Goal<DU, DE>> {
    let q = vars.v[0].clone();
    let x = vars.v[1].clone();
    proto_vulcan!([P3(x, x, 1) == x, |t, h| { true, [3] != h, |t| { matche h { _ => [t == P3(_, [[]], t), [x, 1] != x], }, match t { Named { a: [], b: 2 } | t => { [x | x] != x, h == [[], 2, true | x] }, } } }, [2, [_, 1 | q] | 1] == [[x], [2 | q]], { let c__: InferredGoal<DU, DE, Goal<DU, DE>> = proto_vulcan_closure!([|yy| { conde { [x == [yy | _], yy == 1], [x == [_, yy | _], yy == 2] } }, |x, h| { member(x, [3]) }]); let g__: Goal<DU, DE> = ::proto_vulcan::GoalCast::cast_into(c__); let r__: InferredGoal<DU, DE, Goal<DU, DE>> = proto_vulcan!([g__.clone(), g__]); r__ }])
}
pub fn case_490(vars: &Vars) -> InferredGoal<DU, DE, Goal<DU, DE>> {
    let q = vars.v[0].clone();
    let x = vars.v[1].clone();
    proto_vulcan!([P3(x, x, 1) == x, |t, fresh_name_9| { true, [3] != fresh_name_9, |t| { matche fresh_name_9 { _ => [t == P3(_, [[]], t), [x, 1] != x], }, match t { Named { a: [], b: 2 } | t => { [x | x] != x, fresh_name_9 == [[], 2, true | x] }, } } }, [2, [_, 1 | q] | 1] == [[x], [2 | q]], { let c__: InferredGoal<DU, DE, Goal<DU, DE>> = proto_vulcan_closure!([|yy| { conde { [x == [yy | _], yy == 1], [x == [_, yy | _], yy == 2] } }, |x, h| { member(x, [3]) }]); let g__: Goal<DU, DE> = ::proto_vulcan::GoalCast::cast_into(c__); let r__: InferredGoal<DU, DE, Goal<DU, DE>> = proto_vulcan!([g__.clone(), g__]); r__ }])
}
pub fn case_491(vars: &Vars) -> InferredGoal<DU, DE, Goal<DU, DE>> {
    let q = vars.v[0].clone();
    let x = vars.v[1].clone();
    proto_vulcan!([x != [[] | q], |h| { |tz| { [1 | tz] != [1, 1, 3], tz == [1, 3] }, |x| { [q, x, x] == q, [q == [1, x | h], (h, 2) == x] }, q == P3(2, q, h) }, closure { P3(3, 1, []) != [x, [3 | x] | [x, x]] }])
}
pub fn case_492(vars: &Vars) -> InferredGoal<DU, DE, Goal<DU, DE>> {
    let q = vars.v[0].clone();
    let x = vars.v[1].clone();
    proto_vulcan!([x != [[] | q], |h| { |fresh_name_9| { [1 | fresh_name_9] != [1, 1, 3], fresh_name_9 == [1, 3] }, |x| { [q, x, x] == q, [q == [1, x | h], (h, 2) == x] }, q == P3(2, q, h) }, closure { P3(3, 1, []) != [x, [3 | x] | [x, x]] }])
}
pub fn case_493(vars: &Vars) -> InferredGoal<DU, DE, Goal<DU, DE>> {
    let x = vars.v[0].clone();
    let y = vars.v[1].clone();
    proto_vulcan!([y == ([], [_, x]), matche x { y => , [[y, _ | z], ["a", [], t], 3 | 1] => { |x, h| { x != y } }, }, y == []])
}
pub fn case_494(vars: &Vars) -> InferredGoal<DU, DE, Goal<DU, DE>> {
    let x = vars.v[0].clone();
    let y = vars.v[1].clone();
    proto_vulcan!([y == ([], [_, x]), matche x { fresh_name_9 => , [[y, _ | z], ["a", [], t], 3 | 1] => { |x, h| { x != y } }, }, y == []])
}
pub fn case_495(vars: &Vars) -> InferredGoal<DU, DE, Goal<DU, DE>> {
    let x = vars.v[0].clone();
    proto_vulcan!([x == [x, x, [] | []], [|x, t| { t == P3(1, t, t), [t | x] != x, P3([x], t, x) != x }, match x { [[1], [z] | x] | 3 => , 2 => , [[h]] | _ => { false }, }, matche x { _ => [x] != [x, 2], _ => { member(x, [1, 2, 3]) }, [[[], 1 | _], [1, z]] => { |z, t| { member(z, [3, 1, 2]), z == [z, [x, [], z] | x] }, matche 2 { [[_], [t, "a"]] => { false }, false => , } }, }], [x] != x, closure { [|z| { matche z { P3([h, h], [y, 3], []) | [['a'], [z, 'a'], [t] | x] => , _ => member(z, [1, 2, 3]), }, [z, _, 3] != x, |z| { _ == x, z == [2, [] | z] } }, [[_, 1 | x], [x, 'b'] | x] == x] }])
}
pub fn case_496(vars: &Vars) -> InferredGoal<DU, DE, Goal<DU, DE>> {
    let x = vars.v[0].clone();
    proto_vulcan!([x == [x, x, [] | []], [|x, t| { t == P3(1, t, t), [t | x] != x, P3([x], t, x) != x }, match x { [[1], [z] | x] | 3 => , 2 => , [[h]] | _ => { false }, }, matche x { _ => [x] != [x, 2], _ => { member(x, [1, 2, 3]) }, [[[], 1 | _], [1, z]] => { |z, t| { member(z, [3, 1, 2]), z == [z, [x, [], z] | x] }, matche 2 { [[_], [t, "a"]] => { false }, false => , } }, }], [x] != x, closure { [|fresh_name_9| { matche fresh_name_9 { P3([h, h], [y, 3], []) | [['a'], [z, 'a'], [t] | x] => , _ => member(fresh_name_9, [1, 2, 3]), }, [fresh_name_9, _, 3] != x, |z| { _ == x, z == [2, [] | z] } }, [[_, 1 | x], [x, 'b'] | x] == x] }])
}
pub fn case_497(vars: &Vars) -> InferredGoal<DU, DE, Goal<DU, DE>> {
    let x = vars.v[0].clone();
    let y = vars.v[1].clone();
    proto_vulcan!([x == 1, [2] != y, [conde { conde { [|tz| { [2, 2] != [2 | tz], tz == [2] }, false], [[y, 3, 2 | x] != x, [y, 2, x] == 1], [] } }, x == ['b', x, y]], closure { [([3], x) != x, [|h| { x == 'a', x == [y, 1, h], 1 == x }]] }])
}
pub fn case_498(vars: &Vars) -> InferredGoal<DU, DE, Goal<DU, DE>> {
    let x = vars.v[0].clone();
    let y = vars.v[1].clone();
    proto_vulcan!([x == 1, [2] != y, [conde { conde { [|fresh_name_9| { [2, 2] != [2 | fresh_name_9], fresh_name_9 == [2] }, false], [[y, 3, 2 | x] != x, [y, 2, x] == 1], [] } }, x == ['b', x, y]], closure { [([3], x) != x, [|h| { x == 'a', x == [y, 1, h], 1 == x }]] }])
}
pub fn case_499(vars: &Vars) -> InferredGoal<DU, DE, Goal<DU, DE>> {
    let q = vars.v[0].clone();
    let x = vars.v[1].clone();
    proto_vulcan!([q == (x, []), match x { [[z, t], [h], [_] | y] => { conde { [[y == P3([3, 2], 3, [1]), h != 2, member(z, [])], matche h { _ | _ => , h => { 'b' == z }, [_ | _] => false, }], [z | y] == x, q == z }, |tz| { tz == [2], [2, 2] != [2 | tz] } }, }])
}
pub fn case_500(vars: &Vars) -> InferredGoal<DU, DE, Goal<DU, DE>> {
    let q = vars.v[0].clone();
    let x = vars.v[1].clone();
    proto_vulcan!([q == (x, []), match x { [[z, t], [fresh_name_9], [_] | y] => { conde { [[y == P3([3, 2], 3, [1]), fresh_name_9 != 2, member(z, [])], matche fresh_name_9 { _ | _ => , h => { 'b' == z }, [_ | _] => false, }], [z | y] == x, q == z }, |tz| { tz == [2], [2, 2] != [2 | tz] } }, }])
}
pub fn case_501(vars: &Vars) -> InferredGoal<DU, DE, Goal<DU, DE>> {
    let q = vars.v[0].clone();
    let x = vars.v[1].clone();
    proto_vulcan!([match q { _ | [[x | _] | t] => q == 'a', }, closure { [|y| { y != (y, _), [[y, 2, x], [1, 3, 2 | false], q | y] == x, q == [[_], [2 | q]] }, P3([_], [_], _) != q] }])
}
pub fn case_502(vars: &Vars) -> InferredGoal<DU, DE, Goal<DU, DE>> {
    let q = vars.v[0].clone();
    let x = vars.v[1].clone();
    proto_vulcan!([match q { _ | [[x | _] | t] => q == 'a', }, closure { [|fresh_name_9| { fresh_name_9 != (fresh_name_9, _), [[fresh_name_9, 2, x], [1, 3, 2 | false], q | fresh_name_9] == x, q == [[_], [2 | q]] }, P3([_], [_], _) != q] }])
}
pub fn case_503(vars: &Vars) -> InferredGoal<DU, DE, Goal<DU, DE>> {
    let x = vars.v[0].clone();
    let y = vars.v[1].clone();
    proto_vulcan!([x == x, matche x { P3([], [t, _], y) => , Named { a: _, b: t } => y != "a", h | t => , }, closure { [[x, ["bc", [] | [2]], [3]] != [y, []], 1 == [x, 3, [] | _]] }])
}
pub fn case_504(vars: &Vars) -> InferredGoal<DU, DE, Goal<DU, DE>> {
    let x = vars.v[0].clone();
    let y = vars.v[1].clone();
    proto_vulcan!([x == x, matche x { P3([], [t, _], fresh_name_9) => , Named { a: _, b: t } => y != "a", h | t => , }, closure { [[x, ["bc", [] | [2]], [3]] != [y, []], 1 == [x, 3, [] | _]] }])
}
pub fn case_505(vars: &Vars) -> InferredGoal<DU, DE, Goal<DU, DE>> {
    let x = vars.v[0].clone();
    proto_vulcan!([match [x, 2] { _ | _ => { member(x, [1, 2, 3]) }, _ => [x == 7, x == 8], t | [[2, 1, x], "bc", [true]] => , }, [x != P3(1, [2], [_]), x != [x, x, 1], [matche x { Named { a: y, b: [3] } => { y == P3(2, 3, [[]]), y != (y, y) }, }]]])
}
pub fn case_506(vars: &Vars) -> InferredGoal<DU, DE, Goal<DU, DE>> {
    let x = vars.v[0].clone();
    proto_vulcan!([match [x, 2] { _ | _ => { member(x, [1, 2, 3]) }, _ => [x == 7, x == 8], t | [[2, 1, x], "bc", [true]] => , }, [x != P3(1, [2], [_]), x != [x, x, 1], [matche x { Named { a: fresh_name_9, b: [3] } => { fresh_name_9 == P3(2, 3, [[]]), fresh_name_9 != (fresh_name_9, fresh_name_9) }, }]]])
}
pub fn case_507(vars: &Vars) -> InferredGoal<DU, DE, Goal<DU, DE>> {
    let q = vars.v[0].clone();
    let x = vars.v[1].clone();
    proto_vulcan!([conde { [[[x, q, q], x, [_] | x] != P3([1], 1, _), |x, y| { conde { [[3, 'b', [y, q]] == q, [2, y] == x], [true] == q }, 1 == y }], |z| { ([], x) != P3(q, [q, 2], []) } }])
}
pub fn case_508(vars: &Vars) -> InferredGoal<DU, DE, Goal<DU, DE>> {
    let q = vars.v[0].clone();
    let x = vars.v[1].clone();
    proto_vulcan!([conde { [[[x, q, q], x, [_] | x] != P3([1], 1, _), |x, y| { conde { [[3, 'b', [y, q]] == q, [2, y] == x], [true] == q }, 1 == y }], |fresh_name_9| { ([], x) != P3(q, [q, 2], []) } }])
}
pub fn case_509(vars: &Vars) -> InferredGoal<DU, DE, Goal<DU, DE>> {
    let q = vars.v[0].clone();
    let x = vars.v[1].clone();
    proto_vulcan!([x == P3([[], x], [], [_]), [3 == x, [conde { |tz| { tz == [1, 3], [1, 1, 1, 3] != [1, 1 | tz] }, _ != q, false }, x == x, q != [2, 2 | q]], matche q { _ => { q == [1] }, 1 => [[]], }], closure { [[conde { [], [] }]] }])
}
pub fn case_510(vars: &Vars) -> InferredGoal<DU, DE, Goal<DU, DE>> {
    let q = vars.v[0].clone();
    let x = vars.v[1].clone();
    proto_vulcan!([x == P3([[], x], [], [_]), [3 == x, [conde { |fresh_name_9| { fresh_name_9 == [1, 3], [1, 1, 1, 3] != [1, 1 | fresh_name_9] }, _ != q, false }, x == x, q != [2, 2 | q]], matche q { _ => { q == [1] }, 1 => [[]], }], closure { [[conde { [], [] }]] }])
}
pub fn case_511(vars: &Vars) -> InferredGoal<DU, DE, Goal<DU, DE>> {
    let q = vars.v[0].clone();
    let x = vars.v[1].clone();
    proto_vulcan!([conde { q == P3(3, q, q), [P3(3, [x, x], 1) == x, matche x { [_, [h, x, []]] => [|x| { h != ([_, q], _), ["a", x | [q, 2]] != h, member(x, [1, 2, 1]) }, q == ['a', x]], [[3, t, t], ['b', _ | _], [3 | _] | t] => , _ => { x == 7, x == 8 }, }] }])
}
pub fn case_512(vars: &Vars) -> InferredGoal<DU, DE, Goal<DU, DE>> {
    let q = vars.v[0].clone();
    let x = vars.v[1].clone();
    proto_vulcan!([conde { q == P3(3, q, q), [P3(3, [x, x], 1) == x, matche x { [_, [h, x, []]] => [|x| { h != ([_, q], _), ["a", x | [q, 2]] != h, member(x, [1, 2, 1]) }, q == ['a', x]], [[3, fresh_name_9, fresh_name_9], ['b', _ | _], [3 | _] | fresh_name_9] => , _ => { x == 7, x == 8 }, }] }])
}
pub fn case_513(vars: &Vars) -> InferredGoal<DU, DE, Goal<DU, DE>> {
    let q = vars.v[0].clone();
    let x = vars.v[1].clone();
    proto_vulcan!([q == P3([[], []], 3, x), matche x { 2 | [h] => [_] == x, }, { let c__: InferredGoal<DU, DE, Goal<DU, DE>> = proto_vulcan_closure!(|yy| { conde { [x == [yy | _], yy == 1], [x == [_, yy | _], yy == 2] } }); let g__: Goal<DU, DE> = ::proto_vulcan::GoalCast::cast_into(c__); let r__: InferredGoal<DU, DE, Goal<DU, DE>> = proto_vulcan!([g__.clone(), g__]); r__ }])
}
pub fn case_514(vars: &Vars) -> InferredGoal<DU, DE, Goal<DU, DE>> {
    let q = vars.v[0].clone();
    let x = vars.v[1].clone();
    proto_vulcan!([q == P3([[], []], 3, x), matche x { 2 | [h] => [_] == x, }, { let c__: InferredGoal<DU, DE, Goal<DU, DE>> = proto_vulcan_closure!(|fresh_name_9| { conde { [x == [fresh_name_9 | _], fresh_name_9 == 1], [x == [_, fresh_name_9 | _], fresh_name_9 == 2] } }); let g__: Goal<DU, DE> = ::proto_vulcan::GoalCast::cast_into(c__); let r__: InferredGoal<DU, DE, Goal<DU, DE>> = proto_vulcan!([g__.clone(), g__]); r__ }])
}
pub fn case_515(vars: &Vars) -> InferredGoal<DU, DE, Goal<DU, DE>> {
    let q = vars.v[0].clone();
    let x = vars.v[1].clone();
    proto_vulcan!([|x, z| { "a" == x, [matche q { [[[], 1, 1 | t], []] => [append(q, q, []), |tz| { tz == [2, 3], [1, 2, 3] != [1 | tz] }], [[_, 3]] => , [[z, y, 1 | x], 2] | [[2], [3, y, z | [y, y]]] => member(q, []), }] }, |tz| { tz == [2, 2], [3, 2, 2] != [3 | tz] }, conde { true, |x, z| { [] == x, conde { [P3(3, 1, q) == q, true], q == [[x, q, x | x], [[], x], []], q == 1 } } }, { let c__: InferredGoal<DU, DE, Goal<DU, DE>> = proto_vulcan_closure!([|yy| { conde { [x == [yy | _], yy == 1], [x == [_, yy | _], yy == 2] } }, q == 3]); let g__: Goal<DU, DE> = ::proto_vulcan::GoalCast::cast_into(c__); let r__: InferredGoal<DU, DE, Goal<DU, DE>> = proto_vulcan!([g__.clone(), g__]); r__ }])
}
pub fn case_516(vars: &Vars) -> InferredGoal<DU, DE, Goal<DU, DE>> {
    let q = vars.v[0].clone();
    let x = vars.v[1].clone();
    proto_vulcan!([|x, z| { "a" == x, [matche q { [[[], 1, 1 | t], []] => [append(q, q, []), |tz| { tz == [2, 3], [1, 2, 3] != [1 | tz] }], [[_, 3]] => , [[z, y, 1 | x], 2] | [[2], [3, y, z | [y, y]]] => member(q, []), }] }, |tz| { tz == [2, 2], [3, 2, 2] != [3 | tz] }, conde { true, |fresh_name_9, z| { [] == fresh_name_9, conde { [P3(3, 1, q) == q, true], q == [[fresh_name_9, q, fresh_name_9 | fresh_name_9], [[], fresh_name_9], []], q == 1 } } }, { let c__: InferredGoal<DU, DE, Goal<DU, DE>> = proto_vulcan_closure!([|yy| { conde { [x == [yy | _], yy == 1], [x == [_, yy | _], yy == 2] } }, q == 3]); let g__: Goal<DU, DE> = ::proto_vulcan::GoalCast::cast_into(c__); let r__: InferredGoal<DU, DE, Goal<DU, DE>> = proto_vulcan!([g__.clone(), g__]); r__ }])
}
pub fn case_517(vars: &Vars) -> InferredGoal<DU, DE, Goal<DU, DE>> {
    let q = vars.v[0].clone();
    let x = vars.v[1].clone();
    proto_vulcan!([[x == P3(q, x, 2), [2, [] | x] == q, conde { [[_, x, q], 2, x] == q, [|t, x| { [x, [] | x] != "bc", x == [2, false, 3] }, [x == x, x == [x, x, 1], [[], 2 | [1]] == q]] }], x == ([3], _), { let c__: InferredGoal<DU, DE, Goal<DU, DE>> = proto_vulcan_closure!(|yy| { conde { [q == [yy | _], yy == 1], [q == [_, yy | _], yy == 2] } }); let g__: Goal<DU, DE> = ::proto_vulcan::GoalCast::cast_into(c__); let r__: InferredGoal<DU, DE, Goal<DU, DE>> = proto_vulcan!([g__.clone(), g__]); r__ }])
}
pub fn case_518(vars: &Vars) -> InferredGoal<DU, DE, Goal<DU, DE>> {
    let q = vars.v[0].clone();
    let x = vars.v[1].clone();
    proto_vulcan!([[x == P3(q, x, 2), [2, [] | x] == q, conde { [[_, x, q], 2, x] == q, [|t, fresh_name_9| { [fresh_name_9, [] | fresh_name_9] != "bc", fresh_name_9 == [2, false, 3] }, [x == x, x == [x, x, 1], [[], 2 | [1]] == q]] }], x == ([3], _), { let c__: InferredGoal<DU, DE, Goal<DU, DE>> = proto_vulcan_closure!(|yy| { conde { [q == [yy | _], yy == 1], [q == [_, yy | _], yy == 2] } }); let g__: Goal<DU, DE> = ::proto_vulcan::GoalCast::cast_into(c__); let r__: InferredGoal<DU, DE, Goal<DU, DE>> = proto_vulcan!([g__.clone(), g__]); r__ }])
}
pub fn case_519(vars: &Vars) -> InferredGoal<DU, DE, Goal<DU, DE>> {
    let x = vars.v[0].clone();
    proto_vulcan!([x == [x], matche x { [[t, x, x], [h], [z | 2]] => { [2, x, []] != z, z == z }, P3(2, [t, 1], 1) => { true }, [[_], [3, "bc", 2 | z]] => [z == x, x != P3(z, 3, 2)], }, match 3 { _ | h => { [x, 1] != x }, x | 1 => , [[1], [[], 2, 3], ["a", 2, t]] | [[1, x, _], [y, 2]] => , }, { let c__: InferredGoal<DU, DE, Goal<DU, DE>> = proto_vulcan_closure!([|yy| { conde { [x == [yy | _], yy == 1], [x == [_, yy | _], yy == 2] } }, conde { x == [1, 1, x | 2], [x == 1, [x | x] == x] }]); let g__: Goal<DU, DE> = ::proto_vulcan::GoalCast::cast_into(c__); let r__: InferredGoal<DU, DE, Goal<DU, DE>> = proto_vulcan!([g__.clone(), g__]); r__ }])
}
pub fn case_520(vars: &Vars) -> InferredGoal<DU, DE, Goal<DU, DE>> {
    let x = vars.v[0].clone();
    proto_vulcan!([x == [x], matche x { [[t, x, x], [h], [z | 2]] => { [2, x, []] != z, z == z }, P3(2, [fresh_name_9, 1], 1) => { true }, [[_], [3, "bc", 2 | z]] => [z == x, x != P3(z, 3, 2)], }, match 3 { _ | h => { [x, 1] != x }, x | 1 => , [[1], [[], 2, 3], ["a", 2, t]] | [[1, x, _], [y, 2]] => , }, { let c__: InferredGoal<DU, DE, Goal<DU, DE>> = proto_vulcan_closure!([|yy| { conde { [x == [yy | _], yy == 1], [x == [_, yy | _], yy == 2] } }, conde { x == [1, 1, x | 2], [x == 1, [x | x] == x] }]); let g__: Goal<DU, DE> = ::proto_vulcan::GoalCast::cast_into(c__); let r__: InferredGoal<DU, DE, Goal<DU, DE>> = proto_vulcan!([g__.clone(), g__]); r__ }])
}
pub fn case_521(vars: &Vars) -> InferredGoal<DU, DE, Goal<DU, DE>> {
    let x = vars.v[0].clone();
    let y = vars.v[1].clone();
    proto_vulcan!([matche x { [[1]] | P3([y], z, z) => [[1, x] == x, (x, x) == x], }, |tz| { tz == [1, 2], [1, 1 | tz] != [1, 1, 1, 2] }, |y, h| { h == _, [[2, y | 'a'] != y] }])
}
pub fn case_522(vars: &Vars) -> InferredGoal<DU, DE, Goal<DU, DE>> {
    let x = vars.v[0].clone();
    let y = vars.v[1].clone();
    proto_vulcan!([matche x { [[1]] | P3([y], z, z) => [[1, x] == x, (x, x) == x], }, |fresh_name_9| { fresh_name_9 == [1, 2], [1, 1 | fresh_name_9] != [1, 1, 1, 2] }, |y, h| { h == _, [[2, y | 'a'] != y] }])
}
pub fn case_523(vars: &Vars) -> InferredGoal<DU, DE, Goal<DU, DE>> {
    let x = vars.v[0].clone();
    let y = vars.v[1].clone();
    proto_vulcan!([conde { [], |x| { [[x, _] == y], conde { [[y, false, _ | [x]], x | y] == ["a", 2], 2 == P3([_, 3], 1, 3), member(x, [3]) }, [1, x | y] == [[y], 'b' | x] }, [|tz| { [1, 3 | tz] != [1, 3, 3, 3], tz == [3, 3] }, |h, x| { |y| { x != [_, 'a', []] }, true }] }, x == P3(_, y, [_]), |z| { 'b' != z, match y { [3, [1 | x]] | _ => { matche z { [[h], [x], 1] => , _ => { y == 7, y == 8 }, _ => [z == 7, z == 8], } }, } }])
}
pub fn case_524(vars: &Vars) -> InferredGoal<DU, DE, Goal<DU, DE>> {
    let x = vars.v[0].clone();
    let y = vars.v[1].clone();
    proto_vulcan!([conde { [], |x| { [[x, _] == y], conde { [[y, false, _ | [x]], x | y] == ["a", 2], 2 == P3([_, 3], 1, 3), member(x, [3]) }, [1, x | y] == [[y], 'b' | x] }, [|tz| { [1, 3 | tz] != [1, 3, 3, 3], tz == [3, 3] }, |h, x| { |fresh_name_9| { x != [_, 'a', []] }, true }] }, x == P3(_, y, [_]), |z| { 'b' != z, match y { [3, [1 | x]] | _ => { matche z { [[h], [x], 1] => , _ => { y == 7, y == 8 }, _ => [z == 7, z == 8], } }, } }])
}
pub fn case_525(vars: &Vars) -> InferredGoal<DU, DE, Goal<DU, DE>> {
    let q = vars.v[0].clone();
    let x = vars.v[1].clone();
    proto_vulcan!([x == (2, []), conde { [_ == x, |tz| { [1, 3 | tz] != [1, 3, 1, 1], tz == [1, 1] }], x == [x, x, []], [x == [[] | q], q == "a"] }])
}
pub fn case_526(vars: &Vars) -> InferredGoal<DU, DE, Goal<DU, DE>> {
    let q = vars.v[0].clone();
    let x = vars.v[1].clone();
    proto_vulcan!([x == (2, []), conde { [_ == x, |fresh_name_9| { [1, 3 | fresh_name_9] != [1, 3, 1, 1], fresh_name_9 == [1, 1] }], x == [x, x, []], [x == [[] | q], q == "a"] }])
}
pub fn case_527(vars: &Vars) -> InferredGoal<DU, DE, Goal<DU, DE>> {
    let x = vars.v[0].clone();
    proto_vulcan!([member(x, []), match x { _ => { matche x { P3(x, [y, 1], h) => { (2, [3, []]) == h }, } }, [[h, 3], 2, [[], 2]] => append(x, h, [2]), }])
}
pub fn case_528(vars: &Vars) -> InferredGoal<DU, DE, Goal<DU, DE>> {
    let x = vars.v[0].clone();
    proto_vulcan!([member(x, []), match x { _ => { matche x { P3(x, [y, 1], fresh_name_9) => { (2, [3, []]) == fresh_name_9 }, } }, [[h, 3], 2, [[], 2]] => append(x, h, [2]), }])
}
pub fn case_529(vars: &Vars) -> InferredGoal<DU, DE, Goal<DU, DE>> {
    let x = vars.v[0].clone();
    let y = vars.v[1].clone();
    proto_vulcan!([[x, [3, y | x]] == [x, x], y == [2, [], y], y == [3], { let c__: InferredGoal<DU, DE, Goal<DU, DE>> = proto_vulcan_closure!(|yy| { conde { [y == [yy | _], yy == 1], [y == [_, yy | _], yy == 2] } }); let g__: Goal<DU, DE> = ::proto_vulcan::GoalCast::cast_into(c__); let r__: InferredGoal<DU, DE, Goal<DU, DE>> = proto_vulcan!([g__.clone(), g__]); r__ }])
}
pub fn case_530(vars: &Vars) -> InferredGoal<DU, DE, Goal<DU, DE>> {
    let x = vars.v[0].clone();
    let y = vars.v[1].clone();
    proto_vulcan!([[x, [3, y | x]] == [x, x], y == [2, [], y], y == [3], { let c__: InferredGoal<DU, DE, Goal<DU, DE>> = proto_vulcan_closure!(|fresh_name_9| { conde { [y == [fresh_name_9 | _], fresh_name_9 == 1], [y == [_, fresh_name_9 | _], fresh_name_9 == 2] } }); let g__: Goal<DU, DE> = ::proto_vulcan::GoalCast::cast_into(c__); let r__: InferredGoal<DU, DE, Goal<DU, DE>> = proto_vulcan!([g__.clone(), g__]); r__ }])
}
pub fn case_531(vars: &Vars) -> InferredGoal<DU, DE, Goal<DU, DE>> {
    let q = vars.v[0].clone();
    let x = vars.v[1].clone();
    proto_vulcan!([matche q { Named { a: [2], b: z } => |tz| { [2, 2, 1, 3] != [2, 2 | tz], tz == [1, 3] }, x => [[q] == x, append(x, x, [2])], }, closure { [q, [_, [], 1], 2] == [_, 2, 2] }])
}
pub fn case_532(vars: &Vars) -> InferredGoal<DU, DE, Goal<DU, DE>> {
    let q = vars.v[0].clone();
    let x = vars.v[1].clone();
    proto_vulcan!([matche q { Named { a: [2], b: z } => |tz| { [2, 2, 1, 3] != [2, 2 | tz], tz == [1, 3] }, fresh_name_9 => [[q] == fresh_name_9, append(fresh_name_9, fresh_name_9, [2])], }, closure { [q, [_, [], 1], 2] == [_, 2, 2] }])
}
pub fn case_533(vars: &Vars) -> InferredGoal<DU, DE, Goal<DU, DE>> {
    let x = vars.v[0].clone();
    let y = vars.v[1].clone();
    proto_vulcan!([y != x, |tz| { tz == [3], [1, 3, 3] != [1, 3 | tz] }])
}
pub fn case_534(vars: &Vars) -> InferredGoal<DU, DE, Goal<DU, DE>> {
    let x = vars.v[0].clone();
    let y = vars.v[1].clone();
    proto_vulcan!([y != x, |fresh_name_9| { fresh_name_9 == [3], [1, 3, 3] != [1, 3 | fresh_name_9] }])
}
pub fn case_535(vars: &Vars) -> InferredGoal<DU, DE, Goal<DU, DE>> {
    let x = vars.v[0].clone();
    let y = vars.v[1].clone();
    proto_vulcan!([|h, t| { h == [2], [t != P3([3, 3], 2, 3), 1 == t, |y, t| { x != [[], 3 | [1]], x == [[3, y], [x] | t], [1, [], 'b' | t] == t }] }, x != [2, [1], _ | x], [[], false, 3] == y])
}
pub fn case_536(vars: &Vars) -> InferredGoal<DU, DE, Goal<DU, DE>> {
    let x = vars.v[0].clone();
    let y = vars.v[1].clone();
    proto_vulcan!([|fresh_name_9, t| { fresh_name_9 == [2], [t != P3([3, 3], 2, 3), 1 == t, |y, t| { x != [[], 3 | [1]], x == [[3, y], [x] | t], [1, [], 'b' | t] == t }] }, x != [2, [1], _ | x], [[], false, 3] == y])
}
pub fn case_537(vars: &Vars) -> InferredGoal<DU, DE, Goal<DU, DE>> {
    let x = vars.v[0].clone();
    let y = vars.v[1].clone();
    proto_vulcan!([|tz| { tz == [1], [2, 3, 1] != [2, 3 | tz] }, conde { [], [y != y, |x| { P3(1, x, _) == [3, 1], [y, x] == y, |z, t| { [1, t] == [[y, 1], [t], [[], t, x | t]], t == [1, y] } }] }, x == [false, y]])
}
pub fn case_538(vars: &Vars) -> InferredGoal<DU, DE, Goal<DU, DE>> {
    let x = vars.v[0].clone();
    let y = vars.v[1].clone();
    proto_vulcan!([|tz| { tz == [1], [2, 3, 1] != [2, 3 | tz] }, conde { [], [y != y, |x| { P3(1, x, _) == [3, 1], [y, x] == y, |fresh_name_9, t| { [1, t] == [[y, 1], [t], [[], t, x | t]], t == [1, y] } }] }, x == [false, y]])
}
pub fn case_539(vars: &Vars) -> InferredGoal<DU, DE, Goal<DU, DE>> {
    let q = vars.v[0].clone();
    let x = vars.v[1].clone();
    proto_vulcan!([[_, [], 3] != q, |h, y| { q == h, |x, h| { [x == 3, h == x] } }, (2, q) != [[[]]]])
}
pub fn case_540(vars: &Vars) -> InferredGoal<DU, DE, Goal<DU, DE>> {
    let q = vars.v[0].clone();
    let x = vars.v[1].clone();
    proto_vulcan!([[_, [], 3] != q, |h, fresh_name_9| { q == h, |x, h| { [x == 3, h == x] } }, (2, q) != [[[]]]])
}
pub fn case_541(vars: &Vars) -> InferredGoal<DU, DE, Goal<DU, DE>> {
    let x = vars.v[0].clone();
    proto_vulcan!([match x { [[2, 1 | h] | _] => , }, [[], x, x | 'b'] != x, [[], matche x { _ | [[[], t, _], 3] => { append(x, x, []), match x { [[[], z, []]] => { x == z }, } }, }]])
}
pub fn case_542(vars: &Vars) -> InferredGoal<DU, DE, Goal<DU, DE>> {
    let x = vars.v[0].clone();
    proto_vulcan!([match x { [[2, 1 | fresh_name_9] | _] => , }, [[], x, x | 'b'] != x, [[], matche x { _ | [[[], t, _], 3] => { append(x, x, []), match x { [[[], z, []]] => { x == z }, } }, }]])
}
pub fn case_543(vars: &Vars) -> InferredGoal<DU, DE, Goal<DU, DE>> {
    let q = vars.v[0].clone();
    let x = vars.v[1].clone();
    proto_vulcan!([matche q { _ => { |z| { x == [1, x, q] } }, [['b'] | z] | [[[]], ["a", 2 | y]] => , P3([1, h], [], y) => , }, { let c__: InferredGoal<DU, DE, Goal<DU, DE>> = proto_vulcan_closure!(|yy| { conde { [q == [yy | _], yy == 1], [q == [_, yy | _], yy == 2] } }); let g__: Goal<DU, DE> = ::proto_vulcan::GoalCast::cast_into(c__); let r__: InferredGoal<DU, DE, Goal<DU, DE>> = proto_vulcan!([g__.clone(), g__]); r__ }])
}
pub fn case_544(vars: &Vars) -> InferredGoal<DU, DE, Goal<DU, DE>> {
    let q = vars.v[0].clone();
    let x = vars.v[1].clone();
    proto_vulcan!([matche q { _ => { |z| { x == [1, x, q] } }, [['b'] | z] | [[[]], ["a", 2 | y]] => , P3([1, fresh_name_9], [], y) => , }, { let c__: InferredGoal<DU, DE, Goal<DU, DE>> = proto_vulcan_closure!(|yy| { conde { [q == [yy | _], yy == 1], [q == [_, yy | _], yy == 2] } }); let g__: Goal<DU, DE> = ::proto_vulcan::GoalCast::cast_into(c__); let r__: InferredGoal<DU, DE, Goal<DU, DE>> = proto_vulcan!([g__.clone(), g__]); r__ }])
}
pub fn case_545(vars: &Vars) -> InferredGoal<DU, DE, Goal<DU, DE>> {
    let x = vars.v[0].clone();
    let y = vars.v[1].clone();
    proto_vulcan!([['b', _] == x, |t| { match [t, y] { _ => member(y, [1, 2, 3]), }, x == [x, false, y], false == t }, true])
}
pub fn case_546(vars: &Vars) -> InferredGoal<DU, DE, Goal<DU, DE>> {
    let x = vars.v[0].clone();
    let y = vars.v[1].clone();
    proto_vulcan!([['b', _] == x, |fresh_name_9| { match [fresh_name_9, y] { _ => member(y, [1, 2, 3]), }, x == [x, false, y], false == fresh_name_9 }, true])
}
pub fn case_547(vars: &Vars) -> InferredGoal<DU, DE, Goal<DU, DE>> {
    let x = vars.v[0].clone();
    proto_vulcan!([false, P3(2, x, []) == x, closure { [[x == 3, x == [2], |y| { y != ([2, 1], 1), true, ([], [[]]) == y }], x == [[], true]] }])
}
pub fn case_548(vars: &Vars) -> InferredGoal<DU, DE, Goal<DU, DE>> {
    let x = vars.v[0].clone();
    proto_vulcan!([false, P3(2, x, []) == x, closure { [[x == 3, x == [2], |fresh_name_9| { fresh_name_9 != ([2, 1], 1), true, ([], [[]]) == fresh_name_9 }], x == [[], true]] }])
}
pub fn case_549(vars: &Vars) -> InferredGoal<DU, DE, Goal<DU, DE>> {
    let q = vars.v[0].clone();
    let x = vars.v[1].clone();
    proto_vulcan!([conde { |x| { [q, _] == q, x != [x, []], conde { [false, x == q], [|tz| { tz == [2], [1, 2 | tz] != [1, 2, 2] }, [2, [], x | 'a'] == q] } }, [], x == 2 }, |y| { member(x, [2]) }, x == [[2, 2 | q], []]])
}
pub fn case_550(vars: &Vars) -> InferredGoal<DU, DE, Goal<DU, DE>> {
    let q = vars.v[0].clone();
    let x = vars.v[1].clone();
    proto_vulcan!([conde { |x| { [q, _] == q, x != [x, []], conde { [false, x == q], [|fresh_name_9| { fresh_name_9 == [2], [1, 2 | fresh_name_9] != [1, 2, 2] }, [2, [], x | 'a'] == q] } }, [], x == 2 }, |y| { member(x, [2]) }, x == [[2, 2 | q], []]])
}
pub fn case_551(vars: &Vars) -> InferredGoal<DU, DE, Goal<DU, DE>> {
    let x = vars.v[0].clone();
    proto_vulcan!([|tz| { tz == [3, 3], [3 | tz] != [3, 3, 3] }, [] == x])
}
pub fn case_552(vars: &Vars) -> InferredGoal<DU, DE, Goal<DU, DE>> {
    let x = vars.v[0].clone();
    proto_vulcan!([|fresh_name_9| { fresh_name_9 == [3, 3], [3 | fresh_name_9] != [3, 3, 3] }, [] == x])
}
pub fn case_553(vars: &Vars) -> InferredGoal<DU, DE, Goal<DU, DE>> {
    let x = vars.v[0].clone();
    proto_vulcan!([[x | x] == x, |tz| { tz == [2], [3, 1 | tz] != [3, 1, 2] }, |x, z| { z == [x, _], append(z, z, [2, 1]) }, { let c__: InferredGoal<DU, DE, Goal<DU, DE>> = proto_vulcan_closure!(|yy| { conde { [x == [yy | _], yy == 1], [x == [_, yy | _], yy == 2] } }); let g__: Goal<DU, DE> = ::proto_vulcan::GoalCast::cast_into(c__); let r__: InferredGoal<DU, DE, Goal<DU, DE>> = proto_vulcan!([g__.clone(), g__]); r__ }])
}
pub fn case_554(vars: &Vars) -> InferredGoal<DU, DE, Goal<DU, DE>> {
    let x = vars.v[0].clone();
    proto_vulcan!([[x | x] == x, |tz| { tz == [2], [3, 1 | tz] != [3, 1, 2] }, |x, fresh_name_9| { fresh_name_9 == [x, _], append(fresh_name_9, fresh_name_9, [2, 1]) }, { let c__: InferredGoal<DU, DE, Goal<DU, DE>> = proto_vulcan_closure!(|yy| { conde { [x == [yy | _], yy == 1], [x == [_, yy | _], yy == 2] } }); let g__: Goal<DU, DE> = ::proto_vulcan::GoalCast::cast_into(c__); let r__: InferredGoal<DU, DE, Goal<DU, DE>> = proto_vulcan!([g__.clone(), g__]); r__ }])
}
pub fn case_555(vars: &Vars) -> InferredGoal<DU, DE, Goal<DU, DE>> {
    let x = vars.v[0].clone();
    let y = vars.v[1].clone();
    proto_vulcan!([match [[], "bc" | x] { _ => { x == 7, x == 8 }, [[], 2, [x] | []] | [[h], [y, _, 2], "bc"] => , Named { a: [z], b: 3 } => matche z { [z, z] => , Named { a: 2, b: z } | [[1, 1, x], [t]] => { y != (3, [y]) }, }, }, [y, x | y] == x, x == x, { let c__: InferredGoal<DU, DE, Goal<DU, DE>> = proto_vulcan_closure!(|yy| { conde { [y == [yy | _], yy == 1], [y == [_, yy | _], yy == 2] } }); let g__: Goal<DU, DE> = ::proto_vulcan::GoalCast::cast_into(c__); let r__: InferredGoal<DU, DE, Goal<DU, DE>> = proto_vulcan!([g__.clone(), g__]); r__ }])
}
pub fn case_556(vars: &Vars) -> InferredGoal<DU, DE, Goal<DU, DE>> {
    let x = vars.v[0].clone();
    let y = vars.v[1].clone();
    proto_vulcan!([match [[], "bc" | x] { _ => { x == 7, x == 8 }, [[], 2, [x] | []] | [[h], [y, _, 2], "bc"] => , Named { a: [z], b: 3 } => matche z { [fresh_name_9, fresh_name_9] => , Named { a: 2, b: z } | [[1, 1, x], [t]] => { y != (3, [y]) }, }, }, [y, x | y] == x, x == x, { let c__: InferredGoal<DU, DE, Goal<DU, DE>> = proto_vulcan_closure!(|yy| { conde { [y == [yy | _], yy == 1], [y == [_, yy | _], yy == 2] } }); let g__: Goal<DU, DE> = ::proto_vulcan::GoalCast::cast_into(c__); let r__: InferredGoal<DU, DE, Goal<DU, DE>> = proto_vulcan!([g__.clone(), g__]); r__ }])
}
pub fn case_557(vars: &Vars) -> InferredGoal<DU, DE, Goal<DU, DE>> {
    let x = vars.v[0].clone();
    let y = vars.v[1].clone();
    proto_vulcan!([[[y, x, 2]] == [[y] | y], x == [y], { let c__: InferredGoal<DU, DE, Goal<DU, DE>> = proto_vulcan_closure!(|yy| { conde { [y == [yy | _], yy == 1], [y == [_, yy | _], yy == 2] } }); let g__: Goal<DU, DE> = ::proto_vulcan::GoalCast::cast_into(c__); let r__: InferredGoal<DU, DE, Goal<DU, DE>> = proto_vulcan!([g__.clone(), g__]); r__ }])
}
pub fn case_558(vars: &Vars) -> InferredGoal<DU, DE, Goal<DU, DE>> {
    let x = vars.v[0].clone();
    let y = vars.v[1].clone();
    proto_vulcan!([[[y, x, 2]] == [[y] | y], x == [y], { let c__: InferredGoal<DU, DE, Goal<DU, DE>> = proto_vulcan_closure!(|fresh_name_9| { conde { [y == [fresh_name_9 | _], fresh_name_9 == 1], [y == [_, fresh_name_9 | _], fresh_name_9 == 2] } }); let g__: Goal<DU, DE> = ::proto_vulcan::GoalCast::cast_into(c__); let r__: InferredGoal<DU, DE, Goal<DU, DE>> = proto_vulcan!([g__.clone(), g__]); r__ }])
}
pub fn case_559(vars: &Vars) -> InferredGoal<DU, DE, Goal<DU, DE>> {
    let q = vars.v[0].clone();
    let x = vars.v[1].clone();
    proto_vulcan!([conde { match q { "bc" => , ['b', [], 1] => , }, [[matche x { P3(_, [_], 2) => [|tz| { [2, 2] != [2 | tz], tz == [2] }, 2 == x], P3([2, 1], 1, [[], 2]) => { q == x }, P3([1, []], _, 3) | P3(1, [1], x) => append(q, q, [1]), }, conde { [x == x, true] }, _ == q], match q { 'a' | _ => , P3(3, h, _) | _ => , }] }, [[x | 2], q] == P3([], q, [x, []]), { let c__: InferredGoal<DU, DE, Goal<DU, DE>> = proto_vulcan_closure!([|yy| { conde { [x == [yy | _], yy == 1], [x == [_, yy | _], yy == 2] } }, x == x]); let g__: Goal<DU, DE> = ::proto_vulcan::GoalCast::cast_into(c__); let r__: InferredGoal<DU, DE, Goal<DU, DE>> = proto_vulcan!([g__.clone(), g__]); r__ }])
}
pub fn case_560(vars: &Vars) -> InferredGoal<DU, DE, Goal<DU, DE>> {
    let q = vars.v[0].clone();
    let x = vars.v[1].clone();
    proto_vulcan!([conde { match q { "bc" => , ['b', [], 1] => , }, [[matche x { P3(_, [_], 2) => [|tz| { [2, 2] != [2 | tz], tz == [2] }, 2 == x], P3([2, 1], 1, [[], 2]) => { q == x }, P3([1, []], _, 3) | P3(1, [1], x) => append(q, q, [1]), }, conde { [x == x, true] }, _ == q], match q { 'a' | _ => , P3(3, h, _) | _ => , }] }, [[x | 2], q] == P3([], q, [x, []]), { let c__: InferredGoal<DU, DE, Goal<DU, DE>> = proto_vulcan_closure!([|fresh_name_9| { conde { [x == [fresh_name_9 | _], fresh_name_9 == 1], [x == [_, fresh_name_9 | _], fresh_name_9 == 2] } }, x == x]); let g__: Goal<DU, DE> = ::proto_vulcan::GoalCast::cast_into(c__); let r__: InferredGoal<DU, DE, Goal<DU, DE>> = proto_vulcan!([g__.clone(), g__]); r__ }])
}
pub fn case_561(vars: &Vars) -> InferredGoal<DU, DE, Goal<DU, DE>> {
    let q = vars.v[0].clone();
    let x = vars.v[1].clone();
    proto_vulcan!([|tz| { tz == [2, 2], [2, 3, 2, 2] != [2, 3 | tz] }, [match q { [1 | x] => [x != 3, ['b', 2, []] == 3], false => { [[2, x, x] == x] }, }, [] == (2, 1), |tz| { tz == [3, 1], [3, 3, 1] != [3 | tz] }], { let c__: InferredGoal<DU, DE, Goal<DU, DE>> = proto_vulcan_closure!(|yy| { conde { [x == [yy | _], yy == 1], [x == [_, yy | _], yy == 2] } }); let g__: Goal<DU, DE> = ::proto_vulcan::GoalCast::cast_into(c__); let r__: InferredGoal<DU, DE, Goal<DU, DE>> = proto_vulcan!([g__.clone(), g__]); r__ }])
}
pub fn case_562(vars: &Vars) -> InferredGoal<DU, DE, Goal<DU, DE>> {
    let q = vars.v[0].clone();
    let x = vars.v[1].clone();
    proto_vulcan!([|fresh_name_9| { fresh_name_9 == [2, 2], [2, 3, 2, 2] != [2, 3 | fresh_name_9] }, [match q { [1 | x] => [x != 3, ['b', 2, []] == 3], false => { [[2, x, x] == x] }, }, [] == (2, 1), |tz| { tz == [3, 1], [3, 3, 1] != [3 | tz] }], { let c__: InferredGoal<DU, DE, Goal<DU, DE>> = proto_vulcan_closure!(|yy| { conde { [x == [yy | _], yy == 1], [x == [_, yy | _], yy == 2] } }); let g__: Goal<DU, DE> = ::proto_vulcan::GoalCast::cast_into(c__); let r__: InferredGoal<DU, DE, Goal<DU, DE>> = proto_vulcan!([g__.clone(), g__]); r__ }])
}
pub fn case_563(vars: &Vars) -> InferredGoal<DU, DE, Goal<DU, DE>> {
    let x = vars.v[0].clone();
    let y = vars.v[1].clone();
    proto_vulcan!([|z| { conde { |z, t| { [[[]]] == z, [[z, 2], 3] == t, [[z, _, y], [x, 3, 1 | z]] == [["a", t | []], [], [y, x | z]] }, [P3(z, [], [z, 3]) != y, conde { append(z, y, [2]), y == [3, 2] }] } }])
}
pub fn case_564(vars: &Vars) -> InferredGoal<DU, DE, Goal<DU, DE>> {
    let x = vars.v[0].clone();
    let y = vars.v[1].clone();
    proto_vulcan!([|fresh_name_9| { conde { |z, t| { [[[]]] == z, [[z, 2], 3] == t, [[z, _, y], [x, 3, 1 | z]] == [["a", t | []], [], [y, x | z]] }, [P3(fresh_name_9, [], [fresh_name_9, 3]) != y, conde { append(fresh_name_9, y, [2]), y == [3, 2] }] } }])
}
pub fn case_565(vars: &Vars) -> InferredGoal<DU, DE, Goal<DU, DE>> {
    let x = vars.v[0].clone();
    proto_vulcan!([conde { [x == x, []], |t, y| { [x, 1, x] != t }, P3(_, 1, 3) == x }])
}
pub fn case_566(vars: &Vars) -> InferredGoal<DU, DE, Goal<DU, DE>> {
    let x = vars.v[0].clone();
    proto_vulcan!([conde { [x == x, []], |t, fresh_name_9| { [x, 1, x] != t }, P3(_, 1, 3) == x }])
}
pub fn case_567(vars: &Vars) -> InferredGoal<DU, DE, Goal<DU, DE>> {
    let q = vars.v[0].clone();
    let x = vars.v[1].clone();
    proto_vulcan!([[|tz| { [2 | tz] != [2, 2, 3], tz == [2, 3] }], conde { [], [[false, q == 1]] }])
}
pub fn case_568(vars: &Vars) -> InferredGoal<DU, DE, Goal<DU, DE>> {
    let q = vars.v[0].clone();
    let x = vars.v[1].clone();
    proto_vulcan!([[|fresh_name_9| { [2 | fresh_name_9] != [2, 2, 3], fresh_name_9 == [2, 3] }], conde { [], [[false, q == 1]] }])
}
pub fn case_569(vars: &Vars) -> InferredGoal<DU, DE, Goal<DU, DE>> {
    let q = vars.v[0].clone();
    let x = vars.v[1].clone();
    proto_vulcan!([|x| { |z, y| { q == ['a', x], [] == x, |x, t| { |tz| { tz == [3, 3], [2, 3, 3, 3] != [2, 3 | tz] }, member(t, [2, 1]), z == ([], []) } }, [[], x | 2] == q, true }, |tz| { tz == [3], [2, 3] != [2 | tz] }])
}
pub fn case_570(vars: &Vars) -> InferredGoal<DU, DE, Goal<DU, DE>> {
    let q = vars.v[0].clone();
    let x = vars.v[1].clone();
    proto_vulcan!([|fresh_name_9| { |z, y| { q == ['a', fresh_name_9], [] == fresh_name_9, |x, t| { |tz| { tz == [3, 3], [2, 3, 3, 3] != [2, 3 | tz] }, member(t, [2, 1]), z == ([], []) } }, [[], fresh_name_9 | 2] == q, true }, |tz| { tz == [3], [2, 3] != [2 | tz] }])
}
pub fn case_571(vars: &Vars) -> InferredGoal<DU, DE, Goal<DU, DE>> {
    let x = vars.v[0].clone();
    proto_vulcan!([[x, _] == x, |t, h| { |t, z| { |z| { append(x, z, [1, 3]) }, |z| { t == [1, true, 2], z != z, |tz| { [3, 3, 1] != [3 | tz], tz == [3, 1] } }, [t] != x }, matche t { _ => , _ => { member(t, [1, 2, 3]) }, [_, [_ | t], [t]] => [3 == h, |h| { t == [false, x] }], } }, ["a", _ | x] != x])
}
pub fn case_572(vars: &Vars) -> InferredGoal<DU, DE, Goal<DU, DE>> {
    let x = vars.v[0].clone();
    proto_vulcan!([[x, _] == x, |fresh_name_9, h| { |t, z| { |z| { append(x, z, [1, 3]) }, |z| { t == [1, true, 2], z != z, |tz| { [3, 3, 1] != [3 | tz], tz == [3, 1] } }, [t] != x }, matche fresh_name_9 { _ => , _ => { member(fresh_name_9, [1, 2, 3]) }, [_, [_ | t], [t]] => [3 == h, |h| { t == [false, x] }], } }, ["a", _ | x] != x])
}
pub fn case_573(vars: &Vars) -> InferredGoal<DU, DE, Goal<DU, DE>> {
    let x = vars.v[0].clone();
    let y = vars.v[1].clone();
    proto_vulcan!([y == _, conde { [], x == [[y], [1] | y], [[false], match x { Named { a: [z], b: 2 } => |y, h| { ([], [h, 2]) == y, member(x, []) }, }] }, { let c__: InferredGoal<DU, DE, Goal<DU, DE>> = proto_vulcan_closure!([|yy| { conde { [y == [yy | _], yy == 1], [y == [_, yy | _], yy == 2] } }, conde { y == [1, _ | y], append(x, x, [1]) }]); let g__: Goal<DU, DE> = ::proto_vulcan::GoalCast::cast_into(c__); let r__: InferredGoal<DU, DE, Goal<DU, DE>> = proto_vulcan!([g__.clone(), g__]); r__ }])
}
pub fn case_574(vars: &Vars) -> InferredGoal<DU, DE, Goal<DU, DE>> {
    let x = vars.v[0].clone();
    let y = vars.v[1].clone();
    proto_vulcan!([y == _, conde { [], x == [[y], [1] | y], [[false], match x { Named { a: [fresh_name_9], b: 2 } => |y, h| { ([], [h, 2]) == y, member(x, []) }, }] }, { let c__: InferredGoal<DU, DE, Goal<DU, DE>> = proto_vulcan_closure!([|yy| { conde { [y == [yy | _], yy == 1], [y == [_, yy | _], yy == 2] } }, conde { y == [1, _ | y], append(x, x, [1]) }]); let g__: Goal<DU, DE> = ::proto_vulcan::GoalCast::cast_into(c__); let r__: InferredGoal<DU, DE, Goal<DU, DE>> = proto_vulcan!([g__.clone(), g__]); r__ }])
}
pub fn case_575(vars: &Vars) -> InferredGoal<DU, DE, Goal<DU, DE>> {
    let x = vars.v[0].clone();
    proto_vulcan!([x != [2], [], closure { |x, h| { |z| { 3 == h, h == [2], x != (_, 2) }, P3(2, [3, 1], []) == h, x != [_ | x] } }])
}
pub fn case_576(vars: &Vars) -> InferredGoal<DU, DE, Goal<DU, DE>> {
    let x = vars.v[0].clone();
    proto_vulcan!([x != [2], [], closure { |x, fresh_name_9| { |z| { 3 == fresh_name_9, fresh_name_9 == [2], x != (_, 2) }, P3(2, [3, 1], []) == fresh_name_9, x != [_ | x] } }])
}
pub fn case_577(vars: &Vars) -> InferredGoal<DU, DE, Goal<DU, DE>> {
    let q = vars.v[0].clone();
    let x = vars.v[1].clone();
    proto_vulcan!([conde { [x, [x], 1] == [1, [x | x]], q != [q], [[]] }, { let c__: InferredGoal<DU, DE, Goal<DU, DE>> = proto_vulcan_closure!(|yy| { conde { [q == [yy | _], yy == 1], [q == [_, yy | _], yy == 2] } }); let g__: Goal<DU, DE> = ::proto_vulcan::GoalCast::cast_into(c__); let r__: InferredGoal<DU, DE, Goal<DU, DE>> = proto_vulcan!([g__.clone(), g__]); r__ }])
}
pub fn case_578(vars: &Vars) -> InferredGoal<DU, DE, Goal<DU, DE>> {
    let q = vars.v[0].clone();
    let x = vars.v[1].clone();
    proto_vulcan!([conde { [x, [x], 1] == [1, [x | x]], q != [q], [[]] }, { let c__: InferredGoal<DU, DE, Goal<DU, DE>> = proto_vulcan_closure!(|fresh_name_9| { conde { [q == [fresh_name_9 | _], fresh_name_9 == 1], [q == [_, fresh_name_9 | _], fresh_name_9 == 2] } }); let g__: Goal<DU, DE> = ::proto_vulcan::GoalCast::cast_into(c__); let r__: InferredGoal<DU, DE, Goal<DU, DE>> = proto_vulcan!([g__.clone(), g__]); r__ }])
}
pub fn case_579(vars: &Vars) -> InferredGoal<DU, DE, Goal<DU, DE>> {
    let x = vars.v[0].clone();
    let y = vars.v[1].clone();
    proto_vulcan!([false, matche y { [[h], [_ | 2], [t]] | P3(1, _, []) => , [] => , [2, [1, 2, h]] => , }])
}
pub fn case_580(vars: &Vars) -> InferredGoal<DU, DE, Goal<DU, DE>> {
    let x = vars.v[0].clone();
    let y = vars.v[1].clone();
    proto_vulcan!([false, matche y { [[h], [_ | 2], [t]] | P3(1, _, []) => , [] => , [2, [1, 2, fresh_name_9]] => , }])
}
pub fn case_581(vars: &Vars) -> InferredGoal<DU, DE, Goal<DU, DE>> {
    let q = vars.v[0].clone();
    let x = vars.v[1].clone();
    proto_vulcan!([|y| { x == x, [x, 2, q | x] != y, [y != ([[], y], _)] }, |x| { |y| { x != y, match x { _ | [2] => , } }, "bc" == q, conde { [conde { [[x, x] != q, q != x], [], x != [3] }, x == P3([q], 1, x)], [|tz| { tz == [3, 3], [1, 1, 3, 3] != [1, 1 | tz] }, |h, x| { member(q, [3, 2]), x == [[2, x]], 3 == h }] } }, member(x, []), { let c__: InferredGoal<DU, DE, Goal<DU, DE>> = proto_vulcan_closure!([|yy| { conde { [x == [yy | _], yy == 1], [x == [_, yy | _], yy == 2] } }, [[x, 2, 2], [_, _ | x]] == ([], 2)]); let g__: Goal<DU, DE> = ::proto_vulcan::GoalCast::cast_into(c__); let r__: InferredGoal<DU, DE, Goal<DU, DE>> = proto_vulcan!([g__.clone(), g__]); r__ }])
}
pub fn case_582(vars: &Vars) -> InferredGoal<DU, DE, Goal<DU, DE>> {
    let q = vars.v[0].clone();
    let x = vars.v[1].clone();
    proto_vulcan!([|y| { x == x, [x, 2, q | x] != y, [y != ([[], y], _)] }, |x| { |y| { x != y, match x { _ | [2] => , } }, "bc" == q, conde { [conde { [[x, x] != q, q != x], [], x != [3] }, x == P3([q], 1, x)], [|tz| { tz == [3, 3], [1, 1, 3, 3] != [1, 1 | tz] }, |h, fresh_name_9| { member(q, [3, 2]), fresh_name_9 == [[2, fresh_name_9]], 3 == h }] } }, member(x, []), { let c__: InferredGoal<DU, DE, Goal<DU, DE>> = proto_vulcan_closure!([|yy| { conde { [x == [yy | _], yy == 1], [x == [_, yy | _], yy == 2] } }, [[x, 2, 2], [_, _ | x]] == ([], 2)]); let g__: Goal<DU, DE> = ::proto_vulcan::GoalCast::cast_into(c__); let r__: InferredGoal<DU, DE, Goal<DU, DE>> = proto_vulcan!([g__.clone(), g__]); r__ }])
}
pub fn case_583(vars: &Vars) -> InferredGoal<DU, DE, Goal<DU, DE>> {
    let x = vars.v[0].clone();
    proto_vulcan!([|y| { false, matche x { 'b' => , _ => match y { [[y, 3, _], 2] => { 3 == y, member(y, []) }, z => [[2, 1], [y]] != x, }, } }, x == [x | x], (x, x) == x])
}
pub fn case_584(vars: &Vars) -> InferredGoal<DU, DE, Goal<DU, DE>> {
    let x = vars.v[0].clone();
    proto_vulcan!([|y| { false, matche x { 'b' => , _ => match y { [[fresh_name_9, 3, _], 2] => { 3 == fresh_name_9, member(fresh_name_9, []) }, z => [[2, 1], [y]] != x, }, } }, x == [x | x], (x, x) == x])
}
pub fn case_585(vars: &Vars) -> InferredGoal<DU, DE, Goal<DU, DE>> {
    let x = vars.v[0].clone();
    proto_vulcan!([x != [3, x, 'a'], { let c__: InferredGoal<DU, DE, Goal<DU, DE>> = proto_vulcan_closure!(|yy| { conde { [x == [yy | _], yy == 1], [x == [_, yy | _], yy == 2] } }); let g__: Goal<DU, DE> = ::proto_vulcan::GoalCast::cast_into(c__); let r__: InferredGoal<DU, DE, Goal<DU, DE>> = proto_vulcan!([g__.clone(), g__]); r__ }])
}
pub fn case_586(vars: &Vars) -> InferredGoal<DU, DE, Goal<DU, DE>> {
    let x = vars.v[0].clone();
    proto_vulcan!([x != [3, x, 'a'], { let c__: InferredGoal<DU, DE, Goal<DU, DE>> = proto_vulcan_closure!(|fresh_name_9| { conde { [x == [fresh_name_9 | _], fresh_name_9 == 1], [x == [_, fresh_name_9 | _], fresh_name_9 == 2] } }); let g__: Goal<DU, DE> = ::proto_vulcan::GoalCast::cast_into(c__); let r__: InferredGoal<DU, DE, Goal<DU, DE>> = proto_vulcan!([g__.clone(), g__]); r__ }])
}
pub fn case_587(vars: &Vars) -> InferredGoal<DU, DE, Goal<DU, DE>> {
    let x = vars.v[0].clone();
    let y = vars.v[1].clone();
    proto_vulcan!([match y { P3(3, x, y) | _ => , }, [2] == x, { let c__: InferredGoal<DU, DE, Goal<DU, DE>> = proto_vulcan_closure!([|yy| { conde { [x == [yy | _], yy == 1], [x == [_, yy | _], yy == 2] } }, x == [2]]); let g__: Goal<DU, DE> = ::proto_vulcan::GoalCast::cast_into(c__); let r__: InferredGoal<DU, DE, Goal<DU, DE>> = proto_vulcan!([g__.clone(), g__]); r__ }])
}
pub fn case_588(vars: &Vars) -> InferredGoal<DU, DE, Goal<DU, DE>> {
    let x = vars.v[0].clone();
    let y = vars.v[1].clone();
    proto_vulcan!([match y { P3(3, x, y) | _ => , }, [2] == x, { let c__: InferredGoal<DU, DE, Goal<DU, DE>> = proto_vulcan_closure!([|fresh_name_9| { conde { [x == [fresh_name_9 | _], fresh_name_9 == 1], [x == [_, fresh_name_9 | _], fresh_name_9 == 2] } }, x == [2]]); let g__: Goal<DU, DE> = ::proto_vulcan::GoalCast::cast_into(c__); let r__: InferredGoal<DU, DE, Goal<DU, DE>> = proto_vulcan!([g__.clone(), g__]); r__ }])
}
pub fn case_589(vars: &Vars) -> InferredGoal<DU, DE, Goal<DU, DE>> {
    let q = vars.v[0].clone();
    let x = vars.v[1].clone();
    proto_vulcan!([|z| { false, match x { [1 | 1] => , Named { a: y, b: 1 } | [t] => { [[q, 2, _ | z] == [[1, z | q] | q]] }, } }, match x { _ => { member(x, [1, 2, 3]) }, _ => x == ([x], x), y => { x == x, [|tz| { tz == [1, 3], [2, 3, 1, 3] != [2, 3 | tz] }] }, }, x == ([1], 3), closure { |x| { q == [false] } }])
}
pub fn case_590(vars: &Vars) -> InferredGoal<DU, DE, Goal<DU, DE>> {
    let q = vars.v[0].clone();
    let x = vars.v[1].clone();
    proto_vulcan!([|z| { false, match x { [1 | 1] => , Named { a: y, b: 1 } | [t] => { [[q, 2, _ | z] == [[1, z | q] | q]] }, } }, match x { _ => { member(x, [1, 2, 3]) }, _ => x == ([x], x), y => { x == x, [|fresh_name_9| { fresh_name_9 == [1, 3], [2, 3, 1, 3] != [2, 3 | fresh_name_9] }] }, }, x == ([1], 3), closure { |x| { q == [false] } }])
}
pub fn case_591(vars: &Vars) -> InferredGoal<DU, DE, Goal<DU, DE>> {
    let x = vars.v[0].clone();
    let y = vars.v[1].clone();
    proto_vulcan!([x == ["a", _, y], [y == y, [conde { [append(x, x, [2]), x != y] }, x == [2, y, x | y], match [3, x, y] { _ | 1 => { append(x, x, []) }, [h, [2, 2 | h], [2, t]] => { member(x, []) }, [[_ | 1], [2, x], [z, []]] | _ => { P3(y, y, y) == y, true }, }], |z| { |tz| { [3 | tz] != [3, 2], tz == [2] } }], { let c__: InferredGoal<DU, DE, Goal<DU, DE>> = proto_vulcan_closure!([|yy| { conde { [y == [yy | _], yy == 1], [y == [_, yy | _], yy == 2] } }, [[1, []]] != x]); let g__: Goal<DU, DE> = ::proto_vulcan::GoalCast::cast_into(c__); let r__: InferredGoal<DU, DE, Goal<DU, DE>> = proto_vulcan!([g__.clone(), g__]); r__ }])
}
pub fn case_592(vars: &Vars) -> InferredGoal<DU, DE, Goal<DU, DE>> {
    let x = vars.v[0].clone();
    let y = vars.v[1].clone();
    proto_vulcan!([x == ["a", _, y], [y == y, [conde { [append(x, x, [2]), x != y] }, x == [2, y, x | y], match [3, x, y] { _ | 1 => { append(x, x, []) }, [h, [2, 2 | h], [2, t]] => { member(x, []) }, [[_ | 1], [2, x], [z, []]] | _ => { P3(y, y, y) == y, true }, }], |fresh_name_9| { |tz| { [3 | tz] != [3, 2], tz == [2] } }], { let c__: InferredGoal<DU, DE, Goal<DU, DE>> = proto_vulcan_closure!([|yy| { conde { [y == [yy | _], yy == 1], [y == [_, yy | _], yy == 2] } }, [[1, []]] != x]); let g__: Goal<DU, DE> = ::proto_vulcan::GoalCast::cast_into(c__); let r__: InferredGoal<DU, DE, Goal<DU, DE>> = proto_vulcan!([g__.clone(), g__]); r__ }])
}
pub fn case_593(vars: &Vars) -> InferredGoal<DU, DE, Goal<DU, DE>> {
    let x = vars.v[0].clone();
    proto_vulcan!([matche x { t | Named { a: _, b: 3 } => , [z, [y, z, t | z], [z, 1]] => { conde { true }, [member(z, []), |tz| { [2, 2, 2] != [2 | tz], tz == [2, 2] }] }, }, member(x, [2]), |x| { x != (_, [2, 3]) }])
}
pub fn case_594(vars: &Vars) -> InferredGoal<DU, DE, Goal<DU, DE>> {
    let x = vars.v[0].clone();
    proto_vulcan!([matche x { t | Named { a: _, b: 3 } => , [z, [y, z, t | z], [z, 1]] => { conde { true }, [member(z, []), |tz| { [2, 2, 2] != [2 | tz], tz == [2, 2] }] }, }, member(x, [2]), |fresh_name_9| { fresh_name_9 != (_, [2, 3]) }])
}
pub fn case_595(vars: &Vars) -> InferredGoal<DU, DE, Goal<DU, DE>> {
    let x = vars.v[0].clone();
    proto_vulcan!([|h| { [[[]], h] == x, [P3(h, [2, x], [_, 2]) == x] }, member(x, [3, 3]), x == P3(x, x, _)])
}
pub fn case_596(vars: &Vars) -> InferredGoal<DU, DE, Goal<DU, DE>> {
    let x = vars.v[0].clone();
    proto_vulcan!([|fresh_name_9| { [[[]], fresh_name_9] == x, [P3(fresh_name_9, [2, x], [_, 2]) == x] }, member(x, [3, 3]), x == P3(x, x, _)])
}
pub fn case_597(vars: &Vars) -> InferredGoal<DU, DE, Goal<DU, DE>> {
    let x = vars.v[0].clone();
    proto_vulcan!([conde { [[[], _, x] == x, conde { x == x, x == 1 }], [[[[2, 2 | x] != x]], [3, x] == x], [[x] != x, _ != x] }, match x { Named { a: h, b: [] } => , }])
}
pub fn case_598(vars: &Vars) -> InferredGoal<DU, DE, Goal<DU, DE>> {
    let x = vars.v[0].clone();
    proto_vulcan!([conde { [[[], _, x] == x, conde { x == x, x == 1 }], [[[[2, 2 | x] != x]], [3, x] == x], [[x] != x, _ != x] }, match x { Named { a: fresh_name_9, b: [] } => , }])
}
pub fn case_599(vars: &Vars) -> InferredGoal<DU, DE, Goal<DU, DE>> {
    let q = vars.v[0].clone();
    let x = vars.v[1].clone();
    proto_vulcan!([match x { [[_, 1, y], z] => |h, y| { conde { [([1], _) != y, true], [q == ["bc" | z], z == [y | _]], x == y } }, [z, [x, [], z]] => { false }, _ | _ => [[q == P3(_, [1], [_]), P3([], 3, x) == [], [append(q, q, [])]], |x| { |t, h| { member(x, []) }, member(x, [2]), conde { [|tz| { [3, 2, 1] != [3 | tz], tz == [2, 1] }, x == [2, x, q]], [] } }], }, false, conde { [|h, y| { y == ["bc", _, 2] }, |h| {  }], x == [2, 2, 2] }, closure { [[member(x, [1, 1])]] }])
}
pub fn case_600(vars: &Vars) -> InferredGoal<DU, DE, Goal<DU, DE>> {
    let q = vars.v[0].clone();
    let x = vars.v[1].clone();
    proto_vulcan!([match x { [[_, 1, y], z] => |h, y| { conde { [([1], _) != y, true], [q == ["bc" | z], z == [y | _]], x == y } }, [z, [fresh_name_9, [], z]] => { false }, _ | _ => [[q == P3(_, [1], [_]), P3([], 3, x) == [], [append(q, q, [])]], |x| { |t, h| { member(x, []) }, member(x, [2]), conde { [|tz| { [3, 2, 1] != [3 | tz], tz == [2, 1] }, x == [2, x, q]], [] } }], }, false, conde { [|h, y| { y == ["bc", _, 2] }, |h| {  }], x == [2, 2, 2] }, closure { [[member(x, [1, 1])]] }])
}
pub fn case_601(vars: &Vars) -> InferredGoal<DU, DE, Goal<DU, DE>> {
    let q = vars.v[0].clone();
    let x = vars.v[1].clone();
    proto_vulcan!([append(q, q, [1]), q != [1, q | 1], |h| { append(h, h, []), member(q, [2, 2]) }, { let c__: InferredGoal<DU, DE, Goal<DU, DE>> = proto_vulcan_closure!([|yy| { conde { [x == [yy | _], yy == 1], [x == [_, yy | _], yy == 2] } }, conde { [2 | x] != q, [[]] == q, member(x, []) }]); let g__: Goal<DU, DE> = ::proto_vulcan::GoalCast::cast_into(c__); let r__: InferredGoal<DU, DE, Goal<DU, DE>> = proto_vulcan!([g__.clone(), g__]); r__ }])
}
pub fn case_602(vars: &Vars) -> InferredGoal<DU, DE, Goal<DU, DE>> {
    let q = vars.v[0].clone();
    let x = vars.v[1].clone();
    proto_vulcan!([append(q, q, [1]), q != [1, q | 1], |fresh_name_9| { append(fresh_name_9, fresh_name_9, []), member(q, [2, 2]) }, { let c__: InferredGoal<DU, DE, Goal<DU, DE>> = proto_vulcan_closure!([|yy| { conde { [x == [yy | _], yy == 1], [x == [_, yy | _], yy == 2] } }, conde { [2 | x] != q, [[]] == q, member(x, []) }]); let g__: Goal<DU, DE> = ::proto_vulcan::GoalCast::cast_into(c__); let r__: InferredGoal<DU, DE, Goal<DU, DE>> = proto_vulcan!([g__.clone(), g__]); r__ }])
}
pub fn case_603(vars: &Vars) -> InferredGoal<DU, DE, Goal<DU, DE>> {
    let x = vars.v[0].clone();
    let y = vars.v[1].clone();
    proto_vulcan!([match y { ["a"] | [[z, t, y], [2, 1 | [_]], [x]] => , [2] => [[conde { y == [x, [], _] }, [P3(2, x, 3) != y], [true, ([], []) == y]], matche x { [1, [t], [h] | _] => { conde { member(h, [1, 2, 1]), [], member(t, [1, 2]) }, ([], [[], 1]) == t }, }], }])
}
pub fn case_604(vars: &Vars) -> InferredGoal<DU, DE, Goal<DU, DE>> {
    let x = vars.v[0].clone();
    let y = vars.v[1].clone();
    proto_vulcan!([match y { ["a"] | [[z, t, y], [2, 1 | [_]], [x]] => , [2] => [[conde { y == [x, [], _] }, [P3(2, x, 3) != y], [true, ([], []) == y]], matche x { [1, [t], [fresh_name_9] | _] => { conde { member(fresh_name_9, [1, 2, 1]), [], member(t, [1, 2]) }, ([], [[], 1]) == t }, }], }])
}
pub fn case_605(vars: &Vars) -> InferredGoal<DU, DE, Goal<DU, DE>> {
    let x = vars.v[0].clone();
    let y = vars.v[1].clone();
    proto_vulcan!([conde { x == [2, []], [|x, h| { [], matche x { _ => [x == [true, [1, h], ['b', 2, "a" | [1]]], h == [[]]], [x, 2, [_, 1, _] | _] => { x == [x, x, x], P3(1, [h, 3], [h]) != x }, P3(1, 3, []) => , }, append(y, x, [2, 2]) }, [|h, y| { member(h, [2, 2, 2]) }]] }, y != [[y]], match x { [[1] | _] => [3, 2, _ | y] == y, Named { a: t, b: 3 } => [[_ | x], [x, t | t], [] | y] != [y, []], [z, [[], 3 | 2], 1] => , }])
}
pub fn case_606(vars: &Vars) -> InferredGoal<DU, DE, Goal<DU, DE>> {
    let x = vars.v[0].clone();
    let y = vars.v[1].clone();
    proto_vulcan!([conde { x == [2, []], [|x, h| { [], matche x { _ => [x == [true, [1, h], ['b', 2, "a" | [1]]], h == [[]]], [x, 2, [_, 1, _] | _] => { x == [x, x, x], P3(1, [h, 3], [h]) != x }, P3(1, 3, []) => , }, append(y, x, [2, 2]) }, [|fresh_name_9, y| { member(fresh_name_9, [2, 2, 2]) }]] }, y != [[y]], match x { [[1] | _] => [3, 2, _ | y] == y, Named { a: t, b: 3 } => [[_ | x], [x, t | t], [] | y] != [y, []], [z, [[], 3 | 2], 1] => , }])
}
pub fn case_607(vars: &Vars) -> InferredGoal<DU, DE, Goal<DU, DE>> {
    let x = vars.v[0].clone();
    let y = vars.v[1].clone();
    proto_vulcan!([[[y] != y, y == x, matche y { [1] => { conde { (1, [y, y]) == y, [y != x, x == P3([], _, y)] }, |t| { [_, 3 | t] != t, ([_, 2], [_, _]) == (x, 3), t == [3, 2, t] } }, }], (2, x) != y, y != [1, y, y | y]])
}
pub fn case_608(vars: &Vars) -> InferredGoal<DU, DE, Goal<DU, DE>> {
    let x = vars.v[0].clone();
    let y = vars.v[1].clone();
    proto_vulcan!([[[y] != y, y == x, matche y { [1] => { conde { (1, [y, y]) == y, [y != x, x == P3([], _, y)] }, |fresh_name_9| { [_, 3 | fresh_name_9] != fresh_name_9, ([_, 2], [_, _]) == (x, 3), fresh_name_9 == [3, 2, fresh_name_9] } }, }], (2, x) != y, y != [1, y, y | y]])
}
pub fn case_609(vars: &Vars) -> InferredGoal<DU, DE, Goal<DU, DE>> {
    let x = vars.v[0].clone();
    let y = vars.v[1].clone();
    proto_vulcan!([P3([2], [_], 3) == y, |h, z| { conde { [[[] | x] == h, conde { [P3(x, y, z) == h, append(x, x, [3])], [x == [[3, h]], append(x, x, [])], z != _ }], conde { x == [[_ | y]] } }, match y { _ => { [x == [1, [], [] | z], y == [_ | z]] }, _ => [_, [2]] != 'b', [[y], 2, 2 | t] | [x] => [member(z, [2, 2]), [] != h], } }, [y] != x])
}
pub fn case_610(vars: &Vars) -> InferredGoal<DU, DE, Goal<DU, DE>> {
    let x = vars.v[0].clone();
    let y = vars.v[1].clone();
    proto_vulcan!([P3([2], [_], 3) == y, |fresh_name_9, z| { conde { [[[] | x] == fresh_name_9, conde { [P3(x, y, z) == fresh_name_9, append(x, x, [3])], [x == [[3, fresh_name_9]], append(x, x, [])], z != _ }], conde { x == [[_ | y]] } }, match y { _ => { [x == [1, [], [] | z], y == [_ | z]] }, _ => [_, [2]] != 'b', [[y], 2, 2 | t] | [x] => [member(z, [2, 2]), [] != fresh_name_9], } }, [y] != x])
}
pub fn case_611(vars: &Vars) -> InferredGoal<DU, DE, Goal<DU, DE>> {
    let q = vars.v[0].clone();
    let x = vars.v[1].clone();
    proto_vulcan!(["bc" == q, match q { [1 | _] => , y => { |y| { |h| {  }, match [[], y, 1 | [_]] { Named { a: _, b: 2 } => y == [_, q | q], [[] | h] => { y != ['b', 'a', _] }, [[1, t], [2, []], t] => { append(y, y, [2, 3]) }, }, [[3]] == 2 } }, 3 => [match q { _ => [q == 7, q == 8], }, |y| { q == [y] }], }, conde { false, [x | q] == q }, closure { x != ([3], [1]) }])
}
pub fn case_612(vars: &Vars) -> InferredGoal<DU, DE, Goal<DU, DE>> {
    let q = vars.v[0].clone();
    let x = vars.v[1].clone();
    proto_vulcan!(["bc" == q, match q { [1 | _] => , y => { |y| { |h| {  }, match [[], y, 1 | [_]] { Named { a: _, b: 2 } => y == [_, q | q], [[] | h] => { y != ['b', 'a', _] }, [[1, fresh_name_9], [2, []], fresh_name_9] => { append(y, y, [2, 3]) }, }, [[3]] == 2 } }, 3 => [match q { _ => [q == 7, q == 8], }, |y| { q == [y] }], }, conde { false, [x | q] == q }, closure { x != ([3], [1]) }])
}
pub fn case_613(vars: &Vars) -> InferredGoal<DU, DE, Goal<DU, DE>> {
    let x = vars.v[0].clone();
    let y = vars.v[1].clone();
    proto_vulcan!([conde { [], y == y, append(x, x, [1, 3]) }, match y { _ => [[2, _] == x, y == P3(y, [3], _)], }, y == ([_], _), closure { |tz| { tz == [1], [3, 2, 1] != [3, 2 | tz] } }])
}
pub fn case_614(vars: &Vars) -> InferredGoal<DU, DE, Goal<DU, DE>> {
    let x = vars.v[0].clone();
    let y = vars.v[1].clone();
    proto_vulcan!([conde { [], y == y, append(x, x, [1, 3]) }, match y { _ => [[2, _] == x, y == P3(y, [3], _)], }, y == ([_], _), closure { |fresh_name_9| { fresh_name_9 == [1], [3, 2, 1] != [3, 2 | fresh_name_9] } }])
}
pub fn case_615(vars: &Vars) -> InferredGoal<DU, DE, Goal<DU, DE>> {
    let q = vars.v[0].clone();
    let x = vars.v[1].clone();
    proto_vulcan!([[match x { _ => [q == 7, q == 8], 2 => { |y, x| { [x | x] == x }, match x { 1 | [2, [x, _, false], [1, z, 1 | [1]] | _] => , x => , 3 | [[_], [h, _, 2]] => , } }, }, matche q { 2 => [[false, false], q != [2]], }, q != (1, x)]])
}
pub fn case_616(vars: &Vars) -> InferredGoal<DU, DE, Goal<DU, DE>> {
    let q = vars.v[0].clone();
    let x = vars.v[1].clone();
    proto_vulcan!([[match x { _ => [q == 7, q == 8], 2 => { |fresh_name_9, x| { [x | x] == x }, match x { 1 | [2, [x, _, false], [1, z, 1 | [1]] | _] => , x => , 3 | [[_], [h, _, 2]] => , } }, }, matche q { 2 => [[false, false], q != [2]], }, q != (1, x)]])
}
pub fn case_617(vars: &Vars) -> InferredGoal<DU, DE, Goal<DU, DE>> {
    let q = vars.v[0].clone();
    let x = vars.v[1].clone();
    proto_vulcan!([match x { _ => member(q, [1, 2, 3]), }, { let c__: InferredGoal<DU, DE, Goal<DU, DE>> = proto_vulcan_closure!(|yy| { conde { [x == [yy | _], yy == 1], [x == [_, yy | _], yy == 2] } }); let g__: Goal<DU, DE> = ::proto_vulcan::GoalCast::cast_into(c__); let r__: InferredGoal<DU, DE, Goal<DU, DE>> = proto_vulcan!([g__.clone(), g__]); r__ }])
}
pub fn case_618(vars: &Vars) -> InferredGoal<DU, DE, Goal<DU, DE>> {
    let q = vars.v[0].clone();
    let x = vars.v[1].clone();
    proto_vulcan!([match x { _ => member(q, [1, 2, 3]), }, { let c__: InferredGoal<DU, DE, Goal<DU, DE>> = proto_vulcan_closure!(|fresh_name_9| { conde { [x == [fresh_name_9 | _], fresh_name_9 == 1], [x == [_, fresh_name_9 | _], fresh_name_9 == 2] } }); let g__: Goal<DU, DE> = ::proto_vulcan::GoalCast::cast_into(c__); let r__: InferredGoal<DU, DE, Goal<DU, DE>> = proto_vulcan!([g__.clone(), g__]); r__ }])
}
pub fn case_619(vars: &Vars) -> InferredGoal<DU, DE, Goal<DU, DE>> {
    let x = vars.v[0].clone();
    let y = vars.v[1].clone();
    proto_vulcan!([conde { [y == [3], y == P3(1, 1, _)], [|tz| { [2 | tz] != [2, 2, 3], tz == [2, 3] }, matche y { _ => [[P3(2, _, y) == 3, append(x, x, [])], ['a' | y] == [[[], 1 | _]]], Named { a: [], b: 3 } => { [P3(3, 1, 3) == y, P3(2, 2, []) == [[x, x], [[], [] | x], ['a', y]]], ([], [y]) == y }, [["bc"]] => , }] }])
}
pub fn case_620(vars: &Vars) -> InferredGoal<DU, DE, Goal<DU, DE>> {
    let x = vars.v[0].clone();
    let y = vars.v[1].clone();
    proto_vulcan!([conde { [y == [3], y == P3(1, 1, _)], [|fresh_name_9| { [2 | fresh_name_9] != [2, 2, 3], fresh_name_9 == [2, 3] }, matche y { _ => [[P3(2, _, y) == 3, append(x, x, [])], ['a' | y] == [[[], 1 | _]]], Named { a: [], b: 3 } => { [P3(3, 1, 3) == y, P3(2, 2, []) == [[x, x], [[], [] | x], ['a', y]]], ([], [y]) == y }, [["bc"]] => , }] }])
}
pub fn case_621(vars: &Vars) -> InferredGoal<DU, DE, Goal<DU, DE>> {
    let x = vars.v[0].clone();
    proto_vulcan!([|t| { false, match x { [[_, false, 2], [[], h, t]] => , h => , }, |t| {  } }, 3 == x, { let c__: InferredGoal<DU, DE, Goal<DU, DE>> = proto_vulcan_closure!([|yy| { conde { [x == [yy | _], yy == 1], [x == [_, yy | _], yy == 2] } }, conde { |tz| { [1, 2 | tz] != [1, 2, 1, 2], tz == [1, 2] }, [[x, "bc", x | x] == x, [x, []] != x], [_, 2 | x] == x }]); let g__: Goal<DU, DE> = ::proto_vulcan::GoalCast::cast_into(c__); let r__: InferredGoal<DU, DE, Goal<DU, DE>> = proto_vulcan!([g__.clone(), g__]); r__ }])
}
pub fn case_622(vars: &Vars) -> InferredGoal<DU, DE, Goal<DU, DE>> {
    let x = vars.v[0].clone();
    proto_vulcan!([|t| { false, match x { [[_, false, 2], [[], h, fresh_name_9]] => , h => , }, |t| {  } }, 3 == x, { let c__: InferredGoal<DU, DE, Goal<DU, DE>> = proto_vulcan_closure!([|yy| { conde { [x == [yy | _], yy == 1], [x == [_, yy | _], yy == 2] } }, conde { |tz| { [1, 2 | tz] != [1, 2, 1, 2], tz == [1, 2] }, [[x, "bc", x | x] == x, [x, []] != x], [_, 2 | x] == x }]); let g__: Goal<DU, DE> = ::proto_vulcan::GoalCast::cast_into(c__); let r__: InferredGoal<DU, DE, Goal<DU, DE>> = proto_vulcan!([g__.clone(), g__]); r__ }])
}
pub fn case_623(vars: &Vars) -> InferredGoal<DU, DE, Goal<DU, DE>> {
    let q = vars.v[0].clone();
    let x = vars.v[1].clone();
    proto_vulcan!([|z| {  }, true, match q { [t, z, [2 | 2] | _] => { [3, [], [2]] == q }, [] => [2 == q, x != [2, _ | q]], _ => [q == 7, q == 8], }, closure { ['a'] == x }])
}
pub fn case_624(vars: &Vars) -> InferredGoal<DU, DE, Goal<DU, DE>> {
    let q = vars.v[0].clone();
    let x = vars.v[1].clone();
    proto_vulcan!([|z| {  }, true, match q { [t, fresh_name_9, [2 | 2] | _] => { [3, [], [2]] == q }, [] => [2 == q, x != [2, _ | q]], _ => [q == 7, q == 8], }, closure { ['a'] == x }])
}
pub fn case_625(vars: &Vars) -> InferredGoal<DU, DE, Goal<DU, DE>> {
    let x = vars.v[0].clone();
    let y = vars.v[1].clone();
    proto_vulcan!([matche [2 | x] { [3, [1] | x] => { |t, x| { [1] != y, |h| { member(x, [1]), _ == x }, [true] } }, Named { a: z, b: [x, []] } => , P3(y, 1, 3) => { conde { [|z| {  }, append(y, x, [1])], match y { [x] | [x, [y | x], [z, z, h | 3]] => { member(x, [3]), [] == x }, z | _ => { [[]] == P3(1, 2, _) }, } }, [2, 2] != y }, }, |t, h| { _ == x }, y == x])
}
pub fn case_626(vars: &Vars) -> InferredGoal<DU, DE, Goal<DU, DE>> {
    let x = vars.v[0].clone();
    let y = vars.v[1].clone();
    proto_vulcan!([matche [2 | x] { [3, [1] | x] => { |t, x| { [1] != y, |h| { member(x, [1]), _ == x }, [true] } }, Named { a: z, b: [x, []] } => , P3(fresh_name_9, 1, 3) => { conde { [|z| {  }, append(fresh_name_9, x, [1])], match fresh_name_9 { [x] | [x, [y | x], [z, z, h | 3]] => { member(x, [3]), [] == x }, z | _ => { [[]] == P3(1, 2, _) }, } }, [2, 2] != fresh_name_9 }, }, |t, h| { _ == x }, y == x])
}
pub fn case_627(vars: &Vars) -> InferredGoal<DU, DE, Goal<DU, DE>> {
    let x = vars.v[0].clone();
    proto_vulcan!([false, conde { [[match [[], 3 | x] { [[h, z, y | _], [h, y] | t] => , _ => { x == 7, x == 8 }, }, match x { Named { a: [t, h], b: _ } => [1 == h, 2 == x], [h] => , }, ([[], x], [3, x]) == x]] }, closure { [match x { [[2, h, x], [z, h | x]] => , x => , [[2]] => { (3, [3, _]) == (1, _) }, }, x != []] }])
}
pub fn case_628(vars: &Vars) -> InferredGoal<DU, DE, Goal<DU, DE>> {
    let x = vars.v[0].clone();
    proto_vulcan!([false, conde { [[match [[], 3 | x] { [[h, z, y | _], [h, y] | t] => , _ => { x == 7, x == 8 }, }, match x { Named { a: [t, fresh_name_9], b: _ } => [1 == fresh_name_9, 2 == x], [h] => , }, ([[], x], [3, x]) == x]] }, closure { [match x { [[2, h, x], [z, h | x]] => , x => , [[2]] => { (3, [3, _]) == (1, _) }, }, x != []] }])
}
pub fn case_629(vars: &Vars) -> InferredGoal<DU, DE, Goal<DU, DE>> {
    let q = vars.v[0].clone();
    let x = vars.v[1].clone();
    proto_vulcan!([x != q, closure { [matche [] { [[y, 1, 2 | t], _] => { false }, P3(h, _, [[]]) => , [[1, _ | _]] => , }, x == [[3, 3, 2]]] }])
}
pub fn case_630(vars: &Vars) -> InferredGoal<DU, DE, Goal<DU, DE>> {
    let q = vars.v[0].clone();
    let x = vars.v[1].clone();
    proto_vulcan!([x != q, closure { [matche [] { [[y, 1, 2 | t], _] => { false }, P3(fresh_name_9, _, [[]]) => , [[1, _ | _]] => , }, x == [[3, 3, 2]]] }])
}
pub fn case_631(vars: &Vars) -> InferredGoal<DU, DE, Goal<DU, DE>> {
    let q = vars.v[0].clone();
    let x = vars.v[1].clone();
    proto_vulcan!([|h| { q == x, match q { [[t]] => { h == P3(q, [], 3), h != q }, [[t, false], [y] | _] => [false | x] != (_, 1), } }, 3 == q, { let c__: InferredGoal<DU, DE, Goal<DU, DE>> = proto_vulcan_closure!([|yy| { conde { [q == [yy | _], yy == 1], [q == [_, yy | _], yy == 2] } }, P3([1, _], [x, _], 3) == q]); let g__: Goal<DU, DE> = ::proto_vulcan::GoalCast::cast_into(c__); let r__: InferredGoal<DU, DE, Goal<DU, DE>> = proto_vulcan!([g__.clone(), g__]); r__ }])
}
pub fn case_632(vars: &Vars) -> InferredGoal<DU, DE, Goal<DU, DE>> {
    let q = vars.v[0].clone();
    let x = vars.v[1].clone();
    proto_vulcan!([|h| { q == x, match q { [[t]] => { h == P3(q, [], 3), h != q }, [[t, false], [y] | _] => [false | x] != (_, 1), } }, 3 == q, { let c__: InferredGoal<DU, DE, Goal<DU, DE>> = proto_vulcan_closure!([|fresh_name_9| { conde { [q == [fresh_name_9 | _], fresh_name_9 == 1], [q == [_, fresh_name_9 | _], fresh_name_9 == 2] } }, P3([1, _], [x, _], 3) == q]); let g__: Goal<DU, DE> = ::proto_vulcan::GoalCast::cast_into(c__); let r__: InferredGoal<DU, DE, Goal<DU, DE>> = proto_vulcan!([g__.clone(), g__]); r__ }])
}
pub fn case_633(vars: &Vars) -> InferredGoal<DU, DE, Goal<DU, DE>> {
    let x = vars.v[0].clone();
    proto_vulcan!([match x { [["a"] | x] => x != x, [] => , _ => conde { [], |x, y| { x == [[3], [x, x]] }, [x == [[], [3, x, x]], member(x, [])] }, }, conde { [x == false, |y| { |z, y| { P3(_, z, y) == y } }], [], [] }, { let c__: InferredGoal<DU, DE, Goal<DU, DE>> = proto_vulcan_closure!(|yy| { conde { [x == [yy | _], yy == 1], [x == [_, yy | _], yy == 2] } }); let g__: Goal<DU, DE> = ::proto_vulcan::GoalCast::cast_into(c__); let r__: InferredGoal<DU, DE, Goal<DU, DE>> = proto_vulcan!([g__.clone(), g__]); r__ }])
}
pub fn case_634(vars: &Vars) -> InferredGoal<DU, DE, Goal<DU, DE>> {
    let x = vars.v[0].clone();
    proto_vulcan!([match x { [["a"] | x] => x != x, [] => , _ => conde { [], |fresh_name_9, y| { fresh_name_9 == [[3], [fresh_name_9, fresh_name_9]] }, [x == [[], [3, x, x]], member(x, [])] }, }, conde { [x == false, |y| { |z, y| { P3(_, z, y) == y } }], [], [] }, { let c__: InferredGoal<DU, DE, Goal<DU, DE>> = proto_vulcan_closure!(|yy| { conde { [x == [yy | _], yy == 1], [x == [_, yy | _], yy == 2] } }); let g__: Goal<DU, DE> = ::proto_vulcan::GoalCast::cast_into(c__); let r__: InferredGoal<DU, DE, Goal<DU, DE>> = proto_vulcan!([g__.clone(), g__]); r__ }])
}
pub fn case_635(vars: &Vars) -> InferredGoal<DU, DE, Goal<DU, DE>> {
    let x = vars.v[0].clone();
    let y = vars.v[1].clone();
    proto_vulcan!([3 != 3, { let c__: InferredGoal<DU, DE, Goal<DU, DE>> = proto_vulcan_closure!(|yy| { conde { [y == [yy | _], yy == 1], [y == [_, yy | _], yy == 2] } }); let g__: Goal<DU, DE> = ::proto_vulcan::GoalCast::cast_into(c__); let r__: InferredGoal<DU, DE, Goal<DU, DE>> = proto_vulcan!([g__.clone(), g__]); r__ }])
}
pub fn case_636(vars: &Vars) -> InferredGoal<DU, DE, Goal<DU, DE>> {
    let x = vars.v[0].clone();
    let y = vars.v[1].clone();
    proto_vulcan!([3 != 3, { let c__: InferredGoal<DU, DE, Goal<DU, DE>> = proto_vulcan_closure!(|fresh_name_9| { conde { [y == [fresh_name_9 | _], fresh_name_9 == 1], [y == [_, fresh_name_9 | _], fresh_name_9 == 2] } }); let g__: Goal<DU, DE> = ::proto_vulcan::GoalCast::cast_into(c__); let r__: InferredGoal<DU, DE, Goal<DU, DE>> = proto_vulcan!([g__.clone(), g__]); r__ }])
}
pub fn case_637(vars: &Vars) -> InferredGoal<DU, DE, Goal<DU, DE>> {
    let x = vars.v[0].clone();
    proto_vulcan!([x == (2, 3), 2 != [2, [x | x]], { let c__: InferredGoal<DU, DE, Goal<DU, DE>> = proto_vulcan_closure!([|yy| { conde { [x == [yy | _], yy == 1], [x == [_, yy | _], yy == 2] } }, _ == x]); let g__: Goal<DU, DE> = ::proto_vulcan::GoalCast::cast_into(c__); let r__: InferredGoal<DU, DE, Goal<DU, DE>> = proto_vulcan!([g__.clone(), g__]); r__ }])
}
pub fn case_638(vars: &Vars) -> InferredGoal<DU, DE, Goal<DU, DE>> {
    let x = vars.v[0].clone();
    proto_vulcan!([x == (2, 3), 2 != [2, [x | x]], { let c__: InferredGoal<DU, DE, Goal<DU, DE>> = proto_vulcan_closure!([|fresh_name_9| { conde { [x == [fresh_name_9 | _], fresh_name_9 == 1], [x == [_, fresh_name_9 | _], fresh_name_9 == 2] } }, _ == x]); let g__: Goal<DU, DE> = ::proto_vulcan::GoalCast::cast_into(c__); let r__: InferredGoal<DU, DE, Goal<DU, DE>> = proto_vulcan!([g__.clone(), g__]); r__ }])
}
pub fn case_639(vars: &Vars) -> InferredGoal<DU, DE, Goal<DU, DE>> {
    let q = vars.v[0].clone();
    let x = vars.v[1].clone();
    proto_vulcan!([|x, y| { |h, x| { |tz| { tz == [1], [3 | tz] != [3, 1] }, match 1 { [h, [_] | y] => , 1 => { q == x, P3([3, h], 3, x) == [[_, 2, 2], y, [3, 3, _]] }, }, x != [[2, [], _]] }, [] != x, [_, y, 2] != q }, false])
}
pub fn case_640(vars: &Vars) -> InferredGoal<DU, DE, Goal<DU, DE>> {
    let q = vars.v[0].clone();
    let x = vars.v[1].clone();
    proto_vulcan!([|x, y| { |fresh_name_9, x| { |tz| { tz == [1], [3 | tz] != [3, 1] }, match 1 { [h, [_] | y] => , 1 => { q == x, P3([3, fresh_name_9], 3, x) == [[_, 2, 2], y, [3, 3, _]] }, }, x != [[2, [], _]] }, [] != x, [_, y, 2] != q }, false])
}
pub fn case_641(vars: &Vars) -> InferredGoal<DU, DE, Goal<DU, DE>> {
    let q = vars.v[0].clone();
    let x = vars.v[1].clone();
    proto_vulcan!(['a' == P3([], 3, q), { let c__: InferredGoal<DU, DE, Goal<DU, DE>> = proto_vulcan_closure!(|yy| { conde { [x == [yy | _], yy == 1], [x == [_, yy | _], yy == 2] } }); let g__: Goal<DU, DE> = ::proto_vulcan::GoalCast::cast_into(c__); let r__: InferredGoal<DU, DE, Goal<DU, DE>> = proto_vulcan!([g__.clone(), g__]); r__ }])
}
pub fn case_642(vars: &Vars) -> InferredGoal<DU, DE, Goal<DU, DE>> {
    let q = vars.v[0].clone();
    let x = vars.v[1].clone();
    proto_vulcan!(['a' == P3([], 3, q), { let c__: InferredGoal<DU, DE, Goal<DU, DE>> = proto_vulcan_closure!(|fresh_name_9| { conde { [x == [fresh_name_9 | _], fresh_name_9 == 1], [x == [_, fresh_name_9 | _], fresh_name_9 == 2] } }); let g__: Goal<DU, DE> = ::proto_vulcan::GoalCast::cast_into(c__); let r__: InferredGoal<DU, DE, Goal<DU, DE>> = proto_vulcan!([g__.clone(), g__]); r__ }])
}
pub fn case_643(vars: &Vars) -> InferredGoal<DU, DE, Goal<DU, DE>> {
    let x = vars.v[0].clone();
    proto_vulcan!([matche x { "a" => { matche [] { [['b', 2], _] => [|y| { append(x, y, []) }, conde { ([3], _) == x, [x, x, x] == x, [["a", x, x | [x, 1]] == x, 3 == x] }], _ => member(x, [1, 2, 3]), _ => { |z| { z == 1, true, z != 2 }, conde { member(x, []), ([], [[]]) != x, false } }, }, [matche x { _ => [append(x, x, [2]), x != P3(x, [x], [])], }] }, P3(1, 2, 2) | _ => match x { [1 | 'a'] | _ => matche x { [1, 2 | _] | h => , _ => [x == P3([x, 1], [], []), true], h => { true, [] == h }, }, _ | 3 => , }, Named { a: [], b: _ } => { [x == "a", x == 1, matche x { _ => [] == x, }], append(x, x, []) }, }, { let c__: InferredGoal<DU, DE, Goal<DU, DE>> = proto_vulcan_closure!(|yy| { conde { [x == [yy | _], yy == 1], [x == [_, yy | _], yy == 2] } }); let g__: Goal<DU, DE> = ::proto_vulcan::GoalCast::cast_into(c__); let r__: InferredGoal<DU, DE, Goal<DU, DE>> = proto_vulcan!([g__.clone(), g__]); r__ }])
}
pub fn case_644(vars: &Vars) -> InferredGoal<DU, DE, Goal<DU, DE>> {
    let x = vars.v[0].clone();
    proto_vulcan!([matche x { "a" => { matche [] { [['b', 2], _] => [|y| { append(x, y, []) }, conde { ([3], _) == x, [x, x, x] == x, [["a", x, x | [x, 1]] == x, 3 == x] }], _ => member(x, [1, 2, 3]), _ => { |fresh_name_9| { fresh_name_9 == 1, true, fresh_name_9 != 2 }, conde { member(x, []), ([], [[]]) != x, false } }, }, [matche x { _ => [append(x, x, [2]), x != P3(x, [x], [])], }] }, P3(1, 2, 2) | _ => match x { [1 | 'a'] | _ => matche x { [1, 2 | _] | h => , _ => [x == P3([x, 1], [], []), true], h => { true, [] == h }, }, _ | 3 => , }, Named { a: [], b: _ } => { [x == "a", x == 1, matche x { _ => [] == x, }], append(x, x, []) }, }, { let c__: InferredGoal<DU, DE, Goal<DU, DE>> = proto_vulcan_closure!(|yy| { conde { [x == [yy | _], yy == 1], [x == [_, yy | _], yy == 2] } }); let g__: Goal<DU, DE> = ::proto_vulcan::GoalCast::cast_into(c__); let r__: InferredGoal<DU, DE, Goal<DU, DE>> = proto_vulcan!([g__.clone(), g__]); r__ }])
}
pub fn case_645(vars: &Vars) -> InferredGoal<DU, DE, Goal<DU, DE>> {
    let x = vars.v[0].clone();
    proto_vulcan!([[2, x] == x, |t| { [[x, 3, t | t], [2, x, t]] == x, [2, t, _] == t, x == [t] }, |h| {  }, { let c__: InferredGoal<DU, DE, Goal<DU, DE>> = proto_vulcan_closure!(|yy| { conde { [x == [yy | _], yy == 1], [x == [_, yy | _], yy == 2] } }); let g__: Goal<DU, DE> = ::proto_vulcan::GoalCast::cast_into(c__); let r__: InferredGoal<DU, DE, Goal<DU, DE>> = proto_vulcan!([g__.clone(), g__]); r__ }])
}
pub fn case_646(vars: &Vars) -> InferredGoal<DU, DE, Goal<DU, DE>> {
    let x = vars.v[0].clone();
    proto_vulcan!([[2, x] == x, |fresh_name_9| { [[x, 3, fresh_name_9 | fresh_name_9], [2, x, fresh_name_9]] == x, [2, fresh_name_9, _] == fresh_name_9, x == [fresh_name_9] }, |h| {  }, { let c__: InferredGoal<DU, DE, Goal<DU, DE>> = proto_vulcan_closure!(|yy| { conde { [x == [yy | _], yy == 1], [x == [_, yy | _], yy == 2] } }); let g__: Goal<DU, DE> = ::proto_vulcan::GoalCast::cast_into(c__); let r__: InferredGoal<DU, DE, Goal<DU, DE>> = proto_vulcan!([g__.clone(), g__]); r__ }])
}
pub fn case_647(vars: &Vars) -> InferredGoal<DU, DE, Goal<DU, DE>> {
    let x = vars.v[0].clone();
    proto_vulcan!([|h, y| { [x] == y }, [x, x, _] != [[x | x] | "a"]])
}
pub fn case_648(vars: &Vars) -> InferredGoal<DU, DE, Goal<DU, DE>> {
    let x = vars.v[0].clone();
    proto_vulcan!([|fresh_name_9, y| { [x] == y }, [x, x, _] != [[x | x] | "a"]])
}
pub fn case_649(vars: &Vars) -> InferredGoal<DU, DE, Goal<DU, DE>> {
    let q = vars.v[0].clone();
    let x = vars.v[1].clone();
    proto_vulcan!([[x | x] != q, |h| {  }])
}
pub fn case_650(vars: &Vars) -> InferredGoal<DU, DE, Goal<DU, DE>> {
    let q = vars.v[0].clone();
    let x = vars.v[1].clone();
    proto_vulcan!([[x | x] != q, |fresh_name_9| {  }])
}
pub fn case_651(vars: &Vars) -> InferredGoal<DU, DE, Goal<DU, DE>> {
    let x = vars.v[0].clone();
    let y = vars.v[1].clone();
    proto_vulcan!([|h| { x != [2, [_ | h]], [append(x, y, []), conde { y == [[], h, [] | y] }, h == y] }, P3(y, x, [y, y]) != y, [y | x] == x, { let c__: InferredGoal<DU, DE, Goal<DU, DE>> = proto_vulcan_closure!(|yy| { conde { [y == [yy | _], yy == 1], [y == [_, yy | _], yy == 2] } }); let g__: Goal<DU, DE> = ::proto_vulcan::GoalCast::cast_into(c__); let r__: InferredGoal<DU, DE, Goal<DU, DE>> = proto_vulcan!([g__.clone(), g__]); r__ }])
}
pub fn case_652(vars: &Vars) -> InferredGoal<DU, DE, Goal<DU, DE>> {
    let x = vars.v[0].clone();
    let y = vars.v[1].clone();
    proto_vulcan!([|h| { x != [2, [_ | h]], [append(x, y, []), conde { y == [[], h, [] | y] }, h == y] }, P3(y, x, [y, y]) != y, [y | x] == x, { let c__: InferredGoal<DU, DE, Goal<DU, DE>> = proto_vulcan_closure!(|fresh_name_9| { conde { [y == [fresh_name_9 | _], fresh_name_9 == 1], [y == [_, fresh_name_9 | _], fresh_name_9 == 2] } }); let g__: Goal<DU, DE> = ::proto_vulcan::GoalCast::cast_into(c__); let r__: InferredGoal<DU, DE, Goal<DU, DE>> = proto_vulcan!([g__.clone(), g__]); r__ }])
}
pub fn case_653(vars: &Vars) -> InferredGoal<DU, DE, Goal<DU, DE>> {
    let q = vars.v[0].clone();
    let x = vars.v[1].clone();
    proto_vulcan!([|t, z| { t == P3([x], [t], x) }, x == (_, _)])
}
pub fn case_654(vars: &Vars) -> InferredGoal<DU, DE, Goal<DU, DE>> {
    let q = vars.v[0].clone();
    let x = vars.v[1].clone();
    proto_vulcan!([|fresh_name_9, z| { fresh_name_9 == P3([x], [fresh_name_9], x) }, x == (_, _)])
}
pub fn case_655(vars: &Vars) -> InferredGoal<DU, DE, Goal<DU, DE>> {
    let q = vars.v[0].clone();
    let x = vars.v[1].clone();
    proto_vulcan!([true, { let c__: InferredGoal<DU, DE, Goal<DU, DE>> = proto_vulcan_closure!(|yy| { conde { [x == [yy | _], yy == 1], [x == [_, yy | _], yy == 2] } }); let g__: Goal<DU, DE> = ::proto_vulcan::GoalCast::cast_into(c__); let r__: InferredGoal<DU, DE, Goal<DU, DE>> = proto_vulcan!([g__.clone(), g__]); r__ }])
}
pub fn case_656(vars: &Vars) -> InferredGoal<DU, DE, Goal<DU, DE>> {
    let q = vars.v[0].clone();
    let x = vars.v[1].clone();
    proto_vulcan!([true, { let c__: InferredGoal<DU, DE, Goal<DU, DE>> = proto_vulcan_closure!(|fresh_name_9| { conde { [x == [fresh_name_9 | _], fresh_name_9 == 1], [x == [_, fresh_name_9 | _], fresh_name_9 == 2] } }); let g__: Goal<DU, DE> = ::proto_vulcan::GoalCast::cast_into(c__); let r__: InferredGoal<DU, DE, Goal<DU, DE>> = proto_vulcan!([g__.clone(), g__]); r__ }])
}
pub fn case_657(vars: &Vars) -> InferredGoal<DU, DE, Goal<DU, DE>> {
    let q = vars.v[0].clone();
    let x = vars.v[1].clone();
    proto_vulcan!([[[match q { _ => [|tz| { [1, 3 | tz] != [1, 3, 2, 3], tz == [2, 3] }, [q] == [q]], }], P3([], [2, 3], q) == q]])
}
pub fn case_658(vars: &Vars) -> InferredGoal<DU, DE, Goal<DU, DE>> {
    let q = vars.v[0].clone();
    let x = vars.v[1].clone();
    proto_vulcan!([[[match q { _ => [|fresh_name_9| { [1, 3 | fresh_name_9] != [1, 3, 2, 3], fresh_name_9 == [2, 3] }, [q] == [q]], }], P3([], [2, 3], q) == q]])
}
pub fn case_659(vars: &Vars) -> InferredGoal<DU, DE, Goal<DU, DE>> {
    let x = vars.v[0].clone();
    proto_vulcan!([|t| { |t| { |x| {  } }, t == [3, 'b', 1 | t], match x { _ => { t == 7, t == 8 }, ["a", [h | t]] | [_, [1, h, 'b'] | y] => { x == h }, [1, t | y] => { conde { x == [[2, x], ['a', _], y] }, [] }, } }, ["bc", 2] == x])
}
pub fn case_660(vars: &Vars) -> InferredGoal<DU, DE, Goal<DU, DE>> {
    let x = vars.v[0].clone();
    proto_vulcan!([|t| { |t| { |fresh_name_9| {  } }, t == [3, 'b', 1 | t], match x { _ => { t == 7, t == 8 }, ["a", [h | t]] | [_, [1, h, 'b'] | y] => { x == h }, [1, t | y] => { conde { x == [[2, x], ['a', _], y] }, [] }, } }, ["bc", 2] == x])
}
pub fn case_661(vars: &Vars) -> InferredGoal<DU, DE, Goal<DU, DE>> {
    let x = vars.v[0].clone();
    let y = vars.v[1].clone();
    proto_vulcan!([|x| { conde { [[|tz| { tz == [1], [2, 1, 1] != [2, 1 | tz] }, P3(x, y, x) == x, member(x, [2, 1, 2])], conde { ([[], 3], []) == y }], x == y, conde { y != x, [] } } }, P3(y, _, [x, 1]) == y, conde { |t| { match y { [[y, 3, 'a'], [_, 2, h | t]] => [[x, 1 | x] != x, y != 1], P3(t, [x, 1], 1) => , } }, [|t, h| { h == [2, 3, []], y != [[true]], match x { [y, t] => { [1, 1 | t] == y }, } }, |x| { x == y }] }])
}
pub fn case_662(vars: &Vars) -> InferredGoal<DU, DE, Goal<DU, DE>> {
    let x = vars.v[0].clone();
    let y = vars.v[1].clone();
    proto_vulcan!([|x| { conde { [[|tz| { tz == [1], [2, 1, 1] != [2, 1 | tz] }, P3(x, y, x) == x, member(x, [2, 1, 2])], conde { ([[], 3], []) == y }], x == y, conde { y != x, [] } } }, P3(y, _, [x, 1]) == y, conde { |t| { match y { [[fresh_name_9, 3, 'a'], [_, 2, h | t]] => [[x, 1 | x] != x, fresh_name_9 != 1], P3(t, [x, 1], 1) => , } }, [|t, h| { h == [2, 3, []], y != [[true]], match x { [y, t] => { [1, 1 | t] == y }, } }, |x| { x == y }] }])
}
pub fn case_663(vars: &Vars) -> InferredGoal<DU, DE, Goal<DU, DE>> {
    let x = vars.v[0].clone();
    let y = vars.v[1].clone();
    proto_vulcan!([|y| { [], append(y, x, [1, 1]) }, |y, t| { |y| { [x, 1] != y, y == P3(1, [1, 2], x), x != x } }, { let c__: InferredGoal<DU, DE, Goal<DU, DE>> = proto_vulcan_closure!(|yy| { conde { [y == [yy | _], yy == 1], [y == [_, yy | _], yy == 2] } }); let g__: Goal<DU, DE> = ::proto_vulcan::GoalCast::cast_into(c__); let r__: InferredGoal<DU, DE, Goal<DU, DE>> = proto_vulcan!([g__.clone(), g__]); r__ }])
}
pub fn case_664(vars: &Vars) -> InferredGoal<DU, DE, Goal<DU, DE>> {
    let x = vars.v[0].clone();
    let y = vars.v[1].clone();
    proto_vulcan!([|y| { [], append(y, x, [1, 1]) }, |y, t| { |fresh_name_9| { [x, 1] != fresh_name_9, fresh_name_9 == P3(1, [1, 2], x), x != x } }, { let c__: InferredGoal<DU, DE, Goal<DU, DE>> = proto_vulcan_closure!(|yy| { conde { [y == [yy | _], yy == 1], [y == [_, yy | _], yy == 2] } }); let g__: Goal<DU, DE> = ::proto_vulcan::GoalCast::cast_into(c__); let r__: InferredGoal<DU, DE, Goal<DU, DE>> = proto_vulcan!([g__.clone(), g__]); r__ }])
}
pub fn case_665(vars: &Vars) -> InferredGoal<DU, DE, Goal<DU, DE>> {
    let x = vars.v[0].clone();
    let y = vars.v[1].clone();
    proto_vulcan!([conde { conde { [x == ['a', 3], [[y] == y]], append(x, y, [1, 2]), [append(x, x, [2, 3]), x == y] }, [match y { [h, [z, 1], 2 | []] => { z != [2, [[], y, x], [1, "bc" | z]] }, [[1, _, _] | y] => [true, [1 | []] == y], _ => [x == 7, x == 8], }, match x { [[x, _, h | _], [h, y, y | y], [_, _, 1] | _] => [matche y { [[]] => [P3(3, y, [y]) == [[2]], (1, 2) == h], _ => { x == 7, x == 8 }, x => { y != (y, [3, 3]), h == x }, }, x == y], }], |tz| { tz == [1, 2], [1, 1, 2] != [1 | tz] } }, { let c__: InferredGoal<DU, DE, Goal<DU, DE>> = proto_vulcan_closure!([|yy| { conde { [x == [yy | _], yy == 1], [x == [_, yy | _], yy == 2] } }, conde { member(y, [2]), [_ == y, member(y, [2, 3, 2])] }]); let g__: Goal<DU, DE> = ::proto_vulcan::GoalCast::cast_into(c__); let r__: InferredGoal<DU, DE, Goal<DU, DE>> = proto_vulcan!([g__.clone(), g__]); r__ }])
}
pub fn case_666(vars: &Vars) -> InferredGoal<DU, DE, Goal<DU, DE>> {
    let x = vars.v[0].clone();
    let y = vars.v[1].clone();
    proto_vulcan!([conde { conde { [x == ['a', 3], [[y] == y]], append(x, y, [1, 2]), [append(x, x, [2, 3]), x == y] }, [match y { [h, [z, 1], 2 | []] => { z != [2, [[], y, x], [1, "bc" | z]] }, [[1, _, _] | y] => [true, [1 | []] == y], _ => [x == 7, x == 8], }, match x { [[x, _, h | _], [h, y, y | y], [_, _, 1] | _] => [matche y { [[]] => [P3(3, y, [y]) == [[2]], (1, 2) == h], _ => { x == 7, x == 8 }, x => { y != (y, [3, 3]), h == x }, }, x == y], }], |tz| { tz == [1, 2], [1, 1, 2] != [1 | tz] } }, { let c__: InferredGoal<DU, DE, Goal<DU, DE>> = proto_vulcan_closure!([|fresh_name_9| { conde { [x == [fresh_name_9 | _], fresh_name_9 == 1], [x == [_, fresh_name_9 | _], fresh_name_9 == 2] } }, conde { member(y, [2]), [_ == y, member(y, [2, 3, 2])] }]); let g__: Goal<DU, DE> = ::proto_vulcan::GoalCast::cast_into(c__); let r__: InferredGoal<DU, DE, Goal<DU, DE>> = proto_vulcan!([g__.clone(), g__]); r__ }])
}
pub const NCASES: usize = 667;
pub fn case(i: usize, vars: &Vars) -> Goal<DU, DE> {
    match i {
        0 => case_0(vars).goal,
        1 => case_1(vars).goal,
        2 => case_2(vars).goal,
        3 => case_3(vars).goal,
        4 => case_4(vars).goal,
        5 => case_5(vars).goal,
        6 => case_6(vars).goal,
        7 => case_7(vars).goal,
        8 => case_8(vars).goal,
        9 => case_9(vars).goal,
        10 => case_10(vars).goal,
        11 => case_11(vars).goal,
        12 => case_12(vars).goal,
        13 => case_13(vars).goal,
        14 => case_14(vars).goal,
        15 => case_15(vars).goal,
        16 => case_16(vars).goal,
        17 => case_17(vars).goal,
        18 => case_18(vars).goal,
        19 => case_19(vars).goal,
        20 => case_20(vars).goal,
        21 => case_21(vars).goal,
        22 => case_22(vars).goal,
        23 => case_23(vars).goal,
        24 => case_24(vars).goal,
        25 => case_25(vars).goal,
        26 => case_26(vars).goal,
        27 => case_27(vars).goal,
        28 => case_28(vars).goal,
        29 => case_29(vars).goal,
        30 => case_30(vars).goal,
        31 => case_31(vars).goal,
        32 => case_32(vars).goal,
        33 => case_33(vars).goal,
        34 => case_34(vars).goal,
        35 => case_35(vars).goal,
        36 => case_36(vars).goal,
        37 => case_37(vars).goal,
        38 => case_38(vars).goal,
        39 => case_39(vars).goal,
        40 => case_40(vars).goal,
        41 => case_41(vars).goal,
        42 => case_42(vars).goal,
        43 => case_43(vars).goal,
        44 => case_44(vars).goal,
        45 => case_45(vars).goal,
        46 => case_46(vars).goal,
        47 => case_47(vars).goal,
        48 => case_48(vars).goal,
        49 => case_49(vars).goal,
        50 => case_50(vars).goal,
        51 => case_51(vars).goal,
        52 => case_52(vars).goal,
        53 => case_53(vars).goal,
        54 => case_54(vars).goal,
        55 => case_55(vars).goal,
        56 => case_56(vars).goal,
        57 => case_57(vars).goal,
        58 => case_58(vars).goal,
        59 => case_59(vars).goal,
        60 => case_60(vars).goal,
        61 => case_61(vars).goal,
        62 => case_62(vars).goal,
        63 => case_63(vars).goal,
        64 => case_64(vars).goal,
        65 => case_65(vars).goal,
        66 => case_66(vars).goal,
        67 => case_67(vars).goal,
        68 => case_68(vars).goal,
        69 => case_69(vars).goal,
        70 => case_70(vars).goal,
        71 => case_71(vars).goal,
        72 => case_72(vars).goal,
        73 => case_73(vars).goal,
        74 => case_74(vars).goal,
        75 => case_75(vars).goal,
        76 => case_76(vars).goal,
        77 => case_77(vars).goal,
        78 => case_78(vars).goal,
        79 => case_79(vars).goal,
        80 => case_80(vars).goal,
        81 => case_81(vars).goal,
        82 => case_82(vars).goal,
        83 => case_83(vars).goal,
        84 => case_84(vars).goal,
        85 => case_85(vars).goal,
        86 => case_86(vars).goal,
        87 => case_87(vars).goal,
        88 => case_88(vars).goal,
        89 => case_89(vars).goal,
        90 => case_90(vars).goal,
        91 => case_91(vars).goal,
        92 => case_92(vars).goal,
        93 => case_93(vars).goal,
        94 => case_94(vars).goal,
        95 => case_95(vars).goal,
        96 => case_96(vars).goal,
        97 => case_97(vars).goal,
        98 => case_98(vars).goal,
        99 => case_99(vars).goal,
        100 => case_100(vars).goal,
        101 => case_101(vars).goal,
        102 => case_102(vars).goal,
        103 => case_103(vars).goal,
        104 => case_104(vars).goal,
        105 => case_105(vars).goal,
        106 => case_106(vars).goal,
        107 => case_107(vars).goal,
        108 => case_108(vars).goal,
        109 => case_109(vars).goal,
        110 => case_110(vars).goal,
        111 => case_111(vars).goal,
        112 => case_112(vars).goal,
        113 => case_113(vars).goal,
        114 => case_114(vars).goal,
        115 => case_115(vars).goal,
        116 => case_116(vars).goal,
        117 => case_117(vars).goal,
        118 => case_118(vars).goal,
        119 => case_119(vars).goal,
        120 => case_120(vars).goal,
        121 => case_121(vars).goal,
        122 => case_122(vars).goal,
        123 => case_123(vars).goal,
        124 => case_124(vars).goal,
        125 => case_125(vars).goal,
        126 => case_126(vars).goal,
        127 => case_127(vars).goal,
        128 => case_128(vars).goal,
        129 => case_129(vars).goal,
        130 => case_130(vars).goal,
        131 => case_131(vars).goal,
        132 => case_132(vars).goal,
        133 => case_133(vars).goal,
        134 => case_134(vars).goal,
        135 => case_135(vars).goal,
        136 => case_136(vars).goal,
        137 => case_137(vars).goal,
        138 => case_138(vars).goal,
        139 => case_139(vars).goal,
        140 => case_140(vars).goal,
        141 => case_141(vars).goal,
        142 => case_142(vars).goal,
        143 => case_143(vars).goal,
        144 => case_144(vars).goal,
        145 => case_145(vars).goal,
        146 => case_146(vars).goal,
        147 => case_147(vars).goal,
        148 => case_148(vars).goal,
        149 => case_149(vars).goal,
        150 => case_150(vars).goal,
        151 => case_151(vars).goal,
        152 => case_152(vars).goal,
        153 => case_153(vars).goal,
        154 => case_154(vars).goal,
        155 => case_155(vars).goal,
        156 => case_156(vars).goal,
        157 => case_157(vars).goal,
        158 => case_158(vars).goal,
        159 => case_159(vars).goal,
        160 => case_160(vars).goal,
        161 => case_161(vars).goal,
        162 => case_162(vars).goal,
        163 => case_163(vars).goal,
        164 => case_164(vars).goal,
        165 => case_165(vars).goal,
        166 => case_166(vars).goal,
        167 => case_167(vars).goal,
        168 => case_168(vars).goal,
        169 => case_169(vars).goal,
        170 => case_170(vars).goal,
        171 => case_171(vars).goal,
        172 => case_172(vars).goal,
        173 => case_173(vars).goal,
        174 => case_174(vars).goal,
        175 => case_175(vars).goal,
        176 => case_176(vars).goal,
        177 => case_177(vars).goal,
        178 => case_178(vars).goal,
        179 => case_179(vars).goal,
        180 => case_180(vars).goal,
        181 => case_181(vars).goal,
        182 => case_182(vars).goal,
        183 => case_183(vars).goal,
        184 => case_184(vars).goal,
        185 => case_185(vars).goal,
        186 => case_186(vars).goal,
        187 => case_187(vars).goal,
        188 => case_188(vars).goal,
        189 => case_189(vars).goal,
        190 => case_190(vars).goal,
        191 => case_191(vars).goal,
        192 => case_192(vars).goal,
        193 => case_193(vars).goal,
        194 => case_194(vars).goal,
        195 => case_195(vars).goal,
        196 => case_196(vars).goal,
        197 => case_197(vars).goal,
        198 => case_198(vars).goal,
        199 => case_199(vars).goal,
        200 => case_200(vars).goal,
        201 => case_201(vars).goal,
        202 => case_202(vars).goal,
        203 => case_203(vars).goal,
        204 => case_204(vars).goal,
        205 => case_205(vars).goal,
        206 => case_206(vars).goal,
        207 => case_207(vars).goal,
        208 => case_208(vars).goal,
        209 => case_209(vars).goal,
        210 => case_210(vars).goal,
        211 => case_211(vars).goal,
        212 => case_212(vars).goal,
        213 => case_213(vars).goal,
        214 => case_214(vars).goal,
        215 => case_215(vars).goal,
        216 => case_216(vars).goal,
        217 => case_217(vars).goal,
        218 => case_218(vars).goal,
        219 => case_219(vars).goal,
        220 => case_220(vars).goal,
        221 => case_221(vars).goal,
        222 => case_222(vars).goal,
        223 => case_223(vars).goal,
        224 => case_224(vars).goal,
        225 => case_225(vars).goal,
        226 => case_226(vars).goal,
        227 => case_227(vars).goal,
        228 => case_228(vars).goal,
        229 => case_229(vars).goal,
        230 => case_230(vars).goal,
        231 => case_231(vars).goal,
        232 => case_232(vars).goal,
        233 => case_233(vars).goal,
        234 => case_234(vars).goal,
        235 => case_235(vars).goal,
        236 => case_236(vars).goal,
        237 => case_237(vars).goal,
        238 => case_238(vars).goal,
        239 => case_239(vars).goal,
        240 => case_240(vars).goal,
        241 => case_241(vars).goal,
        242 => case_242(vars).goal,
        243 => case_243(vars).goal,
        244 => case_244(vars).goal,
        245 => case_245(vars).goal,
        246 => case_246(vars).goal,
        247 => case_247(vars).goal,
        248 => case_248(vars).goal,
        249 => case_249(vars).goal,
        250 => case_250(vars).goal,
        251 => case_251(vars).goal,
        252 => case_252(vars).goal,
        253 => case_253(vars).goal,
        254 => case_254(vars).goal,
        255 => case_255(vars).goal,
        256 => case_256(vars).goal,
        257 => case_257(vars).goal,
        258 => case_258(vars).goal,
        259 => case_259(vars).goal,
        260 => case_260(vars).goal,
        261 => case_261(vars).goal,
        262 => case_262(vars).goal,
        263 => case_263(vars).goal,
        264 => case_264(vars).goal,
        265 => case_265(vars).goal,
        266 => case_266(vars).goal,
        267 => case_267(vars).goal,
        268 => case_268(vars).goal,
        269 => case_269(vars).goal,
        270 => case_270(vars).goal,
        271 => case_271(vars).goal,
        272 => case_272(vars).goal,
        273 => case_273(vars).goal,
        274 => case_274(vars).goal,
        275 => case_275(vars).goal,
        276 => case_276(vars).goal,
        277 => case_277(vars).goal,
        278 => case_278(vars).goal,
        279 => case_279(vars).goal,
        280 => case_280(vars).goal,
        281 => case_281(vars).goal,
        282 => case_282(vars).goal,
        283 => case_283(vars).goal,
        284 => case_284(vars).goal,
        285 => case_285(vars).goal,
        286 => case_286(vars).goal,
        287 => case_287(vars).goal,
        288 => case_288(vars).goal,
        289 => case_289(vars).goal,
        290 => case_290(vars).goal,
        291 => case_291(vars).goal,
        292 => case_292(vars).goal,
        293 => case_293(vars).goal,
        294 => case_294(vars).goal,
        295 => case_295(vars).goal,
        296 => case_296(vars).goal,
        297 => case_297(vars).goal,
        298 => case_298(vars).goal,
        299 => case_299(vars).goal,
        300 => case_300(vars).goal,
        301 => case_301(vars).goal,
        302 => case_302(vars).goal,
        303 => case_303(vars).goal,
        304 => case_304(vars).goal,
        305 => case_305(vars).goal,
        306 => case_306(vars).goal,
        307 => case_307(vars).goal,
        308 => case_308(vars).goal,
        309 => case_309(vars).goal,
        310 => case_310(vars).goal,
        311 => case_311(vars).goal,
        312 => case_312(vars).goal,
        313 => case_313(vars).goal,
        314 => case_314(vars).goal,
        315 => case_315(vars).goal,
        316 => case_316(vars).goal,
        317 => case_317(vars).goal,
        318 => case_318(vars).goal,
        319 => case_319(vars).goal,
        320 => case_320(vars).goal,
        321 => case_321(vars).goal,
        322 => case_322(vars).goal,
        323 => case_323(vars).goal,
        324 => case_324(vars).goal,
        325 => case_325(vars).goal,
        326 => case_326(vars).goal,
        327 => case_327(vars).goal,
        328 => case_328(vars).goal,
        329 => case_329(vars).goal,
        330 => case_330(vars).goal,
        331 => case_331(vars).goal,
        332 => case_332(vars).goal,
        333 => case_333(vars).goal,
        334 => case_334(vars).goal,
        335 => case_335(vars).goal,
        336 => case_336(vars).goal,
        337 => case_337(vars).goal,
        338 => case_338(vars).goal,
        339 => case_339(vars).goal,
        340 => case_340(vars).goal,
        341 => case_341(vars).goal,
        342 => case_342(vars).goal,
        343 => case_343(vars).goal,
        344 => case_344(vars).goal,
        345 => case_345(vars).goal,
        346 => case_346(vars).goal,
        347 => case_347(vars).goal,
        348 => case_348(vars).goal,
        349 => case_349(vars).goal,
        350 => case_350(vars).goal,
        351 => case_351(vars).goal,
        352 => case_352(vars).goal,
        353 => case_353(vars).goal,
        354 => case_354(vars).goal,
        355 => case_355(vars).goal,
        356 => case_356(vars).goal,
        357 => case_357(vars).goal,
        358 => case_358(vars).goal,
        359 => case_359(vars).goal,
        360 => case_360(vars).goal,
        361 => case_361(vars).goal,
        362 => case_362(vars).goal,
        363 => case_363(vars).goal,
        364 => case_364(vars).goal,
        365 => case_365(vars).goal,
        366 => case_366(vars).goal,
        367 => case_367(vars).goal,
        368 => case_368(vars).goal,
        369 => case_369(vars).goal,
        370 => case_370(vars).goal,
        371 => case_371(vars).goal,
        372 => case_372(vars).goal,
        373 => case_373(vars).goal,
        374 => case_374(vars).goal,
        375 => case_375(vars).goal,
        376 => case_376(vars).goal,
        377 => case_377(vars).goal,
        378 => case_378(vars).goal,
        379 => case_379(vars).goal,
        380 => case_380(vars).goal,
        381 => case_381(vars).goal,
        382 => case_382(vars).goal,
        383 => case_383(vars).goal,
        384 => case_384(vars).goal,
        385 => case_385(vars).goal,
        386 => case_386(vars).goal,
        387 => case_387(vars).goal,
        388 => case_388(vars).goal,
        389 => case_389(vars).goal,
        390 => case_390(vars).goal,
        391 => case_391(vars).goal,
        392 => case_392(vars).goal,
        393 => case_393(vars).goal,
        394 => case_394(vars).goal,
        395 => case_395(vars).goal,
        396 => case_396(vars).goal,
        397 => case_397(vars).goal,
        398 => case_398(vars).goal,
        399 => case_399(vars).goal,
        400 => case_400(vars).goal,
        401 => case_401(vars).goal,
        402 => case_402(vars).goal,
        403 => case_403(vars).goal,
        404 => case_404(vars).goal,
        405 => case_405(vars).goal,
        406 => case_406(vars).goal,
        407 => case_407(vars).goal,
        408 => case_408(vars).goal,
        409 => case_409(vars).goal,
        410 => case_410(vars).goal,
        411 => case_411(vars).goal,
        412 => case_412(vars).goal,
        413 => case_413(vars).goal,
        414 => case_414(vars).goal,
        415 => case_415(vars).goal,
        416 => case_416(vars).goal,
        417 => case_417(vars).goal,
        418 => case_418(vars).goal,
        419 => case_419(vars).goal,
        420 => case_420(vars).goal,
        421 => case_421(vars).goal,
        422 => case_422(vars).goal,
        423 => case_423(vars).goal,
        424 => case_424(vars).goal,
        425 => case_425(vars).goal,
        426 => case_426(vars).goal,
        427 => case_427(vars).goal,
        428 => case_428(vars).goal,
        429 => case_429(vars).goal,
        430 => case_430(vars).goal,
        431 => case_431(vars).goal,
        432 => case_432(vars).goal,
        433 => case_433(vars).goal,
        434 => case_434(vars).goal,
        435 => case_435(vars).goal,
        436 => case_436(vars).goal,
        437 => case_437(vars).goal,
        438 => case_438(vars).goal,
        439 => case_439(vars).goal,
        440 => case_440(vars).goal,
        441 => case_441(vars).goal,
        442 => case_442(vars).goal,
        443 => case_443(vars).goal,
        444 => case_444(vars).goal,
        445 => case_445(vars).goal,
        446 => case_446(vars).goal,
        447 => case_447(vars).goal,
        448 => case_448(vars).goal,
        449 => case_449(vars).goal,
        450 => case_450(vars).goal,
        451 => case_451(vars).goal,
        452 => case_452(vars).goal,
        453 => case_453(vars).goal,
        454 => case_454(vars).goal,
        455 => case_455(vars).goal,
        456 => case_456(vars).goal,
        457 => case_457(vars).goal,
        458 => case_458(vars).goal,
        459 => case_459(vars).goal,
        460 => case_460(vars).goal,
        461 => case_461(vars).goal,
        462 => case_462(vars).goal,
        463 => case_463(vars).goal,
        464 => case_464(vars).goal,
        465 => case_465(vars).goal,
        466 => case_466(vars).goal,
        467 => case_467(vars).goal,
        468 => case_468(vars).goal,
        469 => case_469(vars).goal,
        470 => case_470(vars).goal,
        471 => case_471(vars).goal,
        472 => case_472(vars).goal,
        473 => case_473(vars).goal,
        474 => case_474(vars).goal,
        475 => case_475(vars).goal,
        476 => case_476(vars).goal,
        477 => case_477(vars).goal,
        478 => case_478(vars).goal,
        479 => case_479(vars).goal,
        480 => case_480(vars).goal,
        481 => case_481(vars).goal,
        482 => case_482(vars).goal,
        483 => case_483(vars).goal,
        484 => case_484(vars).goal,
        485 => case_485(vars).goal,
        486 => case_486(vars).goal,
        487 => case_487(vars).goal,
        488 => case_488(vars).goal,
        489 => case_489(vars).goal,
        490 => case_490(vars).goal,
        491 => case_491(vars).goal,
        492 => case_492(vars).goal,
        493 => case_493(vars).goal,
        494 => case_494(vars).goal,
        495 => case_495(vars).goal,
        496 => case_496(vars).goal,
        497 => case_497(vars).goal,
        498 => case_498(vars).goal,
        499 => case_499(vars).goal,
        500 => case_500(vars).goal,
        501 => case_501(vars).goal,
        502 => case_502(vars).goal,
        503 => case_503(vars).goal,
        504 => case_504(vars).goal,
        505 => case_505(vars).goal,
        506 => case_506(vars).goal,
        507 => case_507(vars).goal,
        508 => case_508(vars).goal,
        509 => case_509(vars).goal,
        510 => case_510(vars).goal,
        511 => case_511(vars).goal,
        512 => case_512(vars).goal,
        513 => case_513(vars).goal,
        514 => case_514(vars).goal,
        515 => case_515(vars).goal,
        516 => case_516(vars).goal,
        517 => case_517(vars).goal,
        518 => case_518(vars).goal,
        519 => case_519(vars).goal,
        520 => case_520(vars).goal,
        521 => case_521(vars).goal,
        522 => case_522(vars).goal,
        523 => case_523(vars).goal,
        524 => case_524(vars).goal,
        525 => case_525(vars).goal,
        526 => case_526(vars).goal,
        527 => case_527(vars).goal,
        528 => case_528(vars).goal,
        529 => case_529(vars).goal,
        530 => case_530(vars).goal,
        531 => case_531(vars).goal,
        532 => case_532(vars).goal,
        533 => case_533(vars).goal,
        534 => case_534(vars).goal,
        535 => case_535(vars).goal,
        536 => case_536(vars).goal,
        537 => case_537(vars).goal,
        538 => case_538(vars).goal,
        539 => case_539(vars).goal,
        540 => case_540(vars).goal,
        541 => case_541(vars).goal,
        542 => case_542(vars).goal,
        543 => case_543(vars).goal,
        544 => case_544(vars).goal,
        545 => case_545(vars).goal,
        546 => case_546(vars).goal,
        547 => case_547(vars).goal,
        548 => case_548(vars).goal,
        549 => case_549(vars).goal,
        550 => case_550(vars).goal,
        551 => case_551(vars).goal,
        552 => case_552(vars).goal,
        553 => case_553(vars).goal,
        554 => case_554(vars).goal,
        555 => case_555(vars).goal,
        556 => case_556(vars).goal,
        557 => case_557(vars).goal,
        558 => case_558(vars).goal,
        559 => case_559(vars).goal,
        560 => case_560(vars).goal,
        561 => case_561(vars).goal,
        562 => case_562(vars).goal,
        563 => case_563(vars).goal,
        564 => case_564(vars).goal,
        565 => case_565(vars).goal,
        566 => case_566(vars).goal,
        567 => case_567(vars).goal,
        568 => case_568(vars).goal,
        569 => case_569(vars).goal,
        570 => case_570(vars).goal,
        571 => case_571(vars).goal,
        572 => case_572(vars).goal,
        573 => case_573(vars).goal,
        574 => case_574(vars).goal,
        575 => case_575(vars).goal,
        576 => case_576(vars).goal,
        577 => case_577(vars).goal,
        578 => case_578(vars).goal,
        579 => case_579(vars).goal,
        580 => case_580(vars).goal,
        581 => case_581(vars).goal,
        582 => case_582(vars).goal,
        583 => case_583(vars).goal,
        584 => case_584(vars).goal,
        585 => case_585(vars).goal,
        586 => case_586(vars).goal,
        587 => case_587(vars).goal,
        588 => case_588(vars).goal,
        589 => case_589(vars).goal,
        590 => case_590(vars).goal,
        591 => case_591(vars).goal,
        592 => case_592(vars).goal,
        593 => case_593(vars).goal,
        594 => case_594(vars).goal,
        595 => case_595(vars).goal,
        596 => case_596(vars).goal,
        597 => case_597(vars).goal,
        598 => case_598(vars).goal,
        599 => case_599(vars).goal,
        600 => case_600(vars).goal,
        601 => case_601(vars).goal,
        602 => case_602(vars).goal,
        603 => case_603(vars).goal,
        604 => case_604(vars).goal,
        605 => case_605(vars).goal,
        606 => case_606(vars).goal,
        607 => case_607(vars).goal,
        608 => case_608(vars).goal,
        609 => case_609(vars).goal,
        610 => case_610(vars).goal,
        611 => case_611(vars).goal,
        612 => case_612(vars).goal,
        613 => case_613(vars).goal,
        614 => case_614(vars).goal,
        615 => case_615(vars).goal,
        616 => case_616(vars).goal,
        617 => case_617(vars).goal,
        618 => case_618(vars).goal,
        619 => case_619(vars).goal,
        620 => case_620(vars).goal,
        621 => case_621(vars).goal,
        622 => case_622(vars).goal,
        623 => case_623(vars).goal,
        624 => case_624(vars).goal,
        625 => case_625(vars).goal,
        626 => case_626(vars).goal,
        627 => case_627(vars).goal,
        628 => case_628(vars).goal,
        629 => case_629(vars).goal,
        630 => case_630(vars).goal,
        631 => case_631(vars).goal,
        632 => case_632(vars).goal,
        633 => case_633(vars).goal,
        634 => case_634(vars).goal,
        635 => case_635(vars).goal,
        636 => case_636(vars).goal,
        637 => case_637(vars).goal,
        638 => case_638(vars).goal,
        639 => case_639(vars).goal,
        640 => case_640(vars).goal,
        641 => case_641(vars).goal,
        642 => case_642(vars).goal,
        643 => case_643(vars).goal,
        644 => case_644(vars).goal,
        645 => case_645(vars).goal,
        646 => case_646(vars).goal,
        647 => case_647(vars).goal,
        648 => case_648(vars).goal,
        649 => case_649(vars).goal,
        650 => case_650(vars).goal,
        651 => case_651(vars).goal,
        652 => case_652(vars).goal,
        653 => case_653(vars).goal,
        654 => case_654(vars).goal,
        655 => case_655(vars).goal,
        656 => case_656(vars).goal,
        657 => case_657(vars).goal,
        658 => case_658(vars).goal,
        659 => case_659(vars).goal,
        660 => case_660(vars).goal,
        661 => case_661(vars).goal,
        662 => case_662(vars).goal,
        663 => case_663(vars).goal,
        664 => case_664(vars).goal,
        665 => case_665(vars).goal,
        666 => case_666(vars).goal,
        _ => unreachable!(),
    }
}
